#!/bin/bash
# usage: tools/verify_seed.sh <seed-id> <property> <patch> <needs-text> <demo-run-regex> <pkg[,pkg]> <src:destdir> [<src:destdir> ...]
# Confirms in a scratch worktree that the patch builds, the existing suite passes, and the demonstration
# fails with the patch and passes without it; then stores it under /verif/seeded/<seed-id>/.
set -u
id="$1"; prop="$2"; patch="$3"; needs="$4"; runre="$5"; pkgs="${6//,/ }"; shift 6
export GOFLAGS=-mod=mod GOPROXY=off GOSUMDB=off GOTOOLCHAIN=local; unset GOWORK
WT=${VS_WT:-/tmp/wt/verify-$id}
L=/tmp/vs_$id
git -C /repo worktree remove --force $WT 2>/dev/null
git -C /repo worktree add -q --detach $WT HEAD || exit 2
cd $WT
demos=()
for pair in "$@"; do src="${pair%%:*}"; dst="${pair##*:}"; cp "$src" "$WT/$dst/" || exit 2; demos+=("$dst/$(basename "$src")"); done
echo "== demonstration WITHOUT the change"
go test -vet=off -count=1 ${VS_TESTFLAGS:-} -run "$runre" $pkgs 2>&1 | tail -4 | tee ${L}_without.log
without_ok=$(grep -c "^ok" ${L}_without.log)
git apply "$patch" || { echo "PATCH DOES NOT APPLY"; exit 2; }
echo "== build WITH the change"; go build ./... 2>&1 | tail -3
echo "== existing suite WITH the change (demo files moved away)"
for d in "${demos[@]}"; do mv "$WT/$d" "$WT/$d.away"; done
go test -vet=off -count=1 ./... 2>&1 | grep -v "^ok\|no test files" | grep -v "TestGorumsStability\|TestGenerateProtoFiles" | tail -8 | tee ${L}_suite.log
for d in "${demos[@]}"; do mv "$WT/$d.away" "$WT/$d"; done
echo "== demonstration WITH the change"
go test -vet=off -count=1 ${VS_TESTFLAGS:-} -run "$runre" $pkgs 2>&1 | tail -6 | tee ${L}_with.log
with_fail=$(grep -c "^FAIL\|^--- FAIL\|panic:" ${L}_with.log)
cd /verif
if [ "$without_ok" -ge 1 ] && [ "$with_fail" -ge 1 ]; then
  mkdir -p /verif/seeded/$id
  cp "$patch" /verif/seeded/$id/patch.diff
  for pair in "$@"; do cp "${pair%%:*}" /verif/seeded/$id/; done
  python3 - "$id" "$prop" "$needs" "$runre" "$pkgs" "$@" <<'PY'
import json, sys, subprocess
id, prop, needs, runre, pkgs = sys.argv[1:6]
pairs = sys.argv[6:]
head = subprocess.check_output(['git','-C','/repo','rev-parse','--short','HEAD']).decode().strip()
meta = {"id": id, "breaks_property": prop, "needs_to_manifest": needs,
        "demonstration": [{"file": p.split(':')[0].split('/')[-1], "place_in": p.split(':')[1]} for p in pairs],
        "confirmed_at_repo_commit": head,
        "what_was_run": ["scratch worktree of /repo at %s" % head,
                         "go test -vet=off -count=1 -run '%s' %s  (without the change: pass)" % (runre, pkgs),
                         "git apply patch.diff; go build ./...; go test -vet=off -count=1 ./... (existing suite, demo files moved away: only the two known protoc failures)",
                         "go test -vet=off -count=1 -run '%s' %s  (with the change: FAIL)" % (runre, pkgs)],
        "detected_by": []}
json.dump(meta, open('/verif/seeded/%s/meta.json' % id, 'w'), indent=1)
PY
  echo "== CONFIRMED and stored in /verif/seeded/$id"
else
  echo "== NOT CONFIRMED (without_ok=$without_ok with_fail=$with_fail)"
fi
git -C /repo worktree remove --force $WT
rm -f ${L}_*.log
