#!/bin/bash
# usage: tools/try_seed.sh <patch.diff> [prop ...]   applies the patch to /repo, runs the checks (all by default), reverts
patch="$1"; shift
cd /repo || exit 2
if ! git diff --quiet; then echo "/repo has uncommitted changes"; exit 2; fi
git apply "$patch" || { echo "patch does not apply"; exit 2; }
cd /verif
props="$@"
[ -z "$props" ] && props=$(./bin/gorumscheck -list | cut -d' ' -f1)
printf "%s\n" $props | xargs -P 6 -I{} sh -c './check.sh {} quick > /tmp/seed_{}.log 2>&1; rc=$?; if [ $rc -ne 0 ]; then echo "{} rc=$rc"; grep -A2 "^VIOLATION\|^UNDECIDED" /tmp/seed_{}.log | cut -c1-400 | head -12; fi' | cat
git -C /repo checkout -- . ; git -C /repo clean -fdq; git -C /repo status --short | head -3
echo "--- done (only failing properties are listed above)"
