#!/usr/bin/env python3
"""Regenerates /verif/MANIFEST.json from the table below (run from /verif)."""
import json, os, sys

HERE = os.path.dirname(os.path.dirname(os.path.abspath(__file__)))

TRUST = ("Trusted base: Go type checker and go/ssa construction (x/tools v0.29.0); the files parsed are the ones the Go build uses; "
         "gRPC stream ordering, Go channel/scheduler semantics, the protobuf library, sort.Sort and text/template are not analysed. ")

# id -> (claimed?, technique, level text, not-decided / note, design ref)
P = {
 "C19": (True, "static analysis: finite decision-table extraction from the AST (strict-weak-order axioms) + SSA shape/provenance rules",
         "Decides, on the current source, that each provided sort key is a strict weak order (exhaustive over the abstract domain of the projections it compares) and that MultiSorter.Less/Swap/Len/Sort have the lexicographic-combinator and permutation shape. A necessary structural condition, not a proof of the sorting behaviour.",
         "Not decided: sort.Sort itself; OrderedBy() with no key; user-defined keys.", "DESIGN.md section 3, C19"),
}
PENDING = "check under construction in this round (design in DESIGN.md section 3); not claimed at this commit"

checks, na = [], []
for i in range(1, 20):
    pid = "C%02d" % i
    ent = P.get(pid)
    if not ent or not ent[0]:
        na.append({"property_id": pid, "reason": (ent[3] if ent else PENDING)})
        continue
    _, tech, text, note, ref = ent
    checks.append({
        "property_id": pid,
        "quick_cmd": "./check.sh %s quick" % pid,
        "thorough_cmd": "./check.sh %s thorough" % pid,
        "evidence_file": "/verif/evidence/%s.json" % pid,
        "replay_cmd_template": "./check.sh --replay {path}",
        "engine": "gorumscheck",
        "level_claimed": {"category": "other", "text": text, "design_ref": ref},
        "level_note": TRUST + note,
        "technique": tech,
    })

m = {
 "version": 1,
 "setup_cmd": "./check.sh --build",
 "hooks": {
   "guard": "verif",
   "enable": "none needed: the checks are static and read /repo's working tree as it is (no instrumentation, no build tag)",
   "baseline_off_cmd": "cd /repo && GOFLAGS=-mod=mod GOPROXY=off GOSUMDB=off GOTOOLCHAIN=local go test -vet=off -count=1 -timeout 25m ./...",
   "source_commits": [],
   "add_only": True,
 },
 "engines": [{
   "name": "gorumscheck", "path": "/verif/checker",
   "serves_properties": [c["property_id"] for c in checks],
   "kind_free_text": "repository-specific static analyser (go/packages + go/types + go/ssa + go/cfg from x/tools v0.29.0): SSA provenance, instruction-level reachability (dominance / must-pass-through), lock-state dataflow, who-may-X over resolved callees, descriptor decoding from committed *.pb.go literals, template parse trees, finite decision tables lifted from the AST",
 }],
 "checks": checks,
 "not_applicable": na,
 "notes": "All claims are level 'other': structural necessary conditions decided from /repo's current source without running it (see DESIGN.md). exit 0 = held (KNOWN-FINDING lines list recorded genuine defects from known_findings.json), exit 1 = VIOLATION, exit 2 = UNDECIDED (anchor missing / checker self-test failure; never reported as a violation). thorough = quick + mutant/benign-edit self-validation of the rules (in-memory overlays, fresh process each).",
}
json.dump(m, open(os.path.join(HERE, "MANIFEST.json"), "w"), indent=1)
print("wrote MANIFEST.json: %d checks, %d not_applicable" % (len(checks), len(na)))
