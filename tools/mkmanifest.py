#!/usr/bin/env python3
"""Regenerates /verif/MANIFEST.json from the table below (run from /verif)."""
import json, os, sys

HERE = os.path.dirname(os.path.dirname(os.path.abspath(__file__)))

TRUST = ("Trusted base: Go type checker and go/ssa construction (x/tools v0.29.0); the files parsed are the ones the Go build uses; "
         "gRPC stream ordering, Go channel/scheduler semantics, the protobuf library, sort.Sort and text/template are not analysed. ")

# id -> (claimed?, technique, level text, not-decided / note, design ref)
P = {
 "C16": (True, "static analysis: AST idiom matching for map ranges, finite decision table lifted from the AST (2^10 option valuations) cross-checked against the documentation's tables, template parse-tree def-use, template/runtime field agreement",
         "Decides map-order independence and absence of ambient inputs on the plugin path, that the accept/reject/emit decision is a total conflict-free function of the option lattice agreeing with doc/method-options.md, that N/A options do not influence emitted code, that templates only reference existing runtime fields/identifiers/functions, that the reserved-name set covers the static code's declarations, and that rejections are fatal. Necessary structural conditions.",
         "Not decided: that the output compiles for every service definition; termination/panic-freedom for every input; protogen internals.", "DESIGN.md section 3, C16"),
 "C17": (True, "static analysis: descriptor decoding from committed byte literals + typed-AST binding rules; expansion of the current template constants by the checker's own template engine with a reference funcMap and token-level comparison with the committed files; AST equality of the static bundle",
         "Decides, against the embedded descriptors, name/type/call-type/reply-discipline/QuorumSpec binding of every committed stub and handler (57 methods), and that each of the 19 committed generated files of the root module equals the expansion of the current templates (comments and formatting aside), that the bundled static code equals the dev sources, the version marker, and - for every input proto - that the templates derive the client's method string and the server's registration name by the same expression. The thorough tier adds the examples module (20th file, 62 methods). Necessary structural conditions; the reference funcMap is cross-checked against the generator's only for option dependencies and helper shapes.",
         "Not decided: run-time equivalence of fresh and committed stubs; services that are not committed; doc comments copied from .proto files.", "DESIGN.md section 3, C17"),
 "C13": (True, "static analysis: enumeration of panicking constructs on the decode path with dominance-checked guards and a reasoned table with machine-checked side conditions; sibling agreement (frame table, direction table) between encoder and decoder",
         "Decides that no unguarded panicking construct exists on gorums' part of the decode path, that gorumsMarshal and gorumsUnmarshal agree on the frame table and AllowPartial, the direction table (request/response types), the error defaults of the codec's type switches, status transport, that a message-carrying reply is delivered only when its method matches the pending call's, and that decoding overwrites (no Merge into a reused target). Necessary structural conditions; value round-trip equality is delegated to protobuf.",
         "Not decided: round-trip equality for every value; panics inside protobuf/gRPC.", "DESIGN.md section 3, C13"),
 "C18": (True, "static analysis: insertion/deletion pairing over the router model, frozen goroutine lifetime table with per-class termination rules, escape check on per-call allocations",
         "Decides that router entries are inserted at one site and removed on every delivery/answer path (re-using the C05/C07/C06/C09 rules), that every go statement of the client runtime is classified per node / per request / per call and satisfies its class's termination rule, and that reply channels and reply maps are not stored into shared state. Necessary structural conditions.",
         "Not decided: measured goroutine counts and memory; per-reconnect context leaks.", "DESIGN.md section 3, C18"),
 "C12": (True, "static analysis: loop-exit and blocking-operation rules per goroutine root, nil-safety dominance on the Close path, lock-shared flag test for connection creation",
         "Decides once-only total Close, that every client-side library goroutine observes the node context in every loop cycle and blocks only in context-observing / derived-stream / transport-bounded operations, that enqueue answers at Close, queue construction (buffered queue not drained: known finding), nil-safety of the Close path, that a stream error fails pending calls, and that no connection is created behind Close's back. Necessary structural conditions.",
         "Not decided: gRPC teardown time.", "DESIGN.md section 3, C12"),
 "C14": (True, "static analysis: CFG dominance + SSA provenance on the configuration constructors; lock-state for AddNode",
         "Decides for every newConfig implementation and option constructor: sorted-by-ID before every success return, de-duplication by a call-local id set, address comparison before a pooled node serves a requested address, no append/sort on operand slices, atomic test-and-insert in AddNode, non-emptiness test before success, shape of And/WithNewNodes/Except/WithoutNodes/WithNodeIDs, purity of the accessors, pooled identity of every node that reaches a result. Necessary structural conditions.",
         "Not decided: hash-collision freedom (impossible); G3 decides that a collision is reported.", "DESIGN.md section 3, C14"),
 "C15": (True, "static analysis: lockset/ownership table over shared library state (guarded-by via lock-state dataflow, atomic-only, write-once-before-publication, no-escape) with goroutine roots from go statements",
         "Decides, for every field of the five structs shared between goroutines (channel, RawNode, RawManager, Correctable, Async: 36 table rows confirmed by reading; fields the table does not know must be a synchronisation primitive, never written after construction, atomic-only, under one common mutex or confined to one library goroutine), that all accesses follow the discipline; that method calls on pointees that are not safe for concurrent use (e.g. *rand.Rand) are serialised; that package-level variables are never modified after initialisation without a package-level lock; closures and goroutines start with no lock. A violation is an unsynchronised pair of accesses that public-API use can overlap, i.e. a data race; a clean result is necessary, not sufficient.",
         "Not decided: races in user code, gRPC, protobuf; memory reachable only through other structs than the five (e.g. the server's handler map, whose register-before-serve contract is documented API).", "DESIGN.md section 3, C15"),
 "C10": (True, "static analysis: CFG path rules on sender/connect/reconnect/NodeStream, provenance of stream contexts and metadata, goroutine-root call paths for the wake-up rule",
         "Decides retry-per-request (isConnected test and connect before a request's fate; connect dials+streams or reconnects), that every stream context derives from the channel's parent context built by newContext with manager and per-node metadata, that the server callback runs once per stream before the receive loop with the stream context, that the reader's back-off wait is woken by whoever else re-establishes the stream, and that the reader is started once. Necessary structural conditions.",
         "Not decided: that redial succeeds; promptness in seconds.", "DESIGN.md section 3, C10"),
 "C03": (True, "static analysis: who-may-X over resolved SSA callees, must-pass-through on entry points, sender and NodeStream",
         "Decides the structural chain behind per-node FIFO: synchronous hand-off into one queue per node on the caller's goroutine for every targeted node before go/return, one producer function, one consumer goroutine started once per node, one stream writer called once per dequeued request, and on the server: release-before-next-receive, one handler start per freshly allocated received message, handler/stub name bijection. Necessary structural conditions.",
         "Not decided: in-order delivery by gRPC and Go channels (trusted); liveness.", "DESIGN.md section 3, C03"),
 "C04": (True, "static analysis: must-pass-through in NodeStream, value-flow of the per-connection mutex, closure rules on generated handlers",
         "Decides the one-handler-at-a-time protocol's structure: lock re-acquired between a handler start and the next receive, the mutex is per connection and only released by Release (exactly once.Do(mut.Unlock), fresh Once per start) or at stream exit, the handler's context is the stream's own, every generated handler defers Release, the stream has a single writer and SendMessage is bounded by the stream context. Necessary structural conditions.",
         "Not decided: observed overlap at run time; handlers that never return.", "DESIGN.md section 3, C04"),
 "C06": (True, "static analysis: SSA provenance per loop iteration (phi edges vs nil-test edges), iteration-shape counting, condition-consistent reachability for the no-send-waiting edge",
         "Decides the per-node argument dataflow (d.Message vs PerNodeArgFn(d.Message, n.id) of this iteration's node, skip exactly on !IsValid, enqueued on that node), at-most-once hand-off/send, that one-way calls wait only for as many send confirmations as they enqueued and for none with no-send-waiting, the confirmation's placement and guard, and one-way handler/stub shape in generated code. Necessary structural conditions.",
         "Not decided: exactly-once delivery when reachable (liveness); message equality at the server (codec).", "DESIGN.md section 3, C06"),
 "C09": (True, "static analysis: lock-state dataflow (may/must held) + interprocedural blocking classifier + goroutine-root call paths; lock-order graph",
         "Decides the absence of the structural ingredients of a permanent wedge: no unbounded blocking operation under a client-side mutex (with machine-checked side conditions for reply sends and stream operations), re-check under the write lock in reconnect, streaming-capable reply channels, deferred router deletion for stream correctables, acyclic lock order, the stream is marked broken only on transport errors and only while streamMut is held or before a reader exists, the per-node goroutines end only when the node is closed. Two genuine defects of the pinned tree are recorded as known findings (W1a stale-flag wedge, W1b/W3 streaming delivery under the router lock). Necessary structural conditions.",
         "Not decided: liveness of a healthy node; gRPC internals; quorum-function latency.", "DESIGN.md section 3, C09"),
 "C08": (True, "static analysis: interprocedural blocking-operation classifier with parameter-binding provenance of the call context; dominance / must-pass-through in sendMsg",
         "Decides that no wait on a call's path ignores the call's context: every blocking operation reachable from the six entry points and the two per-call goroutines is a select with a case on Done() of the call's own context (followed through call-site parameter bindings and request literals), a capacity-bounded reply send or a short mutex hold; the stream write is cancellable (ctx test, watcher goroutine, close(done)); RPCCall returns ctx.Err(); every cycle of a reply loop observes the context. A necessary condition for 'returns promptly', not a bound.",
         "Not decided: the delay itself; gRPC's reaction to cancellation; select fairness.", "DESIGN.md section 3, C08"),
 "C05": (True, "static analysis: who-may-X over SSA, lock-state dataflow (guarded-by, same-critical-section), dominance and capacity side conditions",
         "Decides id uniqueness plumbing (one fresh atomic id per invocation shared by all its messages), register-before-queue in enqueue, that the router map is only touched under its mutex, deliver-then-delete atomicity with the streaming exemption, the id echo on the server side (WrapMessage writes only Status; generated handlers echo in.Metadata), reply-channel capacity >= number of registering enqueues on a channel made by that call, and that every response names the producing node. Necessary structural conditions.",
         "Not decided: transport cross-talk; 64-bit counter wrap; reply content.", "DESIGN.md section 3, C05"),
 "C07": (True, "static analysis: must-pass-through on the sender/receiver/enqueue CFGs, provenance of error values, router deletion rule",
         "Decides that errors never enter the reply set and are recorded once with their node, that a dequeued request is sent or answered with a non-nil error, that a stream read error fails every pending call with an Unavailable error, that handler statuses travel (WrapMessage / receiver), and that an error delivery always removes the router (at most one error per node and call). Necessary structural conditions.",
         "Not decided: the code of errors produced by failed writes (run-time value); liveness.", "DESIGN.md section 3, C07"),
 "C11": (True, "static analysis: SSA provenance, condition-consistent reachability, lock-state dataflow on correctable.go; AST rules on generated accessors",
         "Decides initial state (LevelNotSet), reachability of intermediate publications on the not-done edge, that published values/levels are the quorum function's, monotonicity guard, once-only completion (no set after final set; set refuses a done correctable), lock discipline and watcher release loops, Watch-after-done, and nil-safety of generated typed accessors. Necessary structural conditions.",
         "Not decided: real-time 'at once'; watcher wake-up latency; K9 stream exhaustion relies on C07 E6.", "DESIGN.md section 3, C11"),
 "C01": (True, "static analysis: SSA value provenance + dominance/must-pass-through rules on the reply loops; AST rules on generated wrappers",
         "Decides the data path from 'reply received' to 'value returned': success carries exactly the quorum function's result under its own verdict; the function gets the original request and one only-growing reply map written only with (nid,msg) of the response just received on the no-error edge; one call site, one goroutine, no call after quorum; every response names the node of the producing channel. Necessary structural conditions, not a proof of the behaviour.",
         "Not decided: transport fidelity; that the server's reply answers this call's request beyond the id echo (C05); user quorum functions' values.", "DESIGN.md section 3, C01"),
 "C02": (True, "static analysis: exit classification, must-pass-through and iteration-shape counting on SSA control-flow graphs",
         "Decides the exit structure of the three reply loops (every completion is success / Incomplete-under-exhaustion / ctx.Err()-inside-ctx.Done-case, with consistent accounting), that the exhaustion test is evaluated before every wait including the first, the send-loop counting invariant (#enqueue + #decrement = 1 per iteration), the Async future protocol and QuorumCallError.Is. Necessary structural conditions.",
         "Not decided: wall-clock promptness; scheduler fairness of select.", "DESIGN.md section 3, C02"),
 "C19": (True, "static analysis: finite decision-table extraction from the AST (strict-weak-order axioms) + SSA shape/provenance rules",
         "Decides, on the current source, that each provided sort key is a strict weak order (exhaustive over the abstract domain of the projections it compares) that ID and Port order increasingly by an integer projection (the port number, not its text) and LastNodeError puts nodes without error first, and that MultiSorter.Less/Swap/Len/Sort have the lexicographic-combinator and permutation shape (sort.Sort or sort.Stable on the receiver; no unstable pass per key). A necessary structural condition, not a proof of the sorting behaviour.",
         "Not decided: sort.Sort itself; OrderedBy() with no key; user-defined keys.", "DESIGN.md section 3, C19"),
}
PENDING = "check under construction in this round (design in DESIGN.md section 3); not claimed at this commit"

checks, na = [], []
for i in range(1, 20):
    pid = "C%02d" % i
    ent = P.get(pid)
    if not ent or not ent[0]:
        na.append({"property_id": pid, "reason": (ent[3] if ent else PENDING)})
        continue
    _, tech, text, note, ref = ent
    checks.append({
        "property_id": pid,
        "quick_cmd": "./check.sh %s quick" % pid,
        "thorough_cmd": "./check.sh %s thorough" % pid,
        "evidence_file": "/verif/evidence/%s.json" % pid,
        "replay_cmd_template": "./check.sh --replay {path}",
        "engine": "gorumscheck",
        "level_claimed": {"category": "other", "text": text, "design_ref": ref},
        "level_note": TRUST + note,
        "technique": tech,
    })

m = {
 "version": 1,
 "setup_cmd": "./check.sh --build",
 "hooks": {
   "guard": "verif",
   "enable": "none needed: the checks are static and read /repo's working tree as it is (no instrumentation, no build tag)",
   "baseline_off_cmd": "cd /repo && GOFLAGS=-mod=mod GOPROXY=off GOSUMDB=off GOTOOLCHAIN=local go test -vet=off -count=1 -timeout 25m ./...",
   "source_commits": [],
   "add_only": True,
 },
 "engines": [{
   "name": "gorumscheck", "path": "/verif/checker",
   "serves_properties": [c["property_id"] for c in checks],
   "kind_free_text": "repository-specific static analyser (go/packages + go/types + go/ssa + go/cfg from x/tools v0.29.0): SSA provenance, instruction-level reachability (dominance / must-pass-through), lock-state dataflow, who-may-X over resolved callees, descriptor decoding from committed *.pb.go literals, template parse trees, finite decision tables lifted from the AST",
 }],
 "checks": checks,
 "not_applicable": na,
 "notes": "All claims are level 'other': structural necessary conditions decided from /repo's current source without running it (see DESIGN.md). exit 0 = held (KNOWN-FINDING lines list recorded genuine defects from known_findings.json), exit 1 = VIOLATION, exit 2 = UNDECIDED (anchor missing / checker self-test failure; never reported as a violation). thorough = quick + mutant/benign-edit self-validation of the rules (in-memory overlays, fresh process each).",
}
json.dump(m, open(os.path.join(HERE, "MANIFEST.json"), "w"), indent=1)
print("wrote MANIFEST.json: %d checks, %d not_applicable" % (len(checks), len(na)))
