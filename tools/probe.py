#!/usr/bin/env python3
"""usage: tools/probe.py <file> <old> <new> [<file> <old> <new> ...]
Applies exact-text edits to /repo's working tree (each <old> must occur exactly once), checks that it still
builds, runs all 19 quick checks (no evidence is kept: the evidence directory is restored), prints what fires, and reverts /repo."""
import subprocess, sys, os, re, shutil, tempfile
os.chdir("/verif"); subprocess.call(["./check.sh","--build"], stdout=subprocess.DEVNULL)
env = dict(os.environ, GOFLAGS='-mod=mod', GOPROXY='off', GOSUMDB='off', GOTOOLCHAIN='local'); env.pop('GOWORK', None)
if subprocess.call(['git', '-C', '/repo', 'diff', '--quiet']) != 0:
    print('/repo dirty'); sys.exit(2)
a = sys.argv[1:]
import json
KNOWN = ['rule=%s construct=%s ' % (f['rule'], f['construct']) for f in json.load(open('/verif/known_findings.json')).get('findings', []) if f.get('status') == 'known']
try:
    for i in range(0, len(a), 3):
        f, old, new = a[i:i+3]
        p = os.path.join('/repo', f)
        s = open(p).read()
        if s.count(old) != 1:
            print('anchor occurs %d times in %s' % (s.count(old), f)); raise SystemExit(2)
        open(p, 'w').write(s.replace(old, new))
    b = subprocess.run(['go', 'build', './...'], cwd='/repo', env=env, capture_output=True, text=True)
    if b.returncode != 0:
        print('DOES NOT BUILD:\n' + b.stderr[:1500]); raise SystemExit(2)
    props = [l.split()[0] for l in subprocess.check_output(['./bin/gorumscheck', '-list']).decode().split('\n') if l.strip()]
    procs = {p: subprocess.Popen(['./bin/gorumscheck', '-prop', p, '-tier', 'quick', '-repo', '/repo', '-verif', '/verif', '-no-evidence'],
                                 stdout=subprocess.PIPE, stderr=subprocess.STDOUT, env=dict(env, CGO_ENABLED='0')) for p in props}
    quiet = True
    for p, pr in procs.items():
        out = pr.communicate()[0].decode()
        lines = [l for l in out.split('\n') if l.startswith(('VIOLATED', 'UNDECIDED')) and not any(k in l for k in KNOWN)]
        if pr.returncode != 0 and lines:
            quiet = False
            print('== %s rc=%d' % (p, pr.returncode))
            for l in out.split('\n'):
                if l.startswith(('VIOLATED', 'UNDECIDED')) and not any(k in l for k in KNOWN):
                    shown = True
                    print('   ' + l[:420])
    if quiet:
        print('== all 19 checks silent')
finally:
    subprocess.call(['git', '-C', '/repo', 'checkout', '--', '.'])
