#!/usr/bin/env python3
"""usage: tools/probe2.py <own-prop|-> <file> <old> <new> [<file> <old> <new> ...]
Like probe.py, but /repo is not touched: the exact-text edits (each <old> must occur exactly once; <old> '' appends <new> to the file) are made in a
scratch worktree, turned into a patch and handed to qm2.py -all -v."""
import subprocess, sys, os
a = sys.argv[2:]
wt = '/tmp/qmx/p%d' % os.getpid()
os.makedirs('/tmp/qmx', exist_ok=True)
subprocess.check_call(['git', '-C', '/repo', 'worktree', 'add', '-q', '--detach', wt, 'HEAD'])
try:
    for i in range(0, len(a), 3):
        f, old, new = a[i:i+3]
        p = os.path.join(wt, f)
        s = open(p).read()
        if old == '':
            s += new
        else:
            if s.count(old) != 1:
                print('anchor occurs %d times in %s' % (s.count(old), f)); sys.exit(2)
            s = s.replace(old, new)
        open(p, 'w').write(s)
    patch = wt + '.diff'
    open(patch, 'w').write(subprocess.check_output(['git', '-C', wt, 'diff']).decode())
finally:
    subprocess.call(['git', '-C', '/repo', 'worktree', 'remove', '--force', wt])
own = sys.argv[1] if sys.argv[1] != '-' else 'C01'
subprocess.call(['python3', '/verif/tools/qm2.py', own, patch, '-all', '-v'])
os.remove(patch)
