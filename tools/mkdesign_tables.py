#!/usr/bin/env python3
"""Regenerates the machine-derived appendices of DESIGN.md (between <!-- BEGIN:x --> / <!-- END:x --> markers):
A rule index (from the evidence files), B findings (known_findings.json), C seeded changes (seeded/*/meta.json),
D corpus sizes. Run after `./check.sh all thorough` (or quick) so the evidence is current."""
import json, glob, re, os
os.chdir('/verif')
def rules():
    out = ['| rule | text | obligations (discharged) |', '|---|---|---|']
    for f in sorted(glob.glob('evidence/C*.json')):
        c = json.load(open(f))['coverage']
        per = c.get('per_rule', {})
        for rid, text in sorted(c.get('rules', {}).items()):
            pr = per.get(rid, {})
            n = sum(v for v in pr.values() if isinstance(v, int))
            out.append('| %s | %s | %s (%s) |' % (rid, text.replace('|', '\\|'), n, pr.get('discharged', 0)))
    return '\n'.join(out)
def findings():
    d = json.load(open('known_findings.json'))['findings']
    out = ['| property | rule | construct | status | commit | what |', '|---|---|---|---|---|---|']
    for f in d:
        what = re.sub(r'^fixed: property=\S+ \S+ ', '', f['what'])
        out.append('| %s | %s | `%s` | %s | %s | %s |' % (f['property'], f['rule'], f['construct'], f['status'], f.get('commit', '') or '', what.replace('|', '\\|')))
    return '\n'.join(out)
def seeds():
    out = ['| seed | breaks | what it needs to manifest | detected by (property[rules]) |', '|---|---|---|---|']
    for f in sorted(glob.glob('seeded/*/meta.json')):
        m = json.load(open(f))
        det = '; '.join('%s[%s]' % (x['property'], ','.join(r.split('-', 1)[1] for r in x['rules'])) for x in m.get('detected_by', []))
        out.append('| %s | %s | %s | %s |' % (m['id'], m['breaks_property'], m['needs_to_manifest'].replace('|', '\\|'), det))
    return '\n'.join(out)
def corpus():
    out = ['| property | mutants | benign edits | seeded changes |', '|---|---|---|---|']
    seeds = {}
    for f in glob.glob('seeded/*/meta.json'):
        p = json.load(open(f))['breaks_property']; seeds[p] = seeds.get(p, 0) + 1
    tm = tb = 0
    for f in sorted(glob.glob('checker/testdata/mutants/c*.json')):
        d = json.load(open(f)); p = d[0]['property'] if d else os.path.basename(f)[:3].upper()
        m = sum(1 for x in d if x['kind'] == 'mutant'); b = sum(1 for x in d if x['kind'] == 'benign'); tm += m; tb += b
        out.append('| %s | %d | %d | %d |' % (p, m, b, seeds.get(p, 0)))
    out.append('| total | %d | %d | %d |' % (tm, tb, sum(seeds.values())))
    return '\n'.join(out)
s = open('DESIGN.md').read()
for key, fn in [('rules', rules), ('findings', findings), ('seeds', seeds), ('corpus', corpus)]:
    b, e = '<!-- BEGIN:%s -->' % key, '<!-- END:%s -->' % key
    if b in s and e in s:
        s = s[:s.index(b) + len(b)] + '\n' + fn() + '\n' + s[s.index(e):]
open('DESIGN.md', 'w').write(s)
print('DESIGN.md appendices regenerated')
