#!/usr/bin/env python3
"""usage: tools/fast_matrix.py [-j N] benign|seeds [id-prefix ...]
One process per patch: applies each stored patch (benign/<id> or seeded/<id>) to a scratch worktree of /repo's HEAD and runs
ALL properties in one checker process (-prop all, quick, no evidence; known findings filtered). benign: any VIOLATED/UNDECIDED line is
reported. seeds: reports seeds whose own property has no VIOLATED rule. /repo is not touched; worktrees under /tmp/fmx are removed."""
import json, glob, os, subprocess, sys, re
from concurrent.futures import ThreadPoolExecutor
os.chdir('/verif')
env = dict(os.environ, GOFLAGS='-mod=mod', GOPROXY='off', GOSUMDB='off', GOTOOLCHAIN='local', CGO_ENABLED='0'); env.pop('GOWORK', None)
subprocess.call(['./check.sh', '--build'], stdout=subprocess.DEVNULL)
a = sys.argv[1:]
J = 5
if a[:1] == ['-j']: J = int(a[1]); a = a[2:]
kind, only = a[0], a[1:]
base = 'benign' if kind == 'benign' else 'seeded'
ids = [os.path.basename(os.path.dirname(p)) for p in sorted(glob.glob('/verif/%s/*/patch.diff' % base))]
if only: ids = [i for i in ids if any((i.endswith(o[1:]) if o.startswith('%') else i.startswith(o)) for o in only)]
KNOWN = ['rule=%s construct=%s ' % (f['rule'], f['construct']) for f in json.load(open('/verif/known_findings.json')).get('findings', []) if f.get('status') == 'known']
os.makedirs('/tmp/fmx', exist_ok=True)
def worker(k):
    wt = '/tmp/fmx/p%d_w%d' % (os.getpid(), k)
    subprocess.call(['git', '-C', '/repo', 'worktree', 'remove', '--force', wt], stderr=subprocess.DEVNULL)
    if subprocess.call(['git', '-C', '/repo', 'worktree', 'add', '-q', '--detach', wt, 'HEAD']) != 0: return []
    rows = []
    for i in ids[k::J]:
        subprocess.call(['git', '-C', wt, 'checkout', '-q', '--', '.']); subprocess.call(['git', '-C', wt, 'clean', '-fdq'])
        if subprocess.call(['git', '-C', wt, 'apply', '/verif/%s/%s/patch.diff' % (base, i)]) != 0:
            rows.append('%s: PATCH DOES NOT APPLY' % i); print(rows[-1], flush=True); continue
        out = subprocess.run(['./bin/gorumscheck', '-prop', 'all', '-tier', 'quick', '-repo', wt, '-verif', '/verif', '-no-evidence'], env=env, capture_output=True, text=True).stdout
        lines = [l for l in out.split('\n') if l.startswith(('VIOLATED', 'UNDECIDED')) and not any(x in l for x in KNOWN)]
        fired = sorted(set(re.match(r'(VIOLATED|UNDECIDED) rule=(\S+)', l).group(2) + ('?' if l.startswith('UNDECIDED') else '') for l in lines if re.match(r'(VIOLATED|UNDECIDED) rule=(\S+)', l)))
        if kind == 'benign':
            row = '%s: %s' % (i, 'silent' if not lines else 'NOT SILENT ' + ' '.join(fired))
        else:
            own = json.load(open('/verif/seeded/%s/meta.json' % i))['breaks_property']
            hit = [f for f in fired if f.startswith(own + '-') and not f.endswith('?')]
            row = '%s: %s %s' % (i, 'own-check YES' if hit else 'own-check NO ', ' '.join(fired))
            # record what reports the change (violations only)
            mp = '/verif/seeded/%s/meta.json' % i
            meta = json.load(open(mp))
            det = {}
            for f in fired:
                if not f.endswith('?'):
                    det.setdefault(f.split('-')[0], set()).add(f)
            meta['detected_by'] = [{"property": p, "rules": sorted(r)} for p, r in sorted(det.items())]
            meta['detected_by_own_property_check'] = bool(hit)
            json.dump(meta, open(mp, 'w'), indent=1)
        rows.append(row); print(row, flush=True)
    subprocess.call(['git', '-C', '/repo', 'worktree', 'remove', '--force', wt])
    return rows
with ThreadPoolExecutor(J) as ex:
    res = [r for rs in ex.map(worker, range(J)) for r in rs]
bad = [r for r in res if 'NOT SILENT' in r or 'own-check NO' in r or 'DOES NOT' in r]
print('== %d patches, %d need attention' % (len(res), len(bad)))
for b in bad: print('   ' + b)
