#!/bin/bash
# usage: tools/rebase_patches.sh <old-commit>   re-creates every stored patch (seeded/*, benign/*) that no longer applies to /repo HEAD
# by applying it at <old-commit> in a scratch worktree and rebasing onto HEAD; conflicts are reported for manual resolution.
old="$1"; new=$(git -C /repo rev-parse --short HEAD)
for p in /verif/seeded/*/patch.diff /verif/benign/*/patch.diff; do
  git -C /repo apply --check "$p" 2>/dev/null && continue
  id=$(basename $(dirname $p))
  rm -rf /tmp/wt/rb; git -C /repo worktree prune
  git -C /repo worktree add -q --detach /tmp/wt/rb "$old" || exit 2
  ( cd /tmp/wt/rb && git apply "$p" && git add -A && git -c user.email=a@b -c user.name=x commit -qm seed \
    && if git -c user.email=a@b -c user.name=x rebase -q --onto "$new" "$old" HEAD >/dev/null 2>&1; then git diff "$new" HEAD > /tmp/rb.diff; echo "$id: rebased"; cp /tmp/rb.diff "$p"; else echo "$id: CONFLICT"; git diff --name-only --diff-filter=U; git rebase --abort; fi )
  git -C /repo worktree remove --force /tmp/wt/rb
done
