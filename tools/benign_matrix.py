#!/usr/bin/env python3
"""Runs every behaviour-preserving ("benign") corpus edit against EVERY property's quick check (in-memory overlays,
/repo untouched) and lists any check that does not stay silent. A benign edit written for one property must not
make another property's check raise an alarm either."""
import json, glob, os, subprocess, sys, tempfile, re
from concurrent.futures import ThreadPoolExecutor
os.chdir('/verif')
env = dict(os.environ, GOFLAGS='-mod=mod', GOPROXY='off', GOSUMDB='off', GOTOOLCHAIN='local'); env.pop('GOWORK', None)
props = [p.split()[0] for p in subprocess.check_output(['./bin/gorumscheck', '-list']).decode().split('\n') if p.strip()]
only = sys.argv[1:]
entries = []
for f in sorted(glob.glob('checker/testdata/mutants/*.json')):
    for m in json.load(open(f)):
        if m['kind'] == 'benign' and (not only or m['name'] in only): entries.append(m)
def overlay(m):
    content = {}
    for e in [{'file': m['file'], 'old': m['old'], 'new': m['new']}] + m.get('edits', []):
        p = '/repo/' + e['file']
        cur = content.get(p) or open(p).read()
        if cur.count(e['old']) != 1: return None
        content[p] = cur.replace(e['old'], e['new'], 1)
    return content
base = {}
def run(args):
    m, p, ovf = args
    cmd = ['./bin/gorumscheck', '-prop', p, '-tier', 'quick', '-no-evidence', '-repo', '/repo', '-verif', '/verif']
    if ovf: cmd += ['-overlay', ovf]
    r = subprocess.run(cmd, stdout=subprocess.PIPE, stderr=subprocess.STDOUT, env=env)
    out = r.stdout.decode()
    viol = set(re.findall(r'^VIOLATED rule=(\S+) construct=(.*?) site=', out, re.M))
    und = set(re.findall(r'^UNDECIDED property=\S+ rule=(\S+) construct=(.*?) site=', out, re.M))
    return (m['name'] if m else None, p, r.returncode, viol, und)
with tempfile.TemporaryDirectory() as tmp, ThreadPoolExecutor(8) as ex:
    for r in ex.map(run, [(None, p, None) for p in props]): base[r[1]] = r[3]
    jobs = []
    for i, m in enumerate(entries):
        ov = overlay(m)
        if ov is None: print('STALE', m['name']); continue
        f = os.path.join(tmp, 'ov%d.json' % i); json.dump(ov, open(f, 'w'))
        jobs += [(m, p, f) for p in props if p not in m.get('not_benign_for', [])]
    bad = 0
    for name, p, rc, viol, und in ex.map(run, jobs):
        fresh = viol - base[p]
        if fresh or und or rc not in (0, 1) or (rc == 1 and not fresh and not base[p]):
            bad += 1
            print('%-45s %s rc=%d new=%s undecided=%s' % (name, p, rc, sorted(fresh)[:3], sorted(und)[:3]))
    print('benign edits: %d, property checks run: %d, not silent: %d' % (len(entries), len(jobs), bad))
