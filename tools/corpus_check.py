#!/usr/bin/env python3
"""Checks that every corpus entry's anchor text occurs exactly once in /repo (stale anchors are skipped at run time) and that every stored seeded patch still applies."""
import json, glob, sys
bad = 0
for f in sorted(glob.glob('/verif/checker/testdata/mutants/*.json')):
    for m in json.load(open(f)):
        edits = [{"file": m["file"], "old": m["old"], "new": m["new"]}] + m.get("edits", [])
        content = {}
        for e in edits:
            cur = content.get(e["file"]) or open('/repo/' + e["file"]).read()
            n = cur.count(e["old"])
            if n != 1:
                print("STALE %s: %r occurs %d times in %s" % (m["name"], e["old"][:60], n, e["file"]))
                bad += 1
                break
            content[e["file"]] = cur.replace(e["old"], e["new"], 1)
import subprocess, os
for d in sorted(glob.glob('/verif/seeded/*/patch.diff')):
    if subprocess.call(['git', '-C', '/repo', 'apply', '--check', d], stderr=subprocess.DEVNULL) != 0:
        print("STALE seeded change %s: patch does not apply to /repo" % os.path.basename(os.path.dirname(d))); bad += 1
print("stale entries:", bad)
sys.exit(1 if bad else 0)
