#!/usr/bin/env python3
"""usage: tools/qm.py <own-property> <patch.diff> : applies the patch to /repo, runs all quick checks without evidence, prints one
summary line (which properties/rules fire, which are undecided), restores /repo."""
import subprocess, sys, os, re, json
os.chdir("/verif"); subprocess.call(["./check.sh","--build"], stdout=subprocess.DEVNULL)
env = dict(os.environ, GOFLAGS='-mod=mod', GOPROXY='off', GOSUMDB='off', GOTOOLCHAIN='local', CGO_ENABLED='0'); env.pop('GOWORK', None)
own, patch = sys.argv[1:3]
KNOWN = ['rule=%s construct=%s ' % (f['rule'], f['construct']) for f in json.load(open('/verif/known_findings.json')).get('findings', []) if f.get('status') == 'known']
if subprocess.call(['git', '-C', '/repo', 'diff', '--quiet']) != 0:
    print('/repo dirty'); sys.exit(2)
if subprocess.call(['git', '-C', '/repo', 'apply', patch]) != 0:
    print('PATCH DOES NOT APPLY'); sys.exit(2)
try:
    props = [l.split()[0] for l in subprocess.check_output(['./bin/gorumscheck', '-list']).decode().split('\n') if l.strip()]
    procs = {p: subprocess.Popen(['./bin/gorumscheck', '-prop', p, '-tier', 'quick', '-repo', '/repo', '-verif', '/verif', '-no-evidence'],
                                 stdout=subprocess.PIPE, stderr=subprocess.STDOUT, env=env) for p in props}
    det, und, detail = {}, {}, []
    for p, pr in procs.items():
        out = pr.communicate()[0].decode()
        for l in out.split('\n'):
            if any(k in l for k in KNOWN): continue
            m = re.match(r'(VIOLATED|UNDECIDED) rule=(\S+)', l)
            if m:
                (det if m.group(1) == 'VIOLATED' else und).setdefault(p, set()).add(m.group(2).split('-', 1)[1])
                if p == own or '-v' in sys.argv: detail.append('    ' + l[:330])
            elif l.startswith('UNDECIDED'):
                und.setdefault(p, set()).add('load'); detail.append('    ' + l[:300])
    f = lambda d: ' '.join('%s[%s]' % (p, ','.join(sorted(r))) for p, r in sorted(d.items()))
    lines = ['own-check %s: %s | fired: %s | undecided: %s' % (own, 'YES' if own in det else 'NO ', f(det) or '-', f(und) or '-')] + detail[:8]
finally:
    subprocess.call(['git', '-C', '/repo', 'checkout', '--', '.']); subprocess.call(['git', '-C', '/repo', 'clean', '-fdq'])
try:
    for ln in lines: print(ln)
except BrokenPipeError:
    pass
