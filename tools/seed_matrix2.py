#!/usr/bin/env python3
"""usage: tools/seed_matrix2.py [-j N] [seed-id ...]
Applies every /verif/seeded/<id>/patch.diff in turn to a scratch worktree of /repo's HEAD (N worktrees under /tmp/smx, /repo
itself is not touched), runs every property's quick check on it (no evidence written, known findings filtered), records which
checks report a violation in meta.json (detected_by, detected_by_own_property_check) and prints one line per seed.
The scratch worktrees are removed at the end."""
import json, glob, os, subprocess, sys, re, shutil
from concurrent.futures import ThreadPoolExecutor
os.chdir('/verif')
subprocess.call(['./check.sh', '--build'], stdout=subprocess.DEVNULL)
env = dict(os.environ, GOFLAGS='-mod=mod', GOPROXY='off', GOSUMDB='off', GOTOOLCHAIN='local', CGO_ENABLED='0'); env.pop('GOWORK', None)
args = sys.argv[1:]
J = 3
if args[:1] == ['-j']: J = int(args[1]); args = args[2:]
only = args
KNOWN = ['rule=%s construct=%s ' % (f['rule'], f['construct']) for f in json.load(open('/verif/known_findings.json')).get('findings', []) if f.get('status') == 'known']
props = [l.split()[0] for l in subprocess.check_output(['./bin/gorumscheck', '-list']).decode().split('\n') if l.strip()]
seeds = [os.path.basename(d.rstrip('/')) for d in sorted(glob.glob('/verif/seeded/*/'))]
if only: seeds = [s for s in seeds if s in only]
os.makedirs('/tmp/smx', exist_ok=True)
def worker(k):
    wt = '/tmp/smx/w%d' % k
    subprocess.call(['git', '-C', '/repo', 'worktree', 'remove', '--force', wt], stderr=subprocess.DEVNULL)
    if subprocess.call(['git', '-C', '/repo', 'worktree', 'add', '-q', '--detach', wt, 'HEAD']) != 0: return []
    rows = []
    for sid in seeds[k::J]:
        d = '/verif/seeded/%s/' % sid
        meta = json.load(open(d + 'meta.json'))
        subprocess.call(['git', '-C', wt, 'checkout', '-q', '--', '.']); subprocess.call(['git', '-C', wt, 'clean', '-fdq'])
        if subprocess.call(['git', '-C', wt, 'apply', d + 'patch.diff']) != 0:
            print(sid, 'PATCH DOES NOT APPLY', flush=True); rows.append((sid, 'stale')); continue
        procs = {p: subprocess.Popen(['./bin/gorumscheck', '-prop', p, '-tier', 'quick', '-repo', wt, '-verif', '/verif', '-no-evidence'],
                                     stdout=subprocess.PIPE, stderr=subprocess.STDOUT, env=env) for p in props}
        det, und = {}, []
        for p, pr in procs.items():
            out = pr.communicate()[0].decode()
            for l in out.split('\n'):
                if any(kn in l for kn in KNOWN): continue
                m = re.match(r'(VIOLATED|UNDECIDED) rule=(\S+)', l)
                if m and m.group(1) == 'VIOLATED': det.setdefault(p, set()).add(m.group(2))
                elif l.startswith('UNDECIDED') and p not in und: und.append(p)
        meta['detected_by'] = [{"property": p, "rules": sorted(r)} for p, r in sorted(det.items())]
        meta['undecided_in'] = und
        own = meta['breaks_property'] in det
        meta['detected_by_own_property_check'] = own
        json.dump(meta, open(d + 'meta.json', 'w'), indent=1)
        print('%-8s breaks %-4s own-check: %-3s detected by: %s %s' % (sid, meta['breaks_property'], 'yes' if own else 'NO',
              '; '.join('%s[%s]' % (p, ','.join(x.split('-', 1)[1] for x in sorted(r))) for p, r in sorted(det.items())), ('undecided: %s' % und) if und else ''), flush=True)
        rows.append((sid, 'yes' if own else 'NO'))
    subprocess.call(['git', '-C', '/repo', 'worktree', 'remove', '--force', wt])
    return rows
with ThreadPoolExecutor(J) as ex:
    allrows = [r for rows in ex.map(worker, range(J)) for r in rows]
subprocess.call(['git', '-C', '/repo', 'worktree', 'prune']); shutil.rmtree('/tmp/smx', ignore_errors=True)
print('seeds: %d, reported by own check: %d, not: %s' % (len(allrows), sum(1 for r in allrows if r[1] == 'yes'), [r[0] for r in allrows if r[1] != 'yes']))
