#!/usr/bin/env python3
"""Applies every /verif/seeded/<id>/patch.diff to /repo in turn, runs every property's quick check,
records which checks report a VIOLATION (rule ids) in meta.json, and prints a table. /repo is restored after each."""
import json, glob, os, subprocess, sys, re
os.chdir('/verif')
props = subprocess.check_output(['./bin/gorumscheck', '-list']).decode().split('\n')
props = [p.split()[0] for p in props if p.strip()]
only = sys.argv[1:]
rows = []
for d in sorted(glob.glob('/verif/seeded/*/')):
    sid = os.path.basename(d.rstrip('/'))
    if only and sid not in only: continue
    meta = json.load(open(d + 'meta.json'))
    if subprocess.call(['git', '-C', '/repo', 'diff', '--quiet']) != 0:
        print('/repo dirty'); sys.exit(2)
    if subprocess.call(['git', '-C', '/repo', 'apply', d + 'patch.diff']) != 0:
        print(sid, 'PATCH DOES NOT APPLY to current /repo'); rows.append((sid, meta['breaks_property'], 'patch does not apply', '')); continue
    procs = {p: subprocess.Popen(['./check.sh', p, 'quick'], stdout=subprocess.PIPE, stderr=subprocess.STDOUT) for p in props}
    det = {}
    und = []
    for p, pr in procs.items():
        out = pr.communicate()[0].decode()
        rules = sorted(set(re.findall(r'^  rule=(\S+)', out, re.M))) if pr.returncode == 1 else []
        if pr.returncode == 1: det[p] = rules
        if pr.returncode == 2: und.append(p)
    subprocess.call(['git', '-C', '/repo', 'checkout', '--', '.']); subprocess.call(['git', '-C', '/repo', 'clean', '-fdq'])
    meta['detected_by'] = [{"property": p, "rules": r} for p, r in sorted(det.items())]
    meta['undecided_in'] = und
    own = meta['breaks_property'] in det
    meta['detected_by_own_property_check'] = own
    json.dump(meta, open(d + 'meta.json', 'w'), indent=1)
    rows.append((sid, meta['breaks_property'], 'yes' if own else 'NO', '; '.join('%s[%s]' % (p, ','.join(x.split('-')[1] for x in r)) for p, r in sorted(det.items()))))
    print('%-8s breaks %-4s own-check: %-3s detected by: %s %s' % (rows[-1][0], rows[-1][1], rows[-1][2], rows[-1][3], ('undecided: %s' % und) if und else ''))
