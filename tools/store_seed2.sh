#!/bin/bash
# usage: tools/store_seed2.sh <Sxx dir> <n> <seed-id> <prop> <needs-text>   (round-2 seeds: test placement derived from the package clause)
dir="$1"; n="$2"; id="$3"; prop="$4"; needs="$5"
args=(); re=""; pkgs=""
for t in "$dir/out/$n"/*_test.go; do
  pk=$(grep -m1 '^package ' "$t" | awk '{print $2}')
  case "$pk" in
    gorums|gorums_test) dst=. ;;
    gengorums|gengorums_test) dst=cmd/protoc-gen-gorums/gengorums ;;
    dev|dev_test) dst=cmd/protoc-gen-gorums/dev ;;
    *_test) d=${pk%_test}; dst=$(cd /repo && ls -d tests/$d 2>/dev/null || echo benchmark) ;;
    *) dst=$(cd /repo && ls -d tests/$pk 2>/dev/null || echo .) ;;
  esac
  args+=("$t:$dst")
  names=$(grep -o '^func Test[A-Za-z0-9_]*' "$t" | sed 's/func //' | paste -sd'|')
  re="${re:+$re|}$names"
  case " $pkgs " in *" ./$dst "*) ;; *) pkgs="${pkgs:+$pkgs,}./$dst";; esac
done
pkgs=${pkgs//.\/./.}
tools/verify_seed.sh "$id" "$prop" "$dir/out/$n/patch.diff" "$needs" "^($re)\$" "$pkgs" "${args[@]}"
