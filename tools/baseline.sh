#!/bin/bash
# Runs /repo's test suite the way BASELINE.json does and reports which of the
# 64 stable tests passed. Exit 0 iff all 64 pass.
export GOFLAGS=-mod=mod GOPROXY=off GOSUMDB=off GOTOOLCHAIN=local
unset GOWORK
cd /repo || exit 2
out=$(mktemp)
go test -json -vet=off -count=1 -timeout 25m ./... > "$out" 2>/dev/null
python3 - "$out" <<'PY'
import json, sys
base = json.load(open('/root/.vp/BASELINE.json'))['stable_pass']
res = {}
for ln in open(sys.argv[1]):
    try: e = json.loads(ln)
    except Exception: continue
    if e.get('Test') and e.get('Action') in ('pass', 'fail', 'skip'):
        res[e['Package'] + '::' + e['Test']] = e['Action']
missing = [t for t in base if res.get(t) != 'pass']
print("baseline: %d/%d stable tests pass" % (len(base) - len(missing), len(base)))
for t in missing: print("  NOT PASSING:", t, res.get(t))
sys.exit(1 if missing else 0)
PY
rc=$?
rm -f "$out"
exit $rc
