#!/usr/bin/env python3
"""usage: tools/qm2.py <own-property> <patch.diff> [-all] [-v]
Like qm.py but in a scratch worktree of /repo's HEAD (/tmp/qmx/<pid>; /repo is not touched): applies the patch there, runs the own
property's quick check (with -all: every property's), no evidence, known findings filtered; prints one summary line."""
import subprocess, sys, os, re, json, shutil
os.chdir("/verif")
env = dict(os.environ, GOFLAGS='-mod=mod', GOPROXY='off', GOSUMDB='off', GOTOOLCHAIN='local', CGO_ENABLED='0'); env.pop('GOWORK', None)
own, patch = sys.argv[1:3]
KNOWN = ['rule=%s construct=%s ' % (f['rule'], f['construct']) for f in json.load(open('/verif/known_findings.json')).get('findings', []) if f.get('status') == 'known']
wt = '/tmp/qmx/%d' % os.getpid()
os.makedirs('/tmp/qmx', exist_ok=True)
if subprocess.call(['git', '-C', '/repo', 'worktree', 'add', '-q', '--detach', wt, 'HEAD']) != 0: sys.exit(2)
lines = []
try:
    if subprocess.call(['git', '-C', wt, 'apply', os.path.abspath(patch)]) != 0:
        print('PATCH DOES NOT APPLY'); sys.exit(2)
    b = subprocess.run(['go', 'build', './...'], cwd=wt, env=dict(env, CGO_ENABLED='1'), capture_output=True, text=True)
    if b.returncode != 0:
        print('DOES NOT BUILD: ' + b.stderr[:400]); sys.exit(2)
    props = [own]
    if '-all' in sys.argv:
        props = [l.split()[0] for l in subprocess.check_output(['./bin/gorumscheck', '-list']).decode().split('\n') if l.strip()]
    procs = {p: subprocess.Popen(['./bin/gorumscheck', '-prop', p, '-tier', 'quick', '-repo', wt, '-verif', '/verif', '-no-evidence'],
                                 stdout=subprocess.PIPE, stderr=subprocess.STDOUT, env=env) for p in props}
    det, und, detail = {}, {}, []
    for p, pr in procs.items():
        out = pr.communicate()[0].decode()
        for l in out.split('\n'):
            if any(k in l for k in KNOWN): continue
            m = re.match(r'(VIOLATED|UNDECIDED) rule=(\S+)', l)
            if m:
                (det if m.group(1) == 'VIOLATED' else und).setdefault(p, set()).add(m.group(2).split('-', 1)[1])
                if p == own or '-v' in sys.argv: detail.append('    ' + l[:330])
            elif l.startswith('UNDECIDED'):
                und.setdefault(p, set()).add('load'); detail.append('    ' + l[:300])
    f = lambda d: ' '.join('%s[%s]' % (p, ','.join(sorted(r))) for p, r in sorted(d.items()))
    lines = ['own-check %s: %s | fired: %s | undecided: %s' % (own, 'YES' if own in det else 'NO ', f(det) or '-', f(und) or '-')] + detail[:6]
finally:
    subprocess.call(['git', '-C', '/repo', 'worktree', 'remove', '--force', wt])
for ln in lines: print(ln)
