#!/bin/bash
# runs every registered property's thorough check, 4 at a time, prints one summary line each
cd /verif
./check.sh --build >/dev/null
ids=$(./bin/gorumscheck -list | cut -d' ' -f1)
printf "%s\n" $ids | xargs -P 4 -I{} sh -c './check.sh {} ${1:-thorough} > /tmp/allth_{}.log 2>&1; echo "{} rc=$? $(grep -v KNOWN /tmp/allth_{}.log | tail -1)"' _ "${1:-thorough}" | sort
