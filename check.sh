#!/bin/bash
# Thin wrapper around /verif/bin/gorumscheck: fixes the environment, rebuilds
# the checker when its sources are newer than the binary, runs one property.
#   ./check.sh --build              build the checker (setup_cmd)
#   ./check.sh C07 quick|thorough   run one property's check on /repo's working tree
#   ./check.sh all quick            run every property (one process each, in parallel)
#   ./check.sh --replay <file>      print a replay file and re-run its property
set -u
HERE="$(cd "$(dirname "${BASH_SOURCE[0]}")" && pwd)"
cd "$HERE"
export GOFLAGS=-mod=mod GOPROXY=off GOSUMDB=off GOTOOLCHAIN=local CGO_ENABLED=0
unset GOWORK
REPO="${VERIF_REPO:-/repo}"
BIN="$HERE/bin/gorumscheck"

build() {
  mkdir -p "$HERE/bin"
  if [ ! -x "$BIN" ] || [ -n "$(find "$HERE/checker" -name '*.go' -newer "$BIN" -print -quit 2>/dev/null)" ] \
     || [ "$HERE/checker/go.mod" -nt "$BIN" ]; then
    (cd "$HERE/checker" && go build -o "$BIN" ./cmd/gorumscheck) || { echo "UNDECIDED checker build failed"; exit 2; }
  fi
}

case "${1:-}" in
  --build)
    build
    # warm the export-data cache so that the first property check is not slow
    "$BIN" -warm -repo "$REPO" || exit 2
    exit 0 ;;
  --replay)
    f="${2:?replay file}"
    cat "$f"
    prop="$(basename "$f" | sed 's/-.*//')"
    build
    exec "$BIN" -prop "$prop" -tier quick -repo "$REPO" -verif "$HERE" ;;
  all)
    build
    tier="${2:-quick}"
    rc=0
    for p in $("$BIN" -list | cut -d' ' -f1); do
      "$BIN" -prop "$p" -tier "$tier" -repo "$REPO" -verif "$HERE" || { r=$?; [ $r -gt $rc ] && rc=$r; }
    done
    exit $rc ;;
  C[0-9][0-9]*)
    build
    exec "$BIN" -prop "$1" -tier "${2:-quick}" -repo "$REPO" -verif "$HERE" ;;
  *)
    echo "usage: $0 --build | <Cnn> quick|thorough | all quick|thorough | --replay <file>" >&2
    exit 2 ;;
esac
