package rules

import (
	"fmt"
	"go/token"
	"go/types"

	"golang.org/x/tools/go/ssa"

	"verif/checker/internal/core"
	"verif/checker/internal/sx"
)

func init() {
	register("C01", Entry{
		Title:    "A quorum call returns exactly its quorum function's verdict on genuine replies",
		Run:      runC01,
		Examples: true,
		Meta: core.PropertyMeta{
			Explanation: "Decides the data path from 'reply received for this call' to 'value returned to the caller' in the reply loops (QuorumCall, handleAsyncCall; the correctable loop's publications are C11) and in every generated quorum/async wrapper. R1: a success outcome carries exactly result #0 of the call through the QuorumFunction slot and is dominated by the true edge of the test on that same call's verdict. R2: the function gets the caller's original request and the one reply map allocated before the loop. R3: that map is written only with (nid, msg) of the response received in this iteration, only on the no-error edge, and is never deleted from, re-allocated or leaked. R4: exactly one call site, on the loop's own goroutine, preceded in every iteration by such a write; the loop functions are entered from exactly one site. R5: no call through the slot is reachable after a quorum verdict. R6: every response handed to a caller names the node of the channel that produced it, and only the stream reader attaches a message - the one it just read, routed under that message's own id. R7: every generated quorum/async stub (and the templates) converts request, replies and result with the descriptor's types and returns exactly what the raw call returned. R10: a node the per-node function leaves out is not asked (C02-T4 re-run).",
			NotDecided:  "That gRPC delivers the bytes the server sent; that the server handler's reply is the one for this call's request beyond the message-id echo (C05 M5); value-dependent behaviour of user quorum functions; arrival orders (the rules are order-independent by construction).",
			Trusted:     append([]string{"gRPC delivers messages unmodified", "Go map and channel semantics"}, commonTrust...),
		},
	})
}

func runC01(l *core.Ledger) {
	r := runtimePkg(l)
	if r == nil {
		return
	}
	l.Rule("C01-R1", "a success outcome (nil error) carries exactly result #0 of the quorum-function call and is dominated by the true edge of the test on that call's own verdict")
	l.Rule("C01-R2", "every call through the QuorumFunction slot passes the call data's Message (the caller's request) and the single reply map allocated before the loop")
	l.Rule("C01-R3", "the reply map is written only as replies[r.nid] = r.msg of the response received in this iteration, only on the r.err == nil edge; no delete, no other use")
	l.Rule("C01-R4", "exactly one quorum-function call site per loop, on the loop's own goroutine, preceded in each iteration by a reply-map write; the loop function is entered from one site")
	l.Rule("C01-R5", "no quorum-function call is reachable after the function reported a quorum")
	l.Rule("C01-R6", "every response handed to a caller carries c.node.ID() of the producing channel; only the stream reader attaches a message, taken from the message just received and routed under its own MessageID")
	l.Rule("C01-R9", "the caller's request stays the caller's: the per-node function is handed a copy (C06-P9 re-run), so the request the quorum function is given cannot have been filled in by it")
	l.Rule("C01-R8", "reply routing discipline (C05-M1 unique ids per invocation from one atomic counter, M2 register-before-queue, M4 deliver-then-delete, M6 reply channel made by this call; C07-E4/E6 a failed node's router is deleted) re-run: a reply set can only hold replies to this call's own request, and none from a node already reported as failed")
	l.Rule("C01-R7", "generated quorum/async stubs and their templates: QuorumFunction closure returns c.qspec.<M>QF(req.(*In), r) with r filled by one range over replies as r[k] = v.(*Out); the stub returns res.(*CustomOut) of the raw call's result")

	loops := findReplyLoops(l, r, "C01-R1")
	if !l.Floor("C01-R1", len(loops), 3, "reply loops (QuorumCall, handleAsyncCall, handleCorrectableCall)") {
		return
	}
	for _, rl := range loops {
		c01Loop(l, r, rl)
	}
	checkResponseProvenance(l, r, "C01-R6")
	c01R7(l)
	// R8: 'only the reply that this node's handler produced for this call's own
	// request' presupposes the routing discipline of C05: unique ids, register
	// before queue, deliver-then-delete
	eps := findEntryPoints(l, r, "C01-R8")
	// R9: the request the quorum function is shown is the caller's original only if nobody was
	// given the chance to write to it: the per-node function works on a copy
	l.With(map[string]string{"C06-P9": "C01-R9"}, func() {
		for _, ep := range eps {
			c06P1(l, ep)
		}
	})
	l.Rule("C01-R10", "a node the per-node function leaves out is not asked (C02-T4 re-run): the skip is decided by the validity of the per-node result, which also holds for a typed nil - a node that receives an empty request nobody made answers it, and that answer is shown to the quorum function under the node's id")
	l.With(map[string]string{"C02-T4": "C01-R10"}, func() { c02T4(l, r) })
	l.With(map[string]string{"C05-M1": "C01-R8"}, func() { c05M1(l, r, eps) })
	l.Rule("C01-R11", "a reply travels under the message id of the request it answers (C05-M5 re-run: one request envelope per handler start, the reply's metadata is the request's own or a copy of it): a reply sent under the id of a later request of the same connection is shown to that call's quorum function under this node's id")
	l.With(map[string]string{"C05-M5": "C01-R11"}, func() { c05M5(l, r) })
	if sl := findServerLoop(l, r, "C01-R11"); sl != nil {
		l.With(map[string]string{"C03-F5": "C01-R11"}, func() { c03F5(l, sl) })
	}
	l.Rule("C01-R12", "the quorum function that decides a call is the one the configuration was created with (C14-G12 re-run: the generated NewConfiguration hands back a configuration built from the caller's own quorum specification and node option, never one created for an earlier caller)")
	l.With(map[string]string{"C14-G12": "C01-R12"}, func() { c14G12(l) })
	l.Rule("C01-R13", "every decoded reply is an object of its own (C13-D8/D10 re-run: what the codec stores into msg.Message is created by this decode, not taken from a table of earlier results): a reply object shared between calls shows a quorum function content that its handler never produced once any holder has written to it")
	if gum := r.mustFn("C01-R13", "Codec.gorumsUnmarshal"); gum != nil {
		l.With(map[string]string{"C13-D8": "C01-R13", "C13-D10": "C01-R13", "C13-D11": "C01-R13"}, func() { c13D8(l, r, gum); c13D10(l, r, gum); c13D11(l, r, gum) })
	}
	// the reply channel belongs to this call alone (made by it, never shared or recycled)
	l.With(map[string]string{"C05-M6": "C01-R8"}, func() { c05M6(l, r, eps) })
	l.With(map[string]string{"C07-E4": "C01-R8"}, func() { c07E4(l, r) })
	if rm := buildRouterModel(l, r, "C01-R8"); rm != nil {
		l.With(map[string]string{"C05-M2": "C01-R8"}, func() { c05M2(l, r, rm) })
		l.With(map[string]string{"C05-M4": "C01-R8"}, func() { checkDeliverDelete(l, r, rm, "C05-M4", false) })
		// a node that was reported as failed must not be heard from again: the error
		// delivery deletes the router (streaming or not), and a broken stream fails
		// and forgets every pending call
		l.With(map[string]string{"C07-E6": "C01-R8"}, func() { checkDeliverDelete(l, r, rm, "C07-E6", true) })
	}
}

// successPub is a place where a reply loop publishes a successful outcome.
type successPub struct {
	at   ssa.Instruction
	val  ssa.Value
	node sx.Node // where the path conditions of this outcome are read
	c    completion
}

func isErrorType(t types.Type) bool {
	n, ok := t.(*types.Named)
	return ok && n.Obj().Pkg() == nil && n.Obj().Name() == "error"
}

func successPubs(rl *replyLoop) []successPub {
	var out []successPub
	for _, c := range completions(rl) {
		if _, isCall := c.at.(*ssa.Call); isCall {
			continue // Correctable.set: C11
		}
		if k, ok := c.err.(*ssa.Const); ok && k.IsNil() {
			out = append(out, successPub{at: c.at, val: c.reply, node: c.node(), c: c})
		}
	}
	return out
}

func c01Loop(l *core.Ledger, r *rt, rl *replyLoop) {
	key := rl.key
	// ---- R4 (call-site count) first: other rules need the unique call
	inClosure := false
	for _, c := range rl.qfCalls {
		if c.Parent() != rl.fn {
			inClosure = true
			l.Bad("C01-R4", key+"/slot-call", c.Pos(), "the quorum function is called from a closure ("+fnKey(c.Parent())+"): not on the loop's own goroutine / not one at a time")
		}
	}
	if len(rl.qfCalls) != 1 {
		l.Bad("C01-R4", key+"/slot-call", rl.fn.Pos(), fmt.Sprintf("%d call sites through the QuorumFunction slot; exactly one per loop is required", len(rl.qfCalls)))
	}
	if inClosure || len(rl.qfCalls) != 1 {
		return
	}
	qf := rl.qfCalls[0]
	// ---- R2 arguments
	a0 := sx.Origins(qf.Call.Args[0])
	// a request copied into the loop's own state struct at the single place the loop is
	// started from: look at what was put into that field there
	var a0r []sx.Origin
	for _, o := range a0 {
		resolved := false
		if o.Kind == sx.KField && o.Field != nil && len(o.Base) == 1 && o.Base[0].Kind == sx.KParam {
			if par, isPar := o.Base[0].V.(*ssa.Parameter); isPar {
				if arg := sx.SingleCallArg(par); arg != nil {
					if lit, okLit := structLiteral(arg); okLit && lit[o.Field.Name()] != nil {
						a0r = append(a0r, sx.Origins(lit[o.Field.Name()])...)
						resolved = true
					}
				}
			}
		}
		if !resolved {
			a0r = append(a0r, o)
		}
	}
	a0 = a0r
	okMsg := sx.All(a0, sx.IsFieldNamed("Message", func(o sx.Origin) bool {
		if o.Kind == sx.KParam {
			return isNamed(o.V.Type(), core.RootModule, "QuorumCallData") || isNamed(o.V.Type(), core.RootModule, "CorrectableCallData")
		}
		return o.Kind == sx.KField && o.Field != nil && o.Field.Name() == "data" && sx.All(o.Base, func(b sx.Origin) bool { return b.Kind == sx.KParam })
	}))
	l.Check(okMsg, "C01-R2", key+"/arg0", qf.Pos(), "request = call data's Message", "the quorum function is not given the caller's original request: arg0 = "+sx.OriginsString(a0))
	mm, isMake := rl.replies.(*ssa.MakeMap)
	if !isMake {
		l.Bad("C01-R2", key+"/arg1", qf.Pos(), "the reply set passed to the quorum function is not a map allocated by this call: "+sx.OriginsString(sx.Origins(rl.replies)))
		return
	}
	l.Check(!sx.InLoop(sx.NodeOf(mm)), "C01-R2", key+"/arg1", mm.Pos(), "one reply map, allocated before the loop", "the reply map is re-allocated inside the loop: the reply set does not only grow")

	// ---- R3 map discipline
	errTests := rl.errTests()
	var noErrEdges []sx.Edge
	for _, t := range errTests {
		noErrEdges = append(noErrEdges, errEdge(t, rl.isR("err"), false))
	}
	var updates []*ssa.MapUpdate
	for _, ref := range *mm.Referrers() {
		switch u := ref.(type) {
		case *ssa.MapUpdate:
			if u.Map != mm {
				l.Bad("C01-R3", key+"/map-escape", u.Pos(), "the reply map is stored into another map")
				continue
			}
			updates = append(updates, u)
		case *ssa.Call:
			if b, ok := u.Call.Value.(*ssa.Builtin); ok && b.Name() == "len" {
				continue
			}
			if u == qf {
				continue
			}
			if b, ok := u.Call.Value.(*ssa.Builtin); ok {
				l.Bad("C01-R3", key+"/map-"+b.Name(), u.Pos(), "builtin "+b.Name()+" applied to the reply map: the reply set must only grow")
				continue
			}
			l.Bad("C01-R3", key+"/map-escape", u.Pos(), "the reply map is passed to "+sx.StaticCalleeName(&u.Call))
		case *ssa.DebugRef:
		case *ssa.Lookup:
			// reading is harmless
		default:
			l.Bad("C01-R3", key+"/map-escape", sx.PosOf(ref), fmt.Sprintf("the reply map is used by %T (escapes the loop's control)", ref))
		}
	}
	if len(updates) == 0 {
		l.Bad("C01-R3", key+"/map-write", rl.fn.Pos(), "no write to the reply map: the quorum function never sees a reply")
	}
	for i, u := range updates {
		k := fmt.Sprintf("%s/map-write%d", key, i)
		ko, vo := sx.Origins(u.Key), sx.Origins(u.Value)
		if !sx.All(ko, rl.isR("nid")) || !sx.All(vo, rl.isR("msg")) {
			l.Bad("C01-R3", k, u.Pos(), fmt.Sprintf("reply map written with key %s, value %s; expected the nid and msg of the response received in this iteration", sx.OriginsString(ko), sx.OriginsString(vo)))
			continue
		}
		if !edgesDominate(rl.fn, noErrEdges, sx.NodeOf(u)) {
			l.Bad("C01-R3", k, u.Pos(), "reply map written on a path where r.err may be non-nil: a failed node gets an entry in the reply set")
			continue
		}
		l.OK("C01-R3", k, u.Pos(), "replies[r.nid] = r.msg on the no-error edge")
	}

	// ---- R4 each call preceded by a write in this iteration
	isUpdate := func(n sx.Node) bool {
		u, ok := n.Instr().(*ssa.MapUpdate)
		return ok && u.Map == mm
	}
	okCAW := true
	for _, rp := range rl.recvs {
		if _, must := sx.MustPassThrough(sx.NodeOf(rp.sel), isUpdate, sx.IsInstr(qf)); !must {
			okCAW = false
		}
	}
	if okCAW {
		l.OK("C01-R4", key+"/call-after-write", qf.Pos(), "every path from a receive to the call stores the new reply first")
	} else {
		l.Bad("C01-R4", key+"/call-after-write", qf.Pos(), "the quorum function can be called in an iteration that added no reply (e.g. after an error)")
	}
	// one invocation per newly arrived reply: between two reply-map writes the function is called
	for i, u := range updates {
		if _, skip := sx.Reach(sx.NodeOf(u), isUpdate, sx.Query{BlockNode: sx.IsInstr(qf)}); skip {
			l.Bad("C01-R4", fmt.Sprintf("%s/one-call-per-reply%d", key, i), u.Pos(), "two replies can be stored in the reply set without the quorum function being invoked in between: intermediate reply sets are never shown to it (a quorum reachable only at an intermediate set is missed)")
		}
	}
	// the verdict test must be evaluated before the next wait (one call per reply, result consumed)
	qts := rl.quorumTests(qf)
	if len(qts) == 0 {
		l.Bad("C01-R1", key+"/verdict", qf.Pos(), "the quorum function's verdict is never tested")
		return
	}

	// ---- R5 no call after quorum
	okR5 := true
	// paths are explored consistently with the verdict being true: the false
	// edge of every test on the same SSA value is closed
	falseEdges := map[sx.Edge]bool{}
	for _, qt := range qts {
		falseEdges[edgeWhere(qt, false)] = true
	}
	for _, qt := range qts {
		e := edgeWhere(qt, true)
		if _, reach := sx.Reach(sx.Node{B: e.To, I: -1}, sx.IsInstr(qf), sx.Query{BlockEdge: func(x sx.Edge) bool { return falseEdges[x] }}); reach {
			okR5 = false
		}
	}
	// at least one verdict test must lead to termination without a further call
	l.Check(okR5, "C01-R5", key, qf.Pos(), "no path from a quorum verdict back to the quorum function", "after the quorum function reported a quorum the loop can call it again")

	// ---- R1 verdict flow
	if !rl.correct {
		pubs := successPubs(rl)
		if len(pubs) == 0 {
			l.Bad("C01-R1", key+"/success", rl.fn.Pos(), "no success outcome found: the call can never succeed")
		}
		var trueEdges []sx.Edge
		for _, qt := range qts {
			trueEdges = append(trueEdges, edgeWhere(qt, true))
		}
		for i, p := range pubs {
			k := fmt.Sprintf("%s/success%d", key, i)
			pos := sx.PosOf(p.at)
			if p.val == nil {
				l.Bad("C01-R1", k, pos, "success published without a reply value")
				continue
			}
			os := sx.Origins(p.val)
			if !sx.All(os, sx.IsExtractOf(qf, 0)) {
				l.Bad("C01-R1", k, pos, "the value returned on success is not (only) the quorum function's result: "+sx.OriginsString(os))
				continue
			}
			if !p.c.under(rl.fn, trueEdges) {
				l.Bad("C01-R1", k, pos, "a success outcome is reachable without the quorum function having reported a quorum")
				continue
			}
			l.OK("C01-R1", k, pos, "returns result#0 of the quorum function under its own 'quorum' verdict")
		}
	}

	// ---- R4 who may enter the loop function
	if rl.fn.Object() != nil && !rl.fn.Object().Exported() {
		var sites []string
		goSites := 0
		for _, f := range allFuncs(l.Prog, r.pkg) {
			sx.AllInstrs(f, func(_ sx.Node, in ssa.Instruction) {
				cc := sx.CallOf(in)
				if cc == nil || cc.StaticCallee() != rl.fn {
					return
				}
				sites = append(sites, fnKey(f))
				if _, isGo := in.(*ssa.Go); isGo && !sx.InLoop(sx.NodeOf(in)) {
					goSites++
				}
			})
		}
		l.Check(len(sites) == 1 && goSites == 1, "C01-R4", key+"/entered-once", rl.fn.Pos(), "started by a single go statement in "+fmt.Sprint(sites), fmt.Sprintf("the loop function must be started from exactly one go statement outside loops; call sites: %v", sites))
	}
	_ = token.NoPos
}
