package rules

import (
	"fmt"
	"go/constant"
	"go/token"
	"go/types"
	"sort"
	"strings"

	"golang.org/x/tools/go/ssa"

	"verif/checker/internal/core"
	"verif/checker/internal/sx"
)

func init() {
	register("C11", Entry{
		Title:    "Correctable calls publish QF levels and values monotonically; done is final",
		Run:      runC11,
		Examples: true,
		Meta: core.PropertyMeta{
			Explanation: "K1: every Correctable literal starts at LevelNotSet with no reply/err/done, and the loop's running level starts there too. K2: from the not-done edge of the quorum function's verdict a publication set(v, l, nil, false) is reachable within the same iteration. K3: the value passed to every set on a reply path is result #0 of this iteration's quorum-function call; on the context/exhaustion exits it is the last such value (or nil) with the running level. K4: every intermediate set is guarded by 'level > running level', the running level is only ever assigned the function's level under that guard, and levels passed to set are the function's level or the running level. K5: no set is reachable after a final set; set panics on a done correctable before touching any field; only set closes donech (on the done edge) and only the call goroutine calls set. K6: all accesses to reply/level/err/done/watchers hold Correctable.mu; on completion every watcher is released, otherwise exactly those at or below the level, each slot cleared, no early exit from the loops. K7: Watch appends a watcher only on a not-yet-done edge. K8: generated Correctable*/Async* Get accessors assert the reply type only where the reply is provably non-nil, or use the checked form.",
			NotDecided:  "Real-time 'at once' (decided as: publication happens in the same iteration as the function call, before the next wait); watcher wake-up latency; K9 (stream exhaustion = every node failed) relies on C07 E6.",
			Trusted:     append([]string{"sync.Mutex semantics", "closing a channel releases all receivers"}, commonTrust...),
		},
	})
}

func isCorrectableSet(c *ssa.CallCommon) bool {
	f := c.StaticCallee()
	return f != nil && f.Signature.Recv() != nil && isNamed(f.Signature.Recv().Type(), core.RootModule, "Correctable") &&
		f.Signature.Params().Len() == 4 && len(c.Args) == 5 && f.Name() == "set"
}

func constBool(v ssa.Value) (bool, bool) {
	c, ok := v.(*ssa.Const)
	if !ok || c.Value == nil || c.Value.Kind() != constant.Bool {
		return false, false
	}
	return constant.BoolVal(c.Value), true
}

func runC11(l *core.Ledger) {
	r := runtimePkg(l)
	if r == nil {
		return
	}
	l.Rule("C11-K1", "every Correctable literal sets level to LevelNotSet and leaves reply/err/done zero; the loop's running level starts at LevelNotSet")
	l.Rule("C11-K2", "from the not-done edge of the quorum verdict, within the same iteration, a call set(v, l, nil, false) is reachable")
	l.Rule("C11-K3", "the value passed to set on a reply path is result #0 of this iteration's quorum-function call; on context/exhaustion exits it is that value or nil, with the running level")
	l.Rule("C11-K4", "every intermediate set is dominated by the true edge of 'level > running level'; the running level only takes the function's level under that guard")
	l.Rule("C11-K5", "no set after a final set; set panics if already done before writing any field; who-may-close donech = set on the done edge; who-may-call set = the call goroutine")
	l.Rule("C11-K6", "Correctable state is accessed only under Correctable.mu; completion closes every watcher, a level publication closes exactly those with watcher.level <= level and clears the slot; no early exit")
	l.Rule("C11-K7", "Watch registers a watcher only on an edge where the call is not yet done")
	l.Rule("C11-K8", "generated typed accessors (Correctable*.Get, Async*.Get) and the data-types template never apply a single-result type assertion to a possibly-nil reply")

	l.Rule("C11-K9", "completion by exhaustion is exact: the expected count reaches the reply loop and is decremented once per skipped node (C02-T4 re-run), and one node contributes at most one error also through a streaming router (C07-E6 re-run)")
	l.With(map[string]string{"C02-T4": "C11-K9"}, func() { c02T4(l, r) })
	l.Rule("C11-K10", "every reply a node's handler produced reaches the quorum function as a reply (C05-M5 re-run: each reply of a stream handler carries metadata of its own - a copy of the request's): metadata shared between the replies of one call is rewritten by the handler's final status while earlier replies are still queued, and a level the node did send arrives as the node's error")
	l.With(map[string]string{"C05-M5": "C11-K10"}, func() { c05M5(l, r) })
	l.Rule("C11-K11", "every answer that has arrived is handled: one reply-map write and one quorum-function call per received reply, one error entry per received error (C01-R3/R4, C02-T2 re-run) - a batch loop that leaves on the first error drops the replies behind it, and a level the nodes have reached is never published")
	if loops := findReplyLoops(l, r, "C11-K11"); len(loops) > 0 {
		l.With(map[string]string{"C01-R3": "C11-K11", "C01-R4": "C11-K11", "C02-T2": "C11-K11"}, func() {
			for _, rl := range loops {
				c01Loop(l, r, rl)
				c02Loop(l, r, rl)
			}
		})
	}
	if rm := buildRouterModel(l, r, "C11-K9"); rm != nil {
		l.With(map[string]string{"C07-E6": "C11-K9"}, func() { checkDeliverDelete(l, r, rm, "C07-E6", true) })
	}

	levelNotSet, ok := r.pkg.Types.Scope().Lookup("LevelNotSet").(*types.Const)
	if !ok {
		l.Unknown("C11-K1", "anchor/LevelNotSet", token.NoPos, "constant LevelNotSet not found")
		return
	}
	isNotSet := func(v ssa.Value) bool {
		c, ok := v.(*ssa.Const)
		return ok && c.Value != nil && constant.Compare(c.Value, token.EQL, levelNotSet.Val())
	}

	// ---- K1 literals
	nlit := 0
	for _, f := range allFuncs(l.Prog, r.pkg) {
		sx.AllInstrs(f, func(_ sx.Node, in ssa.Instruction) {
			al, ok := in.(*ssa.Alloc)
			if !ok || !isNamed(al.Type(), core.RootModule, "Correctable") {
				return
			}
			if _, isStruct := al.Type().(*types.Pointer).Elem().Underlying().(*types.Struct); !isStruct {
				return
			}
			nlit++
			fields := map[string]ssa.Value{}
			for _, ref := range *al.Referrers() {
				if fa, ok := ref.(*ssa.FieldAddr); ok {
					for _, r2 := range *fa.Referrers() {
						if st, ok := r2.(*ssa.Store); ok && st.Addr == fa {
							fields[fieldOf(al.Type(), fa.Field).Name()] = st.Val
						}
					}
				}
			}
			key := fnKey(f) + "/Correctable-literal"
			lv, has := fields["level"]
			switch {
			case !has || !isNotSet(lv):
				l.Bad("C11-K1", key, al.Pos(), "a new Correctable does not start at LevelNotSet (level field left at its zero value 0 or set to something else): Get before the first publication reports level 0, and Watch(0) is released at once")
			case fields["donech"] == nil || func() bool { _, isMake := fields["donech"].(*ssa.MakeChan); return !isMake }():
				l.Bad("C11-K1", key, al.Pos(), "a new Correctable is created without its completion channel (donech is not made at construction): a channel made later, on demand, may be made after the completion that should have closed it - Done() then never fires")
			case fields["reply"] != nil || fields["err"] != nil || fields["done"] != nil:
				l.Bad("C11-K1", key, al.Pos(), "a new Correctable is created with a reply, error or done flag already set")
			default:
				l.OK("C11-K1", key, al.Pos(), "level: LevelNotSet, no reply")
			}
		})
	}
	l.Floor("C11-K1", nlit, 1, "Correctable literals")

	// ---- the loop
	var rl *replyLoop
	for _, x := range findReplyLoops(l, r, "C11-K2") {
		if x.correct {
			rl = x
		}
	}
	if rl == nil {
		l.Unknown("C11-K2", "anchor/correctable-loop", token.NoPos, "no reply loop with a 3-result quorum function found")
		return
	}
	key := rl.key
	ctxCaseCompletes(l, rl, "C11-K5")
	if len(rl.qfCalls) != 1 || rl.qfCalls[0].Parent() != rl.fn {
		l.Bad("C11-K3", key+"/slot-call", rl.fn.Pos(), "expected exactly one quorum-function call in the correctable loop")
		return
	}
	qf := rl.qfCalls[0]
	selNode := sx.NodeOf(rl.sel)
	var qfLevel ssa.Value
	for _, ref := range *qf.Referrers() {
		if e, ok := ref.(*ssa.Extract); ok && e.Index == 1 {
			qfLevel = e
		}
	}
	// set calls
	type setCall struct {
		c     *ssa.Call
		final bool
		known bool
	}
	var sets []setCall
	sx.WithAnon(rl.fn, func(g *ssa.Function) {
		sx.AllInstrs(g, func(_ sx.Node, in ssa.Instruction) {
			if c, ok := in.(*ssa.Call); ok && isCorrectableSet(&c.Call) {
				fin, known := constBool(c.Call.Args[4])
				sets = append(sets, setCall{c, fin, known})
				if g != rl.fn {
					l.Bad("C11-K5", key+"/set-in-closure", c.Pos(), "set is called from a closure")
				}
			}
		})
	})
	// running level: the phi compared with the function's level
	var clevel *ssa.Phi
	var guards []*ssa.If
	var guardEdges []sx.Edge
	if qfLevel != nil {
		sx.AllInstrs(rl.fn, func(_ sx.Node, in ssa.Instruction) {
			ifi, ok := in.(*ssa.If)
			if !ok {
				return
			}
			v, pos := condOf(ifi)
			b, ok := v.(*ssa.BinOp)
			if !ok {
				return
			}
			var other ssa.Value
			gt := false
			switch {
			case b.X == qfLevel && b.Op == token.GTR:
				other, gt = b.Y, true
			case b.Y == qfLevel && b.Op == token.LSS:
				other, gt = b.X, true
			case b.X == qfLevel && b.Op == token.LEQ:
				other, gt = b.Y, false
			case b.Y == qfLevel && b.Op == token.GEQ:
				other, gt = b.X, false
			default:
				return
			}
			ph, ok := other.(*ssa.Phi)
			if !ok {
				return
			}
			clevel = ph
			guards = append(guards, ifi)
			t, f := sx.CondEdges(ifi)
			if gt == pos {
				guardEdges = append(guardEdges, t)
			} else {
				guardEdges = append(guardEdges, f)
			}
		})
	}
	// clevel family: phis connected to clevel
	fam := map[ssa.Value]bool{}
	if clevel != nil {
		// the phis that make up the loop-carried variable: those that both are fed by the
		// running level and feed it again. A phi that merely uses the running level further
		// down (max of the function's level and the running level, say) is not part of it.
		fwd, bwd := map[ssa.Value]bool{}, map[ssa.Value]bool{}
		var down, up func(v ssa.Value)
		down = func(v ssa.Value) {
			ph, ok := v.(*ssa.Phi)
			if !ok || fwd[ph] {
				return
			}
			fwd[ph] = true
			for _, ref := range *ph.Referrers() {
				if p2, ok := ref.(*ssa.Phi); ok {
					down(p2)
				}
			}
		}
		up = func(v ssa.Value) {
			ph, ok := v.(*ssa.Phi)
			if !ok || bwd[ph] {
				return
			}
			bwd[ph] = true
			for _, e := range ph.Edges {
				up(e)
			}
		}
		down(clevel)
		up(clevel)
		for v := range fwd {
			if bwd[v] {
				fam[v] = true
			}
		}
		fam[clevel] = true
	}
	isLevelFamily := func(v ssa.Value) bool { return fam[v] }

	// ---- K1 (running level)
	if clevel == nil {
		l.Bad("C11-K4", key+"/running-level", rl.fn.Pos(), "no comparison 'function level > running level' found: intermediate levels cannot be published monotonically")
	} else {
		okInit, okAssign := true, true
		for ph := range fam {
			p := ph.(*ssa.Phi)
			for i, e := range p.Edges {
				switch {
				case fam[e]:
				case isNotSet(e):
				case e == qfLevel:
					// assignment clevel = rlevel: the incoming block must be under the guard
					pred := p.Block().Preds[i]
					last := sx.Node{B: pred, I: len(pred.Instrs) - 1}
					if !edgesDominate(rl.fn, guardEdges, last) {
						okAssign = false
					}
				default:
					if c, isC := e.(*ssa.Const); isC {
						_ = c
						okInit = false
					} else {
						okAssign = false
					}
				}
			}
		}
		l.Check(okInit, "C11-K1", key+"/running-level-init", clevel.Pos(), "running level starts at LevelNotSet", "the loop's running level does not start at LevelNotSet")
		l.Check(okAssign, "C11-K4", key+"/running-level-assign", clevel.Pos(), "running level only takes the function's level under 'level > running level'", "the running level is assigned outside the 'level > running level' guard (published levels can decrease or repeat)")
	}

	// ---- K3 / K4 per set call
	qts := rl.quorumTests(qf)
	var doneEdges []sx.Edge
	for _, qt := range qts {
		doneEdges = append(doneEdges, edgeWhere(qt, true))
	}
	nInter := 0
	sort.Slice(sets, func(i, j int) bool { return sets[i].c.Pos() < sets[j].c.Pos() })
	for i, s := range sets {
		k := fmt.Sprintf("%s/set%d", key, i)
		node := sx.NodeOf(s.c)
		onReply := edgesDominate(rl.fn, rl.recvEdges(), node) && sx.InstrDominates(rl.fn, qf, node)
		val, lvl, errv := s.c.Call.Args[1], s.c.Call.Args[2], s.c.Call.Args[3]
		isNilErr := func() bool { c, ok := errv.(*ssa.Const); return ok && c.IsNil() }()
		if !s.known {
			l.Bad("C11-K5", k, s.c.Pos(), "set called with a non-constant done flag: completion cannot be classified")
			continue
		}
		if onReply && isNilErr {
			vo := sx.Origins(val)
			if !sx.All(vo, sx.IsExtractOf(qf, 0)) {
				l.Bad("C11-K3", k, s.c.Pos(), "the value published is not the quorum function's result but "+sx.OriginsString(vo)+" (with a custom return type the typed accessor then fails)")
			} else {
				l.OK("C11-K3", k, s.c.Pos(), "publishes result#0 of the quorum function")
			}
			if !s.final && lvl != qfLevel {
				l.Bad("C11-K4", k+"/level", s.c.Pos(), "the level published is not the level the quorum function just reported")
			}
			if s.final {
				// the completing publication must not take the level down: the function's level
				// only where it is known not to be below the running level, else the running level
				notLower := func(e sx.Edge) bool {
					ok := false
					sx.AllInstrs(rl.fn, func(_ sx.Node, in ssa.Instruction) {
						ifi, isIf := in.(*ssa.If)
						if !isIf {
							return
						}
						x, op, y, cmp := sx.Comparison(ifi.Cond, qfLevel)
						if !cmp || x != qfLevel || !isLevelFamily(y) {
							return
						}
						t, f := sx.CondEdges(ifi)
						var good sx.Edge
						switch op {
						case token.GEQ, token.GTR:
							good = t
						case token.LSS, token.LEQ:
							good = f
						default:
							return
						}
						if good == e || sx.EdgeDominates(rl.fn, good, sx.Node{B: e.From, I: len(e.From.Instrs) - 1}) {
							ok = true
						}
					})
					return ok
				}
				var levelOK func(v ssa.Value, at sx.Edge, depth int) bool
				levelOK = func(v ssa.Value, at sx.Edge, depth int) bool {
					if depth > 4 {
						return false
					}
					if isLevelFamily(v) {
						return true
					}
					if v == qfLevel {
						return at.From != nil && notLower(at)
					}
					if c, isCall := v.(*ssa.Call); isCall {
						if b, isB := c.Call.Value.(*ssa.Builtin); isB && b.Name() == "max" {
							hasRunning := false
							for _, a := range c.Call.Args {
								if isLevelFamily(a) {
									hasRunning = true
								} else if a != qfLevel {
									return false
								}
							}
							return hasRunning
						}
					}
					if ph, isPhi := v.(*ssa.Phi); isPhi {
						for i, e := range ph.Edges {
							if !levelOK(e, sx.Edge{From: ph.Block().Preds[i], To: ph.Block()}, depth+1) {
								return false
							}
						}
						return true
					}
					return false
				}
				var into sx.Edge
				if len(node.B.Preds) == 1 {
					into = sx.Edge{From: node.B.Preds[0], To: node.B}
				}
				l.Check(levelOK(lvl, into, 0), "C11-K4", k+"/final-level", s.c.Pos(), "the completing publication does not lower the level", "the publication that completes the call passes the level the quorum function reported with 'done' as it is: when that level is lower than one published before (a level function that is not monotone), Get shows the level going down at completion")
			}
			if s.final {
				l.Check(edgesDominate(rl.fn, doneEdges, node), "C11-K5", k+"/final-under-done", s.c.Pos(), "final publication under the done verdict", "a final publication with nil error is reachable without the quorum function reporting done")
			} else {
				nInter++
				l.Check(edgesDominate(rl.fn, guardEdges, node), "C11-K4", k+"/guard", s.c.Pos(), "intermediate publication guarded by 'level > running level'", "an intermediate publication is not guarded by 'level > running level': published levels can decrease or repeat")
			}
			continue
		}
		// error completions (context / exhaustion)
		if isNilErr && !onReply {
			l.Bad("C11-K3", k, s.c.Pos(), "a nil-error publication outside the reply path")
			continue
		}
		vo := sx.Origins(val)
		okVal := sx.All(vo, sx.Or(sx.IsNilConst, sx.IsExtractOf(qf, 0)))
		okLvl := isLevelFamily(lvl)
		l.Check(okVal && okLvl && s.final, "C11-K3", k, s.c.Pos(), "error completion carries the last function value and the running level",
			fmt.Sprintf("error completion: value from the quorum function or nil: %v (%s), level = running level: %v, final: %v", okVal, sx.OriginsString(vo), okLvl, s.final))
	}

	// ---- K2 reachability of an intermediate publication on the not-done edge
	okK2 := false
	blockDone := map[sx.Edge]bool{}
	for _, e := range doneEdges {
		blockDone[e] = true
	}
	{
		// explore from the call itself with every done edge closed, so that the
		// not-done edges are only used where they are feasible
		_, reach := sx.Reach(sx.NodeOf(qf), func(n sx.Node) bool {
			c, ok := n.Instr().(*ssa.Call)
			if !ok || !isCorrectableSet(&c.Call) {
				return false
			}
			fin, known := constBool(c.Call.Args[4])
			return known && !fin
		}, sx.Query{BlockNode: func(n sx.Node) bool { return n == selNode }, BlockEdge: func(x sx.Edge) bool { return blockDone[x] }})
		if reach {
			okK2 = true
		}
	}
	l.Check(okK2, "C11-K2", key, qf.Pos(), "an intermediate publication is reachable when the function reports a higher level without done",
		"no set(…, false) is reachable on the not-done edge of the quorum verdict within the iteration: levels reported before completion are never published (Get and Watch see nothing until done)")

	// ---- K5 no set after a final set
	for i, s := range sets {
		if !s.final {
			continue
		}
		k := fmt.Sprintf("%s/set%d/after-final", key, i)
		_, reach := sx.Reach(sx.NodeOf(s.c), func(n sx.Node) bool {
			c, ok := n.Instr().(*ssa.Call)
			return ok && isCorrectableSet(&c.Call)
		}, sx.Query{})
		l.Check(!reach, "C11-K5", k, s.c.Pos(), "nothing is published after completion", "a further set is reachable after the completing set: completes twice (set panics) or Get changes after Done")
	}
	// who may call set
	var callers []string
	for _, f := range allFuncs(l.Prog, r.pkg) {
		sx.AllInstrs(f, func(_ sx.Node, in ssa.Instruction) {
			if cc := sx.CallOf(in); cc != nil && isCorrectableSet(cc) {
				callers = append(callers, fnKey(f))
			}
		})
	}
	okCallers := len(callers) > 0
	for _, c := range callers {
		if c != key {
			okCallers = false
		}
	}
	l.Check(okCallers, "C11-K5", "who-may-call/Correctable.set", rl.fn.Pos(), "only the call goroutine publishes", fmt.Sprintf("set is called from %v; only %s may", callers, key))

	c11Set(l, r)
	c11Watch(l, r)
	c11Locks(l, r)
	c11K8(l)
}

func isCorrField(addr ssa.Value, names ...string) (string, bool) {
	fa, ok := addr.(*ssa.FieldAddr)
	if !ok || !isNamed(fa.X.Type(), core.RootModule, "Correctable") {
		return "", false
	}
	f := fieldOf(fa.X.Type(), fa.Field)
	for _, n := range names {
		if f.Name() == n {
			return n, true
		}
	}
	return "", false
}

func c11Set(l *core.Ledger, r *rt) {
	fn := r.mustFn("C11-K5", "Correctable.set")
	if fn == nil {
		return
	}
	const key = "gorums.(Correctable).set"
	recv, pLevel, pDone := fn.Params[0], fn.Params[2], fn.Params[4]
	// done guard
	var guard *ssa.If
	sx.AllInstrs(fn, func(_ sx.Node, in ssa.Instruction) {
		ifi, ok := in.(*ssa.If)
		if !ok {
			return
		}
		v, _ := condOf(ifi)
		if sx.All(sx.Origins(v), sx.IsFieldNamed("done", sx.IsParam(recv))) {
			e := edgeWhere(ifi, true)
			if _, isPanic := e.To.Instrs[len(e.To.Instrs)-1].(*ssa.Panic); isPanic {
				guard = ifi
			}
		}
	})
	okGuard := guard != nil
	if guard != nil {
		sx.AllInstrs(fn, func(n sx.Node, in ssa.Instruction) {
			st, ok := in.(*ssa.Store)
			if !ok {
				return
			}
			if _, is := isCorrField(st.Addr, "reply", "level", "err", "done"); is {
				if !sx.EdgeDominates(fn, edgeWhere(guard, false), n) {
					okGuard = false
				}
			}
		})
	}
	l.Check(okGuard, "C11-K5", key+"/done-guard", fn.Pos(), "panics on a done correctable before writing any field", "set does not refuse (panic) a second completion before overwriting the published state")

	// closes
	doneIfs := ifsOn(fn, pDone)
	var doneEdge []sx.Edge
	for _, d := range doneIfs {
		doneEdge = append(doneEdge, edgeWhere(d, true))
	}
	nFinal, nLevel := 0, 0
	okLoops := true
	sx.AllInstrs(fn, func(n sx.Node, in ssa.Instruction) {
		c, ok := in.(*ssa.Call)
		if !ok {
			return
		}
		b, ok := c.Call.Value.(*ssa.Builtin)
		if !ok || b.Name() != "close" {
			return
		}
		os := sx.Origins(c.Call.Args[0])
		if sx.All(os, sx.IsFieldNamed("donech", sx.IsParam(recv))) {
			l.Check(edgesDominate(fn, doneEdge, n), "C11-K5", key+"/close-donech", c.Pos(), "donech closed only on the done edge", "Done() is released although the call is not complete")
			return
		}
		// watcher channel
		isWatcherCh := sx.All(os, func(o sx.Origin) bool {
			return o.Kind == sx.KField && o.Field != nil && o.Field.Name() == "ch" && o.Field.Pkg() != nil && o.Field.Pkg().Path() == core.RootModule
		})
		if !isWatcherCh {
			return
		}
		final := edgesDominate(fn, doneEdge, n)
		// level guard: an If comparing watcher.level with the level parameter dominating this close
		var lvlEdges []sx.Edge
		sx.AllInstrs(fn, func(_ sx.Node, in2 ssa.Instruction) {
			ifi, ok := in2.(*ssa.If)
			if !ok {
				return
			}
			v, pos := condOf(ifi)
			bo, ok := v.(*ssa.BinOp)
			if !ok {
				return
			}
			isWL := func(x ssa.Value) bool {
				return sx.All(sx.Origins(x), func(o sx.Origin) bool {
					return o.Kind == sx.KField && o.Field != nil && o.Field.Name() == "level" && o.Field.Pkg() != nil
				})
			}
			le := false
			switch {
			case isWL(bo.X) && bo.Y == pLevel && bo.Op == token.LEQ, isWL(bo.Y) && bo.X == pLevel && bo.Op == token.GEQ:
				le = true
			default:
				return
			}
			t, f := sx.CondEdges(ifi)
			if le == pos {
				lvlEdges = append(lvlEdges, t)
			} else {
				lvlEdges = append(lvlEdges, f)
			}
		})
		guarded := len(lvlEdges) > 0 && edgesDominate(fn, lvlEdges, n)
		// no early exit: after the close every path to an exit goes back through a loop head
		heads := sx.LoopHeads(fn)
		inLoop := sx.InLoop(n)
		_, viaHead := sx.MustPassThrough(n, func(x sx.Node) bool {
			for _, h := range heads {
				if x.B == h && x.I == 0 {
					return true
				}
			}
			return false
		}, sx.IsExit)
		if !inLoop || !viaHead {
			okLoops = false
		}
		if final {
			nFinal++
			l.Check(!guarded, "C11-K6", key+"/release-all", c.Pos(), "completion releases every registered watcher", "on completion only watchers up to the level are released; the others wait forever")
		} else {
			nLevel++
			// slot cleared after close
			_, cleared := sx.MustPassThrough(n, func(x sx.Node) bool {
				st, ok := x.Instr().(*ssa.Store)
				if !ok {
					return false
				}
				c, isC := st.Val.(*ssa.Const)
				_, isIA := st.Addr.(*ssa.IndexAddr)
				return isC && c.IsNil() && isIA
			}, func(x sx.Node) bool {
				for _, h := range heads {
					if x.B == h && x.I == 0 {
						return true
					}
				}
				return sx.IsExit(x)
			})
			l.Check(guarded && cleared, "C11-K6", key+"/release-level", c.Pos(), "releases watchers with watcher.level <= level and clears the slot",
				fmt.Sprintf("level publication: guarded by watcher.level <= level: %v; slot cleared after close (else closed twice → panic): %v", guarded, cleared))
		}
	})
	// the release loops must visit every element: inside a loop of set the
	// watcher slice itself is not re-assigned, and elements are only written at
	// the loop's own index (a loop that removes or moves elements while it
	// iterates skips the element moved into the current slot)
	okStable := true
	sx.AllInstrs(fn, func(n sx.Node, in ssa.Instruction) {
		st, ok := in.(*ssa.Store)
		if !ok || !sx.InLoop(n) {
			return
		}
		if _, is := isCorrField(st.Addr, "watchers"); is {
			okStable = false
			l.Bad("C11-K6", key+"/loop-mutates-slice", st.Pos(), "the watcher slice is re-assigned inside a release loop: elements moved or removed during the iteration are not examined against the level being published (a watcher at or below the level stays blocked)")
			return
		}
		ia, isIA := st.Addr.(*ssa.IndexAddr)
		if !isIA || !sx.All(sx.Origins(ia.X), sx.IsFieldNamed("watchers", sx.IsParam(recv))) {
			return
		}
		// the index must be the loop's induction variable (a phi of the enclosing loop head, or its +1)
		isInduction := func(v ssa.Value) bool {
			for i := 0; i < 3; i++ {
				switch x := v.(type) {
				case *ssa.Phi:
					return true
				case *ssa.BinOp:
					if c, isC := x.Y.(*ssa.Const); isC && x.Op == token.ADD && c.Value != nil && c.Value.String() == "1" {
						v = x.X
						continue
					}
				}
				return false
			}
			return false
		}
		if !isInduction(ia.Index) {
			okStable = false
			l.Bad("C11-K6", key+"/loop-writes-other-slot", st.Pos(), "a release loop writes a watcher slot other than the one it is examining: elements are moved during the iteration and can be skipped")
		}
	})
	_ = okStable
	l.Check(nFinal >= 1 && nLevel >= 1 && okLoops, "C11-K6", key+"/watcher-loops", fn.Pos(), "both release loops present, no early exit",
		fmt.Sprintf("watcher release loops: final=%d level=%d, all inside loops without early exit: %v", nFinal, nLevel, okLoops))

	// who may close donech / watcher channels
	var closers []string
	for _, f := range allFuncs(l.Prog, r.pkg) {
		sx.AllInstrs(f, func(_ sx.Node, in ssa.Instruction) {
			cc := sx.CallOf(in)
			if cc == nil {
				return
			}
			if b, ok := cc.Value.(*ssa.Builtin); ok && b.Name() == "close" {
				if sx.All(sx.Origins(cc.Args[0]), sx.IsFieldNamed("donech", sx.AnyOrigin)) {
					closers = append(closers, fnKey(f))
				}
			}
		})
	}
	l.Check(len(closers) == 1 && closers[0] == key, "C11-K5", "who-may-close/Correctable.donech", fn.Pos(), "only set closes donech", fmt.Sprintf("donech closed by %v", closers))
	// who may write the field: nobody after construction (Done() hands out the channel made with the call)
	var writers []string
	for _, f := range allFuncs(l.Prog, r.pkg) {
		sx.AllInstrs(f, func(_ sx.Node, in ssa.Instruction) {
			st, ok := in.(*ssa.Store)
			if !ok {
				return
			}
			if base, ok := fieldAddrOf(st.Addr, "donech"); ok && isNamed(base.Type(), core.RootModule, "Correctable") {
				if _, fresh := base.(*ssa.Alloc); !fresh {
					writers = append(writers, fnKey(f))
				}
			}
		})
	}
	l.Check(len(writers) == 0, "C11-K5", "who-may-write/Correctable.donech", fn.Pos(), "the completion channel is the one made at construction", fmt.Sprintf("the completion channel is (re)assigned after construction by %v: a Done() taken after the completion gets a channel nobody closes", writers))
}

func c11Watch(l *core.Ledger, r *rt) {
	fn := r.mustFn("C11-K7", "Correctable.Watch")
	if fn == nil {
		return
	}
	const key = "gorums.(Correctable).Watch"
	recv := fn.Params[0]
	var notDone []sx.Edge
	sx.AllInstrs(fn, func(_ sx.Node, in ssa.Instruction) {
		ifi, ok := in.(*ssa.If)
		if !ok {
			return
		}
		v, _ := condOf(ifi)
		if sx.All(sx.Origins(v), sx.IsFieldNamed("done", sx.IsParam(recv))) {
			notDone = append(notDone, edgeWhere(ifi, false))
		}
	})
	n := 0
	sx.AllInstrs(fn, func(node sx.Node, in ssa.Instruction) {
		st, ok := in.(*ssa.Store)
		if !ok {
			return
		}
		if _, is := isCorrField(st.Addr, "watchers"); !is {
			return
		}
		n++
		l.Check(edgesDominate(fn, notDone, node), "C11-K7", key, st.Pos(), "a watcher is registered only while the call is not done",
			"Watch appends a watcher without testing done: a Watch(l) issued after completion with l above the final level is never released (no further set happens)")
	})
	if n == 0 {
		l.Bad("C11-K7", key, fn.Pos(), "Watch never registers a watcher")
	}
	// immediate release only when level <= current level or done
	sx.AllInstrs(fn, func(node sx.Node, in ssa.Instruction) {
		c, ok := in.(*ssa.Call)
		if !ok {
			return
		}
		if b, ok := c.Call.Value.(*ssa.Builtin); !ok || b.Name() != "close" {
			return
		}
		// must be under 'level <= c.level' or done
		var okEdges []sx.Edge
		sx.AllInstrs(fn, func(_ sx.Node, in2 ssa.Instruction) {
			ifi, ok := in2.(*ssa.If)
			if !ok {
				return
			}
			v, pos := condOf(ifi)
			if sx.All(sx.Origins(v), sx.IsFieldNamed("done", sx.IsParam(recv))) {
				okEdges = append(okEdges, edgeWhere(ifi, true))
				return
			}
			bo, ok := v.(*ssa.BinOp)
			if !ok {
				return
			}
			isCur := func(x ssa.Value) bool { return sx.All(sx.Origins(x), sx.IsFieldNamed("level", sx.IsParam(recv))) }
			le := false
			switch {
			case bo.X == fn.Params[1] && isCur(bo.Y) && bo.Op == token.LEQ, bo.Y == fn.Params[1] && isCur(bo.X) && bo.Op == token.GEQ:
				le = true
			default:
				return
			}
			t, f := sx.CondEdges(ifi)
			if le == pos {
				okEdges = append(okEdges, t)
			} else {
				okEdges = append(okEdges, f)
			}
		})
		l.Check(edgesDominate(fn, okEdges, node), "C11-K6", key+"/immediate-release", c.Pos(), "released at once only if the level is already reached (or the call is done)", "Watch releases a watcher whose level has not been reached")
	})
}

func c11Locks(l *core.Ledger, r *rt) {
	guarded := []string{"reply", "level", "err", "done", "watchers"}
	n := 0
	for _, f := range allFuncs(l.Prog, r.pkg) {
		var ls *sx.LockState
		sx.AllInstrs(f, func(node sx.Node, in ssa.Instruction) {
			var addr ssa.Value
			write := false
			switch x := in.(type) {
			case *ssa.Store:
				addr, write = x.Addr, true
			case *ssa.UnOp:
				if x.Op == token.MUL {
					addr = x.X
				}
			}
			if addr == nil {
				return
			}
			name, is := isCorrField(addr, guarded...)
			if !is {
				return
			}
			// construction of a fresh literal is not shared yet
			if fa := addr.(*ssa.FieldAddr); func() bool { _, isAl := fa.X.(*ssa.Alloc); return isAl }() {
				return
			}
			n++
			if ls == nil {
				ls = sx.AnalyzeLocks(f)
			}
			held := ls.HeldAt(node)
			k := fmt.Sprintf("%s/Correctable.%s", fnKey(f), name)
			if !sx.Holds(held, "mu", true) {
				l.Bad("C11-K6", k, in.Pos(), fmt.Sprintf("Correctable.%s %s without holding Correctable.mu (held: %s)", name, map[bool]string{true: "written", false: "read"}[write], sx.HeldString(held)))
			} else {
				l.OK("C11-K6", k, in.Pos(), "under mu")
			}
		})
		if ls != nil && len(ls.Conflicts) > 0 {
			l.Unknown("C11-K6", fnKey(f)+"/lock-state", f.Pos(), "inconsistent lock state: "+ls.Conflicts[0])
		}
	}
	l.Floor("C11-K6", n, 10, "accesses to guarded Correctable fields")
	// state that is published through an atomic (a snapshot pointer read without the lock) must be
	// stored before anybody is released: who wakes up from Done() or a Watch channel reads it at once
	for _, f := range allFuncs(l.Prog, r.pkg) {
		if f.Signature.Recv() == nil || !isNamed(f.Signature.Recv().Type(), core.RootModule, "Correctable") {
			continue
		}
		var stores, closes []ssa.Instruction
		sx.AllInstrs(f, func(_ sx.Node, in ssa.Instruction) {
			c, ok := in.(*ssa.Call)
			if !ok {
				return
			}
			if b, isB := c.Call.Value.(*ssa.Builtin); isB && b.Name() == "close" {
				closes = append(closes, c)
				return
			}
			name := sx.StaticCalleeName(&c.Call)
			if sc := c.Call.StaticCallee(); sc != nil {
				name = sc.String()
			}
			if i := strings.LastIndex(name, ")."); i >= 0 {
				// an instantiated generic method: (*sync/atomic.Pointer[T]).Store[T]
				if j := strings.Index(name[i:], "["); j >= 0 {
					name = name[:i+j]
				}
			}
			if strings.Contains(name, "sync/atomic") && (strings.HasSuffix(name, ".Store") || strings.Contains(name, "atomic.Store") || strings.HasSuffix(name, ".Swap") || strings.HasSuffix(name, ".CompareAndSwap")) && len(c.Call.Args) > 0 {
				if fa, isFA := c.Call.Args[0].(*ssa.FieldAddr); isFA && isNamed(fa.X.Type(), core.RootModule, "Correctable") {
					stores = append(stores, c)
				}
			}
		})
		for i, s := range stores {
			late := false
			for _, c := range closes {
				if _, reach := sx.Reach(sx.NodeOf(c), sx.IsInstr(s), sx.Query{}); reach {
					late = true
				}
			}
			l.Check(!late, "C11-K6", fmt.Sprintf("%s/atomic-publication#%d", fnKey(f), i), s.Pos(), "the state is stored before anybody is released",
				"the Correctable's state is published through an atomic store that can come after the close of Done or of a Watch channel: a goroutine released by that close reads the state without the lock and still sees the old level and value - Watch(l) returns and Get shows a level below l, Done is closed and Get changes afterwards")
		}
	}
}
