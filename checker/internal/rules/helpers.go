package rules

import (
	"go/constant"
	"go/ast"
	"go/token"
	"go/types"
	"sort"
	"strings"

	"golang.org/x/tools/go/packages"
	"golang.org/x/tools/go/ssa"

	"verif/checker/internal/core"
	"verif/checker/internal/sx"
)

// rt is the view of the runtime package (github.com/relab/gorums) used by
// most rules.
type rt struct {
	l    *core.Ledger
	pkg  *packages.Package
	spkg *ssa.Package
}

func runtimePkg(l *core.Ledger) *rt {
	pk := l.Prog.Pkg("")
	if pk == nil {
		l.Unknown(l.Property+"-LOAD", "package "+core.RootModule, token.NoPos, "runtime package not loaded")
		return nil
	}
	return &rt{l: l, pkg: pk, spkg: l.Prog.SSAPkg(pk)}
}

// fn returns the SSA function for a package-level function or a method
// ("Recv.Name"); nil if it does not exist.
func (r *rt) fn(name string) *ssa.Function {
	return ssaFunc(r.l.Prog, r.pkg, name)
}

func ssaFunc(p *core.Program, pk *packages.Package, name string) *ssa.Function {
	prog := p.SSAProg()
	if i := strings.Index(name, "."); i >= 0 {
		tn, _ := pk.Types.Scope().Lookup(name[:i]).(*types.TypeName)
		if tn == nil {
			return nil
		}
		obj, _, _ := types.LookupFieldOrMethod(types.NewPointer(tn.Type()), true, pk.Types, name[i+1:])
		f, _ := obj.(*types.Func)
		if f == nil {
			return nil
		}
		return prog.FuncValue(f)
	}
	f, _ := pk.Types.Scope().Lookup(name).(*types.Func)
	if f == nil {
		return nil
	}
	return prog.FuncValue(f)
}

// mustFn resolves a function or records an undecided obligation.
func (r *rt) mustFn(rule, name string) *ssa.Function {
	f := r.fn(name)
	if f == nil || len(f.Blocks) == 0 {
		r.l.Unknown(rule, "anchor/"+name, token.NoPos, "anchor function "+name+" not found in package gorums (renamed or removed): the rule's subject cannot be located")
		return nil
	}
	return f
}

// allFuncs returns every source function of the package including methods
// and anonymous functions, in a deterministic order.
func allFuncs(p *core.Program, pk *packages.Package) []*ssa.Function {
	sp := p.SSAPkg(pk)
	if sp == nil {
		return nil
	}
	prog := p.SSAProg()
	var out []*ssa.Function
	seen := map[*ssa.Function]bool{}
	add := func(f *ssa.Function) {
		if f == nil || seen[f] || len(f.Blocks) == 0 {
			return
		}
		sx.WithAnon(f, func(g *ssa.Function) {
			if !seen[g] {
				seen[g] = true
				out = append(out, g)
			}
		})
	}
	for _, file := range pk.Syntax {
		for _, d := range file.Decls {
			fd, ok := d.(*ast.FuncDecl)
			if !ok {
				continue
			}
			obj, _ := pk.TypesInfo.Defs[fd.Name].(*types.Func)
			if obj == nil {
				continue
			}
			add(prog.FuncValue(obj))
		}
	}
	// package initialiser holds function literals assigned to package vars
	if init := sp.Func("init"); init != nil {
		add(init)
	}
	return out
}

// fnKey is the stable construct name of an SSA function.
func fnKey(f *ssa.Function) string {
	name := f.Name()
	if f.Parent() != nil {
		return fnKey(f.Parent()) + "/" + name[strings.LastIndex(name, "$")+1:]
	}
	if f.Signature.Recv() != nil {
		t := f.Signature.Recv().Type()
		if p, ok := t.(*types.Pointer); ok {
			t = p.Elem()
		}
		if n, ok := t.(*types.Named); ok {
			return pkgShort(n.Obj().Pkg()) + ".(" + n.Obj().Name() + ")." + name
		}
	}
	if f.Pkg != nil {
		return pkgShort(f.Pkg.Pkg) + "." + name
	}
	return name
}

func pkgShort(p *types.Package) string {
	if p == nil {
		return "?"
	}
	s := strings.TrimPrefix(strings.TrimPrefix(p.Path(), core.RootModule), "/")
	if s == "" {
		return "gorums"
	}
	return s
}

// isNamed reports whether t (possibly a pointer) is the named type pkg.name.
func isNamed(t types.Type, pkgPath, name string) bool {
	if p, ok := t.(*types.Pointer); ok {
		t = p.Elem()
	}
	n, ok := t.(*types.Named)
	if !ok {
		return false
	}
	return n.Obj().Name() == name && n.Obj().Pkg() != nil && n.Obj().Pkg().Path() == pkgPath
}

// calleeIs reports whether the call's static callee (or invoked interface
// method) has the given rendered name, see sx.StaticCalleeName.
func calleeIs(c *ssa.CallCommon, names ...string) bool {
	n := sx.StaticCalleeName(c)
	for _, x := range names {
		if n == x {
			return true
		}
	}
	return false
}

// methodCallOn matches a call (static or invoke) of method `name` whose
// receiver's type is the named type pkgPath.typ (value, pointer or interface).
func methodCallOn(c *ssa.CallCommon, pkgPath, typ, name string) (recv ssa.Value, ok bool) {
	if c.IsInvoke() {
		if c.Method.Name() == name && isNamed(c.Value.Type(), pkgPath, typ) {
			return c.Value, true
		}
		return nil, false
	}
	f := c.StaticCallee()
	if f == nil || f.Name() != name || f.Signature.Recv() == nil || len(c.Args) == 0 {
		return nil, false
	}
	if isNamed(f.Signature.Recv().Type(), pkgPath, typ) {
		return c.Args[0], true
	}
	return nil, false
}

// fieldAddrOf matches v == &base.<field> and returns base.
func fieldAddrOf(v ssa.Value, field string) (ssa.Value, bool) {
	fa, ok := v.(*ssa.FieldAddr)
	if !ok {
		return nil, false
	}
	f := fieldOf(fa.X.Type(), fa.Field)
	if f == nil || f.Name() != field {
		return nil, false
	}
	return fa.X, true
}

func fieldOf(t types.Type, i int) *types.Var {
	if p, ok := t.Underlying().(*types.Pointer); ok {
		t = p.Elem()
	}
	st, ok := t.Underlying().(*types.Struct)
	if !ok || i >= st.NumFields() {
		return nil
	}
	return st.Field(i)
}

// condOf normalises a branch condition through negations: it returns the
// underlying value and whether the If's true edge corresponds to the value
// being true.
func condOf(ifi *ssa.If) (ssa.Value, bool) {
	v := ifi.Cond
	pos := true
	for {
		u, ok := v.(*ssa.UnOp)
		if !ok || u.Op != token.NOT {
			return v, pos
		}
		v = u.X
		pos = !pos
	}
}

// edgeWhere returns the edge of ifi taken when the (normalised) condition
// value is `want`.
func edgeWhere(ifi *ssa.If, want bool) sx.Edge {
	_, pos := condOf(ifi)
	t, f := sx.CondEdges(ifi)
	if pos == want {
		return t
	}
	return f
}

// ifsOn returns all If instructions of fn whose normalised condition is v.
func ifsOn(fn *ssa.Function, v ssa.Value) []*ssa.If {
	var out []*ssa.If
	sx.AllInstrs(fn, func(_ sx.Node, in ssa.Instruction) {
		if i, ok := in.(*ssa.If); ok {
			if c, _ := condOf(i); c == v {
				out = append(out, i)
			}
		}
	})
	return out
}

// immutableOrigin reports whether an origin denotes a value that cannot
// change during one activation of the function: a parameter, a constant, or
// a field projected out of such a *struct value* (never through a pointer).
func immutableOrigin(o sx.Origin) bool {
	switch o.Kind {
	case sx.KParam, sx.KConst:
		return true
	case sx.KField:
		if len(o.Base) == 0 {
			return false
		}
		for _, b := range o.Base {
			if !immutableOrigin(b) {
				return false
			}
			var t types.Type
			switch b.Kind {
			case sx.KParam:
				t = b.V.Type()
			case sx.KField:
				if b.Field == nil {
					return false
				}
				t = b.Field.Type()
			default:
				return false
			}
			if _, isStruct := t.Underlying().(*types.Struct); !isStruct {
				return false
			}
		}
		return true
	}
	return false
}

// exprKey is a canonical rendering of a pure SSA expression; two values with
// the same key evaluate identically within one activation.
func exprKey(v ssa.Value) string {
	switch x := v.(type) {
	case *ssa.Const:
		return "k:" + x.String()
	case *ssa.BinOp:
		return "(" + exprKey(x.X) + x.Op.String() + exprKey(x.Y) + ")"
	case *ssa.UnOp:
		if x.Op == token.NOT || x.Op == token.SUB {
			return x.Op.String() + exprKey(x.X)
		}
	}
	os := sx.Origins(v)
	if sx.All(os, immutableOrigin) {
		return "o:" + sx.OriginsString(os)
	}
	return "v:" + v.Name()
}

// condClass is a sx.Query.CondClass implementation based on exprKey.
func condClass(ifi *ssa.If) (string, bool) {
	v, pos := condOf(ifi)
	return strings.NewReplacer(";", ",", "=", "~").Replace(exprKey(v)), pos
}

// loadsFieldOfParam reports whether v reads field `name` of a struct
// parameter, directly or through the parameter's spill slot (which may be
// re-assigned on some paths).
func loadsFieldOfParam(v ssa.Value, name string) bool {
	switch x := v.(type) {
	case *ssa.Field:
		f := fieldOf(x.X.Type(), x.Field)
		_, isP := x.X.(*ssa.Parameter)
		return f != nil && f.Name() == name && isP
	case *ssa.UnOp:
		if x.Op != token.MUL {
			return false
		}
		fa, ok := x.X.(*ssa.FieldAddr)
		if !ok {
			return false
		}
		f := fieldOf(fa.X.Type(), fa.Field)
		if f == nil || f.Name() != name {
			return false
		}
		al, ok := fa.X.(*ssa.Alloc)
		if !ok {
			return false
		}
		for _, ref := range *al.Referrers() {
			if st, ok := ref.(*ssa.Store); ok && st.Addr == ssa.Value(al) {
				if _, isP := st.Val.(*ssa.Parameter); isP {
					return true
				}
			}
		}
	}
	return false
}

// nilTestEdgesOn returns the edges taken when a value selected by pred
// (applied to the compared operand) is nil (want=false) or non-nil (want=true).
func nilTestEdgesOn(fn *ssa.Function, pred func(ssa.Value) bool, nonNil bool) []sx.Edge {
	var out []sx.Edge
	sx.AllInstrs(fn, func(_ sx.Node, in ssa.Instruction) {
		ifi, ok := in.(*ssa.If)
		if !ok {
			return
		}
		v, pos := condOf(ifi)
		b, ok := v.(*ssa.BinOp)
		if !ok || (b.Op != token.NEQ && b.Op != token.EQL) {
			return
		}
		x, y := b.X, b.Y
		if c, ok := x.(*ssa.Const); ok && c.IsNil() {
			x, y = y, x
		}
		c, ok := y.(*ssa.Const)
		if !ok || !c.IsNil() || !pred(x) {
			return
		}
		t, f := sx.CondEdges(ifi)
		trueMeansNonNil := (b.Op == token.NEQ) == pos
		if trueMeansNonNil == nonNil {
			out = append(out, t)
		} else {
			out = append(out, f)
		}
	})
	return out
}

// inPlaceLiteral: go/ssa may compile `x = T{…}` for an addressable x as a
// store of the zero value followed by field stores into x itself. Given the
// zero store, return the field stores that follow it in the same block.
func inPlaceLiteral(zero *ssa.Store) (map[string]ssa.Value, bool) {
	c, ok := zero.Val.(*ssa.Const)
	if !ok || c.Value != nil {
		return nil, false
	}
	al, ok := zero.Addr.(*ssa.Alloc)
	if !ok {
		return nil, false
	}
	fields := map[string]ssa.Value{}
	after := false
	for _, in := range zero.Block().Instrs {
		if in == ssa.Instruction(zero) {
			after = true
			continue
		}
		if !after {
			continue
		}
		st, ok := in.(*ssa.Store)
		if !ok {
			continue
		}
		if st.Addr == ssa.Value(al) {
			break // next whole assignment
		}
		if fa, ok := st.Addr.(*ssa.FieldAddr); ok && fa.X == ssa.Value(al) {
			fields[fieldOf(al.Type(), fa.Field).Name()] = st.Val
		}
	}
	return fields, true
}

func readFileWithOverlay(l *core.Ledger, fname string) ([]byte, error) { return l.Prog.ReadFile(fname) }

// flagOp classifies a call of a method of the runtime's atomicFlag type by
// what the method does, not by its name: "set" (stores non-zero), "clear"
// (stores zero), "get" (loads). A method storing a value computed from a
// boolean parameter is classified by the constant passed at the call.
func flagOp(cc *ssa.CallCommon) (op string, ok bool) {
	f := cc.StaticCallee()
	// the flag as an atomic.Bool field operated on directly
	if f != nil && f.Signature.Recv() != nil && isNamed(f.Signature.Recv().Type(), "sync/atomic", "Bool") && len(cc.Args) > 0 {
		switch f.Name() {
		case "Load":
			return "get", true
		case "Store":
			if len(cc.Args) == 2 {
				if k, isC := cc.Args[1].(*ssa.Const); isC && k.Value != nil && k.Value.Kind() == constant.Bool {
					if constant.BoolVal(k.Value) {
						return "set", true
					}
					return "clear", true
				}
			}
		}
		return "", false
	}
	if f == nil || f.Signature.Recv() == nil || !isNamed(f.Signature.Recv().Type(), core.RootModule, "atomicFlag") || len(cc.Args) == 0 {
		return "", false
	}
	stores, loads := 0, 0
	var stored ssa.Value
	sx.AllInstrs(f, func(_ sx.Node, in ssa.Instruction) {
		c := sx.CallOf(in)
		if c == nil {
			return
		}
		name := sx.StaticCalleeName(c)
		// methods of the typed atomics (atomic.Bool, atomic.Int32, ...) are the same operations:
		// sync/atomic.Bool.Store -> sync/atomic.Store
		if strings.HasPrefix(name, "sync/atomic.") {
			if rest := strings.TrimPrefix(name, "sync/atomic."); strings.Contains(rest, ".") {
				name = "sync/atomic." + rest[strings.Index(rest, ".")+1:]
			}
		}
		switch {
		case strings.HasPrefix(name, "sync/atomic.Store"), strings.HasPrefix(name, "sync/atomic.Swap"):
			stores++
			if len(c.Args) >= 2 {
				stored = c.Args[1]
			}
		case strings.HasPrefix(name, "sync/atomic.Load"):
			loads++
		case strings.HasPrefix(name, "sync/atomic.CompareAndSwap"):
			stores++
			if len(c.Args) >= 3 {
				stored = c.Args[2]
			}
		}
	})
	switch {
	case stores == 0 && loads > 0:
		return "get", true
	case stores == 1 && stored != nil:
		if k, isC := stored.(*ssa.Const); isC && k.Value != nil {
			if k.Value.Kind() == constant.Bool {
				if constant.BoolVal(k.Value) {
					return "set", true
				}
				return "clear", true
			}
			if constant.Sign(k.Value) == 0 {
				return "clear", true
			}
			return "set", true
		}
		// a value chosen by a boolean parameter: decided by the argument at this call
		if len(f.Params) == 2 && len(cc.Args) == 2 {
			if b, isB := f.Params[1].Type().Underlying().(*types.Basic); isB && b.Kind() == types.Bool {
				if k, isC := cc.Args[1].(*ssa.Const); isC && k.Value != nil {
					if constant.BoolVal(k.Value) {
						return "set", true
					}
					return "clear", true
				}
			}
		}
	}
	return "", false
}

// isFlagOp matches a call that performs op on the flag field named field.
func isFlagOp(cc *ssa.CallCommon, op, field string) bool {
	got, ok := flagOp(cc)
	if !ok || got != op {
		return false
	}
	_, is := fieldAddrOf(cc.Args[0], field)
	return is
}

// ssaPkgFuncs returns every function with a body that belongs to sp: package
// functions, methods of its named types, init, and all function literals.
var ssaPkgFuncsCache = map[*ssa.Package][]*ssa.Function{}

func ssaPkgFuncs(sp *ssa.Package) []*ssa.Function {
	if fs, ok := ssaPkgFuncsCache[sp]; ok {
		return fs
	}
	var out []*ssa.Function
	seen := map[*ssa.Function]bool{}
	add := func(f *ssa.Function) {
		if f == nil || seen[f] || len(f.Blocks) == 0 {
			return
		}
		sx.WithAnon(f, func(g *ssa.Function) {
			if !seen[g] {
				seen[g] = true
				out = append(out, g)
			}
		})
	}
	var names []string
	for n := range sp.Members {
		names = append(names, n)
	}
	sort.Strings(names)
	for _, n := range names {
		switch m := sp.Members[n].(type) {
		case *ssa.Function:
			add(m)
		case *ssa.Type:
			for _, t := range []types.Type{m.Type(), types.NewPointer(m.Type())} {
				ms := sp.Prog.MethodSets.MethodSet(t)
				for i := 0; i < ms.Len(); i++ {
					if f := sp.Prog.MethodValue(ms.At(i)); f != nil && f.Pkg == sp {
						add(f)
					}
				}
			}
		}
	}
	ssaPkgFuncsCache[sp] = out
	return out
}

// globalErrNonNil decides that a package-level error variable can never be
// nil: it is stored exactly once, by the package initialiser, with the result
// of a constructor that never returns nil (errors.New, fmt.Errorf,
// status.Error/Errorf with a constant code other than OK), and its address is
// used for nothing but loads.
func globalErrNonNil(g *ssa.Global) bool {
	if g == nil || g.Pkg == nil {
		return false
	}
	stores, good := 0, true
	for _, f := range ssaPkgFuncs(g.Pkg) {
		sx.AllInstrs(f, func(_ sx.Node, in ssa.Instruction) {
			for _, op := range in.Operands(nil) {
				if op == nil || *op != ssa.Value(g) {
					continue
				}
				switch x := in.(type) {
				case *ssa.UnOp:
					// load
				case *ssa.Store:
					if x.Addr != ssa.Value(g) {
						good = false
						return
					}
					stores++
					c, ok := x.Val.(*ssa.Call)
					if f.Name() != "init" || f.Parent() != nil || !ok {
						good = false
						return
					}
					switch {
					case calleeIs(&c.Call, "fmt.Errorf", "errors.New"):
					case calleeIs(&c.Call, "google.golang.org/grpc/status.Error", "google.golang.org/grpc/status.Errorf"):
						k, isC := c.Call.Args[0].(*ssa.Const)
						if !isC || k.Value == nil || constant.Sign(k.Value) == 0 {
							good = false
						}
					default:
						good = false
					}
				default:
					good = false
				}
			}
		})
	}
	return good && stores == 1
}
