package rules

import (
	"go/constant"
	"go/token"
	"go/types"

	"golang.org/x/tools/go/ssa"

	"verif/checker/internal/core"
	"verif/checker/internal/sx"
)

// entryPoint is one context-taking public call entry of the runtime:
// exported methods of RawConfiguration / *RawNode whose first parameter is a
// context.Context.
type entryPoint struct {
	fn       *ssa.Function
	key      string
	ctx      *ssa.Parameter
	data     *ssa.Parameter
	onConfig bool
	enqueues []*ssa.Call
	loop     *sendLoopInfo // nil for single-node entry points
}

type sendLoopInfo struct {
	head      *ssa.BasicBlock
	bodyEntry *ssa.BasicBlock
	exit      *ssa.BasicBlock
	paths     [][]*ssa.BasicBlock // acyclic block paths bodyEntry..last block before head
	nodeVal   ssa.Value           // the ranged node (*RawNode) of this iteration
	rangeOver ssa.Value
	nested    bool
}

func isEnqueue(c *ssa.CallCommon) bool {
	f := c.StaticCallee()
	if f == nil || f.Signature.Recv() == nil || !isNamed(f.Signature.Recv().Type(), core.RootModule, "channel") {
		return false
	}
	// role: the method of *channel taking (request, chan<- response, bool)
	p := f.Signature.Params()
	return p.Len() == 3 && isNamed(p.At(0).Type(), core.RootModule, "request") && isResponseChan(p.At(1).Type())
}

func findEntryPoints(l *core.Ledger, r *rt, rule string) []*entryPoint {
	var out []*entryPoint
	for _, f := range allFuncs(l.Prog, r.pkg) {
		if f.Parent() != nil || f.Object() == nil || !f.Object().Exported() || f.Signature.Recv() == nil {
			continue
		}
		recvT := f.Signature.Recv().Type()
		onCfg := isNamed(recvT, core.RootModule, "RawConfiguration")
		onNode := isNamed(recvT, core.RootModule, "RawNode")
		if !onCfg && !onNode {
			continue
		}
		if len(f.Params) < 3 || !isContextType(f.Params[1].Type()) {
			continue
		}
		ep := &entryPoint{fn: f, key: fnKey(f), ctx: f.Params[1], data: f.Params[2], onConfig: onCfg}
		sx.WithAnon(f, func(g *ssa.Function) {
			sx.AllInstrs(g, func(_ sx.Node, in ssa.Instruction) {
				if cc := sx.CallOf(in); cc != nil && isEnqueue(cc) {
					if c, ok := in.(*ssa.Call); ok && g == f {
						ep.enqueues = append(ep.enqueues, c)
					} else {
						l.Bad(rule, ep.key+"/enqueue-async", sx.PosOf(in), "the request is handed to the node queue from a go/defer statement or closure: issue order is no longer queue order")
					}
				}
			})
		})
		if onCfg {
			ep.loop = findSendLoop(ep)
		}
		out = append(out, ep)
	}
	return out
}

func findSendLoop(ep *entryPoint) *sendLoopInfo {
	var enq *ssa.Call
	for _, c := range ep.enqueues {
		if sx.InLoop(sx.NodeOf(c)) {
			enq = c
			break
		}
	}
	if enq == nil {
		return nil
	}
	// innermost loop head dominating the enqueue
	var head *ssa.BasicBlock
	for _, h := range sx.LoopHeads(ep.fn) {
		if !h.Dominates(enq.Block()) {
			continue
		}
		// enqueue must be able to get back to h
		if _, ok := sx.Reach(sx.NodeOf(enq), func(n sx.Node) bool { return n.B == h && n.I == 0 }, sx.Query{}); !ok {
			continue
		}
		if head == nil || head.Dominates(h) {
			head = h
		}
	}
	if head == nil {
		return nil
	}
	li := &sendLoopInfo{head: head}
	for _, s := range head.Succs {
		if _, ok := sx.Reach(sx.Node{B: s, I: -1}, sx.IsInstr(enq), sx.Query{BlockNode: func(n sx.Node) bool { return n.B == head }}); ok {
			li.bodyEntry = s
		} else {
			li.exit = s
		}
	}
	if li.bodyEntry == nil {
		return nil
	}
	// enumerate acyclic paths through the body
	var cur []*ssa.BasicBlock
	on := map[*ssa.BasicBlock]bool{}
	var walk func(b *ssa.BasicBlock)
	walk = func(b *ssa.BasicBlock) {
		if len(li.paths) > 256 {
			li.nested = true
			return
		}
		if b == head {
			li.paths = append(li.paths, append([]*ssa.BasicBlock{}, cur...))
			return
		}
		if on[b] {
			li.nested = true
			return
		}
		on[b] = true
		cur = append(cur, b)
		for _, s := range b.Succs {
			walk(s)
		}
		cur = cur[:len(cur)-1]
		on[b] = false
	}
	walk(li.bodyEntry)
	// the ranged node: receiver of enqueue is n.channel with n = c[i]
	if len(enq.Call.Args) > 0 {
		for _, o := range sx.Origins(enq.Call.Args[0]) {
			if o.Kind == sx.KField && len(o.Base) == 1 && o.Base[0].Kind == sx.KElem {
				if ia, ok := o.Base[0].V.(*ssa.IndexAddr); ok {
					li.rangeOver = ia.X
					for _, ref := range *ia.Referrers() {
						if u, ok := ref.(*ssa.UnOp); ok && u.Op == token.MUL {
							li.nodeVal = u
						}
					}
				}
			}
		}
	}
	return li
}

// counterDelta computes how the value flowing back into phi along a path
// differs from phi itself: it understands phi, phi±1, (phi±1)±1 ...
func counterDelta(v ssa.Value, phi *ssa.Phi, depth int) (int, bool) {
	if v == phi {
		return 0, true
	}
	if depth > 8 {
		return 0, false
	}
	switch x := v.(type) {
	case *ssa.BinOp:
		c, ok := x.Y.(*ssa.Const)
		if !ok || c.Value == nil || (x.Op != token.ADD && x.Op != token.SUB) {
			return 0, false
		}
		k, ok := constant.Int64Val(c.Value)
		if !ok {
			return 0, false
		}
		d, ok := counterDelta(x.X, phi, depth+1)
		if !ok {
			return 0, false
		}
		if x.Op == token.SUB {
			k = -k
		}
		return d + int(k), true
	case *ssa.Phi:
		// an inner join: all edges must agree
		first := true
		var d0 int
		for _, e := range x.Edges {
			d, ok := counterDelta(e, phi, depth+1)
			if !ok {
				return 0, false
			}
			if first {
				d0, first = d, false
			} else if d != d0 {
				return 0, false
			}
		}
		return d0, !first
	}
	return 0, false
}

// pathDelta evaluates the change of counter phi along one body path.
func pathDelta(li *sendLoopInfo, phi *ssa.Phi, path []*ssa.BasicBlock) (int, bool) {
	last := path[len(path)-1]
	for i, p := range li.head.Preds {
		if p == last {
			v := phi.Edges[i]
			// resolve inner phis along this particular path
			return counterDeltaOnPath(v, phi, path, 0)
		}
	}
	return 0, false
}

func counterDeltaOnPath(v ssa.Value, phi *ssa.Phi, path []*ssa.BasicBlock, depth int) (int, bool) {
	if v == phi {
		return 0, true
	}
	if depth > 12 {
		return 0, false
	}
	switch x := v.(type) {
	case *ssa.BinOp:
		c, ok := x.Y.(*ssa.Const)
		if !ok || c.Value == nil || (x.Op != token.ADD && x.Op != token.SUB) {
			return 0, false
		}
		k, ok := constant.Int64Val(c.Value)
		if !ok {
			return 0, false
		}
		d, ok := counterDeltaOnPath(x.X, phi, path, depth+1)
		if !ok {
			return 0, false
		}
		if x.Op == token.SUB {
			k = -k
		}
		return d + int(k), true
	case *ssa.Phi:
		// pick the edge coming from the predecessor that is on the path
		blk := x.Block()
		idx := -1
		for i, b := range path {
			if b == blk {
				idx = i
			}
		}
		if idx <= 0 {
			return 0, false
		}
		prev := path[idx-1]
		for i, p := range blk.Preds {
			if p == prev {
				return counterDeltaOnPath(x.Edges[i], phi, path, depth+1)
			}
		}
		return 0, false
	}
	return 0, false
}

// intPhis returns the int-typed phis at the loop head other than the range
// index (the one compared with the length in the head's own branch).
func counterPhis(li *sendLoopInfo) []*ssa.Phi {
	var out []*ssa.Phi
	for _, in := range li.head.Instrs {
		ph, ok := in.(*ssa.Phi)
		if !ok {
			break
		}
		b, ok := ph.Type().Underlying().(*types.Basic)
		if !ok || b.Kind() != types.Int {
			continue
		}
		if ph.Comment == "rangeindex" {
			continue
		}
		out = append(out, ph)
	}
	return out
}

// phiEntryEdge returns the value flowing into phi from outside the loop.
func phiEntryEdge(li *sendLoopInfo, ph *ssa.Phi) ssa.Value {
	for i, p := range li.head.Preds {
		if !li.head.Dominates(p) {
			return ph.Edges[i]
		}
	}
	return nil
}

func countEnqueues(ep *entryPoint, path []*ssa.BasicBlock) int {
	n := 0
	for _, b := range path {
		for _, c := range ep.enqueues {
			if c.Block() == b {
				n++
			}
		}
	}
	return n
}

// skipEdges returns the edges taken when the per-node function's result is
// not a valid message: the false edge of If(msg.ProtoReflect().IsValid())
// where msg is the result of the call through the PerNodeArgFn slot.
func skipEdges(ep *entryPoint) (edges []sx.Edge, perNodeCalls []*ssa.Call) {
	sx.AllInstrs(ep.fn, func(_ sx.Node, in ssa.Instruction) {
		c, ok := in.(*ssa.Call)
		if !ok || c.Call.IsInvoke() || c.Call.StaticCallee() != nil {
			return
		}
		if _, isB := c.Call.Value.(*ssa.Builtin); isB {
			return
		}
		if sx.All(sx.Origins(c.Call.Value), func(o sx.Origin) bool {
			return o.Kind == sx.KField && o.Field != nil && o.Field.Name() == "PerNodeArgFn"
		}) {
			perNodeCalls = append(perNodeCalls, c)
		}
	})
	sx.AllInstrs(ep.fn, func(_ sx.Node, in ssa.Instruction) {
		ifi, ok := in.(*ssa.If)
		if !ok {
			return
		}
		v, _ := condOf(ifi)
		c, ok := v.(*ssa.Call)
		if !ok || !c.Call.IsInvoke() || c.Call.Method.Name() != "IsValid" {
			return
		}
		// receiver: X.ProtoReflect() with X = a per-node call result
		pr, ok := c.Call.Value.(*ssa.Call)
		if !ok || !pr.Call.IsInvoke() || pr.Call.Method.Name() != "ProtoReflect" {
			return
		}
		for _, pc := range perNodeCalls {
			if pr.Call.Value == pc {
				edges = append(edges, edgeWhere(ifi, false))
			}
		}
	})
	// an untyped nil result is "no message" as well: the nil edge of a comparison of the per-node
	// result with nil (the validity test stays necessary: validEdges)
	sx.AllInstrs(ep.fn, func(_ sx.Node, in ssa.Instruction) {
		ifi, ok := in.(*ssa.If)
		if !ok {
			return
		}
		v, pos := condOf(ifi)
		b, ok := v.(*ssa.BinOp)
		if !ok || (b.Op != token.EQL && b.Op != token.NEQ) {
			return
		}
		x, y := b.X, b.Y
		if k, isK := x.(*ssa.Const); isK && k.IsNil() {
			x, y = y, x
		}
		if k, isK := y.(*ssa.Const); !isK || !k.IsNil() {
			return
		}
		for _, pc := range perNodeCalls {
			if x == ssa.Value(pc) {
				t, f := sx.CondEdges(ifi)
				if !pos {
					t, f = f, t
				}
				if b.Op == token.EQL {
					edges = append(edges, t)
				} else {
					edges = append(edges, f)
				}
			}
		}
	})
	return
}

// validEdges: the edges on which the per-node result was seen to be a valid message.
func validEdges(ep *entryPoint) (edges []sx.Edge, perNodeBlocks map[*ssa.BasicBlock]bool) {
	_, perNodeCalls := skipEdges(ep)
	perNodeBlocks = map[*ssa.BasicBlock]bool{}
	for _, pc := range perNodeCalls {
		perNodeBlocks[pc.Block()] = true
	}
	sx.AllInstrs(ep.fn, func(_ sx.Node, in ssa.Instruction) {
		ifi, ok := in.(*ssa.If)
		if !ok {
			return
		}
		v, _ := condOf(ifi)
		c, ok := v.(*ssa.Call)
		if !ok || !c.Call.IsInvoke() || c.Call.Method.Name() != "IsValid" {
			return
		}
		pr, ok := c.Call.Value.(*ssa.Call)
		if !ok || !pr.Call.IsInvoke() || pr.Call.Method.Name() != "ProtoReflect" {
			return
		}
		for _, pc := range perNodeCalls {
			if pr.Call.Value == pc {
				edges = append(edges, edgeWhere(ifi, true))
			}
		}
	})
	return
}

func pathUsesEdge(path []*ssa.BasicBlock, head *ssa.BasicBlock, es []sx.Edge) bool {
	for i, b := range path {
		next := head
		if i+1 < len(path) {
			next = path[i+1]
		}
		for _, e := range es {
			if e.From == b && e.To == next {
				return true
			}
		}
	}
	return false
}
