package rules

import (
	"fmt"
	"go/ast"
	"go/constant"
	"go/token"
	"go/types"
	"sort"
	"strings"

	"golang.org/x/tools/go/ssa"

	"verif/checker/internal/core"
	"verif/checker/internal/sx"
)

func init() {
	register("C19", Entry{
		Title: "Node sorters order by their keys",
		Run:   runC19,
		Meta: core.PropertyMeta{
			Explanation: "S1: every package-level sort key of the sorter's func type is lifted from the AST into a decision over abstract projections of its two arguments and checked exhaustively (3 elements over a 3-valued ordered / 2-valued boolean abstract domain) for irreflexivity, asymmetry, transitivity and transitivity of incomparability, i.e. that it is a strict weak order usable in any position. S2: MultiSorter.Less is checked on SSA to return true exactly under less(p,q), false exactly under less(q,p) inside the loop over all keys but the last (induction variable from 0 by 1, bound len-1), and the last key's less(p,q) after it, with p,q the i-th and j-th element of the sorted slice. S3: Sort stores its argument before calling sort.Sort on the receiver, Swap exchanges exactly elements i and j, Len is the slice length, nothing else writes the slice. S7: the empty key sequence is handled (the final comparison is reached only when there is a key; Less answers false otherwise).",
			NotDecided:  "sort.Sort itself (trusted); OrderedBy() with no key; user-defined keys.",
			Trusted:     append([]string{"sort.Sort sorts by the Less/Swap/Len it is given"}, commonTrust...),
		},
	})
}

func runC19(l *core.Ledger) {
	r := runtimePkg(l)
	if r == nil {
		return
	}
	l.Rule("C19-S1", "each provided sort key (package-level var of the sorter's less-func type) is a strict weak order: irreflexive, asymmetric, transitive, incomparability transitive — decided exhaustively over the abstract domain of the projections it compares")
	l.Rule("C19-S4", "the provided keys order by what their names promise: ID and Port increasing over an integer projection (the port number, not its text), LastNodeError nodes without an error first")
	l.Rule("C19-S2", "MultiSorter.Less combines the keys lexicographically: returns true on less(p,q), false on less(q,p) for all keys but the last in order from key 0, and the last key's less(p,q) otherwise; p,q = elements i,j of the slice being sorted")
	l.Rule("C19-S7", "the empty key sequence is handled: the final comparison ms.less[k] of Less is dominated by the not-empty edge of a test of len(ms.less), and on the empty edge Less answers false")
	l.Rule("C19-S3", "Sort stores its argument and calls sort.Sort on the receiver; Swap exchanges exactly elements i and j; Len is the length of that slice; no other function writes MultiSorter.nodes")
	l.Rule("C19-S5", "what the keys project is what the node is: RawNode.Port (the Port key's projection) returns the port that net.SplitHostPort gives for the node's address (or a field filled from it / from the resolved TCP address); the LastNodeError key orders by the documented LastErr() status: its projection is LastErr() itself or the expression LastErr() returns")
	l.Rule("C19-S6", "the provided keys are total over nodes built through the public constructors: a node has no channel before it is added to a manager and under WithNoConnect, so every use of a node's channel pointer reachable from a key (as a receiver or for a field) is dominated by a nil test of it")
	c19S1(l, r)
	c19S2(l, r)
	c19S3(l, r)
	c19S10(l, r)
	c19S5(l, r)
	c19S6(l, r)
	c19S8S9(l, r)
}

// ---------------------------------------------------------------- S1

type keyDef struct {
	name string
	lit  *ast.FuncLit
	pos  token.Pos
}

// sortKeys finds package-level variables initialised with a function literal
// of type func(*RawNode, *RawNode) bool.
func sortKeys(r *rt) []keyDef {
	var out []keyDef
	for _, f := range r.pkg.Syntax {
		for _, d := range f.Decls {
			gd, ok := d.(*ast.GenDecl)
			if !ok || gd.Tok != token.VAR {
				continue
			}
			for _, sp := range gd.Specs {
				vs := sp.(*ast.ValueSpec)
				for i, n := range vs.Names {
					if i >= len(vs.Values) {
						continue
					}
					lit, ok := vs.Values[i].(*ast.FuncLit)
					if !ok {
						continue
					}
					sig, ok := r.pkg.TypesInfo.TypeOf(lit).(*types.Signature)
					if !ok || sig.Params().Len() != 2 || sig.Results().Len() != 1 {
						continue
					}
					if !isNamed(sig.Params().At(0).Type(), core.RootModule, "RawNode") || !isNamed(sig.Params().At(1).Type(), core.RootModule, "RawNode") {
						continue
					}
					if b, ok := sig.Results().At(0).Type().Underlying().(*types.Basic); !ok || b.Kind() != types.Bool {
						continue
					}
					out = append(out, keyDef{n.Name, lit, n.Pos()})
				}
			}
		}
	}
	sort.Slice(out, func(i, j int) bool { return out[i].name < out[j].name })
	return out
}

// oneReturnHelpers: package-level functions with one named parameter and a
// body that is a single return of one expression.
func oneReturnHelpers(r *rt) map[types.Object]*ast.FuncDecl {
	out := map[types.Object]*ast.FuncDecl{}
	for _, f := range r.pkg.Syntax {
		for _, d := range f.Decls {
			fd, ok := d.(*ast.FuncDecl)
			if !ok || fd.Recv != nil || fd.Body == nil || len(fd.Body.List) != 1 || fd.Type.Params == nil || len(fd.Type.Params.List) != 1 || len(fd.Type.Params.List[0].Names) != 1 {
				continue
			}
			if ret, isRet := fd.Body.List[0].(*ast.ReturnStmt); isRet && len(ret.Results) == 1 {
				out[r.pkg.TypesInfo.Defs[fd.Name]] = fd
			}
		}
	}
	return out
}

// A projection is an expression over exactly one of the two parameters,
// canonicalised with the parameter spelled "_".
type projKind int

const (
	projOrdered projKind = iota // compared with < <= > >=
	projNil                     // compared with nil
)

type keyModel struct {
	info   *types.Info
	p1, p2 types.Object
	locals map[types.Object]*projRef // locals defined from a projection
	projs  map[string]projKind
	ordTyp map[string]types.Type // type of the operands of an ordered comparison, per projection
	err    error
	decls  map[types.Object]*ast.FuncDecl // one-parameter helpers of the package whose body is a single return (rendered through)
}

type projRef struct {
	param int // 1 or 2
	canon string
}

func (m *keyModel) fail(format string, a ...any) {
	if m.err == nil {
		m.err = fmt.Errorf(format, a...)
	}
}

// proj tries to see e as a projection of one parameter.
func (m *keyModel) proj(e ast.Expr) *projRef {
	used := map[int]bool{}
	bad := false
	subst := map[types.Object]string{}
	depth := 0
	var render func(ast.Expr) string
	render = func(e ast.Expr) string {
		switch x := e.(type) {
		case *ast.ParenExpr:
			return render(x.X)
		case *ast.Ident:
			obj := m.info.Uses[x]
			if obj == nil {
				obj = m.info.Defs[x]
			}
			if s, ok := subst[obj]; ok {
				return s
			}
			switch {
			case obj == m.p1:
				used[1] = true
				return "_"
			case obj == m.p2:
				used[2] = true
				return "_"
			}
			if pr, ok := m.locals[obj]; ok {
				used[pr.param] = true
				return "(" + pr.canon + ")"
			}
			if _, isVar := obj.(*types.Var); isVar && obj.Parent() != obj.Pkg().Scope() {
				bad = true // some other local
			}
			if obj != nil && obj.Pkg() != nil {
				return obj.Pkg().Name() + "." + x.Name
			}
			return x.Name
		case *ast.SelectorExpr:
			if id, ok := x.X.(*ast.Ident); ok {
				if _, isPkg := m.info.Uses[id].(*types.PkgName); isPkg {
					return id.Name + "." + x.Sel.Name
				}
			}
			return render(x.X) + "." + x.Sel.Name
		case *ast.CallExpr:
			if tv, ok := m.info.Types[x.Fun]; ok && tv.IsType() && len(x.Args) == 1 {
				return render(x.Args[0]) // a conversion does not change which projection this is
			}
			// a one-parameter helper whose body is a single return: the projection is its body
			// (so that an inlined and a called occurrence of one helper are one projection)
			if id, isID := x.Fun.(*ast.Ident); isID && len(x.Args) == 1 && depth < 3 {
				if fd := m.decls[m.info.Uses[id]]; fd != nil {
					if ret, isRet := fd.Body.List[0].(*ast.ReturnStmt); isRet && len(ret.Results) == 1 {
						pobj := m.info.Defs[fd.Type.Params.List[0].Names[0]]
						arg := render(x.Args[0])
						old, had := subst[pobj]
						subst[pobj] = arg
						depth++
						out := render(ret.Results[0])
						depth--
						if had {
							subst[pobj] = old
						} else {
							delete(subst, pobj)
						}
						return "(" + out + ")"
					}
				}
			}
			var args []string
			for _, a := range x.Args {
				args = append(args, render(a))
			}
			return render(x.Fun) + "(" + strings.Join(args, ",") + ")"
		case *ast.BasicLit:
			return x.Value
		case *ast.StarExpr:
			return "*" + render(x.X)
		case *ast.UnaryExpr:
			return x.Op.String() + render(x.X)
		case *ast.IndexExpr:
			return render(x.X) + "[" + render(x.Index) + "]"
		case *ast.BinaryExpr:
			// a nil test of a projection is a (boolean) projection: the body of an inlined predicate helper
			if x.Op == token.EQL || x.Op == token.NEQ {
				if isNilIdent(m.info, x.Y) {
					return "(" + render(x.X) + x.Op.String() + "nil)"
				}
				if isNilIdent(m.info, x.X) {
					return "(" + render(x.Y) + x.Op.String() + "nil)"
				}
			}
		}
		bad = true
		return "?"
	}
	s := canonParens(render(e))
	if bad || len(used) != 1 {
		return nil
	}
	for p := range used {
		return &projRef{p, s}
	}
	return nil
}

// canonParens removes grouping parentheses that do not change the reading of a
// rendered projection: a pair around the whole string, around another pair, or
// around a plain selector chain. Call parentheses (preceded by a name) stay.
func canonParens(s string) string {
	for {
		match := map[int]int{}
		var st []int
		for i, c := range s {
			switch c {
			case '(':
				st = append(st, i)
			case ')':
				if len(st) > 0 {
					match[st[len(st)-1]] = i
					st = st[:len(st)-1]
				}
			}
		}
		isName := func(c byte) bool {
			return c == '_' || c == '.' || c >= '0' && c <= '9' || c >= 'a' && c <= 'z' || c >= 'A' && c <= 'Z' || c == ']'
		}
		drop := -1
		for i, j := range match {
			if i > 0 && (isName(s[i-1]) || s[i-1] == ')') {
				continue // call parentheses
			}
			inner := s[i+1 : j]
			plain := inner != ""
			for k := 0; k < len(inner); k++ {
				if !isName(inner[k]) {
					plain = false
				}
			}
			if (i == 0 && j == len(s)-1) || plain || (match[i+1] == j-1 && s[i+1] == '(') {
				if drop < 0 || i < drop {
					drop = i
				}
			}
		}
		if drop < 0 {
			return s
		}
		j := match[drop]
		s = s[:drop] + s[drop+1:j] + s[j+1:]
	}
}

// abstract state of one element: value per projection
type absElem map[string]int

// eval interprets the key body for elements a (n1) and b (n2).
type keyEval struct {
	m    *keyModel
	a, b absElem
	brk  string // label of a pending break
}

func (ev *keyEval) val(pr *projRef) int {
	if pr.param == 1 {
		return ev.a[pr.canon]
	}
	return ev.b[pr.canon]
}

func isNilIdent(info *types.Info, e ast.Expr) bool {
	id, ok := ast.Unparen(e).(*ast.Ident)
	if !ok {
		return false
	}
	_, isNil := info.Uses[id].(*types.Nil)
	return isNil
}

func (ev *keyEval) expr(e ast.Expr) (bool, bool) {
	m := ev.m
	switch x := e.(type) {
	case *ast.ParenExpr:
		return ev.expr(x.X)
	case *ast.Ident:
		if tv, ok := m.info.Types[x]; ok && tv.Value != nil && tv.Value.Kind() == constant.Bool {
			return constant.BoolVal(tv.Value), true
		}
	case *ast.UnaryExpr:
		if x.Op == token.NOT {
			v, ok := ev.expr(x.X)
			return !v, ok
		}
	case *ast.BinaryExpr:
		switch x.Op {
		case token.LAND:
			l, ok1 := ev.expr(x.X)
			rr, ok2 := ev.expr(x.Y)
			return l && rr, ok1 && ok2
		case token.LOR:
			l, ok1 := ev.expr(x.X)
			rr, ok2 := ev.expr(x.Y)
			return l || rr, ok1 && ok2
		case token.LSS, token.GTR, token.LEQ, token.GEQ, token.EQL, token.NEQ:
			// nil test?
			if isNilIdent(m.info, x.Y) || isNilIdent(m.info, x.X) {
				other := x.X
				if isNilIdent(m.info, x.X) {
					other = x.Y
				}
				pr := m.proj(other)
				if pr == nil || (x.Op != token.EQL && x.Op != token.NEQ) {
					m.fail("nil comparison of a non-projection %s", types.ExprString(e))
					return false, false
				}
				if pr.canon == "_" {
					// a nil test of the node itself: the keys order nodes, and the slices the
					// property speaks about hold nodes (S6 decides totality over constructed nodes)
					return x.Op == token.NEQ, true
				}
				m.note(pr.canon, projNil)
				isNil := ev.val(pr) == 0
				if x.Op == token.EQL {
					return isNil, true
				}
				return !isNil, true
			}
			lp, rp := m.proj(x.X), m.proj(x.Y)
			if lp == nil || rp == nil || lp.canon != rp.canon {
				m.fail("comparison %s is not 'same projection on both sides'", types.ExprString(e))
				return false, false
			}
			m.note(lp.canon, projOrdered)
			if m.ordTyp != nil {
				m.ordTyp[lp.canon] = m.info.TypeOf(x.X)
			}
			a, b := ev.val(lp), ev.val(rp)
			switch x.Op {
			case token.LSS:
				return a < b, true
			case token.GTR:
				return a > b, true
			case token.LEQ:
				return a <= b, true
			case token.GEQ:
				return a >= b, true
			case token.EQL:
				return a == b, true
			default:
				return a != b, true
			}
		}
	}
	// a boolean projection of one parameter used as a condition (a predicate helper: n.failed())
	if t := m.info.TypeOf(e); t != nil {
		if b, isB := t.Underlying().(*types.Basic); isB && b.Kind() == types.Bool {
			if pr := m.proj(e); pr != nil {
				m.note(pr.canon, projNil)
				return ev.val(pr) != 0, true
			}
		}
	}
	m.fail("unsupported expression form %s", types.ExprString(e))
	return false, false
}

func (m *keyModel) note(canon string, k projKind) {
	if old, ok := m.projs[canon]; ok && old != k {
		// a projection used both ways: treat as ordered with nil = smallest
		if k == projOrdered {
			m.projs[canon] = projOrdered
		}
		return
	}
	m.projs[canon] = k
}

// stmts interprets a statement list; returns (result, returned, ok).
// assign binds locals to projections (pairwise, or one tuple-valued source).
func (ev *keyEval) assign(lhs, rhs []ast.Expr) bool {
	m := ev.m
	if len(rhs) != 1 && len(rhs) != len(lhs) {
		m.fail("unsupported assignment")
		return false
	}
	for i, l := range lhs {
		id, ok := l.(*ast.Ident)
		if !ok {
			m.fail("unsupported assignment target")
			return false
		}
		if id.Name == "_" {
			continue
		}
		src := rhs[0]
		if len(rhs) > 1 {
			src = rhs[i]
		}
		pr := m.proj(src)
		if pr == nil {
			m.fail("assignment from a non-projection: %s", types.ExprString(src))
			return false
		}
		obj := m.info.Defs[id]
		if obj == nil {
			obj = m.info.Uses[id]
		}
		canon := pr.canon
		if len(rhs) == 1 && len(lhs) > 1 {
			canon = fmt.Sprintf("%s#%d", pr.canon, i)
		}
		m.locals[obj] = &projRef{pr.param, canon}
	}
	return true
}

func (ev *keyEval) stmts(list []ast.Stmt) (bool, bool, bool) {
	m := ev.m
	for _, s := range list {
		if ev.brk != "" {
			return false, false, true
		}
		switch x := s.(type) {
		case *ast.ReturnStmt:
			if len(x.Results) != 1 {
				m.fail("return with %d results", len(x.Results))
				return false, true, false
			}
			v, ok := ev.expr(x.Results[0])
			return v, true, ok
		case *ast.IfStmt:
			if x.Init != nil {
				if _, _, ok := ev.stmts([]ast.Stmt{x.Init}); !ok {
					return false, false, false
				}
			}
			c, ok := ev.expr(x.Cond)
			if !ok {
				return false, false, false
			}
			if c {
				v, ret, ok := ev.stmts(x.Body.List)
				if !ok || ret {
					return v, ret, ok
				}
			} else if x.Else != nil {
				var v, ret, ok bool
				switch e := x.Else.(type) {
				case *ast.BlockStmt:
					v, ret, ok = ev.stmts(e.List)
				default:
					v, ret, ok = ev.stmts([]ast.Stmt{e})
				}
				if !ok || ret {
					return v, ret, ok
				}
			}
		case *ast.AssignStmt:
			if !ev.assign(x.Lhs, x.Rhs) {
				return false, false, false
			}
		case *ast.DeclStmt:
			gd, isGen := x.Decl.(*ast.GenDecl)
			if !isGen || gd.Tok != token.VAR {
				m.fail("unsupported declaration")
				return false, false, false
			}
			for _, sp := range gd.Specs {
				vs := sp.(*ast.ValueSpec)
				if len(vs.Values) == 0 {
					continue // zero value; assigned later
				}
				var lhs []ast.Expr
				for _, nm := range vs.Names {
					lhs = append(lhs, nm)
				}
				if !ev.assign(lhs, vs.Values) {
					return false, false, false
				}
			}
		case *ast.LabeledStmt:
			// the normaliser's single-iteration wrapper: L: for { body; break L }
			fs, isFor := x.Stmt.(*ast.ForStmt)
			if !isFor || fs.Cond != nil || fs.Init != nil || fs.Post != nil {
				m.fail("unsupported labelled statement")
				return false, false, false
			}
			v, ret, ok := ev.stmts(fs.Body.List)
			if !ok || ret {
				return v, ret, ok
			}
			if ev.brk != x.Label.Name {
				m.fail("labelled loop that does not end in a break of its own label")
				return false, false, false
			}
			ev.brk = ""
		case *ast.BranchStmt:
			if x.Tok != token.BREAK || x.Label == nil {
				m.fail("unsupported branch statement")
				return false, false, false
			}
			ev.brk = x.Label.Name
			return false, false, true
		case *ast.EmptyStmt:
		case *ast.BlockStmt:
			v, ret, ok := ev.stmts(x.List)
			if !ok || ret {
				return v, ret, ok
			}
		default:
			m.fail("unsupported statement %T", s)
			return false, false, false
		}
	}
	return false, false, true
}

// c19PortField decides whether a field of RawNode holds the node's port number:
// every composite literal of RawNode stores into it a value that depends on the
// Port of a resolved net.TCPAddr or on a number parsed from text.
var c19PortField func(field string) (bool, string)

func c19InitPortField(l *core.Ledger, r *rt) {
	c19PortField = func(field string) (bool, string) {
		nlit := 0
		for _, f := range allFuncs(l.Prog, r.pkg) {
			var lits []*ssa.Alloc
			sx.AllInstrs(f, func(_ sx.Node, in ssa.Instruction) {
				if al, ok := in.(*ssa.Alloc); ok && isNamed(al.Type(), core.RootModule, "RawNode") && al.Heap {
					lits = append(lits, al)
				}
			})
			for _, al := range lits {
				nlit++
				var val ssa.Value
				for _, ref := range *al.Referrers() {
					if fa, ok := ref.(*ssa.FieldAddr); ok {
						if fl := fieldOf(fa.X.Type(), fa.Field); fl != nil && fl.Name() == field {
							for _, r2 := range *fa.Referrers() {
								if st, ok := r2.(*ssa.Store); ok && st.Addr == ssa.Value(fa) {
									val = st.Val
								}
							}
						}
					}
				}
				if val == nil {
					return false, fnKey(f) + " builds a node without filling it"
				}
				okDep := false
				seen := map[ssa.Value]bool{}
				var walk func(v ssa.Value, d int)
				walk = func(v ssa.Value, d int) {
					if v == nil || seen[v] || d > 40 {
						return
					}
					seen[v] = true
					switch x := v.(type) {
					case *ssa.FieldAddr:
						if fl := fieldOf(x.X.Type(), x.Field); fl != nil && fl.Name() == "Port" && isNamed(x.X.Type(), "net", "TCPAddr") {
							okDep = true
						}
					case *ssa.Field:
						if fl := fieldOf(x.X.Type(), x.Field); fl != nil && fl.Name() == "Port" && isNamed(x.X.Type(), "net", "TCPAddr") {
							okDep = true
						}
					case *ssa.Call:
						name := sx.StaticCalleeName(&x.Call)
						if strings.HasPrefix(name, "strconv.") {
							okDep = true
						}
					}
					if in, ok := v.(ssa.Instruction); ok {
						for _, op := range in.Operands(nil) {
							if op != nil && *op != nil {
								walk(*op, d+1)
							}
						}
					}
				}
				walk(val, 0)
				if !okDep {
					return false, fnKey(f) + " fills it with a value that does not come from the port of the resolved address"
				}
			}
		}
		if nlit == 0 {
			return false, "no place that builds a node was found"
		}
		return true, ""
	}
}

func c19S1(l *core.Ledger, r *rt) {
	c19InitPortField(l, r)
	keys := sortKeys(r)
	if !l.Floor("C19-S1", len(keys), 3, "provided sort keys (ID, Port, LastNodeError)") {
		return
	}
	for _, k := range keys {
		construct := "gorums." + k.name
		sig := r.pkg.TypesInfo.TypeOf(k.lit).(*types.Signature)
		_ = sig
		var p1, p2 types.Object
		var names []*ast.Ident
		for _, f := range k.lit.Type.Params.List {
			names = append(names, f.Names...)
		}
		if len(names) != 2 {
			l.Unknown("C19-S1", construct, k.pos, "key does not name both parameters")
			continue
		}
		p1, p2 = r.pkg.TypesInfo.Defs[names[0]], r.pkg.TypesInfo.Defs[names[1]]
		// pass 1: discover projections with a dummy evaluation over all-zero state
		m := &keyModel{info: r.pkg.TypesInfo, p1: p1, p2: p2, locals: map[types.Object]*projRef{}, projs: map[string]projKind{}, ordTyp: map[string]types.Type{}, decls: oneReturnHelpers(r)}
		// discovery needs to traverse all branches: evaluate over a small set of states repeatedly until stable
		call := func(a, b absElem) (bool, bool) {
			ev := &keyEval{m: m, a: a, b: b}
			v, ret, ok := ev.stmts(k.lit.Body.List)
			if ok && !ret {
				m.fail("function body can fall off the end")
				return false, false
			}
			return v, ok
		}
		var states []absElem
		for iter := 0; iter < 4; iter++ {
			states = enumStates(m.projs)
			n := len(m.projs)
			for _, a := range states {
				for _, b := range states {
					call(a, b)
				}
			}
			if len(m.projs) == n {
				break
			}
		}
		if m.err != nil {
			l.Unknown("C19-S1", construct, k.pos, "key body is not a decision over 'same projection of n1 and n2': "+m.err.Error())
			continue
		}
		states = enumStates(m.projs)
		less := func(a, b absElem) bool { v, _ := call(a, b); return v }
		var bad []string
		evals := 0
		for _, a := range states {
			evals++
			if less(a, a) {
				bad = append(bad, fmt.Sprintf("not irreflexive: less(x,x)=true for x=%v", a))
				break
			}
		}
	outer:
		for _, a := range states {
			for _, b := range states {
				evals++
				if less(a, b) && less(b, a) {
					bad = append(bad, fmt.Sprintf("not asymmetric: less(x,y) and less(y,x) for x=%v y=%v", a, b))
					break outer
				}
			}
		}
	outer2:
		for _, a := range states {
			for _, b := range states {
				for _, c := range states {
					evals++
					if less(a, b) && less(b, c) && !less(a, c) {
						bad = append(bad, fmt.Sprintf("not transitive: x=%v y=%v z=%v", a, b, c))
						break outer2
					}
					inc := func(x, y absElem) bool { return !less(x, y) && !less(y, x) }
					if inc(a, b) && inc(b, c) && !inc(a, c) {
						bad = append(bad, fmt.Sprintf("incomparability not transitive: x=%v y=%v z=%v", a, b, c))
						break outer2
					}
				}
			}
		}
		var pnames []string
		for p := range m.projs {
			pnames = append(pnames, p)
		}
		sort.Strings(pnames)
		detail := fmt.Sprintf("projections %v; %d abstract states; %d evaluations", pnames, len(states), evals)
		if len(m.projs) == 0 {
			l.Bad("C19-S1", construct, k.pos, "key compares nothing (constant result): "+strings.Join(bad, "; "))
			continue
		}
		l.Check(len(bad) == 0, "C19-S1", construct, k.pos, "strict weak order over "+detail, "not a strict weak order ("+strings.Join(bad, "; ")+"); "+detail)
		if len(bad) == 0 {
			c19S4(l, k, m, states, less)
		}
	}
}

// c19S4: the three provided keys order by what their names and documentation
// promise. The table is fixed: ID and Port are increasing orders over an
// integer projection (Port's over the port *number*: the textual port of
// differently wide ports orders "10000" before "443"), LastNodeError puts
// nodes without an error first. Keys not in the table carry no obligation.
func c19S4(l *core.Ledger, k keyDef, m *keyModel, states []absElem, less func(a, b absElem) bool) {
	want, ok := map[string]string{"ID": "int", "Port": "int", "LastNodeError": "nil-first"}[k.name]
	if !ok {
		return
	}
	construct := "gorums." + k.name
	if len(m.projs) != 1 {
		// a key that also looks at something else never reports a tie on its own criterion:
		// in OrderedBy(k, later...) the later keys are never consulted for nodes equal under k
		var ps []string
		for c := range m.projs {
			ps = append(ps, c)
		}
		sort.Strings(ps)
		l.Bad("C19-S4", construct, k.pos, fmt.Sprintf("the %s key compares more than its own criterion (%v): nodes that are equal under %s are ordered by the key itself instead of by the keys that follow it", k.name, ps, k.name))
		return
	}
	var canon string
	var kind projKind
	for c, kd := range m.projs {
		canon, kind = c, kd
	}
	// direction: the element with the smaller projection comes first
	dirOK := true
	for _, a := range states {
		for _, b := range states {
			if a[canon] < b[canon] && !less(a, b) {
				dirOK = false
			}
		}
	}
	switch want {
	case "int":
		t := m.ordTyp[canon]
		isInt := false
		if t != nil {
			if b, ok := t.Underlying().(*types.Basic); ok && b.Info()&types.IsInteger != 0 {
				isInt = true
			}
		}
		if kind != projOrdered || !isInt {
			ts := "?"
			if t != nil {
				ts = t.String()
			}
			l.Bad("C19-S4", construct, k.pos, fmt.Sprintf("the %s key must order by a number, but compares %s of type %s (text order differs from numeric order as soon as two values differ in width)", k.name, canon, ts))
			return
		}
		if k.name == "Port" && !strings.Contains(canon, "Port") && !strings.Contains(strings.ToLower(canon), "addr") {
			// a field of the node that caches the port number: every place that builds a node must fill it
			// from the port of the resolved address
			if strings.HasPrefix(canon, "_.") && c19PortField != nil {
				if ok, why := c19PortField(strings.TrimPrefix(canon, "_.")); ok {
					l.Check(dirOK, "C19-S4", construct, k.pos, "increasing order over the node's field "+canon+", which every constructor fills from the port of the resolved address", "the "+k.name+" key is documented as increasing, but a node with the smaller "+canon+" is not ordered first")
				} else {
					l.Bad("C19-S4", construct, k.pos, "the Port key compares the node's field "+canon+", and "+why+": such nodes all compare equal (port 0) while Port() reports their real port")
				}
				return
			}
			l.Bad("C19-S4", construct, k.pos, "the Port key does not look at the node's port: compares "+canon)
			return
		}
		l.Check(dirOK, "C19-S4", construct, k.pos, "increasing order over the integer "+canon, "the "+k.name+" key is documented as increasing, but a node with the smaller "+canon+" is not ordered first")
	case "nil-first":
		if kind != projNil {
			l.Bad("C19-S4", construct, k.pos, "LastNodeError must separate nodes without an error from nodes with one; it compares "+canon+" as an ordered value")
			return
		}
		l.Check(dirOK, "C19-S4", construct, k.pos, "nodes without error first ("+canon+")", "LastNodeError is documented to put nodes without an error first, but orders them last")
	}
}

func enumStates(projs map[string]projKind) []absElem {
	var names []string
	for p := range projs {
		names = append(names, p)
	}
	sort.Strings(names)
	states := []absElem{{}}
	for _, n := range names {
		k := 3
		if projs[n] == projNil {
			k = 2
		}
		var next []absElem
		for _, s := range states {
			for v := 0; v < k; v++ {
				c := absElem{}
				for kk, vv := range s {
					c[kk] = vv
				}
				c[n] = v
				next = append(next, c)
			}
		}
		states = next
	}
	return states
}

// ---------------------------------------------------------------- S2

func c19S2(l *core.Ledger, r *rt) {
	fn := r.mustFn("C19-S2", "MultiSorter.Less")
	if fn == nil {
		return
	}
	const key = "gorums.(MultiSorter).Less"
	ms, pi, pj := fn.Params[0], fn.Params[1], fn.Params[2]
	isNodesElem := func(idx ssa.Value) func(sx.Origin) bool {
		return func(o sx.Origin) bool {
			if o.Kind != sx.KElem {
				return false
			}
			ia, ok := o.V.(*ssa.IndexAddr)
			if !ok || !sx.All(sx.Origins(ia.Index), sx.IsParam(idx)) {
				return false
			}
			return sx.All(o.Base, sx.IsFieldNamed("nodes", sx.IsParam(ms)))
		}
	}
	isP, isQ := isNodesElem(pi), isNodesElem(pj)
	type lcall struct {
		c   *ssa.Call
		fwd bool
		idx ssa.Value
	}
	var calls []lcall
	sx.AllInstrs(fn, func(_ sx.Node, in ssa.Instruction) {
		c, ok := in.(*ssa.Call)
		if !ok || c.Call.IsInvoke() || c.Call.StaticCallee() != nil {
			return
		}
		if _, isB := c.Call.Value.(*ssa.Builtin); isB {
			return
		}
		// callee must be an element of ms.less
		os := sx.Origins(c.Call.Value)
		var idx ssa.Value
		okCallee := sx.All(os, func(o sx.Origin) bool {
			if o.Kind != sx.KElem || !sx.All(o.Base, sx.IsFieldNamed("less", sx.IsParam(ms))) {
				return false
			}
			if ia, ok := o.V.(*ssa.IndexAddr); ok {
				idx = ia.Index
			}
			return true
		})
		if !okCallee || len(c.Call.Args) != 2 {
			l.Bad("C19-S2", key+"/call", c.Pos(), "dynamic call whose callee is not an element of ms.less: "+sx.OriginsString(os))
			return
		}
		a0, a1 := sx.Origins(c.Call.Args[0]), sx.Origins(c.Call.Args[1])
		switch {
		case sx.All(a0, isP) && sx.All(a1, isQ):
			calls = append(calls, lcall{c, true, idx})
		case sx.All(a0, isQ) && sx.All(a1, isP):
			calls = append(calls, lcall{c, false, idx})
		default:
			l.Bad("C19-S2", key+"/args", c.Pos(), fmt.Sprintf("key called with arguments other than (nodes[i], nodes[j]) or (nodes[j], nodes[i]): %s, %s", sx.OriginsString(a0), sx.OriginsString(a1)))
		}
	})
	if len(calls) == 2 && c19S2AllKeysForm(l, fn, ms, key, calls[0].c, calls[0].fwd, calls[0].idx, calls[1].c, calls[1].fwd, calls[1].idx) {
		return
	}
	if len(calls) < 3 {
		l.Bad("C19-S2", key+"/shape", fn.Pos(), fmt.Sprintf("expected key calls less(p,q), less(q,p) in the loop and a final less(p,q); found %d key calls", len(calls)))
		return
	}
	find := func(v ssa.Value) *lcall {
		for i := range calls {
			if calls[i].c == v {
				return &calls[i]
			}
		}
		return nil
	}
	nret := 0
	okAll := true
	// the empty key sequence: OrderedBy is variadic, so OrderedBy() is a legal call. With no
	// keys every pair of nodes is equal: Less answers false before it touches ms.less[k]
	var emptyEdges, nonEmptyEdges []sx.Edge
	sx.AllInstrs(fn, func(_ sx.Node, in ssa.Instruction) {
		ifi, ok := in.(*ssa.If)
		if !ok {
			return
		}
		v, pos := condOf(ifi)
		b, ok := v.(*ssa.BinOp)
		if !ok {
			return
		}
		call, isCall := b.X.(*ssa.Call)
		k, isConst := b.Y.(*ssa.Const)
		if !isCall || !isConst || k.Value == nil {
			return
		}
		bi, isB := call.Call.Value.(*ssa.Builtin)
		if !isB || bi.Name() != "len" || !sx.All(sx.Origins(call.Call.Args[0]), sx.IsFieldNamed("less", sx.IsParam(ms))) {
			return
		}
		kv, exact := constant.Int64Val(constant.ToInt(k.Value))
		if !exact {
			return
		}
		emptyWhenTrue, known := false, true
		switch {
		case b.Op == token.EQL && kv == 0, b.Op == token.LSS && kv == 1, b.Op == token.LEQ && kv == 0:
			emptyWhenTrue = true
		case b.Op == token.NEQ && kv == 0, b.Op == token.GTR && kv == 0, b.Op == token.GEQ && kv == 1:
			emptyWhenTrue = false
		default:
			known = false
		}
		if !known {
			return
		}
		t, f := sx.CondEdges(ifi)
		if !pos {
			t, f = f, t
		}
		if emptyWhenTrue {
			emptyEdges, nonEmptyEdges = append(emptyEdges, t), append(nonEmptyEdges, f)
		} else {
			emptyEdges, nonEmptyEdges = append(emptyEdges, f), append(nonEmptyEdges, t)
		}
	})
	for _, c := range calls {
		if sx.InLoop(sx.NodeOf(c.c)) {
			continue // k < len(less)-1 implies a key exists
		}
		l.Check(edgesDominate(fn, nonEmptyEdges, sx.NodeOf(c.c)), "C19-S7", key+"/no-keys", c.c.Pos(), "the final comparison ms.less[k] is reached only when there is a key", "with no keys (OrderedBy() - the function is variadic) the loop does not run and the final comparison indexes the empty key slice: Sort panics for every slice of two or more nodes instead of leaving them in some order")
	}
	sx.AllInstrs(fn, func(n sx.Node, in ssa.Instruction) {
		ret, ok := in.(*ssa.Return)
		if !ok {
			return
		}
		nret++
		if len(emptyEdges) > 0 && edgesDominate(fn, emptyEdges, n) {
			if k, isK := ret.Results[0].(*ssa.Const); isK && k.Value != nil && !constant.BoolVal(k.Value) {
				return // no keys: all nodes are equal
			}
			okAll = false
			l.Bad("C19-S2", key+"/no-keys", ret.Pos(), "with no keys Less must answer false (all nodes are equal); it answers something else")
			return
		}
		os := sx.Origins(ret.Results[0])
		for _, o := range os {
			switch {
			case o.Kind == sx.KConst:
				want := constant.BoolVal(o.V.(*ssa.Const).Value)
				// must be dominated by the true edge of an If on a fwd (want=true) / rev (want=false) key call
				found := false
				for _, c := range calls {
					if c.fwd != want {
						continue
					}
					for _, ifi := range ifsOn(fn, c.c) {
						if sx.EdgeDominates(fn, edgeWhere(ifi, true), n) && sx.InLoop(sx.NodeOf(c.c)) {
							found = true
						}
					}
				}
				if !found {
					okAll = false
					dir := "less(p,q)"
					if !want {
						dir = "less(q,p)"
					}
					l.Bad("C19-S2", key+"/return-"+fmt.Sprint(want), ret.Pos(), "return "+fmt.Sprint(want)+" is not guarded by the true edge of "+dir+" inside the key loop")
				}
			case o.Kind == sx.KCall && find(o.V) != nil:
				c := find(o.V)
				if !c.fwd {
					okAll = false
					l.Bad("C19-S2", key+"/final", ret.Pos(), "final comparison is less(q,p), expected less(p,q)")
				}
				if sx.InLoop(sx.NodeOf(c.c)) {
					okAll = false
					l.Bad("C19-S2", key+"/final", ret.Pos(), "the result of a key call inside the loop is returned directly")
				}
			default:
				okAll = false
				l.Bad("C19-S2", key+"/return", ret.Pos(), "return value is neither a constant guarded by a key comparison nor the last key's comparison: "+o.String())
			}
		}
	})
	// induction variable: in-loop key index is a phi {0, k+1}, loop test k < len(less)-1
	var loopIdx *ssa.Phi
	for _, c := range calls {
		if sx.InLoop(sx.NodeOf(c.c)) {
			if ph, ok := c.idx.(*ssa.Phi); ok {
				loopIdx = ph
			} else {
				okAll = false
				l.Bad("C19-S2", key+"/index", c.c.Pos(), "in-loop key index is not the loop's induction variable")
			}
		}
	}
	if loopIdx != nil {
		startsAtZero, stepsByOne := false, false
		for _, e := range loopIdx.Edges {
			switch x := e.(type) {
			case *ssa.Const:
				if x.Value != nil && constant.Compare(x.Value, token.EQL, constant.MakeInt64(0)) {
					startsAtZero = true
				}
			case *ssa.BinOp:
				if c, ok := x.Y.(*ssa.Const); ok && x.Op == token.ADD && x.X == loopIdx && c.Value != nil && constant.Compare(c.Value, token.EQL, constant.MakeInt64(1)) {
					stepsByOne = true
				}
			}
		}
		boundOK := false
		sx.AllInstrs(fn, func(_ sx.Node, in ssa.Instruction) {
			ifi, ok := in.(*ssa.If)
			if !ok {
				return
			}
			bx, bop, by, ok := sx.LoopCondition(ifi, loopIdx)
			if !ok || bop != token.LSS || bx != ssa.Value(loopIdx) {
				return
			}
			// Y must be len(ms.less) - 1
			sub, ok := by.(*ssa.BinOp)
			if !ok || sub.Op != token.SUB {
				return
			}
			c, ok := sub.Y.(*ssa.Const)
			if !ok || c.Value == nil || !constant.Compare(c.Value, token.EQL, constant.MakeInt64(1)) {
				return
			}
			if call, ok := sub.X.(*ssa.Call); ok {
				if bi, ok := call.Call.Value.(*ssa.Builtin); ok && bi.Name() == "len" && sx.All(sx.Origins(call.Call.Args[0]), sx.IsFieldNamed("less", sx.IsParam(ms))) {
					boundOK = true
				}
			}
		})
		if !l.Check(startsAtZero && stepsByOne && boundOK, "C19-S2", key+"/loop", loopIdx.Pos(),
			"key loop runs k = 0,1,… while k < len(less)-1", fmt.Sprintf("key loop does not enumerate all keys but the last in order (starts at 0: %v, step +1: %v, bound k < len(less)-1: %v)", startsAtZero, stepsByOne, boundOK)) {
			okAll = false
		}
		// the final call must use the same induction variable (k after the loop)
		for _, c := range calls {
			if !sx.InLoop(sx.NodeOf(c.c)) && c.idx != loopIdx {
				okAll = false
				l.Bad("C19-S2", key+"/final-index", c.c.Pos(), "the final comparison does not use the key index the loop stopped at")
			}
		}
	} else {
		okAll = false
		l.Bad("C19-S2", key+"/loop", fn.Pos(), "no loop over the keys found")
	}
	if okAll {
		l.OK("C19-S2", key, fn.Pos(), fmt.Sprintf("%d key call sites, %d returns classified", len(calls), nret))
	}
}

// c19S2AllKeysForm decides the other spelling of the same combination: one loop
// over *all* keys in order from key 0 (a range over ms.less, or k = 0,1,... while
// k < len(ms.less)), returning true on less(p,q) and false on less(q,p), and
// false after the loop. It agrees with "all but the last, then the last key's
// less(p,q)": after the last key said neither, less(p,q) is false.
func c19S2AllKeysForm(l *core.Ledger, fn *ssa.Function, ms *ssa.Parameter, key string, c1 *ssa.Call, fwd1 bool, idx1 ssa.Value, c2 *ssa.Call, fwd2 bool, idx2 ssa.Value) bool {
	if fwd1 == fwd2 || !sx.InLoop(sx.NodeOf(c1)) || !sx.InLoop(sx.NodeOf(c2)) || idx1 != idx2 {
		return false
	}
	fwd, rev := c1, c2
	if !fwd1 {
		fwd, rev = c2, c1
	}
	// the index: a phi {0, k+1} bounded by len(ms.less)
	ph, ok := idx1.(*ssa.Phi)
	if !ok {
		// a range over the slice indexes with the range's own induction variable (k+1 of a phi from -1)
		if b, isB := idx1.(*ssa.BinOp); isB && b.Op == token.ADD {
			ph, ok = b.X.(*ssa.Phi)
		}
		if !ok {
			return false
		}
	}
	startOK, stepOK := false, false
	for _, e := range ph.Edges {
		switch x := e.(type) {
		case *ssa.Const:
			if x.Value != nil && (constant.Compare(x.Value, token.EQL, constant.MakeInt64(0)) && ssa.Value(ph) == idx1 || constant.Compare(x.Value, token.EQL, constant.MakeInt64(-1)) && ssa.Value(ph) != idx1) {
				startOK = true
			}
		case *ssa.BinOp:
			if c, isC := x.Y.(*ssa.Const); isC && x.Op == token.ADD && x.X == ssa.Value(ph) && c.Value != nil && constant.Compare(c.Value, token.EQL, constant.MakeInt64(1)) {
				stepOK = true
			}
		}
	}
	boundOK := false
	sx.AllInstrs(fn, func(_ sx.Node, in ssa.Instruction) {
		b, isB := in.(*ssa.BinOp)
		if !isB || b.Op != token.LSS {
			return
		}
		if b.X != idx1 && b.X != ssa.Value(ph) {
			if inc, isInc := b.X.(*ssa.BinOp); !isInc || inc.X != ssa.Value(ph) {
				return
			}
		}
		if call, isCall := b.Y.(*ssa.Call); isCall {
			if bi, isBI := call.Call.Value.(*ssa.Builtin); isBI && bi.Name() == "len" && sx.All(sx.Origins(call.Call.Args[0]), sx.IsFieldNamed("less", sx.IsParam(ms))) {
				boundOK = true
			}
		}
	})
	if !startOK || !stepOK || !boundOK {
		return false
	}
	// returns: true under fwd's true edge, false under rev's true edge, false everywhere else - and
	// the forward comparison is asked first
	okRet := true
	nret := 0
	sx.AllInstrs(fn, func(n sx.Node, in ssa.Instruction) {
		ret, isRet := in.(*ssa.Return)
		if !isRet {
			return
		}
		nret++
		k, isK := ret.Results[0].(*ssa.Const)
		if !isK || k.Value == nil {
			okRet = false
			return
		}
		underFwd, underRev := false, false
		for _, ifi := range ifsOn(fn, fwd) {
			if sx.EdgeDominates(fn, edgeWhere(ifi, true), n) {
				underFwd = true
			}
		}
		for _, ifi := range ifsOn(fn, rev) {
			if sx.EdgeDominates(fn, edgeWhere(ifi, true), n) {
				underRev = true
			}
		}
		switch {
		case constant.BoolVal(k.Value):
			if !underFwd {
				okRet = false
			}
		case underFwd:
			okRet = false // answers false although p < q under this key
		}
		_ = underRev
	})
	// rev is asked only after fwd said no
	revAfterFwd := false
	for _, ifi := range ifsOn(fn, fwd) {
		if sx.EdgeDominates(fn, edgeWhere(ifi, false), sx.NodeOf(rev)) {
			revAfterFwd = true
		}
	}
	// and a "not less, not greater" verdict moves on to the next key: from rev's false edge the loop continues
	if !okRet || !revAfterFwd || nret < 2 {
		return false
	}
	// on rev's true edge the answer is false at once (not "continue with the next key")
	decided := false
	for _, ifi := range ifsOn(fn, rev) {
		e := edgeWhere(ifi, true)
		if _, again := sx.Reach(sx.Node{B: e.To, I: -1}, func(x sx.Node) bool { return x.Instr() == ssa.Instruction(fwd) }, sx.Query{}); !again {
			decided = true
		}
	}
	if !decided {
		return false
	}
	l.OK("C19-S2", key, fn.Pos(), "all keys in one loop from key 0: true on less(p,q), false on less(q,p), false when every key says equal")
	return true
}

// ---------------------------------------------------------------- S3

// c19S10: a key list built from closures made in a loop. Under the loop-variable
// semantics of Go < 1.22 (the module's go directive decides) the variable of a
// range/for loop is one variable for all iterations: closures that capture it
// and outlive their iteration all see the last value.
func c19S10(l *core.Ledger, r *rt) {
	l.Rule("C19-S10", "the sorter's key list holds the keys it was given, in order: a function that fills MultiSorter.less with function literals made in a loop gives each literal variables of its own (no literal captures a variable that is allocated once outside the loop and overwritten by later iterations - which is what a loop variable is when the module's go directive is below 1.22)")
	n := 0
	for _, f := range allFuncs(l.Prog, r.pkg) {
		writesLess := false
		sx.AllInstrs(f, func(_ sx.Node, in ssa.Instruction) {
			if st, ok := in.(*ssa.Store); ok {
				if base, ok := fieldAddrOf(st.Addr, "less"); ok && isNamed(base.Type(), core.RootModule, "MultiSorter") {
					writesLess = true
				}
			}
		})
		if !writesLess {
			continue
		}
		n++
		bad := ""
		var pos token.Pos = f.Pos()
		sx.AllInstrs(f, func(nd sx.Node, in ssa.Instruction) {
			mc, ok := in.(*ssa.MakeClosure)
			if !ok || !sx.InLoop(nd) {
				return
			}
			for _, b := range mc.Bindings {
				al, ok := b.(*ssa.Alloc)
				if !ok || sx.InLoop(sx.NodeOf(al)) {
					continue
				}
				for _, ref := range *al.Referrers() {
					if st, ok := ref.(*ssa.Store); ok && st.Addr == ssa.Value(al) && sx.InLoop(sx.NodeOf(st)) {
						bad = al.Comment
						pos = mc.Pos()
					}
				}
			}
		})
		l.Check(bad == "", "C19-S10", fnKey(f)+"/key-closures", pos, "no key wrapper shares a loop variable",
			"the function literals stored as the sorter's keys capture the variable '"+bad+"', which is allocated once and overwritten by every iteration (the module's go directive selects the pre-1.22 loop-variable semantics): every wrapper calls the last key, OrderedBy(k1, ..., kn) orders by kn alone and ties under kn are never broken by the other keys")
	}
	l.Floor("C19-S10", n, 1, "functions that fill MultiSorter.less")
}

func c19S3(l *core.Ledger, r *rt) {
	// who may write MultiSorter.nodes
	var writers []string
	for _, f := range allFuncs(l.Prog, r.pkg) {
		sx.AllInstrs(f, func(_ sx.Node, in ssa.Instruction) {
			st, ok := in.(*ssa.Store)
			if !ok {
				return
			}
			if base, ok := fieldAddrOf(st.Addr, "nodes"); ok && isNamed(base.Type(), core.RootModule, "MultiSorter") {
				writers = append(writers, fnKey(f))
			}
		})
	}
	sort.Strings(writers)
	l.Check(len(writers) == 1 && writers[0] == "gorums.(MultiSorter).Sort", "C19-S3", "who-may-write/MultiSorter.nodes", token.NoPos,
		"only Sort assigns the slice", fmt.Sprintf("MultiSorter.nodes is assigned by %v; expected only Sort", writers))

	// the key list is what OrderedBy was given, for every Sort: only the constructor assigns it, nobody
	// stores into its elements, and nobody builds another slice on its backing array (x[:0], append)
	var lessWriters []string
	for _, f := range allFuncs(l.Prog, r.pkg) {
		f := f
		sx.AllInstrs(f, func(_ sx.Node, in ssa.Instruction) {
			isLess := func(v ssa.Value) bool {
				return sx.Any(sx.Origins(v), func(o sx.Origin) bool {
					return o.Kind == sx.KField && o.Field != nil && o.Field.Name() == "less" && o.Field.Pkg() != nil && o.Field.Pkg().Path() == core.RootModule
				})
			}
			switch x := in.(type) {
			case *ssa.Store:
				if base, ok := fieldAddrOf(x.Addr, "less"); ok && isNamed(base.Type(), core.RootModule, "MultiSorter") {
					if _, fresh := base.(*ssa.Alloc); !fresh {
						lessWriters = append(lessWriters, fnKey(f)+" assigns the field")
					}
				}
				if ia, ok := x.Addr.(*ssa.IndexAddr); ok && isLess(ia.X) {
					lessWriters = append(lessWriters, fnKey(f)+" stores into an element")
				}
			case *ssa.Slice:
				if isLess(x.X) && x.High != nil {
					if c, isC := x.High.(*ssa.Const); isC && c.Value != nil && c.Value.String() == "0" {
						lessWriters = append(lessWriters, fnKey(f)+" re-uses the backing array (less[:0])")
					}
				}
			case *ssa.Call:
				if b, isB := x.Call.Value.(*ssa.Builtin); isB && b.Name() == "append" && len(x.Call.Args) > 0 && isLess(x.Call.Args[0]) {
					lessWriters = append(lessWriters, fnKey(f)+" appends to it")
				}
			}
		})
	}
	sort.Strings(lessWriters)
	l.Check(len(lessWriters) == 0, "C19-S3", "who-may-write/MultiSorter.less", token.NoPos, "the key list is only set at construction and never written through", fmt.Sprintf("the sorter's key list is modified after construction (%v): a later Sort with the same sorter no longer orders by the keys OrderedBy was given", lessWriters))

	if fn := r.mustFn("C19-S3", "MultiSorter.Sort"); fn != nil {
		const key = "gorums.(MultiSorter).Sort"
		ms, arg := fn.Params[0], fn.Params[1]
		var store *ssa.Store
		var call *ssa.Call
		sx.AllInstrs(fn, func(_ sx.Node, in ssa.Instruction) {
			switch x := in.(type) {
			case *ssa.Store:
				if base, ok := fieldAddrOf(x.Addr, "nodes"); ok && base == ms && sx.All(sx.Origins(x.Val), sx.IsParam(arg)) {
					store = x
				}
			case *ssa.Call:
				if calleeIs(&x.Call, "sort.Sort", "sort.Stable") && sx.All(sx.Origins(x.Call.Args[0]), sx.IsParam(ms)) {
					call = x
				}
			}
		})
		switch {
		case store == nil:
			l.Bad("C19-S3", key, fn.Pos(), "Sort does not store its argument slice in the receiver")
		case call == nil:
			// one pass per key is only lexicographic when every pass is stable
			var unstable *ssa.Call
			sx.WithAnon(fn, func(f *ssa.Function) {
				sx.AllInstrs(f, func(n sx.Node, in ssa.Instruction) {
					if c, ok := in.(*ssa.Call); ok && calleeIs(&c.Call, "sort.Slice", "slices.SortFunc", "sort.Sort") && sx.InLoop(n) {
						unstable = c
					}
				})
			})
			if unstable != nil {
				l.Bad("C19-S3", key, unstable.Pos(), "Sort makes one pass per key with "+sx.StaticCalleeName(&unstable.Call)+", which is not stable: the pass for an earlier key scrambles the order the later keys established among its ties")
			} else {
				l.Unknown("C19-S3", key, fn.Pos(), "Sort neither calls sort.Sort/sort.Stable on the receiver nor uses a form this rule knows")
			}
		case !sx.InstrDominates(fn, store, sx.NodeOf(call)):
			l.Bad("C19-S3", key, call.Pos(), "sort.Sort is reachable before the argument slice is stored")
		default:
			l.OK("C19-S3", key, fn.Pos(), "stores the argument, then sort.Sort(receiver)")
		}
	}
	if fn := r.mustFn("C19-S3", "MultiSorter.Len"); fn != nil {
		const key = "gorums.(MultiSorter).Len"
		ok := true
		n := 0
		sx.AllInstrs(fn, func(_ sx.Node, in ssa.Instruction) {
			ret, isRet := in.(*ssa.Return)
			if !isRet {
				return
			}
			n++
			c, isCall := ret.Results[0].(*ssa.Call)
			if !isCall {
				ok = false
				return
			}
			bi, isB := c.Call.Value.(*ssa.Builtin)
			if !isB || bi.Name() != "len" || !sx.All(sx.Origins(c.Call.Args[0]), sx.IsFieldNamed("nodes", sx.IsParam(fn.Params[0]))) {
				ok = false
			}
		})
		l.Check(ok && n > 0, "C19-S3", key, fn.Pos(), "returns len(ms.nodes)", "Len does not return len(ms.nodes) on every path")
	}
	if fn := r.mustFn("C19-S3", "MultiSorter.Swap"); fn != nil {
		const key = "gorums.(MultiSorter).Swap"
		ms, pi, pj := fn.Params[0], fn.Params[1], fn.Params[2]
		which := func(addr ssa.Value) int {
			ia, ok := addr.(*ssa.IndexAddr)
			if !ok || !sx.All(sx.Origins(ia.X), sx.IsFieldNamed("nodes", sx.IsParam(ms))) {
				return 0
			}
			switch {
			case sx.All(sx.Origins(ia.Index), sx.IsParam(pi)):
				return 1
			case sx.All(sx.Origins(ia.Index), sx.IsParam(pj)):
				return 2
			}
			return 0
		}
		var stores []*ssa.Store
		sx.AllInstrs(fn, func(_ sx.Node, in ssa.Instruction) {
			if st, ok := in.(*ssa.Store); ok {
				stores = append(stores, st)
			}
		})
		good := len(stores) == 2 && len(fn.Blocks) == 1
		var seen [3]bool
		if good {
			firstStore := sx.NodeOf(stores[0]).I
			if i := sx.NodeOf(stores[1]).I; i < firstStore {
				firstStore = i
			}
			for _, st := range stores {
				dst := which(st.Addr)
				ld, ok := st.Val.(*ssa.UnOp)
				if dst == 0 || !ok || ld.Op != token.MUL {
					good = false
					break
				}
				src := which(ld.X)
				if src == 0 || src == dst || sx.NodeOf(ld).I > firstStore {
					good = false
					break
				}
				seen[dst] = true
			}
			good = good && seen[1] && seen[2]
		}
		l.Check(good, "C19-S3", key, fn.Pos(), "exchanges nodes[i] and nodes[j] (both loads precede both stores)", "Swap is not exactly the exchange of elements i and j of ms.nodes")
	}
}

// ---------------------------------------------------------------- S5

// c19S5: projection fidelity. The strict-weak-order table is about the
// comparison; a key still orders wrongly when the accessor it projects through
// gives something else than the node's attribute.
func c19S5(l *core.Ledger, r *rt) {
	keys := map[string]keyDef{}
	for _, k := range sortKeys(r) {
		keys[k.name] = k
	}
	// ---- Port
	if k, ok := keys["Port"]; ok {
		usesPort := false
		ast.Inspect(k.lit.Body, func(n ast.Node) bool {
			if c, isC := n.(*ast.CallExpr); isC {
				if sel, isS := c.Fun.(*ast.SelectorExpr); isS && sel.Sel.Name == "Port" {
					usesPort = true
				}
			}
			return true
		})
		fn := r.fn("RawNode.Port")
		if usesPort && fn != nil && len(fn.Blocks) > 0 {
			recv := fn.Params[0]
			fromSplit := func(o sx.Origin) bool {
				c, isC := o.V.(*ssa.Call)
				return o.Kind == sx.KExtract && isC && o.Index == 1 && sx.StaticCalleeName(&c.Call) == "net.SplitHostPort"
			}
			fromResolved := func(o sx.Origin) bool {
				c, isC := o.V.(*ssa.Call)
				if o.Kind != sx.KCall || !isC || sx.StaticCalleeName(&c.Call) != "strconv.Itoa" {
					return false
				}
				return sx.All(sx.Origins(c.Call.Args[0]), func(a sx.Origin) bool {
					return a.Kind == sx.KField && a.Field != nil && a.Field.Name() == "Port" && a.Field.Pkg() != nil && a.Field.Pkg().Path() == "net"
				})
			}
			good, why := true, ""
			nret := 0
			sx.AllInstrs(fn, func(_ sx.Node, in ssa.Instruction) {
				ret, isRet := in.(*ssa.Return)
				if !isRet || len(ret.Results) != 1 {
					return
				}
				nret++
				for _, o := range sx.Origins(ret.Results[0]) {
					switch {
					case o.Kind == sx.KConst:
					case fromSplit(o):
						c := o.V.(*ssa.Call)
						if !sx.All(sx.Origins(c.Call.Args[0]), sx.IsFieldNamed("addr", sx.IsParam(recv))) {
							good, why = false, "SplitHostPort is not applied to the node's address"
						}
					case o.Kind == sx.KField && o.Field != nil && sx.All(o.Base, sx.IsParam(recv)):
						// a cached field: every store into it must come from the address
						fld := o.Field
						stores := 0
						for _, f := range allFuncs(l.Prog, r.pkg) {
							sx.AllInstrs(f, func(_ sx.Node, in2 ssa.Instruction) {
								st, isSt := in2.(*ssa.Store)
								if !isSt {
									return
								}
								fa, isFA := st.Addr.(*ssa.FieldAddr)
								if !isFA || fieldOf(fa.X.Type(), fa.Field) != fld {
									return
								}
								stores++
								if !sx.All(sx.Origins(st.Val), func(so sx.Origin) bool { return fromSplit(so) || fromResolved(so) }) {
									good, why = false, "the cached field "+fld.Name()+" is filled from "+sx.OriginsString(sx.Origins(st.Val))
								}
							})
						}
						if stores == 0 {
							good, why = false, "the field "+fld.Name()+" is never filled"
						}
					default:
						good, why = false, "returns "+o.String()
					}
				}
			})
			l.Check(good && nret > 0, "C19-S5", "gorums.(RawNode).Port", fn.Pos(), "the port net.SplitHostPort gives for the node's address", "RawNode.Port, through which the Port key looks at a node, does not return the port of the node's address as net.SplitHostPort splits it ("+why+"): hand-made splitting gives a wrong port for addresses such as [2001:db8::1]:50051, and the key then orders those nodes by something that is not their port")
		}
	}
	// ---- LastNodeError vs LastErr
	if k, ok := keys["LastNodeError"]; ok {
		var names []*ast.Ident
		for _, f := range k.lit.Type.Params.List {
			names = append(names, f.Names...)
		}
		if len(names) != 2 {
			return
		}
		m := &keyModel{info: r.pkg.TypesInfo, p1: r.pkg.TypesInfo.Defs[names[0]], p2: r.pkg.TypesInfo.Defs[names[1]], locals: map[types.Object]*projRef{}, projs: map[string]projKind{}}
		// projections the key compares with nil / uses as predicates
		var projs []string
		ast.Inspect(k.lit.Body, func(n ast.Node) bool {
			switch x := n.(type) {
			case *ast.BinaryExpr:
				if x.Op == token.EQL || x.Op == token.NEQ {
					for _, side := range []ast.Expr{x.X, x.Y} {
						if !isNilIdent(m.info, side) {
							if pr := m.proj(side); pr != nil {
								projs = append(projs, pr.canon)
							}
						}
					}
				}
			}
			return true
		})
		// what LastErr returns, as an expression over its receiver
		want := map[string]bool{"_.LastErr()": true}
		for _, f := range r.pkg.Syntax {
			for _, d := range f.Decls {
				fd, isFD := d.(*ast.FuncDecl)
				if !isFD || fd.Name.Name != "LastErr" || fd.Recv == nil || len(fd.Recv.List) != 1 || len(fd.Recv.List[0].Names) != 1 || fd.Body == nil {
					continue
				}
				rm := &keyModel{info: r.pkg.TypesInfo, p1: r.pkg.TypesInfo.Defs[fd.Recv.List[0].Names[0]], locals: map[types.Object]*projRef{}, projs: map[string]projKind{}}
				ast.Inspect(fd.Body, func(n ast.Node) bool {
					if ret, isRet := n.(*ast.ReturnStmt); isRet && len(ret.Results) == 1 && !isNilIdent(rm.info, ret.Results[0]) {
						if pr := rm.proj(ret.Results[0]); pr != nil {
							want[pr.canon] = true
						}
					}
					return true
				})
			}
		}
		bad := ""
		for _, p := range projs {
			if !want[p] {
				bad = p
			}
		}
		if len(projs) > 0 {
			l.Check(bad == "", "C19-S5", "gorums.LastNodeError/projection", k.pos, "orders by LastErr()", "the LastNodeError key is documented to order nodes by their LastErr() status, but it looks at "+bad+", which is not what LastErr() returns: a node can report an error through LastErr() and still be ordered with the error-free nodes (or the other way round)")
		}
	}
}

// ---------------------------------------------------------------- S6

// c19S6: nil-safety of the keys on the one RawNode field that public
// construction can leave nil and that a key looks through: channel.
func c19S6(l *core.Ledger, r *rt) {
	init := r.spkg.Func("init")
	if init == nil {
		return
	}
	// the key function literals are anonymous functions of the package initialiser
	keyFns := map[string]*ssa.Function{}
	for _, k := range sortKeys(r) {
		for _, an := range init.AnonFuncs {
			if an.Pos() == k.lit.Pos() || an.Pos() == k.lit.Type.Func {
				keyFns[k.name] = an
			}
		}
	}
	if len(keyFns) == 0 {
		l.Unknown("C19-S6", "anchor/keys", token.NoPos, "the key functions were not found among the package initialiser's function literals")
		return
	}
	var names []string
	for n := range keyFns {
		names = append(names, n)
	}
	sort.Strings(names)
	for _, name := range names {
		seen := map[*ssa.Function]bool{}
		bad := ""
		var badPos token.Pos
		var visit func(f *ssa.Function, depth int)
		visit = func(f *ssa.Function, depth int) {
			if f == nil || seen[f] || depth > 3 || len(f.Blocks) == 0 {
				return
			}
			seen[f] = true
			sx.AllInstrs(f, func(nd sx.Node, in ssa.Instruction) {
				isChanPtr := func(v ssa.Value) bool {
					if !isNamed(v.Type(), core.RootModule, "channel") {
						return false
					}
					return sx.All(sx.Origins(v), func(o sx.Origin) bool {
						return o.Kind == sx.KField && o.Field != nil && o.Field.Name() == "channel"
					})
				}
				var used ssa.Value
				switch x := in.(type) {
				case *ssa.FieldAddr:
					if isChanPtr(x.X) {
						used = x.X
					}
				case *ssa.Call:
					if cs := x.Call.StaticCallee(); cs != nil && cs.Signature.Recv() != nil && len(x.Call.Args) > 0 && isChanPtr(x.Call.Args[0]) {
						used = x.Call.Args[0]
					}
				}
				guarded := func(v ssa.Value) bool {
					if sx.KnownNonNil(v, nd.B) {
						return true
					}
					// a test of another load of the same field of the same node
					want := sx.OriginsString(sx.Origins(v))
					edges := nilTestEdgesOn(f, func(x ssa.Value) bool { return isChanPtr(x) && sx.OriginsString(sx.Origins(x)) == want }, true)
					return edgesDominate(f, edges, nd)
				}
				if used != nil && !guarded(used) && bad == "" {
					bad = fnKey(f)
					badPos = sx.PosOf(in)
				}
				if c, isCall := in.(*ssa.Call); isCall {
					if cs := c.Call.StaticCallee(); cs != nil && inRepo(cs) && cs.Signature.Recv() != nil && isNamed(cs.Signature.Recv().Type(), core.RootModule, "RawNode") {
						visit(cs, depth+1)
					}
				}
			})
		}
		visit(keyFns[name], 0)
		l.Check(bad == "", "C19-S6", "gorums."+name+"/total", badPos, "no use of a node's channel without a nil test", "the "+name+" key uses a node's channel (in "+bad+") without testing it for nil: a node that has not been added to a manager yet, or one of a manager created with WithNoConnect, has no channel, and sorting such nodes by this key panics")
	}
}

// c19S8S9: what the Port key reads is the node's port *number*.
// S8: the key discards the error of the text-to-number conversion (a node
// without a numeric port counts as port 0), so the address stored in a node must
// end in a decimal port: it is the resolved address's String() or rebuilt from
// its numeric components, never the caller's text (which may name a service:
// "host:https").
// S9: the conversion keeps every port apart: base 10, wide enough for 0..65535,
// no narrowing conversion of the result.
func c19S8S9(l *core.Ledger, r *rt) {
	l.Rule("C19-S8", "every address stored in a node ends in a decimal port: each store into RawNode.addr depends on the resolved address (String() or its IP, Port, Zone) and not on the caller's text - the Port key reads the port through a conversion whose error it discards")
	l.Rule("C19-S9", "the keys' text-to-number conversions are lossless on what they read: strconv.Atoi, ParseInt(s, 10, 0|32|64) or ParseUint(s, 10, 0|16|32|64), and no conversion of the result to a narrower integer type")
	n := 0
	for _, f := range allFuncs(l.Prog, r.pkg) {
		f := f
		sx.AllInstrs(f, func(_ sx.Node, in ssa.Instruction) {
			st, ok := in.(*ssa.Store)
			if !ok {
				return
			}
			fa, ok := st.Addr.(*ssa.FieldAddr)
			if !ok || !isNamed(fa.X.Type(), core.RootModule, "RawNode") {
				return
			}
			if fld := fieldOf(fa.X.Type(), fa.Field); fld == nil || fld.Name() != "addr" {
				return
			}
			n++
			key := fmt.Sprintf("%s/addr-store%d/numeric-port", fnKey(f), n)
			whole, raw, parts, _ := addrDependence(st)
			resolved := whole || parts["Port"]
			switch {
			case raw:
				l.Bad("C19-S8", key, st.Pos(), "the address stored in the node can be the caller's text: a service name instead of a port number (\"host:https\") survives into RawNode.addr, Port() returns it, the Port key's conversion fails silently and the node counts as port 0 - nodes with named ports tie and sort ahead of every numeric port")
			case resolved:
				l.OK("C19-S8", key, st.Pos(), "the resolved address (numeric port)")
			default:
				l.Unknown("C19-S8", key, st.Pos(), "cannot tell whether the stored address ends in a decimal port")
			}
		})
	}
	l.Floor("C19-S8", n, 1, "stores into RawNode.addr")
	// S9
	init := r.spkg.Func("init")
	if init == nil {
		l.Unknown("C19-S9", "anchor/init", token.NoPos, "package initialiser not found")
		return
	}
	nk := 0
	for _, k := range sortKeys(r) {
		var kf *ssa.Function
		for _, an := range init.AnonFuncs {
			if an.Pos() == k.lit.Pos() || an.Pos() == k.lit.Type.Func {
				kf = an
			}
		}
		if kf == nil {
			continue
		}
		nk++
		bad := ""
		var badPos token.Pos
		nconv := 0
		seen := map[*ssa.Function]bool{}
		var visit func(f *ssa.Function, depth int)
		visit = func(f *ssa.Function, depth int) {
			if f == nil || seen[f] || depth > 3 || len(f.Blocks) == 0 {
				return
			}
			seen[f] = true
			sx.AllInstrs(f, func(_ sx.Node, in ssa.Instruction) {
				switch x := in.(type) {
				case *ssa.Call:
					cs := x.Call.StaticCallee()
					if cs == nil {
						return
					}
					if cs.Pkg != nil && cs.Pkg.Pkg.Path() == "strconv" {
						constArg := func(i int) (int64, bool) {
							if i >= len(x.Call.Args) {
								return 0, false
							}
							c, isC := x.Call.Args[i].(*ssa.Const)
							if !isC || c.Value == nil {
								return 0, false
							}
							return constant.Int64Val(constant.ToInt(c.Value))
						}
						switch cs.Name() {
						case "Atoi":
							nconv++
						case "ParseInt", "ParseUint":
							nconv++
							base, okB := constArg(1)
							bits, okS := constArg(2)
							minBits := int64(32)
							if cs.Name() == "ParseUint" {
								minBits = 16
							}
							if !okB || !okS || base != 10 || (bits != 0 && bits < minBits) {
								if bad == "" {
									bad, badPos = fmt.Sprintf("%s with base %d and bit size %d in %s", cs.Name(), base, bits, fnKey(f)), x.Pos()
								}
							}
						case "ParseFloat", "ParseBool", "Itoa", "FormatInt", "Quote":
							if bad == "" && (cs.Name() == "ParseFloat" || cs.Name() == "ParseBool") {
								bad, badPos = cs.Name()+" in "+fnKey(f), x.Pos()
							}
						}
						return
					}
					if inRepo(cs) && cs.Signature.Recv() != nil && isNamed(cs.Signature.Recv().Type(), core.RootModule, "RawNode") {
						visit(cs, depth+1)
					}
				case *ssa.Convert:
					// a narrowing integer conversion on the way from the parse to the comparison
					from, okF := x.X.Type().Underlying().(*types.Basic)
					to, okT := x.Type().Underlying().(*types.Basic)
					if !okF || !okT || from.Info()&types.IsInteger == 0 || to.Info()&types.IsInteger == 0 {
						return
					}
					size := func(b *types.Basic) int {
						switch b.Kind() {
						case types.Int8, types.Uint8:
							return 8
						case types.Int16:
							return 15
						case types.Uint16:
							return 16
						case types.Int32:
							return 31
						case types.Uint32:
							return 32
						}
						return 63
					}
					if size(to) < size(from) && size(to) < 16 && bad == "" {
						bad, badPos = "conversion to "+to.Name()+" in "+fnKey(f), x.Pos()
					}
				}
			})
		}
		visit(kf, 0)
		if nconv == 0 && bad == "" {
			l.OK("C19-S9", "gorums."+k.name+"/conversions", k.pos, "no text-to-number conversion")
			continue
		}
		l.Check(bad == "", "C19-S9", "gorums."+k.name+"/conversions", badPos, fmt.Sprintf("%d lossless conversions", nconv), "the "+k.name+" key reads its number through a lossy conversion ("+bad+"): strconv returns the nearest representable value with an error the key discards, so all values beyond the range tie - for a 16-bit signed parse every port above 32767 - and such nodes are left in input order / ordered by the next key although their numbers differ")
	}
	l.Floor("C19-S9", nk, 3, "provided keys")
}
