package rules

import (
	"go/constant"
	"fmt"
	"go/token"
	"go/types"
	"sort"
	"strings"

	"golang.org/x/tools/go/ssa"

	"verif/checker/internal/core"
	"verif/checker/internal/sx"
)

func init() {
	register("C10", Entry{
		Title: "Nodes that come back are used again; each connection carries metadata",
		Run:   runC10,
		Meta: core.PropertyMeta{
			Explanation: "N1: for every dequeued request the sender, when not connected, calls connect before the request's fate is decided; connect dials and opens a stream when the connection was never established and reconnects when the stream is broken; isConnected is exactly 'established and not broken'. N2: every stream is created with a context that is context.WithCancel(c.parentCtx) stored just before; parentCtx is written only at channel creation from newContext, which returns metadata.NewOutgoingContext(cancellable background ctx, manager metadata copy [joined with perNodeMD(n.id) when set]). N3: the server's connect callback is called exactly once per NodeStream invocation, before the receive loop, with the stream's context. N4: every timer wait reachable from the stream reader is a select that also has a case on a signal channel which every other goroutine root raises after it clears the broken flag (otherwise a reply sent over a stream re-established by the sender waits for the reader's back-off timer). N5: the reader goroutine is started exactly once per channel, under the connEstablished test-and-set; newNodeStream is called only from connect. N7: the stream is marked broken only while it is current and only on transport errors (C09-W6/W8 re-run). N8: a function that installs a stream clears the broken flag before any return that can report success. N9 (known finding): the reader's fail-all is not restricted to the calls written to the failed stream.",
			NotDecided:  "That redial actually succeeds; promptness in seconds; server-side metadata extraction.",
			Trusted:     append([]string{"grpc metadata.NewOutgoingContext attaches the metadata to every stream created with a derived context"}, commonTrust...),
		},
	})
}

func chanMethod(l *core.Ledger, r *rt, name string) *ssa.Function {
	return r.fn("channel." + name)
}

func callsTo(fn *ssa.Function, pred func(*ssa.CallCommon) bool) []ssa.Instruction {
	var out []ssa.Instruction
	sx.AllInstrs(fn, func(_ sx.Node, in ssa.Instruction) {
		if cc := sx.CallOf(in); cc != nil && pred(cc) {
			out = append(out, in)
		}
	})
	return out
}

func isCalleeNamed(names ...string) func(*ssa.CallCommon) bool {
	return func(cc *ssa.CallCommon) bool {
		f := cc.StaticCallee()
		if f == nil {
			return false
		}
		for _, n := range names {
			if f.Name() == n && inRepo(f) {
				return true
			}
		}
		return false
	}
}

func isInstrIn(list []ssa.Instruction) func(sx.Node) bool {
	return func(n sx.Node) bool {
		for _, x := range list {
			if x == n.Instr() {
				return true
			}
		}
		return false
	}
}

func runC10(l *core.Ledger) {
	r := runtimePkg(l)
	if r == nil {
		return
	}
	l.Rule("C10-N1", "sender: on the not-connected edge connect() is called before the request is sent or answered; connect: never-established ⇒ dial then newNodeStream, broken ⇒ reconnect; isConnected = connEstablished && !streamBroken")
	l.Rule("C10-N2", "every NodeStream creation uses ctx = context.WithCancel(c.parentCtx); who-may-write parentCtx = channel creation from newContext; newContext = NewOutgoingContext(WithCancel(Background), metadata.Copy() [Join perNodeMD(n.id)])")
	l.Rule("C10-N3", "NodeStream calls the connect callback exactly once per invocation, outside loops, before the first RecvMsg, with the stream's context")
	l.Rule("C10-N4", "every timer wait reachable from the stream reader sits in a select with a case on a signal channel that every other goroutine root raises after clearing streamBroken")
	l.Rule("C10-N5", "the reader goroutine start is guarded by the connEstablished test-and-set; who-may-call newNodeStream = {connect}")

	l.Rule("C10-N6", "a stream restored by one goroutine is not replaced or emptied by the other: reconnect re-checks under the write lock (C09-W2 re-run); pending calls are failed only by the stream reader on its own read error, never on the (re)connection path; every node of the configuration is handed its request (C02-T4 re-run: no node is skipped because of its connection state)")
	l.With(map[string]string{"C09-W2": "C10-N6"}, func() { c09W2(l, r) })
	l.With(map[string]string{"C02-T4": "C10-N6"}, func() { c02T4(l, r) })
	c10N6(l, r)
	l.Rule("C10-N7", "the stream is marked broken only while it is the current one and only on transport errors (C09-W8, C09-W6 re-run): a flag set after the other goroutine restored the stream makes the sender replace a healthy stream - the reader stays parked on the replaced one and the node's replies are never read, and the server's connect callback runs for streams nobody reads")
	l.With(map[string]string{"C09-W6": "C10-N7", "C09-W8": "C10-N7"}, func() { c09W6(l, r) })
	l.Rule("C10-N9", "the reader fails the calls of the stream that failed, not the calls already written to a stream re-created meanwhile: the fail-all routine is told (or finds out) which stream a pending request was written to")
	l.Rule("C10-N12", "a stream that has been re-created is ended only by its own failure, by its replacement or by a write in progress (C09-W9 re-run): a timer or callback left over from a failed attempt that cancels 'the current stream' ends the healthy stream of the restarted node, and the call whose request the server has handled gets 'stream is down'")
	l.With(map[string]string{"C09-W9": "C10-N12"}, func() { c09W9(l, r) })
	l.Rule("C10-N13", "the reader's waits between two attempts can be ended by the wake-up signal and by Close (C12-X2 re-run: every blocking operation of the per-node goroutines is a select that watches the node context): a bare receive from a timer channel that has already fired parks the only reader for ever, and the replies of the restarted node are never read")
	l.With(map[string]string{"C12-X2": "C10-N13"}, func() { c12X2(l, r) })
	c10N8(l, r)
	c10N11(l, r)
	c10N10(l, r)
	c10N1(l, r)
	c10N2(l, r)
	c10N3(l, r)
	c10N4(l, r)
	c10N5(l, r)
}

func c10N1(l *core.Ledger, r *rt) {
	fn, sel, idx := findSenderFn(l, r)
	if fn == nil || sel == nil {
		l.Unknown("C10-N1", "anchor/sender", token.NoPos, "sender not found")
		return
	}
	key := fnKey(fn)
	// If on isConnected()
	var notConn []sx.Edge
	var isConnFn *ssa.Function
	sx.AllInstrs(fn, func(_ sx.Node, in ssa.Instruction) {
		ifi, ok := in.(*ssa.If)
		if !ok {
			return
		}
		v, _ := condOf(ifi)
		c, ok := v.(*ssa.Call)
		if !ok || c.Call.StaticCallee() == nil || !inRepo(c.Call.StaticCallee()) {
			return
		}
		f := c.Call.StaticCallee()
		if f.Signature.Results().Len() == 1 && f.Signature.Params().Len() == 0 && f.Name() == "isConnected" {
			isConnFn = f
			notConn = append(notConn, edgeWhere(ifi, false))
		}
	})
	connectCalls := callsTo(fn, isCalleeNamed("connect"))
	fate := func(n sx.Node) bool {
		c, ok := n.Instr().(*ssa.Call)
		return ok && (isRouteCall(&c.Call) || isSendMsgCall(&c.Call))
	}
	if len(notConn) == 0 || len(connectCalls) == 0 {
		l.Bad("C10-N1", key, fn.Pos(), "the sender does not try to (re)connect per request: no isConnected() test followed by connect()")
	} else {
		ok := true
		for _, e := range notConn {
			if _, must := sx.MustPassThrough(sx.Node{B: e.To, I: -1}, isInstrIn(connectCalls), fate); !must {
				ok = false
			}
		}
		// and the test itself is on every path from the dequeue to the request's fate
		isTest := func(n sx.Node) bool {
			ifi, isIf := n.Instr().(*ssa.If)
			if !isIf {
				return false
			}
			t, f := sx.CondEdges(ifi)
			return edgeIn(t, notConn) || edgeIn(f, notConn)
		}
		// from the dequeue itself (the case that took a request), not from the select: its other
		// cases (the node is closed) do not carry a request to be sent
		from := sx.NodeOf(sel)
		if e, okE := selectCaseEdge(sel, idx); okE {
			from = sx.Node{B: e.To, I: -1}
		}
		_, tested := sx.MustPassThrough(from, isTest, fate)
		l.Check(ok && tested, "C10-N1", key, fn.Pos(), "every request: isConnected() test, connect() on the not-connected edge before send/answer", fmt.Sprintf("a request can be sent or failed without a (re)connection attempt although the node is not connected (test on every path: %v; connect before fate on the not-connected edge: %v): a node that came back is not used again", tested, ok))
	}
	// isConnected
	if isConnFn != nil {
		okAll := true
		for _, est := range []bool{false, true} {
			for _, brk := range []bool{false, true} {
				got, decided := evalFlags(isConnFn, map[string]bool{"connEstablished": est, "streamBroken": brk})
				if !decided || got != (est && !brk) {
					okAll = false
				}
			}
		}
		l.Check(okAll, "C10-N1", fnKey(isConnFn), isConnFn.Pos(), "connEstablished && !streamBroken", "isConnected is not exactly 'established and not broken'")
	}
	// connect
	if cf := chanMethod(l, r, "connect"); cf != nil && len(cf.Blocks) > 0 {
		ck := fnKey(cf)
		dial := callsTo(cf, isCalleeNamed("dial"))
		nns := callsTo(cf, isCalleeNamed("newNodeStream"))
		rec := callsTo(cf, isCalleeNamed("reconnect"))
		notEst := flagEdges(cf, "connEstablished", false)
		broken := flagEdges(cf, "streamBroken", true)
		ok1 := len(notEst) > 0 && len(dial) > 0 && len(nns) > 0
		if ok1 {
			for _, e := range notEst {
				// every path from the edge to return passes dial; a successful dial is followed by newNodeStream
				if _, must := sx.MustPassThrough(sx.Node{B: e.To, I: -1}, isInstrIn(dial), sx.IsReturn); !must {
					ok1 = false
				}
			}
			for _, d := range dial {
				m := func(o sx.Origin) bool { return (o.Kind == sx.KCall || o.Kind == sx.KExtract) && o.V == d.(ssa.Value) }
				var okEdges []sx.Edge
				sx.AllInstrs(cf, func(_ sx.Node, in ssa.Instruction) {
					if ifi, isIf := in.(*ssa.If); isIf && isErrNonNil(ifi, m) != 0 {
						okEdges = append(okEdges, errEdge(ifi, m, false))
					}
				})
				for _, e := range okEdges {
					if _, must := sx.MustPassThrough(sx.Node{B: e.To, I: -1}, isInstrIn(nns), sx.IsReturn); !must {
						ok1 = false
					}
				}
				if len(okEdges) == 0 {
					ok1 = false
				}
			}
		}
		l.Check(ok1, "C10-N1", ck+"/never-established", cf.Pos(), "dial, then newNodeStream on success", "with no established connection connect does not dial and open a stream on every path: a node that was down when the manager was created is never contacted")
		ok2 := len(broken) > 0 && len(rec) > 0
		if ok2 {
			for _, e := range broken {
				if _, must := sx.MustPassThrough(sx.Node{B: e.To, I: -1}, isInstrIn(rec), sx.IsReturn); !must {
					ok2 = false
				}
			}
			// the broken test is reached on every path that did not fail earlier
			okReach := false
			for _, in := range rec {
				if _, reach := sx.Reach(sx.Entry(cf), sx.IsInstr(in), sx.Query{}); reach {
					okReach = true
				}
			}
			ok2 = ok2 && okReach
		}
		l.Check(ok2, "C10-N1", ck+"/broken", cf.Pos(), "broken stream ⇒ reconnect", "with a broken stream connect does not attempt to reconnect: a restarted server is only used after the reader's back-off")
	} else {
		l.Unknown("C10-N1", "anchor/connect", token.NoPos, "channel.connect not found")
	}
	// reconnect: whoever asks for a reconnection gets an answer about the stream - it returns
	// only after it has looked at the broken flag, tried to open a stream, or seen the node
	// closed. An early way out ("somebody else is on it") turns the sender's per-request
	// attempt into a no-op while the other goroutine sits in its back-off.
	if rf := chanMethod(l, r, "reconnect"); rf != nil && len(rf.Blocks) > 0 {
		via := func(n sx.Node) bool {
			switch x := n.Instr().(type) {
			case *ssa.Call:
				if isFlagOp(&x.Call, "get", "streamBroken") {
					return true
				}
				if x.Call.IsInvoke() && x.Call.Method.Name() == "NodeStream" {
					return true
				}
			case *ssa.Select:
				for _, st := range x.States {
					if st.Dir == types.RecvOnly {
						if _, isDone := isDoneOf(st.Chan); isDone {
							return true
						}
					}
				}
			}
			return false
		}
		w, must := sx.MustPassThrough(sx.Entry(rf), via, sx.IsReturn)
		pos := rf.Pos()
		if !must {
			pos = sx.PosOf(w.Instr())
		}
		l.Check(must, "C10-N1", fnKey(rf)+"/attempts", pos, "returns only after reading the broken flag, trying to open a stream or seeing the node closed", "reconnect can return without having looked at the stream at all (no read of the broken flag, no attempt to open a stream): the sender's per-request reconnection becomes a no-op, e.g. while the reader waits out its back-off, and requests to a reachable node are answered 'stream is down'")
	}
}

// evalFlags interprets a small boolean function of atomicFlag.get() calls.
func evalFlags(fn *ssa.Function, env map[string]bool) (bool, bool) {
	var eval func(v ssa.Value) (bool, bool)
	eval = func(v ssa.Value) (bool, bool) {
		switch x := v.(type) {
		case *ssa.UnOp:
			if x.Op == token.NOT {
				b, ok := eval(x.X)
				return !b, ok
			}
		case *ssa.Const:
			if x.Value != nil {
				return x.Value.String() == "true", true
			}
		case *ssa.Call:
			if op, isFlag := flagOp(&x.Call); isFlag && op == "get" {
				if fa, ok := x.Call.Args[0].(*ssa.FieldAddr); ok {
					name := fieldOf(fa.X.Type(), fa.Field).Name()
					b, known := env[name]
					return b, known
				}
			}
		}
		return false, false
	}
	b := fn.Blocks[0]
	var prev *ssa.BasicBlock
	for steps := 0; steps < 20; steps++ {
		switch x := b.Instrs[len(b.Instrs)-1].(type) {
		case *ssa.If:
			c, ok := eval(x.Cond)
			if !ok {
				return false, false
			}
			prev = b
			if c {
				b = b.Succs[0]
			} else {
				b = b.Succs[1]
			}
		case *ssa.Jump:
			prev = b
			b = b.Succs[0]
		case *ssa.Return:
			v := x.Results[0]
			if ph, ok := v.(*ssa.Phi); ok {
				for i, p := range ph.Block().Preds {
					if p == prev {
						return eval(ph.Edges[i])
					}
				}
				return false, false
			}
			return eval(v)
		default:
			return false, false
		}
	}
	return false, false
}

func c10N2(l *core.Ledger, r *rt) {
	n := 0
	for _, f := range allFuncs(l.Prog, r.pkg) {
		sx.AllInstrs(f, func(node sx.Node, in ssa.Instruction) {
			c, ok := in.(*ssa.Call)
			if !ok || !c.Call.IsInvoke() || c.Call.Method.Name() != "NodeStream" || !isNamed(c.Call.Value.Type(), orderingPkg, "GorumsClient") {
				return
			}
			n++
			key := fmt.Sprintf("%s/NodeStream", fnKey(f))
			// argument: a load of c.streamCtx whose dominating store is WithCancel(c.parentCtx)#0
			arg := c.Call.Args[0]
			okArg := false
			if sx.All(sx.Origins(arg), sx.IsFieldNamed("streamCtx", sx.AnyOrigin)) {
				// the last store before the call
				var st *ssa.Store
				sx.AllInstrs(f, func(_ sx.Node, in2 ssa.Instruction) {
					s, isSt := in2.(*ssa.Store)
					if !isSt {
						return
					}
					if _, is := fieldAddrOf(s.Addr, "streamCtx"); is && sx.InstrDominates(f, s, node) {
						// no other store between s and the call
						if _, other := sx.Reach(sx.NodeOf(s), func(x sx.Node) bool {
							s2, ok := x.Instr().(*ssa.Store)
							if !ok || s2 == s {
								return false
							}
							_, is2 := fieldAddrOf(s2.Addr, "streamCtx")
							return is2
						}, sx.Query{BlockNode: sx.IsInstr(c)}); !other {
							st = s
						}
					}
				})
				if st != nil {
					okArg = sx.All(sx.Origins(st.Val), func(o sx.Origin) bool {
						wc, isCall := o.V.(*ssa.Call)
						if o.Kind != sx.KExtract || !isCall || o.Index != 0 || !calleeIs(&wc.Call, "context.WithCancel") {
							return false
						}
						return sx.All(sx.Origins(wc.Call.Args[0]), sx.IsFieldNamed("parentCtx", sx.AnyOrigin))
					})
				}
			} else {
				// direct form: NodeStream(ctx) with ctx from WithCancel(c.parentCtx)
				okArg = sx.All(sx.Origins(arg), func(o sx.Origin) bool {
					wc, isCall := o.V.(*ssa.Call)
					if o.Kind != sx.KExtract || !isCall || o.Index != 0 || !calleeIs(&wc.Call, "context.WithCancel") {
						return false
					}
					return sx.All(sx.Origins(wc.Call.Args[0]), sx.IsFieldNamed("parentCtx", sx.AnyOrigin))
				})
			}
			l.Check(okArg, "C10-N2", key, c.Pos(), "stream context = WithCancel(parentCtx)", "a stream is created with a context that does not derive from the channel's parent context: it carries no manager/per-node metadata and is not cancelled by Close")
		})
	}
	l.Floor("C10-N2", n, 2, "NodeStream creation sites")
	// who may write parentCtx
	var writers []string
	okVal := true
	for _, f := range allFuncs(l.Prog, r.pkg) {
		sx.AllInstrs(f, func(_ sx.Node, in ssa.Instruction) {
			st, ok := in.(*ssa.Store)
			if !ok {
				return
			}
			if _, is := fieldAddrOf(st.Addr, "parentCtx"); !is {
				return
			}
			writers = append(writers, fnKey(f))
			if !sx.All(sx.Origins(st.Val), func(o sx.Origin) bool {
				c, isCall := o.V.(*ssa.Call)
				return o.Kind == sx.KCall && isCall && c.Call.StaticCallee() != nil && c.Call.StaticCallee().Name() == "newContext"
			}) {
				okVal = false
			}
		})
	}
	sort.Strings(writers)
	l.Check(len(writers) == 1 && okVal, "C10-N2", "who-may-write/channel.parentCtx", token.NoPos, "written once at channel creation from newContext", fmt.Sprintf("parentCtx written by %v (from newContext: %v)", writers, okVal))
	// newContext
	if nc := r.mustFn("C10-N2", "RawNode.newContext"); nc != nil {
		ok := false
		detail := ""
		sx.AllInstrs(nc, func(_ sx.Node, in ssa.Instruction) {
			ret, isRet := in.(*ssa.Return)
			if !isRet {
				return
			}
			c, isCall := ret.Results[0].(*ssa.Call)
			if !isCall || !calleeIs(&c.Call, "google.golang.org/grpc/metadata.NewOutgoingContext") {
				detail = "does not return metadata.NewOutgoingContext(…)"
				return
			}
			okCtx := sx.All(sx.Origins(c.Call.Args[0]), func(o sx.Origin) bool {
				wc, isCall := o.V.(*ssa.Call)
				return o.Kind == sx.KExtract && isCall && o.Index == 0 && calleeIs(&wc.Call, "context.WithCancel")
			})
			isCopy := func(o sx.Origin) bool {
				cc, isCall := o.V.(*ssa.Call)
				if o.Kind != sx.KCall || !isCall || cc.Call.StaticCallee() == nil || cc.Call.StaticCallee().Name() != "Copy" {
					return false
				}
				return sx.All(sx.Origins(cc.Call.Args[0]), sx.IsFieldNamed("metadata", sx.AnyOrigin))
			}
			hasPlain, hasJoin := false, false
			okMD := sx.All(sx.Origins(c.Call.Args[1]), func(o sx.Origin) bool {
				if isCopy(o) {
					hasPlain = true
					return true
				}
				jc, isCall := o.V.(*ssa.Call)
				if o.Kind != sx.KCall || !isCall || !calleeIs(&jc.Call, "google.golang.org/grpc/metadata.Join") {
					return false
				}
				// the joined slice holds Copy() and perNodeMD(n.id)
				sl, isSl := jc.Call.Args[0].(*ssa.Slice)
				if !isSl {
					return false
				}
				arr, isAl := sl.X.(*ssa.Alloc)
				if !isAl {
					return false
				}
				gotCopy, gotPer := false, false
				for _, ref := range *arr.Referrers() {
					ia, isIA := ref.(*ssa.IndexAddr)
					if !isIA {
						continue
					}
					for _, r2 := range *ia.Referrers() {
						st, isSt := r2.(*ssa.Store)
						if !isSt {
							continue
						}
						os := sx.Origins(st.Val)
						if sx.All(os, isCopy) {
							gotCopy = true
						}
						if sx.All(os, func(p sx.Origin) bool {
							pc, isCall := p.V.(*ssa.Call)
							if p.Kind != sx.KCall || !isCall || pc.Call.StaticCallee() != nil || len(pc.Call.Args) != 1 {
								return false
							}
							return sx.All(sx.Origins(pc.Call.Value), sx.IsFieldNamed("perNodeMD", sx.AnyOrigin)) &&
								sx.All(sx.Origins(pc.Call.Args[0]), sx.IsFieldNamed("id", sx.IsParam(nc.Params[0])))
						}) {
							gotPer = true
						}
					}
				}
				hasJoin = gotCopy && gotPer
				return hasJoin
			})
			ok = okCtx && okMD && hasPlain && hasJoin
			detail = fmt.Sprintf("cancellable context: %v; metadata = manager metadata copy, joined with perNodeMD(n.id) when set: %v", okCtx, okMD && hasPlain && hasJoin)
		})
		// the cancel function is kept for Close
		keeps := false
		sx.AllInstrs(nc, func(_ sx.Node, in ssa.Instruction) {
			if st, isSt := in.(*ssa.Store); isSt {
				if _, is := fieldAddrOf(st.Addr, "cancel"); is {
					keeps = sx.All(sx.Origins(st.Val), func(o sx.Origin) bool {
						wc, isCall := o.V.(*ssa.Call)
						return o.Kind == sx.KExtract && isCall && o.Index == 1 && calleeIs(&wc.Call, "context.WithCancel")
					})
				}
			}
		})
		l.Check(ok && keeps, "C10-N2", "gorums.(RawNode).newContext", nc.Pos(), "NewOutgoingContext(WithCancel(Background), Copy()[+perNodeMD(id)]); cancel kept in n.cancel", "connection context broken: "+detail+fmt.Sprintf("; cancel stored for Close: %v", keeps))
	}
}

func c10N3(l *core.Ledger, r *rt) {
	sl := findServerLoop(l, r, "C10-N3")
	if sl == nil {
		return
	}
	key := fnKey(sl.fn)
	var cbs []*ssa.Call
	sx.AllInstrs(sl.fn, func(_ sx.Node, in ssa.Instruction) {
		c, ok := in.(*ssa.Call)
		if !ok || c.Call.IsInvoke() || c.Call.StaticCallee() != nil {
			return
		}
		if sx.All(sx.Origins(c.Call.Value), sx.IsFieldNamed("connectCallback", sx.AnyOrigin)) {
			cbs = append(cbs, c)
		}
	})
	if len(cbs) != 1 {
		l.Bad("C10-N3", key, sl.fn.Pos(), fmt.Sprintf("%d call sites of the connect callback in NodeStream; exactly one is required", len(cbs)))
		return
	}
	cb := cbs[0]
	notLoop := !sx.InLoop(sx.NodeOf(cb))
	// on every path to the first RecvMsg where the callback is set: the nil test's non-nil edge leads to the call before RecvMsg
	isSlot := sx.IsFieldNamed("connectCallback", sx.AnyOrigin)
	var nonNil []sx.Edge
	sx.AllInstrs(sl.fn, func(_ sx.Node, in ssa.Instruction) {
		if ifi, ok := in.(*ssa.If); ok && isErrNonNil(ifi, isSlot) != 0 {
			nonNil = append(nonNil, errEdge(ifi, isSlot, true))
		}
	})
	before := len(nonNil) > 0
	for _, e := range nonNil {
		if _, must := sx.MustPassThrough(sx.Node{B: e.To, I: -1}, sx.IsInstr(cb), sx.IsInstr(sl.recv)); !must {
			before = false
		}
	}
	// the test is on every path entry → RecvMsg
	_, tested := sx.MustPassThrough(sx.Entry(sl.fn), func(n sx.Node) bool {
		ifi, ok := n.Instr().(*ssa.If)
		if !ok {
			return false
		}
		t, f := sx.CondEdges(ifi)
		return edgeIn(t, nonNil) || edgeIn(f, nonNil)
	}, sx.IsInstr(sl.recv))
	// argument: srv.Context()
	okArg := sx.All(sx.Origins(cb.Call.Args[0]), func(o sx.Origin) bool {
		c, ok := o.V.(*ssa.Call)
		return o.Kind == sx.KCall && ok && c.Call.IsInvoke() && c.Call.Method.Name() == "Context"
	})
	l.Check(notLoop && before && tested && okArg, "C10-N3", key, cb.Pos(), "once per accepted stream, before the receive loop, with the stream context",
		fmt.Sprintf("connect callback: outside loops: %v; before the first RecvMsg whenever set: %v; with srv.Context(): %v", notLoop, before && tested, okArg))
}

func c10N4(l *core.Ledger, r *rt) {
	roots := goRoots(l, r)
	var reader *ssa.Function
	for _, f := range allFuncs(l.Prog, r.pkg) {
		if f.Signature.Recv() != nil && isNamed(f.Signature.Recv().Type(), core.RootModule, "channel") && len(recvMsgCalls(f)) > 0 {
			reader = f
		}
	}
	if reader == nil {
		l.Unknown("C10-N4", "anchor/receiver", token.NoPos, "stream reader not found")
		return
	}
	// sites that clear streamBroken, reachable from a go-root other than the reader, not under the "never established" guard
	type clearSite struct {
		fn   *ssa.Function
		call *ssa.Call
		root *ssa.Function
	}
	var clears []clearSite
	for _, f := range allFuncs(l.Prog, r.pkg) {
		sx.AllInstrs(f, func(_ sx.Node, in ssa.Instruction) {
			c, ok := in.(*ssa.Call)
			if !ok || !isFlagOp(&c.Call, "clear", "streamBroken") {
				return
			}
			for _, rt := range roots {
				if rt.site == nil || rt.fn == reader {
					continue
				}
				for _, path := range callPaths(rt.fn, f) {
					// exempt: before the reader exists
					exempt := false
					frames := append(append([]ssa.Instruction{}, path...), c)
					for _, site := range frames {
						g := site.Parent()
						if edgesDominate(g, flagEdges(g, "connEstablished", false), sx.NodeOf(site)) {
							exempt = true
						}
					}
					if !exempt {
						clears = append(clears, clearSite{f, c, rt.fn})
					}
				}
			}
		})
	}
	// timer waits reachable from the reader
	n := 0
	walkBlocking(reader, func(op blockOp) {
		isTimer := func(v ssa.Value) bool {
			return sx.Any(sx.Origins(v), func(o sx.Origin) bool {
				c, ok := o.V.(*ssa.Call)
				if o.Kind == sx.KCall && ok && calleeIs(&c.Call, "time.After", "time.Tick") {
					return true
				}
				return o.Kind == sx.KField && o.Field != nil && o.Field.Name() == "C" && o.Field.Pkg() != nil && o.Field.Pkg().Path() == "time"
			})
		}
		switch op.kind {
		case "sleep":
			n++
			l.Bad("C10-N4", fnKey(op.fn)+"/sleep", sx.PosOf(op.at), "the stream reader sleeps unconditionally: a reply arriving over a stream re-established meanwhile waits for the timer")
		case "select":
			timer := false
			for _, st := range op.sel.States {
				if st.Dir == types.RecvOnly && isTimer(st.Chan) {
					timer = true
				}
			}
			if !timer {
				return
			}
			n++
			key := fnKey(op.fn) + "/backoff-wait"
			if len(clears) == 0 {
				l.OK("C10-N4", key, sx.PosOf(op.at), "no other goroutine re-establishes the stream: nothing to be woken for")
				return
			}
			// candidate signal channels: recv cases on a channel field of `channel`
			var sigs []*types.Var
			for _, st := range op.sel.States {
				if st.Dir != types.RecvOnly || isTimer(st.Chan) {
					continue
				}
				if _, isDone := isDoneOf(st.Chan); isDone {
					continue
				}
				for _, o := range sx.Origins(st.Chan) {
					if o.Kind == sx.KField && o.Field != nil {
						sigs = append(sigs, o.Field)
					}
				}
			}
			var missing []string
			for _, cs := range clears {
				raised := false
				for _, sig := range sigs {
					raises := func(nd sx.Node) bool {
						switch x := nd.Instr().(type) {
						case *ssa.Send:
							return sx.All(sx.Origins(x.Chan), func(o sx.Origin) bool { return o.Kind == sx.KField && o.Field == sig })
						case *ssa.Select:
							for _, st := range x.States {
								if st.Dir == types.SendOnly && sx.All(sx.Origins(st.Chan), func(o sx.Origin) bool { return o.Kind == sx.KField && o.Field == sig }) {
									return true
								}
							}
						case *ssa.Call:
							if b, ok := x.Call.Value.(*ssa.Builtin); ok && b.Name() == "close" {
								return sx.All(sx.Origins(x.Call.Args[0]), func(o sx.Origin) bool { return o.Kind == sx.KField && o.Field == sig })
							}
						}
						return false
					}
					if _, must := sx.MustPassThrough(sx.NodeOf(cs.call), raises, sx.IsExit); must {
						raised = true
					}
				}
				if !raised {
					missing = append(missing, fnKey(cs.root)+"→"+fnKey(cs.fn))
				}
			}
			// a signal raised by a non-blocking send (select with default) is kept only if the channel
			// can hold it: an unbuffered channel drops it whenever the waiter is not parked yet
			for _, sig := range sigs {
				nonBlockingRaise := false
				for _, f := range allFuncs(l.Prog, r.pkg) {
					sx.AllInstrs(f, func(_ sx.Node, in ssa.Instruction) {
						if x, ok := in.(*ssa.Select); ok && !x.Blocking {
							for _, st := range x.States {
								if st.Dir == types.SendOnly && sx.All(sx.Origins(st.Chan), func(o sx.Origin) bool { return o.Kind == sx.KField && o.Field == sig }) {
									nonBlockingRaise = true
								}
							}
						}
					})
				}
				if !nonBlockingRaise {
					continue
				}
				buffered, made := true, 0
				for _, a := range collectAccesses(l, r, "channel", sig.Name()) {
					st, ok := a.at.(*ssa.Store)
					if !ok || a.kind != "write" {
						continue
					}
					for _, o := range sx.Origins(st.Val) {
						mc, isMake := o.V.(*ssa.MakeChan)
						if !isMake {
							buffered = false
							continue
						}
						made++
						if k, isC := mc.Size.(*ssa.Const); !isC || k.Value == nil || constant.Sign(k.Value) <= 0 {
							buffered = false
						}
					}
				}
				l.Check(buffered && made > 0, "C10-N4", key+"/signal-capacity("+sig.Name()+")", sx.PosOf(op.at), "the wake-up signal is raised without blocking into a channel that can hold it",
					"the wake-up signal "+sig.Name()+" is raised by a non-blocking send into an unbuffered channel: it is lost whenever the stream is re-established after the reader's failed attempt but before the reader parks in its back-off wait - the reader then sleeps the full delay while replies sit unread")
			}
			sort.Strings(missing)
			l.Check(len(missing) == 0, "C10-N4", key, sx.PosOf(op.at), "back-off wait is woken by whoever re-establishes the stream",
				"the stream reader waits out a reconnection back-off timer (delays grow to the configured maximum, 120 s by default) in a select that nothing wakes when another goroutine has re-established the stream ("+strings.Join(dedupStrings(missing), ", ")+" clears the broken flag without signalling): the reply to the first request sent over the new stream is read only when the timer fires")
		}
	})
	l.Floor("C10-N4", n, 1, "timer waits reachable from the stream reader")
}

func dedupStrings(in []string) []string {
	var out []string
	seen := map[string]bool{}
	for _, s := range in {
		if !seen[s] {
			seen[s] = true
			out = append(out, s)
		}
	}
	return out
}

func c10N5(l *core.Ledger, r *rt) {
	var reader *ssa.Function
	for _, f := range allFuncs(l.Prog, r.pkg) {
		if f.Signature.Recv() != nil && isNamed(f.Signature.Recv().Type(), core.RootModule, "channel") && len(recvMsgCalls(f)) > 0 {
			reader = f
		}
	}
	if reader == nil {
		return
	}
	var gos []*ssa.Go
	var starters []string
	for _, f := range allFuncs(l.Prog, r.pkg) {
		sx.AllInstrs(f, func(_ sx.Node, in ssa.Instruction) {
			cc := sx.CallOf(in)
			if cc == nil || cc.StaticCallee() != reader {
				return
			}
			starters = append(starters, fnKey(f))
			if g, ok := in.(*ssa.Go); ok {
				gos = append(gos, g)
			}
		})
	}
	if len(gos) != 1 || len(starters) != 1 {
		l.Bad("C10-N5", "who-may-start/receiver", reader.Pos(), fmt.Sprintf("the stream reader must be started by exactly one go statement; sites: %v", starters))
		return
	}
	g := gos[0]
	f := g.Parent()
	guard := flagEdges(f, "connEstablished", false)
	okGuard := edgesDominate(f, guard, sx.NodeOf(g))
	// set() between the test and the go (or right after) on the same path
	sets := callsTo(f, func(cc *ssa.CallCommon) bool {
		return isFlagOp(cc, "set", "connEstablished")
	})
	okSet := false
	for _, e := range guard {
		if _, must := sx.MustPassThrough(sx.Node{B: e.To, I: -1}, isInstrIn(sets), sx.IsExit); must {
			okSet = true
		}
	}
	l.Check(okGuard && okSet, "C10-N5", "who-may-start/receiver", g.Pos(), "started under the connEstablished test-and-set", fmt.Sprintf("reader start not guarded by the connEstablished test-and-set (guarded: %v, flag set on that edge: %v): a second reader would split the replies", okGuard, okSet))
	// who may call the stream-creating function
	var callers []string
	for _, h := range allFuncs(l.Prog, r.pkg) {
		sx.AllInstrs(h, func(_ sx.Node, in ssa.Instruction) {
			if cc := sx.CallOf(in); cc != nil && cc.StaticCallee() == f {
				callers = append(callers, fnKey(h))
			}
		})
	}
	l.Check(len(callers) == 1 && strings.HasSuffix(callers[0], ".connect"), "C10-N5", "who-may-call/"+fnKey(f), f.Pos(), "called only from connect", fmt.Sprintf("%s is called from %v", fnKey(f), callers))
}

// c10N6: who may fail all pending calls. The routine that ranges over the
// router map and answers every entry with an error is for the stream reader's
// read-error edge. On the (re)connection path it fails the very request the
// sender is about to write to the restored stream: the restarted server
// handles it and replies, and the reply finds no router.
// c10N8: a stream that has been (re-)created is recorded as usable. The sender
// decides between "send" and "re-create the stream" on the streamBroken flag
// alone; if the function that installs a new stream can return success with the
// flag still set, every later request creates one more stream (one more connect
// callback on the server) and the reader stays on an older one.
func c10N8(l *core.Ledger, r *rt) {
	l.Rule("C10-N8", "every function that installs a new stream (stores channel.gorumsStream of a shared channel) passes streamBroken.clear() on every path from the store to a return that can report success")
	n := 0
	for _, f := range allFuncs(l.Prog, r.pkg) {
		f := f
		sx.AllInstrs(f, func(nd sx.Node, in ssa.Instruction) {
			st, ok := in.(*ssa.Store)
			if !ok {
				return
			}
			fa, ok := st.Addr.(*ssa.FieldAddr)
			if !ok || !isNamed(fa.X.Type(), core.RootModule, "channel") || fieldOf(fa.X.Type(), fa.Field).Name() != "gorumsStream" || freshBase(fa.X, 0) {
				return
			}
			n++
			key := fmt.Sprintf("%s/installs-stream#%d", fnKey(f), n)
			success := func(x sx.Node) bool {
				ret, ok := x.Instr().(*ssa.Return)
				if !ok {
					return false
				}
				for _, res := range ret.Results {
					if types.Identical(res.Type(), types.Universe.Lookup("error").Type()) {
						return !sx.KnownNonNil(res, x.B)
					}
				}
				return true
			}
			isClear := func(x sx.Node) bool {
				c, ok := x.Instr().(*ssa.Call)
				return ok && isFlagOp(&c.Call, "clear", "streamBroken")
			}
			w, must := sx.MustPassThrough(nd, isClear, success)
			if must {
				l.OK("C10-N8", key, st.Pos(), "every successful return after the store passes streamBroken.clear()")
			} else {
				l.Bad("C10-N8", key, sx.PosOf(w.Instr()), "a new stream is installed and success is returned while streamBroken can still be set: the sender re-creates the stream for every later request (the server's connect callback runs once per request, the reader stays parked on a replaced stream and replies are never read)")
			}
		})
	}
	l.Floor("C10-N8", n, 1, "stores that install a node stream")
}

func c10N6(l *core.Ledger, r *rt) {
	rm := buildRouterModel(l, r, "C10-N6")
	if rm == nil {
		return
	}
	cancelFns := map[*ssa.Function]bool{}
	for _, d := range rm.deliveries {
		if d.viaLoop {
			cancelFns[d.fn] = true
		}
	}
	if len(cancelFns) == 0 {
		l.Unknown("C10-N6", "anchor/cancel-all", token.NoPos, "no routine that answers every pending call found")
		return
	}
	isReader := func(f *ssa.Function) bool {
		return f != nil && len(recvMsgCalls(f)) > 0
	}
	n := 0
	for _, f := range allFuncs(l.Prog, r.pkg) {
		f := f
		if cancelFns[f] && !isReader(f) {
			// reported at its call sites
		}
		sx.AllInstrs(f, func(_ sx.Node, in ssa.Instruction) {
			cc := sx.CallOf(in)
			if cc == nil || cc.StaticCallee() == nil || !cancelFns[cc.StaticCallee()] {
				return
			}
			n++
			key := fmt.Sprintf("%s/fail-all%d", fnKey(f), n)
			top := f
			for top.Parent() != nil {
				top = top.Parent()
			}
			if !isReader(top) {
				l.Bad("C10-N6", key, sx.PosOf(in), "every pending call of the node is failed from "+fnKey(f)+", which is not the stream reader: on the (re)connection path this answers 'stream is down' to a request that is then written to the restored stream; the restarted server handles it and its reply finds no router")
				return
			}
			// in the reader: only on the error edge of its own RecvMsg
			rc := recvMsgCalls(top)[0]
			m := func(o sx.Origin) bool { return (o.Kind == sx.KCall || o.Kind == sx.KExtract) && o.V == ssa.Value(rc) }
			var errEdges []sx.Edge
			sx.AllInstrs(top, func(_ sx.Node, in2 ssa.Instruction) {
				if ifi, ok := in2.(*ssa.If); ok && isErrNonNil(ifi, m) != 0 {
					errEdges = append(errEdges, errEdge(ifi, m, true))
				}
			})
			ok := f == top && edgesDominate(top, errEdges, sx.NodeOf(in))
			if ok {
				// N9: which calls are failed. The reader compares the stream it read from with the
				// current one before it marks the channel broken (the sender may have replaced it
				// meanwhile); the routine that fails the pending calls has no notion of the stream
				// a request was written to
				perStream := false
				callee := cc.StaticCallee()
				sx.AllInstrs(callee, func(_ sx.Node, x ssa.Instruction) {
					if b, isB := x.(*ssa.BinOp); isB && (b.Op == token.EQL || b.Op == token.NEQ) {
						for _, v := range []ssa.Value{b.X, b.Y} {
							if sx.Any(sx.Origins(v), func(o sx.Origin) bool {
								return o.Kind == sx.KField && o.Field != nil && (o.Field.Name() == "gorumsStream" || strings.Contains(strings.ToLower(o.Field.Name()), "stream") || strings.Contains(strings.ToLower(o.Field.Name()), "generation") || strings.Contains(strings.ToLower(o.Field.Name()), "epoch"))
							}) {
								perStream = true
							}
						}
					}
				})
				if len(callee.Params) > 1 {
					perStream = true // told which stream failed
				}
				l.Check(perStream, "C10-N9", fnKey(top)+"/fail-all-per-stream", sx.PosOf(in), "only the calls written to the failed stream are failed", "after a read error the reader fails every pending call of the node, also the calls whose requests the sender has meanwhile written to a stream it re-created: when the reader reacts late (the sender notices the failure, re-creates the stream and sends the next request first), a call whose request the restarted server has handled and answered is told 'stream is down', and its reply finds no router")
			}
			if !ok && f == top {
				// the reader's last act: the node's own context has ended (Close) and the
				// reader returns without reading again - there is no reconnection any more
				var doneEdges []sx.Edge
				sx.AllInstrs(top, func(_ sx.Node, in2 ssa.Instruction) {
					sel, isSel := in2.(*ssa.Select)
					if !isSel {
						return
					}
					for i, st := range sel.States {
						if st.Dir != types.RecvOnly {
							continue
						}
						if cv, isDone := isDoneOf(st.Chan); isDone && isParentCtx(cv) {
							if e, found := selectCaseEdge(sel, i); found {
								doneEdges = append(doneEdges, e)
							}
						}
					}
				})
				_, readsAgain := sx.Reach(sx.NodeOf(in), sx.IsInstr(rc), sx.Query{})
				if edgesDominate(top, doneEdges, sx.NodeOf(in)) && !readsAgain {
					l.OK("C10-N6", key, sx.PosOf(in), "on the reader's way out after the node's context has ended (no reconnection follows)")
					return
				}
			}
			l.Check(ok, "C10-N6", key, sx.PosOf(in), "only on the reader's own read-error edge", "the reader fails every pending call on a path that is neither the error edge of its RecvMsg nor its exit after the node's context has ended")
		})
	}
	for f := range cancelFns {
		if isReader(f) {
			n++
			l.OK("C10-N6", fnKey(f)+"/fail-all-inline", f.Pos(), "the reader itself ranges over the routers")
		}
	}
	l.Floor("C10-N6", n, 1, "call sites of the routine that fails all pending calls")
}

// c10N11: who may give a request up before the sender has it. enqueue answers
// a request itself only because a context has ended - the request's own, or the
// node's (Close). The connection flags describe the past: while the stream to a
// restarted node is being re-created they still say "established and broken",
// and a call made after the node is listening again would be failed within
// microseconds without ever being sent. Only the sender, after an attempt of
// its own (N1), may conclude that the stream is down.
func c10N11(l *core.Ledger, r *rt) {
	l.Rule("C10-N11", "enqueue answers a request locally only where a context is seen to have ended (the Done() case or non-nil Err() edge of the request's context or of the node's context): no answer is decided by the connection flags, which lag behind a node that has come back")
	eq := findEnqueueFn(l, r)
	if eq == nil {
		l.Unknown("C10-N11", "anchor/enqueue", token.NoPos, "enqueue not found")
		return
	}
	req := eq.Params[1]
	isCtxVal := func(v ssa.Value) bool {
		return sx.All(sx.Origins(v), func(o sx.Origin) bool {
			if o.Kind == sx.KField && o.Field != nil && o.Field.Name() == "parentCtx" {
				return true
			}
			return sx.IsFieldNamed("ctx", sx.IsParam(req))(o)
		})
	}
	var ended []sx.Edge
	sx.AllInstrs(eq, func(_ sx.Node, in ssa.Instruction) {
		switch x := in.(type) {
		case *ssa.Select:
			for i, st := range x.States {
				if st.Dir != types.RecvOnly {
					continue
				}
				if cv, isDone := isDoneOf(st.Chan); isDone && isCtxVal(cv) {
					if e, found := selectCaseEdge(x, i); found {
						ended = append(ended, e)
					}
				}
			}
		case *ssa.If:
			m := func(o sx.Origin) bool {
				c, ok := o.V.(*ssa.Call)
				return o.Kind == sx.KCall && ok && c.Call.IsInvoke() && c.Call.Method.Name() == "Err" && isCtxVal(c.Call.Value)
			}
			if isErrNonNil(x, m) != 0 {
				ended = append(ended, errEdge(x, m, true))
			}
		}
	})
	n := 0
	sx.AllInstrs(eq, func(nd sx.Node, in ssa.Instruction) {
		c, ok := in.(*ssa.Call)
		if !ok || c.Call.StaticCallee() == nil || !inRepo(c.Call.StaticCallee()) {
			return
		}
		ps := c.Call.StaticCallee().Signature.Params()
		if ps.Len() != 2 || !isNamed(ps.At(1).Type(), core.RootModule, "response") {
			return
		}
		n++
		key := fmt.Sprintf("%s/local-answer#%d", fnKey(eq), n)
		if edgesDominate(eq, ended, nd) {
			l.OK("C10-N11", key, c.Pos(), "only where a context has ended")
		} else {
			l.Bad("C10-N11", key, c.Pos(), "enqueue answers the request itself on a path where no context is seen to have ended (e.g. on the strength of the connection flags): while the stream to a node that has come back is being re-created the flags still say 'broken', and a call made after the node is listening again is failed without ever being sent")
		}
	})
	l.Floor("C10-N11", n, 2, "local answers in enqueue")
}

// c10N10: "every back-off configuration". grpc.WithConnectParams replaces all
// connection parameters: a ConnectParams literal that sets only Backoff leaves
// MinConnectTimeout at zero, and gRPC then gives every connection attempt no
// more than the back-off delay of that attempt - with a small back-off
// configuration a node whose connection setup takes longer is never connected
// again.
func c10N10(l *core.Ledger, r *rt) {
	l.Rule("C10-N10", "every grpc.ConnectParams the library builds sets MinConnectTimeout (non-zero): the caller's back-off configuration must not cap the time a connection attempt is given")
	n := 0
	for _, f := range allFuncs(l.Prog, r.pkg) {
		f := f
		sx.AllInstrs(f, func(_ sx.Node, in ssa.Instruction) {
			al, ok := in.(*ssa.Alloc)
			if !ok || !isNamed(al.Type(), "google.golang.org/grpc", "ConnectParams") {
				return
			}
			n++
			key := fmt.Sprintf("%s/ConnectParams#%d", fnKey(f), n)
			fs := allocFieldStores(al)
			v := fs["MinConnectTimeout"]
			okv := v != nil
			if k, isK := v.(*ssa.Const); isK && (k.Value == nil || constant.Sign(k.Value) <= 0) {
				okv = false
			}
			l.Check(okv, "C10-N10", key, al.Pos(), "MinConnectTimeout is set", "the connection parameters handed to gRPC carry the back-off configuration but leave MinConnectTimeout at zero: every connection attempt is given at most the back-off delay, so with a small back-off configuration (BaseDelay 10ms, MaxDelay 100ms) a restarted node whose connection setup takes longer than that is never connected again")
		})
	}
	if n == 0 {
		l.OK("C10-N10", "no-ConnectParams", token.NoPos, "the library builds no connection parameters")
	}
}
