package rules

import (
	"fmt"
	"go/token"
	"go/types"
	"sort"

	"golang.org/x/tools/go/ssa"

	"verif/checker/internal/core"
	"verif/checker/internal/sx"
)

func init() {
	register("C03", Entry{
		Title:    "Per-node FIFO: servers start handlers in the order the client issued the calls",
		Run:      runC03,
		Examples: true,
		Meta: core.PropertyMeta{
			Explanation: "Decides the structural chain that makes issue order = start order on one connection. F1: every entry point hands its request to the per-node queue synchronously on the caller's goroutine, for every targeted node, before it returns or starts its call goroutine; only the six entry points call enqueue. F2: one queue per node with one producer function and one consumer goroutine started exactly once per channel, one channel per node. F3: one writer of the stream (sendMsg, called from one site in the sender loop, at most once per dequeued request, exactly one SendMsg per call). F4: on the server, every path from starting a handler to the next RecvMsg acquires the per-connection mutex (released by the handler); one RecvMsg site. F5: exactly one handler start per received message, with the message filled by this iteration's RecvMsg into a freshly allocated Message. F6: every method of every committed service has exactly one registered handler under the name its stub sends (generated-code model, C17 B1).",
			NotDecided:  "In-order delivery inside one gRPC stream and FIFO semantics of Go channels (trusted); that stragglers are 'still queued' (run time); the liveness half ('every targeted server handles every call') beyond its structural part (F1-F3 + C07-E3).",
			Trusted:     append([]string{"gRPC delivers the messages of one stream in order", "Go channels are FIFO", "a goroutine's statements execute in program order"}, commonTrust...),
		},
	})
}

func runC03(l *core.Ledger) {
	r := runtimePkg(l)
	if r == nil {
		return
	}
	l.Rule("C03-F1", "every enqueue call is in an entry point's own body; configuration-wide entry points finish the send loop before any go statement or return; single-node entry points enqueue before any wait or return; who-may-call enqueue = the six entry points")
	l.Rule("C03-F2", "who-may-send on the request queue = {enqueue}; who-may-receive = {sender}; sender is started by exactly one go statement (in newChannel, outside loops); newChannel is called from one site whose result is stored in RawNode.channel, which nobody else writes")
	l.Rule("C03-F3", "who-may-call client SendMsg = {sendMsg} (one site, not in a loop); who-may-call sendMsg = {sender}, one site, inside the dequeue loop, not in a go statement, at most once per dequeued request")
	l.Rule("C03-F4", "NodeStream: every path from the go-handler statement to the next RecvMsg acquires the per-connection mutex; one server RecvMsg site, in NodeStream's own goroutine")
	l.Rule("C03-F5", "exactly one handler start per loop iteration, given the message that this iteration's RecvMsg filled, which is freshly allocated per iteration")
	l.Rule("C03-F7", "the queued request carries the caller's own context parameter and message (C06-P1 re-run): the library never cancels a queued request on the caller's behalf")
	l.Rule("C03-F8", "no node is listed twice in a configuration (C14-G2 re-run: appended only if its id was not seen in this call): a node listed twice is handed every request twice and its server starts the handler twice")
	l.Rule("C03-F9", "every handler the server loop starts itself (a library function, not a registered handler) releases the connection on every path: otherwise the loop waits for a release that never comes and the server handles nothing more on that connection")
	l.Rule("C03-F6", "bijection between descriptor methods, registered handler names and stub Method strings (C17-B1 re-run)")

	eps := findEntryPoints(l, r, "C03-F1")
	if !l.Floor("C03-F1", len(eps), 6, "context-taking entry points") {
		return
	}
	epSet := map[*ssa.Function]bool{}
	for _, ep := range eps {
		epSet[ep.fn] = true
		c03F1(l, ep)
	}
	// who may call enqueue
	var others []string
	for _, f := range allFuncs(l.Prog, r.pkg) {
		sx.AllInstrs(f, func(_ sx.Node, in ssa.Instruction) {
			if cc := sx.CallOf(in); cc != nil && isEnqueue(cc) {
				root := f
				for root.Parent() != nil {
					root = root.Parent()
				}
				if !epSet[root] {
					others = append(others, fnKey(f))
				}
			}
		})
	}
	l.Check(len(others) == 0, "C03-F1", "who-may-call/enqueue", token.NoPos, "only the six entry points enqueue requests", fmt.Sprintf("enqueue is also called from %v", others))

	c03F2F3(l, r)
	c03Server(l, r)
	// F8: a node that is listed twice in a configuration is handed every request twice
	l.With(map[string]string{"C14-G2": "C03-F8"}, func() {
		for _, c := range findCtors(l, r) {
			c14Ctor(l, r, c)
		}
	})
	l.Rule("C03-F10", "no transparent replay: the library's own dial options configure no gRPC retry or hedging policy for the node stream (C06-P8 re-run) - grpc-go buffers what was sent on a stream until the server's first response and replays all of it on a retry, so every buffered call is handled twice")
	l.With(map[string]string{"C06-P8": "C03-F10"}, func() { c06P8(l, r) })
	c03F6(l)
	// F7: what is queued is the caller's own request: its context is the
	// caller's context parameter itself (a context the library derives and
	// cancels on return makes the sender drop requests still queued for
	// stragglers) and its payload is the caller's / per-node message
	l.With(map[string]string{"C06-P1": "C03-F7"}, func() {
		for _, ep := range eps {
			c06P1(l, ep)
		}
	})
}

func c03F1(l *core.Ledger, ep *entryPoint) {
	key := ep.key
	if len(ep.enqueues) == 0 {
		l.Bad("C03-F1", key, ep.fn.Pos(), "entry point never hands a request to a node queue on its own goroutine")
		return
	}
	isEnq := func(n sx.Node) bool {
		for _, e := range ep.enqueues {
			if e == n.Instr() {
				return true
			}
		}
		return false
	}
	waitOrExit := func(n sx.Node) bool {
		switch x := n.Instr().(type) {
		case *ssa.Return:
			// a call that fails before it issued anything (an error the caller gets, or the
			// caller's context had already ended) has no request that could be overtaken
			return !failFastReturn(ep.fn, ep.ctx, x)
		case *ssa.Go:
			return true
		case *ssa.Select:
			return x.Blocking
		case *ssa.UnOp:
			return x.Op == token.ARROW
		}
		return false
	}
	if ep.onConfig {
		li := ep.loop
		if li == nil {
			l.Bad("C03-F1", key, ep.fn.Pos(), "no send loop over the configuration")
			return
		}
		head := func(n sx.Node) bool { return n.B == li.head && n.I == 0 }
		// (a) the loop is entered before any go / return / wait
		w, must := sx.MustPassThrough(sx.Entry(ep.fn), head, waitOrExit)
		if !must {
			l.Bad("C03-F1", key+"/loop-first", sx.PosOf(w.Instr()), "a go statement, wait or return is reachable before the send loop ran")
			return
		}
		// (b) nothing of that kind inside the loop body
		if w, reach := sx.Reach(sx.Node{B: li.bodyEntry, I: -1}, waitOrExit, sx.Query{BlockNode: head}); reach {
			l.Bad("C03-F1", key+"/loop-body", sx.PosOf(w.Instr()), "the send loop can start a goroutine, wait or return before every node has been handed its request: a later call can overtake this one on the remaining nodes")
			return
		}
		l.OK("C03-F1", key, ep.fn.Pos(), "send loop completes on the caller's goroutine before any go/return/wait")
		return
	}
	w, must := sx.MustPassThrough(sx.Entry(ep.fn), isEnq, waitOrExit)
	if !must {
		l.Bad("C03-F1", key, sx.PosOf(w.Instr()), "a wait or return is reachable before the request was handed to the node queue")
		return
	}
	l.OK("C03-F1", key, ep.fn.Pos(), "enqueue precedes every wait and return")
}

func c03F2F3(l *core.Ledger, r *rt) {
	var senders, receivers, sendMsgCallers, clientSendMsg []string
	var senderFn, sendMsgFn *ssa.Function
	var sendMsgSites []*ssa.Call
	var clientSendSites []*ssa.Call
	for _, f := range allFuncs(l.Prog, r.pkg) {
		sx.AllInstrs(f, func(_ sx.Node, in ssa.Instruction) {
			switch x := in.(type) {
			case *ssa.Send:
				if isRequestChan(x.Chan.Type()) {
					senders = append(senders, fnKey(f))
				}
			case *ssa.UnOp:
				if x.Op == token.ARROW && isRequestChan(x.X.Type()) {
					receivers = append(receivers, fnKey(f))
					senderFn = f
				}
			case *ssa.Select:
				for _, st := range x.States {
					if !isRequestChan(st.Chan.Type()) {
						continue
					}
					if st.Dir == types.SendOnly {
						senders = append(senders, fnKey(f))
					} else {
						receivers = append(receivers, fnKey(f))
						senderFn = f
					}
				}
			}
			if cc := sx.CallOf(in); cc != nil {
				if isSendMsgCall(cc) {
					sendMsgCallers = append(sendMsgCallers, fnKey(f))
					if c, ok := in.(*ssa.Call); ok {
						sendMsgSites = append(sendMsgSites, c)
					} else {
						l.Bad("C03-F3", fnKey(f)+"/sendMsg-async", sx.PosOf(in), "sendMsg is started with go/defer: writes to the stream are no longer in queue order")
					}
					sendMsgFn = cc.StaticCallee()
				}
				if cc.IsInvoke() && cc.Method.Name() == "SendMsg" && isNamed(cc.Value.Type(), orderingPkg, "Gorums_NodeStreamClient") {
					clientSendMsg = append(clientSendMsg, fnKey(f))
					if c, ok := in.(*ssa.Call); ok {
						clientSendSites = append(clientSendSites, c)
					}
				}
			}
		})
	}
	enq := findEnqueueFn(l, r)
	okSend := enq != nil && len(senders) == 1 && senders[0] == fnKey(enq)
	l.Check(okSend, "C03-F2", "who-may-send/request-queue", token.NoPos, "only enqueue sends on the per-node queue", fmt.Sprintf("requests are put on a node queue by %v", senders))
	// a second receive site in the same function is fine when it is a drain: a non-blocking select
	// from which no path leads to the stream write (what it takes out is answered, not sent)
	if len(receivers) > 1 && senderFn != nil {
		same := true
		for _, rcv := range receivers {
			if rcv != fnKey(senderFn) {
				same = false
			}
		}
		if same {
			nMain := 0
			okDrains := true
			sx.AllInstrs(senderFn, func(nd sx.Node, in ssa.Instruction) {
				s2, isSel := in.(*ssa.Select)
				if !isSel {
					if u, isU := in.(*ssa.UnOp); isU && u.Op == token.ARROW && isRequestChan(u.X.Type()) {
						nMain++
					}
					return
				}
				for _, st := range s2.States {
					if st.Dir != types.RecvOnly || !isRequestChan(st.Chan.Type()) {
						continue
					}
					if s2.Blocking {
						nMain++
						continue
					}
					if _, toWrite := sx.Reach(nd, func(x sx.Node) bool {
						c, isCall := x.Instr().(*ssa.Call)
						return isCall && isSendMsgCall(&c.Call)
					}, sx.Query{}); toWrite {
						okDrains = false
					}
				}
			})
			if nMain == 1 && okDrains {
				receivers = receivers[:1]
			}
		}
	}
	okRecv := len(receivers) == 1 && senderFn != nil
	l.Check(okRecv, "C03-F2", "who-may-receive/request-queue", token.NoPos, fmt.Sprintf("single consumer %v", receivers), fmt.Sprintf("the node queue is consumed at %d sites %v: two consumers reorder requests", len(receivers), receivers))
	if senderFn != nil {
		// started once
		var goSites []*ssa.Go
		var starters []string
		for _, f := range allFuncs(l.Prog, r.pkg) {
			sx.AllInstrs(f, func(_ sx.Node, in ssa.Instruction) {
				cc := sx.CallOf(in)
				if cc == nil || cc.StaticCallee() != senderFn {
					return
				}
				starters = append(starters, fnKey(f))
				if g, ok := in.(*ssa.Go); ok {
					goSites = append(goSites, g)
				}
			})
		}
		ok := len(starters) == 1 && len(goSites) == 1 && !sx.InLoop(sx.NodeOf(goSites[0]))
		l.Check(ok, "C03-F2", "who-may-start/sender", senderFn.Pos(), fmt.Sprintf("one go statement in %v, outside loops", starters), fmt.Sprintf("the queue consumer must be started by exactly one go statement outside loops; sites: %v", starters))
		if ok {
			// the creating function is called once and its result stored in RawNode.channel
			creator := goSites[0].Parent()
			var sites []*ssa.Call
			for _, f := range allFuncs(l.Prog, r.pkg) {
				sx.AllInstrs(f, func(_ sx.Node, in ssa.Instruction) {
					if c, ok := in.(*ssa.Call); ok && c.Call.StaticCallee() == creator {
						sites = append(sites, c)
					}
				})
			}
			okStore := len(sites) == 1
			if okStore {
				okStore = false
				for _, ref := range *sites[0].Referrers() {
					if st, ok := ref.(*ssa.Store); ok {
						if base, ok := fieldAddrOf(st.Addr, "channel"); ok && isNamed(base.Type(), core.RootModule, "RawNode") {
							okStore = true
						}
					}
				}
			}
			l.Check(okStore, "C03-F2", "who-may-call/"+fnKey(creator), creator.Pos(), "one creation site, stored in RawNode.channel", fmt.Sprintf("the per-node channel must be created at exactly one site and stored in RawNode.channel (sites: %d)", len(sites)))
		}
	}
	// who may write RawNode.channel
	var writers []string
	for _, f := range allFuncs(l.Prog, r.pkg) {
		sx.AllInstrs(f, func(_ sx.Node, in ssa.Instruction) {
			if st, ok := in.(*ssa.Store); ok {
				if base, ok := fieldAddrOf(st.Addr, "channel"); ok && isNamed(base.Type(), core.RootModule, "RawNode") {
					if _, isAl := base.(*ssa.Alloc); !isAl {
						writers = append(writers, fnKey(f))
					}
				}
			}
		})
	}
	sort.Strings(writers)
	l.Check(len(writers) == 1, "C03-F2", "who-may-write/RawNode.channel", token.NoPos, fmt.Sprintf("written only by %v", writers), fmt.Sprintf("RawNode.channel is assigned by %v: a node could get a second queue/sender", writers))

	// F3
	okW := len(clientSendMsg) == 1 && sendMsgFn != nil && clientSendMsg[0] == fnKey(sendMsgFn) && len(clientSendSites) == 1 && !sx.InLoop(sx.NodeOf(clientSendSites[0]))
	l.Check(okW, "C03-F3", "who-may-call/client-SendMsg", token.NoPos, "single stream writer, one write per call", fmt.Sprintf("the client stream is written by %v (exactly one site outside loops in sendMsg is required)", clientSendMsg))
	okC := len(sendMsgSites) == 1 && senderFn != nil && sendMsgSites[0].Parent() == senderFn && sx.InLoop(sx.NodeOf(sendMsgSites[0]))
	if okC {
		// at most once per dequeue: no path sendMsg → sendMsg avoiding the dequeue
		site := sendMsgSites[0]
		isDeq := func(n sx.Node) bool {
			switch x := n.Instr().(type) {
			case *ssa.Select:
				for _, st := range x.States {
					if st.Dir == types.RecvOnly && isRequestChan(st.Chan.Type()) {
						return true
					}
				}
			case *ssa.UnOp:
				return x.Op == token.ARROW && isRequestChan(x.X.Type())
			}
			return false
		}
		if _, again := sx.Reach(sx.NodeOf(site), sx.IsInstr(site), sx.Query{BlockNode: isDeq}); again {
			okC = false
		}
	}
	l.Check(okC, "C03-F3", "who-may-call/sendMsg", token.NoPos, "one call site in the sender loop, at most once per dequeued request", fmt.Sprintf("sendMsg must be called from exactly one site inside the sender's dequeue loop and at most once per request; callers: %v", sendMsgCallers))
}

// serverLoop locates NodeStream by role: the method that calls RecvMsg on a
// Gorums_NodeStreamServer inside a loop.
type serverLoop struct {
	fn      *ssa.Function
	recv    *ssa.Call
	goH     []*ssa.Go
	mut     *ssa.Alloc
	locks   []*ssa.Call
	newMsg  *ssa.Call
	ctxLit  *ssa.Alloc
	pump    *ssa.Function
	pumpGo  *ssa.Go
	srvSend []*ssa.Call
}

func findServerLoop(l *core.Ledger, r *rt, rule string) *serverLoop {
	var sl *serverLoop
	var recvSites []string
	for _, f := range allFuncs(l.Prog, r.pkg) {
		sx.AllInstrs(f, func(_ sx.Node, in ssa.Instruction) {
			c, ok := in.(*ssa.Call)
			if !ok || !c.Call.IsInvoke() || c.Call.Method.Name() != "RecvMsg" || !isNamed(c.Call.Value.Type(), orderingPkg, "Gorums_NodeStreamServer") {
				return
			}
			recvSites = append(recvSites, fnKey(f))
			sl = &serverLoop{fn: f, recv: c}
		})
	}
	if sl == nil || len(recvSites) != 1 || sl.fn.Parent() != nil {
		l.Check(false, rule, "who-may-call/server-RecvMsg", token.NoPos, "", fmt.Sprintf("the server stream must be read at exactly one site in NodeStream's own goroutine; sites: %v", recvSites))
		return nil
	}
	fn := sl.fn
	sx.AllInstrs(fn, func(_ sx.Node, in ssa.Instruction) {
		switch x := in.(type) {
		case *ssa.Go:
			if sig, ok := x.Call.Value.Type().Underlying().(*types.Signature); ok && sig.Params().Len() == 3 && isNamed(sig.Params().At(0).Type(), core.RootModule, "ServerCtx") {
				sl.goH = append(sl.goH, x)
			} else {
				var body *ssa.Function
				if mc, ok := x.Call.Value.(*ssa.MakeClosure); ok {
					body = mc.Fn.(*ssa.Function)
				} else if sc := x.Call.StaticCallee(); sc != nil && inRepo(sc) && len(sc.Blocks) > 0 {
					body = sc // a literal without free variables, or a named function
				}
				if body != nil {
					sl.pump = body
					sl.pumpGo = x
				}
			}
		case *ssa.Alloc:
			if isNamed(x.Type(), "sync", "Mutex") {
				sl.mut = x
			}
			if isNamed(x.Type(), core.RootModule, "ServerCtx") {
				sl.ctxLit = x
			}
		case *ssa.Call:
			if f := x.Call.StaticCallee(); f != nil && f.Name() == "Lock" && len(x.Call.Args) == 1 && isNamed(x.Call.Args[0].Type(), "sync", "Mutex") {
				sl.locks = append(sl.locks, x)
			}
		}
	})
	if tgt, ok := sx.Single(sx.Origins(sl.recv.Call.Args[0])); ok && tgt.Kind == sx.KCall {
		sl.newMsg = tgt.V.(*ssa.Call)
	}
	// server SendMsg sites anywhere
	for _, f := range allFuncs(l.Prog, r.pkg) {
		sx.AllInstrs(f, func(_ sx.Node, in ssa.Instruction) {
			if c, ok := in.(*ssa.Call); ok && c.Call.IsInvoke() && c.Call.Method.Name() == "SendMsg" && isNamed(c.Call.Value.Type(), orderingPkg, "Gorums_NodeStreamServer") {
				sl.srvSend = append(sl.srvSend, c)
			}
		})
	}
	return sl
}

func c03Server(l *core.Ledger, r *rt) {
	sl := findServerLoop(l, r, "C03-F4")
	if sl == nil {
		return
	}
	key := fnKey(sl.fn)
	l.OK("C03-F4", "who-may-call/server-RecvMsg", sl.recv.Pos(), "single read site in "+key)
	c03F4(l, sl, "C03-F4")
	c03F5(l, sl)
	c03F9(l, sl, "C03-F9")
}

// c03F9 (shared with C04): the loop waits for a release after every handler it
// starts. Registered handlers are generated code (C04-H3: defer ctx.Release()).
// A handler that the library itself supplies - a function of this repository
// that reaches the go statement as a value - must release on every path too.
func c03F9(l *core.Ledger, sl *serverLoop, rule string) {
	n := 0
	for _, g := range sl.goH {
		if g.Call.IsInvoke() {
			continue
		}
		for _, o := range sx.Origins(g.Call.Value) {
			f, isF := o.V.(*ssa.Function)
			if !isF || len(f.Blocks) == 0 || !inRepo(f) || len(f.Params) == 0 {
				continue
			}
			n++
			ctxParam := f.Params[0]
			isRelease := func(nd sx.Node) bool {
				cc := sx.CallOf(nd.Instr())
				if cc == nil {
					return false
				}
				cs := cc.StaticCallee()
				if cs == nil || cs.Name() != "Release" || cs.Signature.Recv() == nil || !isNamed(cs.Signature.Recv().Type(), core.RootModule, "ServerCtx") {
					return false
				}
				return len(cc.Args) > 0 && sx.All(sx.Origins(cc.Args[0]), sx.IsParam(ctxParam))
			}
			w, must := sx.MustPassThrough(sx.Entry(f), isRelease, sx.IsReturn)
			pos := f.Pos()
			if !must && w.B != nil {
				pos = sx.PosOf(w.Instr())
			}
			l.Check(must, rule, fnKey(sl.fn)+"/library-handler/"+fnKey(f), pos, "releases (ctx.Release, directly or deferred) on every path", "the server loop starts the library function "+fnKey(f)+" as a handler and then waits for its release, but the function can return without calling ctx.Release(): the loop never reads the next request and the server handles nothing more on this connection")
		}
	}
	if n == 0 {
		l.OK(rule, fnKey(sl.fn)+"/library-handler", sl.fn.Pos(), "the loop starts registered handlers only")
	}
}

// c03F5 is shared with C04-H5: a handler that released early still reads the
// metadata of *its* request when it wraps its reply.
func c03F5(l *core.Ledger, sl *serverLoop) {
	key := fnKey(sl.fn)
	if len(sl.goH) != 1 {
		l.Bad("C03-F5", key+"/handler-start", sl.fn.Pos(), fmt.Sprintf("%d handler start sites; exactly one per received message is required", len(sl.goH)))
		return
	}
	g := sl.goH[0]
	okOnce := true
	if _, again := sx.Reach(sx.NodeOf(g), sx.IsInstr(g), sx.Query{BlockNode: sx.IsInstr(sl.recv)}); again {
		okOnce = false
	}
	okMsg := sl.newMsg != nil && len(g.Call.Args) == 3 && g.Call.Args[1] == ssa.Value(sl.newMsg)
	okFresh := false
	if sl.newMsg != nil {
		_, okFresh = sx.MustPassThrough(sx.NodeOf(g), sx.IsInstr(sl.newMsg), sx.IsInstr(sl.recv))
		okFresh = okFresh && sx.InstrDominates(sl.fn, sl.recv, sx.NodeOf(g))
	}
	l.Check(okOnce && okMsg && okFresh, "C03-F5", key+"/handler-start", g.Pos(), "one start per message, with this iteration's freshly allocated message",
		fmt.Sprintf("handler start: at most once per received message: %v; given the message RecvMsg just filled: %v; a fresh Message per iteration and RecvMsg before the start: %v", okOnce, okMsg, okFresh))
	// ... and at least once: the only way from one receive to the next that does not start the
	// handler is the not-found edge of the lookup of the request's method among the handlers
	notFound := map[sx.Edge]bool{}
	sx.AllInstrs(sl.fn, func(_ sx.Node, in ssa.Instruction) {
		ifi, ok := in.(*ssa.If)
		if !ok {
			return
		}
		cv, _ := condOf(ifi)
		ex, ok := cv.(*ssa.Extract)
		if !ok || ex.Index != 1 {
			return
		}
		if lk, ok := ex.Tuple.(*ssa.Lookup); ok && (sx.Any(sx.Origins(lk.X), sx.IsFieldNamed("handlers", sx.AnyOrigin)) || sx.Any(sx.Origins(lk.Index), sx.IsFieldNamed("Method", sx.AnyOrigin))) {
			// the handler table (as a field, or a snapshot of it loaded from an atomic pointer), asked for the request's method
			notFound[edgeWhere(ifi, false)] = true
		}
	})
	_, skip := sx.Reach(sx.NodeOf(sl.recv), sx.IsInstr(sl.recv), sx.Query{BlockNode: sx.IsInstr(g), BlockEdge: func(e sx.Edge) bool { return notFound[e] }})
	l.Check(!skip, "C03-F5", key+"/every-request-started", g.Pos(), "a received request whose method has a handler is started",
		"the receive loop can go on to the next request without starting the handler of the one it has received although a handler is registered (a filter on the message id, on a sequence number, on anything the request carries): calls take their ids before they queue their requests, so two goroutines can legally put a smaller id on the stream after a larger one - the filtered call is never handled, silently")
}

// c03F4 is shared with C04-H1.
func c03F4(l *core.Ledger, sl *serverLoop, rule string) {
	key := fnKey(sl.fn)
	if sl.mut == nil || len(sl.goH) == 0 {
		l.Bad(rule, key+"/release-before-receive", sl.fn.Pos(), "no per-connection mutex or no handler start found in the server loop")
		return
	}
	isLock := func(n sx.Node) bool {
		for _, c := range sl.locks {
			if c == n.Instr() && c.Call.Args[0] == ssa.Value(sl.mut) {
				return true
			}
		}
		return false
	}
	ok := true
	for _, g := range sl.goH {
		if w, must := sx.MustPassThrough(sx.NodeOf(g), isLock, sx.IsInstr(sl.recv)); !must {
			ok = false
			l.Bad(rule, key+"/release-before-receive", sx.PosOf(w.Instr()), "after starting a handler the server can read the next request without acquiring the per-connection mutex: the next handler starts before the previous one returned or released — ordering is lost")
		}
	}
	// the mutex must be held when the first handler starts: a Lock dominates the loop
	held := false
	for _, c := range sl.locks {
		if c.Call.Args[0] == ssa.Value(sl.mut) && sx.InstrDominates(sl.fn, c, sx.NodeOf(sl.recv)) && !sx.InLoop(sx.NodeOf(c)) {
			held = true
		}
	}
	if ok {
		l.Check(held, rule, key+"/release-before-receive", sl.recv.Pos(), "mutex taken before the loop and re-taken after every handler start", "the per-connection mutex is not held when the first handler starts: its Release unlocks an unlocked mutex (fatal error) or the second request does not wait")
	}
}

// failFastReturn: ret hands the caller an error that is non-nil by
// construction, or lies on a path where the call's context was observed to
// have ended (ctx.Err() != nil edge, ctx.Done() case).
func failFastReturn(fn *ssa.Function, ctx *ssa.Parameter, ret *ssa.Return) bool {
	n := sx.NodeOf(ret)
	res := fn.Signature.Results()
	for i := 0; i < res.Len() && i < len(ret.Results); i++ {
		if types.Identical(res.At(i).Type(), types.Universe.Lookup("error").Type()) {
			if nn, _ := errNonNilByConstruction(fn, ret.Results[i], n); nn {
				return true
			}
		}
	}
	if ctx == nil {
		return false
	}
	if doneCaseDominates(fn, ctx, n) {
		return true
	}
	var edges []sx.Edge
	m := func(o sx.Origin) bool {
		c, ok := o.V.(*ssa.Call)
		return o.Kind == sx.KCall && ok && c.Call.IsInvoke() && c.Call.Method.Name() == "Err" && sameCtx(c.Call.Value, ctx)
	}
	sx.AllInstrs(fn, func(_ sx.Node, in ssa.Instruction) {
		if ifi, ok := in.(*ssa.If); ok && isErrNonNil(ifi, m) != 0 {
			edges = append(edges, errEdge(ifi, m, true))
		}
	})
	return edgesDominate(fn, edges, n)
}
