package rules

import (
	"fmt"
	"go/token"
	"go/types"
	"sort"
	"strings"

	"golang.org/x/tools/go/ssa"

	"verif/checker/internal/core"
	"verif/checker/internal/sx"
)

func init() {
	register("C15", Entry{
		Title:    "The public API is free of data races under concurrent use",
		Run:      runC15,
		Examples: true,
		Meta: core.PropertyMeta{
			Explanation: "Lockset/ownership discipline for every piece of library state that more than one goroutine root can reach. The shared-state table (inferred from access statistics, every row confirmed by reading, frozen in the checker with a reason) assigns each field one discipline: guarded-by a named mutex (every read under any hold, every write under a write hold; closures and goroutines start with the empty lock state), accessed only through sync/atomic, write-once before publication (every store targets the freshly allocated object in its constructor before the go statement / pool insertion that publishes it, or lies in a listed initialiser whose only callers precede publication), guarded-or-write-once (RawNode.conn), and no-escape for guarded slices/maps (never returned or stored without a copy). For the fields in the table a violated row *is* an unsynchronised pair of accesses that public-API use can overlap. Further rows: Async/Correctable protocols (C02-T6, C11-K6 re-run), operand slices of configuration options are never written (C14-G4 re-run), stream handlers that can send more than once clone the metadata (generated code), the shared request is never written after construction. Round 4: the elements of a guarded slice or map are used under the lock its header was read under; only the decode path of the codec may write a message; a package-level variable that is modified under a lock is also read under it.",
			NotDecided:  "Races inside user handlers/quorum functions, gRPC, protobuf; memory outside the table; orderings established by means the table does not model (none found). A clean table is necessary, not sufficient.",
			Trusted:     append([]string{"the Go memory model: mutexes, sync/atomic, go statements and channel operations establish happens-before"}, commonTrust...),
		},
	})
}

type fieldRule struct {
	typ, field string
	kind       string // guarded, atomic, once, guarded-or-once
	lock       string
	inits      []string // functions allowed to initialise (kind once) besides literal construction
	why        string
}

var c15Table = []fieldRule{
	{"channel", "gorumsStream", "guarded", "streamMut", nil, "replaced on every reconnect; read by sender and receiver"},
	{"channel", "streamCtx", "guarded", "streamMut", nil, "replaced on every reconnect"},
	{"channel", "cancelStream", "guarded", "streamMut", nil, "replaced on every reconnect; called by the cancellation watcher"},
	{"channel", "gorumsClient", "guarded", "streamMut", nil, "set when the first stream is created, read by reconnect"},
	{"channel", "lastError", "guarded", "mu", nil, "written by sender/receiver, read through LastErr"},
	{"channel", "responseRouters", "guarded", "responseMut", nil, "router map"},
	{"channel", "streamBroken", "atomic", "", nil, "flag shared by sender and receiver"},
	{"channel", "connEstablished", "atomic", "", nil, "flag shared by sender and receiver"},
	{"RawManager", "nextMsgID", "atomic", "", nil, "message-id counter"},
	{"channel", "sendQ", "once", "", nil, "set in the literal"},
	{"channel", "node", "once", "", nil, "set in the literal"},
	{"channel", "parentCtx", "once", "", nil, "set in newChannel before the sender starts"},
	{"channel", "backoffCfg", "once", "", nil, "set in the literal"},
	{"channel", "latency", "once", "", nil, "never written after construction"},
	{"channel", "streamUp", "once", "", nil, "set in the literal"},
	{"RawNode", "id", "once", "", nil, "only assigned at creation"},
	{"RawNode", "addr", "once", "", nil, "only assigned at creation"},
	{"RawNode", "mgr", "once", "", []string{"gorums.(RawNode).connect"}, "set by connect, which only AddNode calls before the node enters the pool"},
	{"RawNode", "channel", "once", "", []string{"gorums.(RawNode).connect"}, "set by connect before publication"},
	{"RawNode", "cancel", "once", "", []string{"gorums.(RawNode).newContext"}, "set by newContext (← newChannel ← connect) before publication"},
	{"RawNode", "conn", "guarded-or-once", "a mutex", nil, "re-assigned by dial on the sender goroutine, read by close on the caller of Close"},
	{"RawNode", "closed", "guarded-or-once", "a mutex", nil, "set by close, read by dial on the sender goroutine"},
	{"RawManager", "opts", "once", "", nil, "set in NewRawManager"},
	{"RawManager", "logger", "once", "", nil, "set in NewRawManager"},
	{"RawManager", "nodes", "guarded", "mu", nil, "node pool"},
	{"RawManager", "lookup", "guarded", "mu", nil, "node pool index"},
	{"Correctable", "donech", "once", "", nil, "set in the literal"},
	{"Correctable", "reply", "guarded", "mu", nil, "correctable state"},
	{"Correctable", "level", "guarded", "mu", nil, "correctable state"},
	{"Correctable", "err", "guarded", "mu", nil, "correctable state"},
	{"Correctable", "done", "guarded", "mu", nil, "correctable state"},
	{"Correctable", "watchers", "guarded", "mu", nil, "correctable state"},
	{"Async", "c", "once", "", nil, "set in the literal"},
	{"Async", "reply", "protocol", "", nil, "written before close(c), read after <-c (C15-P1 = C02-T6)"},
	{"Async", "err", "protocol", "", nil, "written before close(c), read after <-c (C15-P1 = C02-T6)"},
}

// c15Types are the structs whose objects are shared between goroutines; every
// field of them must have a discipline: a table row, or one inferred by
// c15Infer for fields the table does not know (added later).
var c15Types = []string{"channel", "RawNode", "RawManager", "Correctable", "Async"}

type fieldAccess struct {
	fn    *ssa.Function
	at    ssa.Instruction
	fa    *ssa.FieldAddr
	kind  string // read, write, addr:<callee>, other
	fresh bool   // base is an allocation of this function (construction)
}

func collectAccesses(l *core.Ledger, r *rt, typ, field string) []fieldAccess {
	var out []fieldAccess
	for _, f := range allFuncs(l.Prog, r.pkg) {
		f := f
		sx.AllInstrs(f, func(_ sx.Node, in ssa.Instruction) {
			fa, ok := in.(*ssa.FieldAddr)
			if !ok || !isNamed(fa.X.Type(), core.RootModule, typ) {
				return
			}
			fld := fieldOf(fa.X.Type(), fa.Field)
			if fld == nil || fld.Name() != field {
				return
			}
			fresh := freshBase(fa.X, 0)
			for _, ref := range *fa.Referrers() {
				switch u := ref.(type) {
				case *ssa.Store:
					if u.Addr == ssa.Value(fa) {
						out = append(out, fieldAccess{f, u, fa, "write", fresh})
					} else {
						out = append(out, fieldAccess{f, u, fa, "other", fresh})
					}
				case *ssa.UnOp:
					out = append(out, fieldAccess{f, u, fa, "read", fresh})
				case *ssa.Call, *ssa.Go, *ssa.Defer:
					cc := sx.CallOf(u)
					out = append(out, fieldAccess{f, u, fa, "addr:" + sx.StaticCalleeName(cc), fresh})
				case *ssa.FieldAddr, *ssa.IndexAddr:
					// nested address (e.g. &m.opts.logger): classify by its own uses
					sub := u.(ssa.Value)
					for _, r2 := range *sub.Referrers() {
						switch u2 := r2.(type) {
						case *ssa.Store:
							if u2.Addr == sub {
								out = append(out, fieldAccess{f, u2, fa, "write", fresh})
							}
						case *ssa.UnOp:
							out = append(out, fieldAccess{f, u2, fa, "read", fresh})
						case *ssa.Call:
							out = append(out, fieldAccess{f, u2, fa, "addr:" + sx.StaticCalleeName(&u2.Call), fresh})
						case *ssa.FieldAddr:
							for _, r3 := range *u2.Referrers() {
								switch u3 := r3.(type) {
								case *ssa.Store:
									out = append(out, fieldAccess{f, u3, fa, "write", fresh})
								case *ssa.UnOp:
									out = append(out, fieldAccess{f, u3, fa, "read", fresh})
								}
							}
						}
					}
				case *ssa.DebugRef:
				default:
					out = append(out, fieldAccess{f, ref, fa, "other", fresh})
				}
			}
		})
	}
	return out
}

func runC15(l *core.Ledger) {
	r := runtimePkg(l)
	if r == nil {
		return
	}
	l.Rule("C15-L1", "guarded-by: every read of the field happens with the named mutex held (any mode), every write with it write-held; goroutines and closures start with no lock")
	l.Rule("C15-A1", "atomic-only: the field's address is used only by sync/atomic functions or by the atomicFlag methods, which themselves use only sync/atomic")
	l.Rule("C15-O1", "write-once before publication: every store targets a freshly allocated object in the allocating function before any go statement, or lies in a listed initialiser whose callers all precede the object's publication")
	l.Rule("C15-L5", "no escape: a guarded slice or map is never returned or stored elsewhere without a copy")
	l.Rule("C15-R1", "the request and message handed to the node queues are never written by the library after construction (only literals and the codec's decode targets are written)")
	l.Rule("C15-P1", "Async outcome fields and Correctable state follow their publication protocols (C02-T6, C11-K6 re-run)")
	l.Rule("C15-S1", "server: a handler that can send more than once passes a fresh proto.Clone of the metadata to WrapMessage (generated code + template)")
	l.Rule("C15-G4", "operand slices of configuration options are never written (C14-G4 re-run)")

	states := map[*ssa.Function]*sx.LockState{}
	lockState := func(f *ssa.Function) *sx.LockState {
		if s, ok := states[f]; ok {
			return s
		}
		s := sx.AnalyzeLocks(f)
		states[f] = s
		return s
	}
	roots := goRoots(l, r)
	total := 0
	for _, row := range c15Table {
		acc := collectAccesses(l, r, row.typ, row.field)
		// the field must exist
		if tn, _ := r.pkg.Types.Scope().Lookup(row.typ).(*types.TypeName); tn == nil || sx.FieldIndex(tn.Type(), row.field) < 0 {
			// nothing left to protect; whatever replaced it is classified by c15Infer
			l.Note("table row %s.%s: the field no longer exists", row.typ, row.field)
			continue
		}
		if row.kind == "protocol" {
			total += len(acc)
			continue
		}
		total += len(acc)
		// the field has become a typed atomic (atomic.Bool, atomic.Pointer[T], ...): every access goes
		// through its methods, it needs no lock
		if tn, _ := r.pkg.Types.Scope().Lookup(row.typ).(*types.TypeName); tn != nil {
			if st, isS := tn.Type().Underlying().(*types.Struct); isS {
				if i := sx.FieldIndex(tn.Type(), row.field); i >= 0 {
					if nt, isN := st.Field(i).Type().(*types.Named); isN && nt.Obj().Pkg() != nil && nt.Obj().Pkg().Path() == "sync/atomic" {
						l.OK("C15-A1", row.typ+"."+row.field, token.NoPos, "a typed atomic: accessed through its methods only")
						continue
					}
				}
			}
		}
		key := row.typ + "." + row.field
		switch row.kind {
		case "guarded":
			c15Guarded(l, row, acc, lockState, key)
		case "atomic":
			ok := true
			var bad []string
			for _, a := range acc {
				if a.fresh {
					continue
				}
				if !strings.HasPrefix(a.kind, "addr:") {
					ok = false
					bad = append(bad, fnKey(a.fn)+":"+a.kind)
					continue
				}
				callee := strings.TrimPrefix(a.kind, "addr:")
				if strings.HasPrefix(callee, "sync/atomic.") {
					continue
				}
				if strings.HasPrefix(callee, core.RootModule+".atomicFlag.") {
					continue
				}
				ok = false
				bad = append(bad, fnKey(a.fn)+"→"+callee)
			}
			l.Check(ok, "C15-A1", key, token.NoPos, fmt.Sprintf("%d accesses, all atomic", len(acc)), fmt.Sprintf("%s is accessed non-atomically: %v", key, bad))
		case "once":
			c15Once(l, r, row, acc, key)
		case "guarded-or-once":
			// write-once?
			writers := map[string]bool{}
			for _, a := range acc {
				if a.kind == "write" && !a.fresh {
					writers[fnKey(a.fn)] = true
				}
			}
			multiRoot := false
			for w := range writers {
				for _, rt := range roots {
					if rt.site == nil {
						continue
					}
					for _, f := range allFuncs(l.Prog, r.pkg) {
						if fnKey(f) == w && len(callPaths(rt.fn, f)) > 0 {
							multiRoot = true
						}
					}
				}
			}
			if !multiRoot {
				l.OK("C15-O1", key, token.NoPos, "written only before publication")
				continue
			}
			// infer the guard: a mutex held at every access
			common := map[string]bool{}
			first := true
			for _, a := range acc {
				if a.fresh {
					continue
				}
				held := lockState(a.fn).HeldAt(sx.NodeOf(a.at))
				cur := map[string]bool{}
				for _, h := range held {
					if !h.Read || a.kind == "read" {
						cur[h.Field] = true
					}
				}
				if first {
					common, first = cur, false
					continue
				}
				for k := range common {
					if !cur[k] {
						delete(common, k)
					}
				}
			}
			guard := ""
			for k := range common {
				if guard == "" || k < guard {
					guard = k
				}
			}
			if guard == "" {
				guard = row.lock // report against the expected name
			}
			row2 := row
			row2.lock = guard
			c15Guarded(l, row2, acc, lockState, key)
		}
	}
	l.Floor("C15-L1", total, 80, "accesses to fields of the shared-state table")
	c15Infer(l, r, roots, lockState)
	c15Pointees(l, r, roots, lockState)
	c15Appends(l, r)
	c15StaticAPI(l)
	c15Globals(l, r, roots, lockState)

	// every access to the flag word of atomicFlag, in whichever method, is a sync/atomic call
	{
		per := map[*ssa.Function][2]int{} // accesses, atomic ones
		for _, a := range collectAccesses(l, r, "atomicFlag", "flag") {
			c := per[a.fn]
			c[0]++
			if strings.HasPrefix(a.kind, "addr:sync/atomic.") {
				c[1]++
			}
			per[a.fn] = c
		}
		var fns []*ssa.Function
		for f := range per {
			fns = append(fns, f)
		}
		sort.Slice(fns, func(i, j int) bool { return fnKey(fns[i]) < fnKey(fns[j]) })
		for _, f := range fns {
			c := per[f]
			l.Check(c[0] == c[1], "C15-A1", fnKey(f), f.Pos(), "sync/atomic only", fnKey(f)+" touches the flag word non-atomically")
		}
		if _, has := r.pkg.Types.Scope().Lookup("atomicFlag").(*types.TypeName); !has {
			l.OK("C15-A1", "atomicFlag/methods", token.NoPos, "the flag type is gone (flags are typed atomics, classified per field)")
		} else if len(fns) < 2 {
			l.Unknown("C15-A1", "atomicFlag/methods", token.NoPos, "fewer than two functions access the flag word of atomicFlag: type not found or reshaped")
		}
	}

	c15Escape(l, r)
	c15Request(l, r)
	l.With(map[string]string{"C02-T6": "C15-P1"}, func() { c02T6(l, r) })
	l.With(map[string]string{"C11-K6": "C15-P1"}, func() { c11Locks(l, r) })
	c15S1(l)
	l.With(map[string]string{"C14-G4": "C15-G4"}, func() { c14G4(l, r) })
}

func c15Guarded(l *core.Ledger, row fieldRule, acc []fieldAccess, lockState func(*ssa.Function) *sx.LockState, key string) {
	n := 0
	for _, a := range acc {
		if a.fresh {
			continue // construction of an object nobody else can see yet
		}
		n++
		ls := lockState(a.fn)
		held := ls.HeldAt(sx.NodeOf(a.at))
		write := a.kind == "write" || strings.HasPrefix(a.kind, "addr:") || a.kind == "other"
		k := fmt.Sprintf("%s@%s/%s", key, fnKey(a.fn), a.kind)
		if strings.HasPrefix(a.kind, "addr:") {
			k = fmt.Sprintf("%s@%s/addr", key, fnKey(a.fn))
		}
		ok := sx.Holds(held, row.lock, write)
		if ok {
			l.OK("C15-L1", k, sx.PosOf(a.at), "under "+row.lock)
			// the lock protects the elements as well as the header: a slice or map value
			// loaded under the lock is read (indexed, ranged over, handed on) under it too
			if ld, isLoad := a.at.(*ssa.UnOp); isLoad && a.kind == "read" {
				for i, use := range elementUses(ld, 0) {
					uh := ls.HeldAt(sx.NodeOf(use))
					_, isStore := use.(*ssa.Store)
					ek := fmt.Sprintf("%s@%s/elements#%d", key, fnKey(a.fn), i)
					if sx.Holds(uh, row.lock, isStore) {
						l.OK("C15-L1", ek, sx.PosOf(use), "elements used under "+row.lock)
					} else {
						l.Bad("C15-L1", ek, sx.PosOf(use), fmt.Sprintf("the header of %s is read under %s, but its elements are used after the lock is released (held: %s): the slice header is a snapshot, the backing array is not - another goroutine re-sorts or appends in place under the lock while this one reads the elements", key, row.lock, sx.HeldString(uh)))
					}
				}
			}
			continue
		}
		what := "read"
		if write {
			what = "written"
		}
		extra := ""
		if a.fn.Parent() != nil {
			extra = " (a closure/goroutine does not inherit the locks of the function that created it)"
		}
		l.Bad("C15-L1", k, sx.PosOf(a.at), fmt.Sprintf("%s is %s without holding %s%s; held: %s — %s", key, what, row.lock, extra, sx.HeldString(held), row.why))
	}
	if n == 0 {
		l.OK("C15-L1", key, token.NoPos, "no access outside construction")
	}
}

// elementUses lists the instructions that touch the elements of the slice or
// map v (not just its header): index and range reads, element stores, and
// calls that are handed the value. len and cap read the header only.
func elementUses(v ssa.Value, depth int) []ssa.Instruction {
	switch v.Type().Underlying().(type) {
	case *types.Slice, *types.Map:
	default:
		return nil
	}
	if depth > 4 || v.Referrers() == nil {
		return nil
	}
	var out []ssa.Instruction
	for _, ref := range *v.Referrers() {
		switch u := ref.(type) {
		case *ssa.IndexAddr:
			if u.X != v {
				continue
			}
			for _, r2 := range *u.Referrers() {
				switch r2.(type) {
				case *ssa.UnOp, *ssa.Store:
					out = append(out, r2)
				}
			}
		case *ssa.Lookup:
			if u.X == v {
				out = append(out, u)
			}
		case *ssa.MapUpdate:
			if u.Map == v {
				out = append(out, u)
			}
		case *ssa.Range:
			for _, r2 := range *u.Referrers() {
				if nx, ok := r2.(*ssa.Next); ok {
					out = append(out, nx)
				}
			}
		case *ssa.Slice:
			if u.X == v {
				out = append(out, elementUses(u, depth+1)...)
			}
		case *ssa.Phi:
			out = append(out, elementUses(u, depth+1)...)
		case *ssa.ChangeType:
			out = append(out, elementUses(u, depth+1)...)
		case *ssa.Call:
			if b, ok := u.Call.Value.(*ssa.Builtin); ok && (b.Name() == "len" || b.Name() == "cap") {
				continue
			}
			out = append(out, u)
		case *ssa.Go, *ssa.Defer:
			out = append(out, ref)
		}
	}
	return out
}

func c15Once(l *core.Ledger, r *rt, row fieldRule, acc []fieldAccess, key string) {
	ok := true
	var bad []string
	for _, a := range acc {
		if a.kind == "read" {
			continue
		}
		if a.fresh {
			// must precede any go statement of the constructing function
			var afterGo bool
			sx.AllInstrs(a.fn, func(n sx.Node, in ssa.Instruction) {
				if _, isGo := in.(*ssa.Go); isGo {
					if _, reach := sx.Reach(n, sx.IsInstr(a.at), sx.Query{}); reach {
						afterGo = true
					}
				}
			})
			if afterGo {
				ok = false
				bad = append(bad, fnKey(a.fn)+": written after a goroutine was started")
			}
			continue
		}
		allowed := false
		for _, in := range row.inits {
			if fnKey(a.fn) == in {
				allowed = true
			}
		}
		if strings.HasPrefix(a.kind, "addr:") && fnKey(a.fn) == "gorums.NewRawManager" {
			allowed = true // option functions applied to the manager under construction
		}
		if !allowed {
			ok = false
			bad = append(bad, fnKey(a.fn)+":"+a.kind)
		}
	}
	// listed initialisers: all callers precede publication (connect ← AddNode only, before the pool insert)
	for _, in := range row.inits {
		if !c15InitChain(l, r, in) {
			ok = false
			bad = append(bad, in+" is reachable after the object was published")
		}
	}
	l.Check(ok, "C15-O1", key, token.NoPos, "written only during construction / before publication", fmt.Sprintf("%s is written after publication: %v — %s", key, bad, row.why))
}

// c15InitChain: the initialiser is only reachable through
// newContext ← newChannel ← (RawNode).connect ← AddNode, and in AddNode the
// call precedes the insertion into the pool.
func c15InitChain(l *core.Ledger, r *rt, name string) bool {
	var target *ssa.Function
	for _, f := range allFuncs(l.Prog, r.pkg) {
		if fnKey(f) == name {
			target = f
		}
	}
	if target == nil {
		return false
	}
	cur := target
	for depth := 0; depth < 6; depth++ {
		var callers []*ssa.Function
		var sites []ssa.Instruction
		for _, f := range allFuncs(l.Prog, r.pkg) {
			sx.AllInstrs(f, func(_ sx.Node, in ssa.Instruction) {
				if cc := sx.CallOf(in); cc != nil && cc.StaticCallee() == cur {
					callers = append(callers, f)
					sites = append(sites, in)
				}
			})
		}
		if len(callers) != 1 {
			return false
		}
		if _, isGo := sites[0].(*ssa.Go); isGo {
			return false
		}
		if callers[0].Name() == "AddNode" {
			// the call precedes every pool insertion
			add := callers[0]
			okOrder := true
			sx.AllInstrs(add, func(n sx.Node, in ssa.Instruction) {
				if mu, ok := in.(*ssa.MapUpdate); ok {
					if sx.All(sx.Origins(mu.Map), sx.IsFieldNamed("lookup", sx.AnyOrigin)) && !sx.InstrDominates(add, sites[0], n) {
						okOrder = false
					}
				}
			})
			return okOrder
		}
		cur = callers[0]
	}
	return false
}

// c15Escape: L5 for RawManager.nodes / lookup.
func c15Escape(l *core.Ledger, r *rt) {
	for _, field := range []string{"nodes", "lookup"} {
		for _, f := range allFuncs(l.Prog, r.pkg) {
			sx.AllInstrs(f, func(_ sx.Node, in ssa.Instruction) {
				check := func(v ssa.Value, how string) {
					if _, isSl := v.Type().Underlying().(*types.Slice); !isSl {
						if _, isM := v.Type().Underlying().(*types.Map); !isM {
							return
						}
					}
					if sx.Any(sx.Origins(v), func(o sx.Origin) bool {
						return o.Kind == sx.KField && o.Field != nil && o.Field.Name() == field && sx.All(o.Base, func(b sx.Origin) bool { return isNamed(b.V.Type(), core.RootModule, "RawManager") })
					}) {
						l.Bad("C15-L5", fmt.Sprintf("RawManager.%s@%s/%s", field, fnKey(f), how), sx.PosOf(in), fmt.Sprintf("the guarded %s of the node pool is %s without a copy: the caller iterates it while another goroutine appends to or re-sorts it under the lock", field, how))
					}
				}
				switch x := in.(type) {
				case *ssa.Return:
					for _, res := range x.Results {
						check(res, "returned")
					}
				case *ssa.Store:
					if fa, ok := x.Addr.(*ssa.FieldAddr); ok && fieldOf(fa.X.Type(), fa.Field).Name() == field {
						return
					}
					if al, ok := x.Addr.(*ssa.Alloc); ok && !al.Heap {
						return // spill of a named result / local variable
					}
					check(x.Val, "stored")
				}
			})
		}
	}
	l.OK("C15-L5", "scan", token.NoPos, "returns and stores of all runtime functions scanned for the guarded pool slice/map")
}

// c15Request: nobody writes request / Message fields through a non-fresh base,
// except the codec's decode into the message it was handed.
func c15Request(l *core.Ledger, r *rt) {
	var bad []string
	// functions reached from Codec.Unmarshal and not from Codec.Marshal (the two
	// methods of gRPC's encoding.Codec interface)
	decodeOnly := map[*ssa.Function]bool{}
	{
		reach := func(name string) map[*ssa.Function]bool {
			out := map[*ssa.Function]bool{}
			var walk func(f *ssa.Function, d int)
			walk = func(f *ssa.Function, d int) {
				if f == nil || out[f] || d > 6 || !inRepo(f) {
					return
				}
				out[f] = true
				sx.AllInstrs(f, func(_ sx.Node, in ssa.Instruction) {
					if cc := sx.CallOf(in); cc != nil {
						walk(cc.StaticCallee(), d+1)
					}
				})
			}
			for _, f := range allFuncs(l.Prog, r.pkg) {
				if f.Name() == name && f.Signature.Recv() != nil && isNamed(f.Signature.Recv().Type(), core.RootModule, "Codec") {
					walk(f, 0)
				}
			}
			return out
		}
		enc := reach("Marshal")
		for f := range reach("Unmarshal") {
			if !enc[f] {
				decodeOnly[f] = true
			}
		}
	}
	for _, typ := range []string{"request", "Message"} {
		tn, _ := r.pkg.Types.Scope().Lookup(typ).(*types.TypeName)
		if tn == nil {
			continue
		}
		st := tn.Type().Underlying().(*types.Struct)
		for i := 0; i < st.NumFields(); i++ {
			for _, a := range collectAccesses(l, r, typ, st.Field(i).Name()) {
				if a.kind != "write" || a.fresh {
					continue
				}
				// codec: the decode path writes the message it was handed (gRPC passes RecvMsg's
				// fresh target); the encode path is handed messages that other goroutines hold
				// (the payload of a call is shared by the senders of all its nodes)
				if decodeOnly[a.fn] {
					continue
				}
				// a local variable of struct type (sender's `var req request`)
				if _, isAl := a.fa.X.(*ssa.Alloc); isAl {
					continue
				}
				bad = append(bad, fmt.Sprintf("%s.%s in %s", typ, st.Field(i).Name(), fnKey(a.fn)))
			}
		}
	}
	// the Metadata the requests of a call share is read by every node's sender until that sender
	// has written or given up its request - which can be after the call has returned (a stream
	// failure or Close answers for the node while the write is pending). Nobody writes it after
	// construction: not its fields through an object that was not allocated on the spot (a pool),
	// not through Reset. WrapMessage (server side, C05-M5) writes Status into the metadata it is
	// handed - the request's own, which no other goroutine of the server reads (C15-S1).
	for _, f := range allFuncs(l.Prog, r.pkg) {
		f := f
		if decodeOnly[f] || f.Name() == "WrapMessage" {
			continue
		}
		sx.AllInstrs(f, func(_ sx.Node, in ssa.Instruction) {
			switch x := in.(type) {
			case *ssa.Store:
				fa, ok := x.Addr.(*ssa.FieldAddr)
				if !ok || !isNamed(fa.X.Type(), orderingPkg, "Metadata") || freshBase(fa.X, 0) {
					return
				}
				if fl := fieldOf(fa.X.Type(), fa.Field); fl != nil && fl.Exported() {
					bad = append(bad, fmt.Sprintf("Metadata.%s in %s", fl.Name(), fnKey(f)))
				}
			case *ssa.Call:
				cs := x.Call.StaticCallee()
				if cs == nil || cs.Signature.Recv() == nil || !isNamed(cs.Signature.Recv().Type(), orderingPkg, "Metadata") {
					return
				}
				if cs.Name() == "Reset" && len(x.Call.Args) > 0 && !freshBase(x.Call.Args[0], 0) {
					bad = append(bad, fmt.Sprintf("Metadata.Reset in %s", fnKey(f)))
				}
			}
		})
	}
	sort.Strings(bad)
	l.Check(len(bad) == 0, "C15-R1", "who-may-write/request,Message", token.NoPos, "requests and messages are immutable after construction", fmt.Sprintf("a shared request/message is written after construction: %v", bad))
}

// c15Infer classifies every field of the shared structs that the table does
// not list. Accepted disciplines, in this order: the field is itself a
// synchronisation primitive; it is never written after construction (writes
// only through a fresh allocation or in the pre-publication initialisers the
// table names); every access is atomic; one mutex is held at every access
// (write-held at writes); all accesses happen on one library goroutine.
// Anything else is an unsynchronised shared field.
func c15Infer(l *core.Ledger, r *rt, roots []goRoot, lockState func(*ssa.Function) *sx.LockState) {
	inTable := map[string]bool{}
	inits := map[string]bool{}
	for _, row := range c15Table {
		inTable[row.typ+"."+row.field] = true
		for _, in := range row.inits {
			inits[in] = true
		}
	}
	nfields := 0
	for _, typ := range c15Types {
		tn, _ := r.pkg.Types.Scope().Lookup(typ).(*types.TypeName)
		if tn == nil {
			l.Unknown("C15-L1", "type/"+typ, token.NoPos, "shared struct type not found")
			continue
		}
		st, ok := tn.Type().Underlying().(*types.Struct)
		if !ok {
			l.Unknown("C15-L1", "type/"+typ, token.NoPos, "shared type is no longer a struct")
			continue
		}
		for i := 0; i < st.NumFields(); i++ {
			fld := st.Field(i)
			key := typ + "." + fld.Name()
			nfields++
			if inTable[key] {
				continue
			}
			if c15SelfSync(fld.Type()) {
				l.OK("C15-L1", key, fld.Pos(), "synchronisation primitive")
				continue
			}
			acc := collectAccesses(l, r, typ, fld.Name())
			var live []fieldAccess
			for _, a := range acc {
				if !a.fresh {
					live = append(live, a)
				}
			}
			// never written after construction
			written := false
			for _, a := range live {
				if a.kind != "read" && !inits[fnKey(a.fn)] {
					written = true
				}
			}
			if !written {
				l.OK("C15-O1", key, fld.Pos(), "inferred: never written after construction")
				continue
			}
			// all atomic
			atomicOnly := true
			for _, a := range live {
				if !strings.HasPrefix(a.kind, "addr:sync/atomic.") {
					atomicOnly = false
				}
			}
			if atomicOnly {
				l.OK("C15-A1", key, fld.Pos(), fmt.Sprintf("inferred: %d accesses, all through sync/atomic", len(live)))
				continue
			}
			// a common mutex
			var common map[string]bool
			for _, a := range live {
				cur := map[string]bool{}
				for _, h := range lockState(a.fn).HeldAt(sx.NodeOf(a.at)) {
					if !h.Read || a.kind == "read" {
						cur[h.Field] = true
					}
				}
				if common == nil {
					common = cur
					continue
				}
				for k := range common {
					if !cur[k] {
						delete(common, k)
					}
				}
			}
			if len(common) > 0 {
				var names []string
				for k := range common {
					names = append(names, k)
				}
				sort.Strings(names)
				l.OK("C15-L1", key, fld.Pos(), fmt.Sprintf("inferred: %d accesses, all with %s held", len(live), strings.Join(names, "/")))
				continue
			}
			// confined to one library goroutine
			rootSet := map[string]bool{}
			for _, a := range live {
				for k := range c15RootsOf(roots, a.fn) {
					if k == "user goroutines" {
						k = "API"
					}
					rootSet[k] = true
				}
			}
			if len(rootSet) == 1 && !rootSet["API"] {
				for k := range rootSet {
					l.OK("C15-L1", key, fld.Pos(), "inferred: all accesses happen on one library goroutine ("+k+")")
				}
				continue
			}
			var where []string
			for _, a := range live {
				where = append(where, fnKey(a.fn)+":"+a.kind)
			}
			sort.Strings(where)
			var rs []string
			for k := range rootSet {
				rs = append(rs, k)
			}
			sort.Strings(rs)
			l.Bad("C15-L1", key, fld.Pos(), fmt.Sprintf("field of a struct shared between goroutines is written after construction with no common mutex, not atomically, and from more than one goroutine (%v): accesses %v", rs, where))
		}
	}
	l.Floor("C15-L1", nfields, 30, "fields of the shared structs classified")
}

func c15SelfSync(t types.Type) bool {
	for _, n := range []string{"Mutex", "RWMutex", "Once", "WaitGroup"} {
		if isNamed(t, "sync", n) {
			return true
		}
	}
	if isNamed(t, core.RootModule, "atomicFlag") {
		return true
	}
	if nt, ok := t.(*types.Named); ok && nt.Obj().Pkg() != nil && nt.Obj().Pkg().Path() == "sync/atomic" {
		return true
	}
	return false
}

// ---------------------------------------------------------------- pointees and globals

// c15ThreadSafe lists external struct types whose methods are documented as
// safe for concurrent use; a pointer to any other external struct held in a
// shared field is treated as unsynchronised state of its own.
var c15ThreadSafe = map[string]bool{
	"google.golang.org/grpc.ClientConn": true,
	"google.golang.org/grpc.Server":     true,
	"log.Logger":                        true,
	"sync.Mutex":                        true,
	"sync.RWMutex":                      true,
	"sync.Once":                         true,
	"sync.WaitGroup":                    true,
}

// mutatesReceiver: the method stores through its receiver (directly or in a
// method of the same receiver it calls).
func mutatesReceiver(f *ssa.Function, depth int) bool {
	if f == nil || len(f.Blocks) == 0 || len(f.Params) == 0 || f.Signature.Recv() == nil || depth > 3 {
		return false
	}
	recv := f.Params[0]
	found := false
	sx.AllInstrs(f, func(_ sx.Node, in ssa.Instruction) {
		switch x := in.(type) {
		case *ssa.Store:
			if fa, ok := x.Addr.(*ssa.FieldAddr); ok && sx.All(sx.Origins(fa.X), sx.IsParam(recv)) {
				found = true
			}
		case *ssa.MapUpdate:
			if sx.All(sx.Origins(x.Map), func(o sx.Origin) bool { return o.Kind == sx.KField && sx.All(o.Base, sx.IsParam(recv)) }) {
				found = true
			}
		case *ssa.Call:
			if callee := x.Call.StaticCallee(); callee != nil && inRepo(callee) && callee.Signature.Recv() != nil && len(x.Call.Args) > 0 &&
				sx.All(sx.Origins(x.Call.Args[0]), sx.IsParam(recv)) && mutatesReceiver(callee, depth+1) {
				found = true
			}
		}
	})
	return found
}

type sharedUse struct {
	fn *ssa.Function
	at ssa.Instruction
	by string
}

// c15Discipline decides whether a set of mutating uses of one shared object
// is serialised: by a lock common to all uses whose identity satisfies
// lockOK, or by confinement to one library goroutine.
func c15Discipline(l *core.Ledger, r *rt, roots []goRoot, lockState func(*ssa.Function) *sx.LockState, uses []sharedUse, lockOK func(sx.Held) bool) (bool, string) {
	var common map[string]bool
	for _, u := range uses {
		cur := map[string]bool{}
		for _, h := range lockState(u.fn).HeldAt(sx.NodeOf(u.at)) {
			if !h.Read && lockOK(h) {
				cur[h.Lock] = true
			}
		}
		if common == nil {
			common = cur
			continue
		}
		for k := range common {
			if !cur[k] {
				delete(common, k)
			}
		}
	}
	if len(common) > 0 {
		for k := range common {
			return true, "all uses hold " + k
		}
	}
	rootSet := map[string]bool{}
	for _, u := range uses {
		for k := range c15RootsOf(roots, u.fn) {
			rootSet[k] = true
		}
	}
	var rs []string
	for k := range rootSet {
		rs = append(rs, k)
	}
	sort.Strings(rs)
	if len(rootSet) == 0 {
		return true, "never used after initialisation"
	}
	if len(rootSet) == 1 && !rootSet["user goroutines"] {
		return true, "confined to " + rs[0]
	}
	return false, strings.Join(rs, ", ")
}

// c15Pointees: a shared struct field that points to an external object which
// is not safe for concurrent use (e.g. *rand.Rand) makes every method call on
// that object a write to shared state.
func c15Pointees(l *core.Ledger, r *rt, roots []goRoot, lockState func(*ssa.Function) *sx.LockState) {
	for _, typ := range c15Types {
		tn, _ := r.pkg.Types.Scope().Lookup(typ).(*types.TypeName)
		if tn == nil {
			continue
		}
		st, ok := tn.Type().Underlying().(*types.Struct)
		if !ok {
			continue
		}
		for i := 0; i < st.NumFields(); i++ {
			fld := st.Field(i)
			pt, ok := fld.Type().(*types.Pointer)
			if !ok {
				continue
			}
			nt, ok := pt.Elem().(*types.Named)
			if !ok || nt.Obj().Pkg() == nil || strings.HasPrefix(nt.Obj().Pkg().Path(), core.RootModule) {
				continue
			}
			if _, isStruct := nt.Underlying().(*types.Struct); !isStruct {
				continue
			}
			full := nt.Obj().Pkg().Path() + "." + nt.Obj().Name()
			key := typ + "." + fld.Name() + "/pointee"
			if c15ThreadSafe[full] {
				l.OK("C15-L1", key, fld.Pos(), full+" is documented as safe for concurrent use")
				continue
			}
			var uses []sharedUse
			for _, a := range collectAccesses(l, r, typ, fld.Name()) {
				if a.kind != "read" {
					continue
				}
				ld, ok := a.at.(*ssa.UnOp)
				if !ok {
					continue
				}
				for _, ref := range *ld.Referrers() {
					cc := sx.CallOf(ref)
					if cc == nil || len(cc.Args) == 0 || cc.Args[0] != ssa.Value(ld) || cc.IsInvoke() {
						continue
					}
					if callee := cc.StaticCallee(); callee != nil && callee.Signature.Recv() != nil {
						uses = append(uses, sharedUse{a.fn, ref, sx.StaticCalleeName(cc)})
					}
				}
			}
			if len(uses) == 0 {
				l.OK("C15-L1", key, fld.Pos(), "no method of the "+full+" is called")
				continue
			}
			ok2, how := c15Discipline(l, r, roots, lockState, uses, func(sx.Held) bool { return true })
			var where []string
			for _, u := range uses {
				where = append(where, fnKey(u.fn)+"→"+u.by)
			}
			sort.Strings(where)
			l.Check(ok2, "C15-L1", key, uses[0].at.Pos(), fmt.Sprintf("%d method calls on the %s: %s", len(uses), full, how),
				fmt.Sprintf("%s.%s points to a %s, which is not safe for concurrent use, and its methods are called with no common lock from more than one goroutine (%s): %v", typ, fld.Name(), full, how, where))
		}
	}
}

// c15Globals: package-level variables of the runtime are shared by every
// manager and every goroutine of the process. Each is either never modified
// after package initialisation (neither re-assigned nor mutated through a
// receiver-mutating method or a field/element store), or every modification
// holds one lock that is itself package-level.
func c15Globals(l *core.Ledger, r *rt, roots []goRoot, lockState func(*ssa.Function) *sx.LockState) {
	sp := l.Prog.SSAPkg(r.pkg)
	var names []string
	for name, m := range sp.Members {
		if g, ok := m.(*ssa.Global); ok && g.Pos().IsValid() && !strings.HasSuffix(l.Prog.RelFile(g.Pos()), ".pb.go") {
			names = append(names, name)
		}
	}
	sort.Strings(names)
	n := 0
	for _, name := range names {
		g := sp.Members[name].(*ssa.Global)
		n++
		var uses []sharedUse
		for _, f := range allFuncs(l.Prog, r.pkg) {
			f := f
			sx.AllInstrs(f, func(_ sx.Node, in ssa.Instruction) {
				switch x := in.(type) {
				case *ssa.Store:
					if x.Addr == ssa.Value(g) {
						uses = append(uses, sharedUse{f, x, "assignment"})
					} else if sx.Any(sx.Origins(x.Addr), func(o sx.Origin) bool { return rootedAtGlobal(o, g, 0) }) {
						uses = append(uses, sharedUse{f, x, "store through the variable"})
					}
				case *ssa.MapUpdate:
					if sx.Any(sx.Origins(x.Map), func(o sx.Origin) bool { return rootedAtGlobal(o, g, 0) }) {
						uses = append(uses, sharedUse{f, x, "map update"})
					}
				default:
					cc := sx.CallOf(in)
					if cc == nil || cc.IsInvoke() || len(cc.Args) == 0 {
						return
					}
					callee := cc.StaticCallee()
					if callee == nil || callee.Signature.Recv() == nil || !inRepo(callee) {
						return
					}
					if sx.Any(sx.Origins(cc.Args[0]), func(o sx.Origin) bool { return rootedAtGlobal(o, g, 0) }) && mutatesReceiver(callee, 0) {
						uses = append(uses, sharedUse{f, in, "receiver-mutating " + sx.StaticCalleeName(cc)})
					}
				}
			})
		}
		key := "global/" + name
		if len(uses) == 0 {
			l.OK("C15-L1", key, g.Pos(), "never modified")
			continue
		}
		ok, how := c15Discipline(l, r, roots, lockState, uses, func(h sx.Held) bool { return strings.Contains(h.Lock, "global(") })
		if ok && strings.HasPrefix(how, "all uses hold ") {
			// a variable that is modified under a lock is read under that lock: a read that
			// skips it (copy-on-write without an atomic pointer, double-checked lookup) races
			// with the assignment
			lock := strings.TrimPrefix(how, "all uses hold ")
			for _, f := range allFuncs(l.Prog, r.pkg) {
				f := f
				sx.AllInstrs(f, func(_ sx.Node, in ssa.Instruction) {
					ld, isLoad := in.(*ssa.UnOp)
					if !isLoad || ld.Op != token.MUL || ld.X != ssa.Value(g) || !ok {
						return
					}
					holds := false
					for _, h := range lockState(f).HeldAt(sx.NodeOf(in)) {
						if h.Lock == lock {
							holds = true
						}
					}
					if !holds && len(c15RootsOf(roots, f)) > 0 {
						ok = false
						how = fmt.Sprintf("a read in %s that does not hold %s", fnKey(f), lock)
						uses = append(uses, sharedUse{f, in, "read without " + lock})
					}
				})
			}
		}
		var where []string
		for _, u := range uses {
			where = append(where, fnKey(u.fn)+": "+u.by)
		}
		sort.Strings(where)
		pos := g.Pos()
		if !ok {
			pos = uses[len(uses)-1].at.Pos()
		}
		l.Check(ok, "C15-L1", key, pos, fmt.Sprintf("%d modifications: %s", len(uses), how),
			fmt.Sprintf("package-level variable %s is shared by every goroutine of the process and is modified with no package-level lock from %s: %v", name, how, where))
	}
	l.Floor("C15-L1", n, 5, "package-level variables of the runtime")
}

func rootedAtGlobal(o sx.Origin, g *ssa.Global, depth int) bool {
	if depth > 4 {
		return false
	}
	if (o.Kind == sx.KGlobal || o.Kind == sx.KGlobalAddr) && o.V == ssa.Value(g) {
		return true
	}
	for _, b := range o.Base {
		if rootedAtGlobal(b, g, depth+1) {
			return true
		}
	}
	return false
}

// c15RootsOf names the goroutines a function can run on: the library
// goroutines whose root reaches it through static calls, "user goroutines"
// when an exported function does - or when nothing reaches it statically
// (methods called through an interface, function values). Package
// initialisation is single-threaded and yields nothing.
func c15RootsOf(roots []goRoot, fn *ssa.Function) map[string]bool {
	out := map[string]bool{}
	top := fn
	for top.Parent() != nil {
		isRoot := false
		for _, rt := range roots {
			if rt.fn == top && rt.site != nil {
				isRoot = true
			}
		}
		if isRoot {
			break
		}
		top = top.Parent()
	}
	if top.Name() == "init" && top.Parent() == nil && top.Signature.Recv() == nil {
		return out
	}
	for _, rt := range roots {
		if rt.fn == top || len(callPaths(rt.fn, top)) > 0 {
			if rt.site != nil {
				out["go "+fnKey(rt.fn)] = true
			} else {
				out["user goroutines"] = true
			}
		}
	}
	if len(out) == 0 {
		out["user goroutines"] = true
	}
	return out
}

// freshBase: v is an object nobody else can see yet - an allocation of this
// function, or the result of a constructor (a function all of whose returns
// hand out an allocation of its own that it has stored nowhere and passed to
// nobody).
func freshBase(v ssa.Value, depth int) bool {
	if depth > 3 {
		return false
	}
	switch x := v.(type) {
	case *ssa.Alloc:
		return true
	case *ssa.Phi:
		for _, e := range x.Edges {
			if c, ok := e.(*ssa.Const); ok && c.IsNil() {
				continue
			}
			if !freshBase(e, depth+1) {
				return false
			}
		}
		return true
	case *ssa.Extract:
		if c, ok := x.Tuple.(*ssa.Call); ok {
			return constructorResult(c.Call.StaticCallee(), x.Index, depth)
		}
	case *ssa.Call:
		return constructorResult(x.Call.StaticCallee(), 0, depth)
	}
	return false
}

func constructorResult(f *ssa.Function, idx int, depth int) bool {
	if f == nil || len(f.Blocks) == 0 || f.Signature.Results().Len() <= idx {
		return false
	}
	n, ok := 0, true
	sx.AllInstrs(f, func(_ sx.Node, in ssa.Instruction) {
		ret, isRet := in.(*ssa.Return)
		if !isRet || len(ret.Results) <= idx {
			return
		}
		n++
		v := ret.Results[idx]
		if c, isC := v.(*ssa.Const); isC && c.IsNil() {
			return
		}
		al, isAl := v.(*ssa.Alloc)
		if !isAl {
			// a constructor built on another constructor
			if !freshBase(v, depth+1) {
				ok = false
				return
			}
			// the object must not have been handed to anybody in between
			for _, ref := range *v.Referrers() {
				switch ref.(type) {
				case *ssa.FieldAddr, *ssa.Return, *ssa.DebugRef, *ssa.If, *ssa.BinOp:
				default:
					ok = false
				}
			}
			return
		}
		for _, ref := range *al.Referrers() {
			switch ref.(type) {
			case *ssa.FieldAddr, *ssa.Return, *ssa.DebugRef:
			default:
				ok = false
			}
		}
	})
	return ok && n > 0
}

// c15Appends: append(x.f, v) on a slice read from a field of a library struct,
// with the result kept somewhere else, writes v into the backing array that
// every holder of x.f shares whenever that array has spare capacity: two
// goroutines doing so (each under its own lock, or under none) race on the same
// element, and each overwrites the other's value.
func c15Appends(l *core.Ledger, r *rt) {
	n := 0
	for _, f := range allFuncs(l.Prog, r.pkg) {
		sx.AllInstrs(f, func(_ sx.Node, in ssa.Instruction) {
			c, ok := in.(*ssa.Call)
			if !ok {
				return
			}
			if b, isB := c.Call.Value.(*ssa.Builtin); !isB || b.Name() != "append" || len(c.Call.Args) < 2 {
				return
			}
			src := c.Call.Args[0]
			for {
				if ct, ok := src.(*ssa.ChangeType); ok {
					src = ct.X
					continue
				}
				break
			}
			ld, ok := src.(*ssa.UnOp)
			if !ok || ld.Op != token.MUL {
				return
			}
			fa, ok := ld.X.(*ssa.FieldAddr)
			if !ok {
				return
			}
			fld := fieldOf(fa.X.Type(), fa.Field)
			if fld == nil || fld.Pkg() == nil || fld.Pkg().Path() != core.RootModule {
				return
			}
			n++
			key := fmt.Sprintf("%s/append(%s)", fnKey(f), fld.Name())
			if freshBase(fa.X, 0) {
				l.OK("C15-L1", key, c.Pos(), "the struct is still under construction")
				return
			}
			back := false
			var walk func(v ssa.Value, d int)
			walk = func(v ssa.Value, d int) {
				if d > 4 || v.Referrers() == nil {
					return
				}
				for _, ref := range *v.Referrers() {
					switch u := ref.(type) {
					case *ssa.Store:
						if fa2, ok := u.Addr.(*ssa.FieldAddr); ok && u.Val == v && fieldOf(fa2.X.Type(), fa2.Field) == fld {
							back = true
						}
					case *ssa.ChangeType:
						walk(u, d+1)
					case *ssa.Phi:
						walk(u, d+1)
					case *ssa.Call:
						// append(append(x.f, a), b): judged at the outer append
						if b, isB := u.Call.Value.(*ssa.Builtin); isB && b.Name() == "append" && len(u.Call.Args) > 0 && u.Call.Args[0] == v {
							walk(u, d+1)
						}
					}
				}
			}
			walk(c, 0)
			l.Check(back, "C15-L1", key, c.Pos(), "the result replaces the field it was read from (the owner's own growth, judged by the rule on writes of the field)",
				"append to the slice read from "+fld.Name()+" of a shared struct with the result kept elsewhere: when the slice has spare capacity the appended value is written into the backing array that every holder of the field shares - two goroutines doing this (each under its own lock or none) write the same element, a data race, and each uses the other's value")
		})
	}
	_ = n
}

// c15StaticAPI: the types of the generated API (static code: Configuration,
// Manager, Node) are handed to user goroutines and documented as usable from
// all of them; they carry no lock. Their fields are therefore written only
// while the value is being built: a method that fills a field on first use
// (a lazily built node list) races with every other method that reads it.
func c15StaticAPI(l *core.Ledger) {
	dev := l.Prog.Pkg("cmd/protoc-gen-gorums/dev")
	if dev == nil {
		l.Unknown("C15-L1", "anchor/dev", token.NoPos, "static sources package not loaded")
		return
	}
	sp := l.Prog.SSAPkg(dev)
	if sp == nil {
		l.Unknown("C15-L1", "anchor/dev", token.NoPos, "no SSA for the static sources package")
		return
	}
	api := map[string]bool{"Configuration": true, "Manager": true, "Node": true}
	nf := 0
	for _, f := range ssaPkgFuncs(sp) {
		f := f
		sx.WithAnon(f, func(g *ssa.Function) {
			sx.AllInstrs(g, func(_ sx.Node, in ssa.Instruction) {
				st, ok := in.(*ssa.Store)
				if !ok {
					return
				}
				fa, ok := st.Addr.(*ssa.FieldAddr)
				if !ok {
					return
				}
				t := fa.X.Type()
				if p, isP := t.Underlying().(*types.Pointer); isP {
					t = p.Elem()
				}
				nm, isN := t.(*types.Named)
				if !isN || nm.Obj().Pkg() == nil || nm.Obj().Pkg() != sp.Pkg || !api[nm.Obj().Name()] {
					return
				}
				fld := fieldOf(fa.X.Type(), fa.Field)
				if fld == nil || c15SelfSync(fld.Type()) {
					return
				}
				nf++
				key := fmt.Sprintf("dev.%s/%s.%s", sx.FuncName(g), nm.Obj().Name(), fld.Name())
				// a value receiver is a copy of its own; a fresh allocation is still private
				fresh := freshBase(fa.X, 0)
				if al, isAl := fa.X.(*ssa.Alloc); isAl {
					fresh = true
					_ = al
				}
				l.Check(fresh, "C15-L1", key, st.Pos(), "written while the value is being built",
					"a field of the generated API type "+nm.Obj().Name()+" is written by "+sx.FuncName(g)+" on a value that already exists: the type has no lock and its methods are called from any number of goroutines (workers that iterate over cfg.Nodes(), And/Except on a shared configuration read the same field) - a data race")
			})
		})
	}
	l.Floor("C15-L1", nf+1, 1, "field writes in the static API code")
}
