package rules

import (
	"fmt"
	"go/token"
	"go/types"

	"golang.org/x/tools/go/ssa"

	"verif/checker/internal/core"
	"verif/checker/internal/sx"
)

func init() {
	register("C08", Entry{
		Title: "Every call returns promptly once its context ends, whatever the nodes are doing",
		Run:   runC08,
		Meta: core.PropertyMeta{
			Explanation: "'Bounded delay' is not statically decidable; what is decided is that no wait on a call's path ignores the call's context (a ctx-blind unbounded wait plus the node behaviour that triggers it is a hang). B1: every blocking operation reachable on the caller's goroutine from each of the six context-taking entry points (through enqueue, the reply loops and the one-way waits; interprocedural over resolved static callees with parameter binding) is a select with a case on Done() of the call's own context parameter, a send on a reply channel whose capacity side condition is C05-M6/C09-W3, or the acquisition of a mutex whose critical sections are short (C09-W1). B2: the same for the per-call goroutines (handleAsyncCall, handleCorrectableCall) including their deferred calls. B3: in sendMsg the request's ctx.Err() test dominates the stream write, a watcher goroutine started on every path before the write selects on the request's Done() and cancels the stream's context, and close(done) is passed on every path after the go statement. B4: on the context edge RPCCall returns ctx.Err() of its own parameter. B6 (known finding): enqueue takes responseMut before it observes the caller's context while a delivery to a running streaming call can wait under that lock.",
			NotDecided:  "Actual latency; gRPC's reaction time to stream cancellation; fairness of select; waits of calls queued behind a sender that is blocked in a transport-bounded operation (dial with timeout, stream creation).",
			Trusted:     append([]string{"cancelling a gRPC stream's context unblocks SendMsg/RecvMsg", "C09-W1/W3 (critical sections under responseMut are short)"}, commonTrust...),
		},
	})
}

var longLocks = map[string]string{}

var shortLocks = map[string]string{
	"responseMut": "critical sections contain only map operations and capacity-bounded sends (C09-W1/W3)",
	"mu":          "critical sections contain no blocking operation (C09-W1)",
}

func runC08(l *core.Ledger) {
	r := runtimePkg(l)
	if r == nil {
		return
	}
	l.Rule("C08-B1", "every blocking operation on the caller's goroutine of an entry point is a select with a case on Done() of the call's context, a capacity-bounded reply-channel send, or a short mutex acquisition")
	l.Rule("C08-B2", "the same for the per-call goroutines started by the entry points, including deferred calls")
	l.Rule("C08-B3", "sendMsg: req.ctx.Err() test dominates SendMsg; a watcher goroutine started before SendMsg selects on req.ctx.Done() and cancels the stream context; close(done) on every path after the go statement")
	l.Rule("C08-B5", "every cycle of a reply loop through a receive of the reply channel passes a select with a case on the call context's Done()")
	l.Rule("C08-B4", "RPCCall returns ctx.Err() of its own context parameter inside the ctx.Done() case")

	eps := findEntryPoints(l, r, "C08-B1")
	if !l.Floor("C08-B1", len(eps), 6, "context-taking entry points") {
		return
	}
	// a mutex is short only if nothing that waits for a peer, a timer or the transport runs
	// under it anywhere in the runtime (the table above names the expectation; this re-derives it)
	longLocks = map[string]string{}
	heldOps, _ := opsUnderLocks(allFuncs(l.Prog, r.pkg))
	for _, ho := range heldOps {
		switch ho.op.kind {
		case "lock", "deliver":
			continue
		case "send":
			if isResponseChan(ho.op.chanT) {
				continue
			}
		}
		for _, h := range ho.held {
			if _, short := shortLocks[h.Field]; short {
				if _, seen := longLocks[h.Field]; !seen {
					longLocks[h.Field] = ho.op.desc + " in " + ho.via
				}
			}
		}
	}
	// B6: a delivery that can wait (for a streaming call that is still running) executes under a
	// lock that the call paths acquire before they look at their own context
	{
		l.Rule("C08-B6", "no call waits, before it observes its own context, for a lock under which a delivery to another (streaming) call can wait: deliveries under responseMut never block, or enqueue registers its router without waiting behind them")
		waits := map[string]string{}
		for _, ho := range heldOps {
			if ho.op.kind != "deliver" {
				continue
			}
			for _, h := range ho.held {
				if _, seen := waits[h.Field]; !seen {
					waits[h.Field] = ho.via
				}
			}
		}
		if eq := findEnqueueFn(l, r); eq != nil {
			key := fnKey(eq) + "/lock-behind-streaming-delivery"
			bad := ""
			var at token.Pos
			sx.AllInstrs(eq, func(nd sx.Node, in ssa.Instruction) {
				c, ok := in.(*ssa.Call)
				if !ok || bad != "" {
					return
				}
				op, isOp := sx.ClassifyLockOp(&c.Call)
				if !isOp || !op.Acquire {
					return
				}
				fld := ""
				if fa, isFA := c.Call.Args[0].(*ssa.FieldAddr); isFA {
					fld = fieldOf(fa.X.Type(), fa.Field).Name()
				}
				if via, w := waits[fld]; w {
					bad, at = fld+" (delivery in "+via+")", c.Pos()
				}
			})
			if bad == "" {
				l.OK("C08-B6", key, eq.Pos(), "enqueue takes no lock under which a delivery can wait")
			} else {
				l.Bad("C08-B6", key, at, "enqueue acquires "+bad+" before its select on the caller's context, and the node's reader holds that lock while it waits for room in the reply channel of a server-stream call that is still running: every other call on that node - whatever its deadline - waits in enqueue until the slow call takes its next reply or completes (bounded by the other call's quorum function and context, not by this call's context)")
			}
		}
	}
	nops := 0
	for _, ep := range eps {
		nops += c08Walk(l, "C08-B1", ep.key, &frame{fn: ep.fn}, ep.ctx)
		// per-call goroutines
		sx.AllInstrs(ep.fn, func(_ sx.Node, in ssa.Instruction) {
			g, ok := in.(*ssa.Go)
			if !ok {
				return
			}
			callee := g.Call.StaticCallee()
			if callee == nil || !inRepo(callee) {
				l.Bad("C08-B2", ep.key+"/go", g.Pos(), "an entry point starts a goroutine whose body cannot be resolved")
				return
			}
			nops += c08Walk(l, "C08-B2", fnKey(callee), &frame{fn: callee, args: g.Call.Args, parent: &frame{fn: ep.fn}, site: g}, ep.ctx)
		})
	}
	l.Floor("C08-B1", nops, 12, "blocking operations on call paths")
	// B5: every cycle of a reply loop that receives a reply passes a select
	// (blocking or polling) with a case on the call context's Done(): otherwise
	// a steady supply of replies starves the context case
	for _, rl := range findReplyLoops(l, r, "C08-B5") {
		ctxCaseCompletes(l, rl, "C08-B5")
		observes := func(n sx.Node) bool {
			s, ok := n.Instr().(*ssa.Select)
			if !ok {
				return false
			}
			for _, st := range s.States {
				if cv, isDone := isDoneOf(st.Chan); isDone && rl.ctxVal != nil && sameCtx(cv, rl.ctxVal) {
					return true
				}
			}
			return false
		}
		bad := false
		for _, rp := range rl.recvs {
			start := sx.NodeOf(rp.sel)
			if observes(start) {
				continue
			}
			if _, cyc := sx.Reach(start, func(n sx.Node) bool { return n == start }, sx.Query{BlockNode: observes}); cyc {
				bad = true
				l.Bad("C08-B5", rl.key+"/cycle", rp.sel.Pos(), "the reply loop can go around through a receive of the reply channel that does not also select on the call's context: while replies keep arriving (server streams, many nodes) the context's end is not observed and the call does not complete")
			}
		}
		if !bad {
			l.OK("C08-B5", rl.key+"/cycle", rl.sel.Pos(), "every cycle through a reply receive observes ctx.Done()")
		}
	}
	c08B3(l, r)
	c08B4(l, r, eps)
	c08B4b(l, r)
	// B7: a correctable's future is its Done channel and the channels Watch hands out: the
	// completion that the end of the context forces closes every one of them only if a watcher
	// cannot be registered after completion (C11-K7) and the state is read under the lock (C11-K6)
	l.Rule("C08-B7", "the channels Watch hands out are completed with the call: a watcher is registered only on an edge where the call is seen not done under the Correctable's lock, and completion releases every watcher (C11-K6, C11-K7 re-run)")
	l.With(map[string]string{"C11-K6": "C08-B7", "C11-K7": "C08-B7"}, func() {
		c11Watch(l, r)
		c11Locks(l, r)
	})
	l.Rule("C08-B8", "the error a call reports for an ended context is that context's Err() (C02-T1 re-run: the context class of every reply loop, and every return in front of it, carries ctx.Err() itself or an error that wraps it) - an error derived from the deadline or built afresh does not match a context that was cancelled")
	loops := findReplyLoops(l, r, "C08-B8")
	l.With(map[string]string{"C02-T1": "C08-B8"}, func() {
		for _, rl := range loops {
			c02Loop(l, r, rl)
		}
	})
}

// c08Walk checks every blocking op reachable from the frame's function.
func c08Walk(l *core.Ledger, rule, rootKey string, root *frame, ctx ssa.Value) int {
	n := 0
	seen := map[string]int{}
	var walk func(fr *frame)
	walk = func(fr *frame) {
		if fr.depth() > 14 {
			return
		}
		sx.AllInstrs(fr.fn, func(_ sx.Node, in ssa.Instruction) {
			if op, ok := classifyBlocking(in); ok {
				op.fn, op.frame = fr.fn, fr
				n++
				base := fmt.Sprintf("%s/%s/%s", rootKey, fnKey(fr.fn), op.kind)
				seen[base]++
				key := fmt.Sprintf("%s#%d", base, seen[base])
				pos := sx.PosOf(in)
				switch op.kind {
				case "select":
					if selectBoundedBy(op, ctx) {
						l.OK(rule, key, pos, "select has a case on the call context's Done()")
					} else {
						l.Bad(rule, key, pos, "blocking select without a case on the call's own context ("+selectCasesDesc(op.sel)+"): the caller ignores cancellation/deadline while this wait lasts")
					}
				case "deliver":
					if bd := boundedDelivery(l, runtimePkg(l)); bd.ok {
						l.OK(rule, key, pos, "delivery to a streaming router: waits only for a call that is still running, and not beyond its completion (C09-W3)")
					} else {
						l.Bad(rule, key, pos, "delivery to a streaming router can wait for a call that has ended ("+bd.why+"): the call's own deferred clean-up and every other call on the node then wait for responseMut behind it, whatever their contexts say")
					}
				case "send":
					if isResponseChan(op.chanT) {
						l.OK(rule, key, pos, "send on a reply channel: cannot block given the capacity rule C05-M6 / C09-W3")
					} else {
						l.Bad(rule, key, pos, "bare channel send on a call path ("+op.desc+")")
					}
				case "recv":
					l.Bad(rule, key, pos, "bare channel receive on a call path ("+op.desc+"): not bounded by the call's context — it returns only when the node's sender gets to this request")
				case "lock":
					if why, ok := shortLocks[op.lock]; ok && longLocks[op.lock] == "" {
						l.OK(rule, key, pos, "acquires "+op.lock+": "+why)
					} else if ok {
						l.Bad(rule, key, pos, "a call path acquires "+op.lock+", which another goroutine can hold while it waits ("+longLocks[op.lock]+"): the call ignores its context for as long as that lasts")
					} else {
						l.Bad(rule, key, pos, "a call path acquires "+op.lock+", which is held across stream operations")
					}
				default:
					l.Bad(rule, key, pos, "call path performs "+op.desc+" ("+op.kind+"), which is not bounded by the call's context")
				}
			}
			var cc *ssa.CallCommon
			switch x := in.(type) {
			case *ssa.Call:
				cc = &x.Call
			case *ssa.Defer:
				cc = &x.Call
			}
			if cc == nil {
				return
			}
			callee := cc.StaticCallee()
			if callee == nil {
				if mc, ok := cc.Value.(*ssa.MakeClosure); ok {
					callee = mc.Fn.(*ssa.Function)
				}
			}
			if callee == nil || !inRepo(callee) || fr.onStack(callee) {
				return
			}
			walk(&frame{fn: callee, args: cc.Args, parent: fr, site: in})
		})
	}
	walk(root)
	return n
}

func c08B3(l *core.Ledger, r *rt) { c08B3x(l, r, true) }

func c08B3x(l *core.Ledger, r *rt, withCtxTest bool) {
	var fn *ssa.Function
	for _, f := range allFuncs(l.Prog, r.pkg) {
		if f.Parent() == nil && f.Signature.Recv() != nil && isNamed(f.Signature.Recv().Type(), core.RootModule, "channel") {
			p, rs := f.Signature.Params(), f.Signature.Results()
			if p.Len() == 1 && isNamed(p.At(0).Type(), core.RootModule, "request") && rs.Len() == 1 && isErrorType(rs.At(0).Type()) {
				fn = f
			}
		}
	}
	if fn == nil {
		l.Unknown("C08-B3", "anchor/sendMsg", token.NoPos, "no method of *channel with signature (request) error found")
		return
	}
	key := fnKey(fn)
	req := fn.Params[1]
	var send *ssa.Call
	sx.AllInstrs(fn, func(_ sx.Node, in ssa.Instruction) {
		if c, ok := in.(*ssa.Call); ok && c.Call.IsInvoke() && c.Call.Method.Name() == "SendMsg" {
			send = c
		}
	})
	if send == nil {
		l.Bad("C08-B3", key, fn.Pos(), "no stream write in sendMsg")
		return
	}
	sendNode := sx.NodeOf(send)
	isReqCtx := sx.IsFieldNamed("ctx", sx.IsParam(req))
	// (1) ctx.Err() test with a returning non-nil edge dominating the write
	okTest := false
	sx.AllInstrs(fn, func(_ sx.Node, in ssa.Instruction) {
		ifi, ok := in.(*ssa.If)
		if !ok {
			return
		}
		m := func(o sx.Origin) bool {
			c, ok := o.V.(*ssa.Call)
			return o.Kind == sx.KCall && ok && c.Call.IsInvoke() && c.Call.Method.Name() == "Err" && sx.All(sx.Origins(c.Call.Value), isReqCtx)
		}
		if isErrNonNil(ifi, m) == 0 {
			return
		}
		if sx.EdgeDominates(fn, errEdge(ifi, m, false), sendNode) {
			okTest = true
		}
	})
	if !okTest {
		// the same test written as a non-blocking select on the request's ctx.Done()
		_, alive := ctxPollEdges(fn, func(v ssa.Value) bool { return sx.All(sx.Origins(v), isReqCtx) })
		if edgesDominate(fn, alive, sendNode) {
			okTest = true
		}
	}
	if !okTest {
		// the test may sit in the callers instead: every call of sendMsg is
		// dominated by the nil edge of ctx.Err() of the request it passes
		ncall, nok := 0, 0
		for _, g := range allFuncs(l.Prog, r.pkg) {
			g := g
			sx.AllInstrs(g, func(cn sx.Node, in ssa.Instruction) {
				cc := sx.CallOf(in)
				if cc == nil || cc.StaticCallee() != fn || len(cc.Args) < 2 {
					return
				}
				ncall++
				argOs := sx.Origins(cc.Args[1])
				same := func(o sx.Origin) bool {
					for _, a := range argOs {
						if a.Kind == o.Kind && a.V == o.V && a.Index == o.Index {
							return true
						}
					}
					return false
				}
				m := func(o sx.Origin) bool {
					c, ok := o.V.(*ssa.Call)
					return o.Kind == sx.KCall && ok && c.Call.IsInvoke() && c.Call.Method.Name() == "Err" && sx.All(sx.Origins(c.Call.Value), sx.IsFieldNamed("ctx", same))
				}
				dom := false
				sx.AllInstrs(g, func(_ sx.Node, in2 ssa.Instruction) {
					if ifi, ok := in2.(*ssa.If); ok && isErrNonNil(ifi, m) != 0 && sx.EdgeDominates(g, errEdge(ifi, m, false), cn) {
						dom = true
					}
				})
				if dom {
					nok++
				}
			})
		}
		okTest = ncall > 0 && nok == ncall
	}
	if withCtxTest {
		l.Check(okTest, "C08-B3", key+"/ctx-test", send.Pos(), "already-cancelled requests are not written", "the stream write is not preceded by a test of the request's ctx.Err() (in sendMsg or in all of its callers): a cancelled call is still sent")
	}
	// (2) watcher goroutine
	var watcher *ssa.Go
	okWatcher := false
	var doneChan ssa.Value
	sx.AllInstrs(fn, func(_ sx.Node, in ssa.Instruction) {
		g, ok := in.(*ssa.Go)
		if !ok {
			return
		}
		var body *ssa.Function
		if mc, ok := g.Call.Value.(*ssa.MakeClosure); ok {
			body = mc.Fn.(*ssa.Function)
		} else {
			body = g.Call.StaticCallee()
		}
		if body == nil {
			return
		}
		selOK, cancelOK := false, false
		sx.AllInstrs(body, func(_ sx.Node, in2 ssa.Instruction) {
			if s, ok := in2.(*ssa.Select); ok && s.Blocking {
				hasCtx := false
				for _, st := range s.States {
					if cv, isDone := isDoneOf(st.Chan); isDone && sx.All(sx.Origins(cv), isReqCtx) {
						hasCtx = true
					} else if st.Dir == types.RecvOnly {
						doneChan = st.Chan
					}
				}
				if hasCtx {
					selOK = true
				}
			}
			if c, ok := in2.(*ssa.Call); ok && !c.Call.IsInvoke() && c.Call.StaticCallee() == nil {
				// call of a context.CancelFunc value
				if n, ok := c.Call.Value.Type().(*types.Named); ok && n.Obj().Name() == "CancelFunc" {
					cancelOK = true
				} else if sx.Any(sx.Origins(c.Call.Value), func(o sx.Origin) bool {
					return o.Kind == sx.KField && o.Field != nil && o.Field.Name() == "cancelStream"
				}) {
					cancelOK = true
				}
			}
		})
		if selOK && cancelOK {
			watcher = g
			okWatcher = true
		}
	})
	if !okWatcher {
		l.Bad("C08-B3", key+"/watcher", send.Pos(), "no goroutine that selects on the request's ctx.Done() and cancels the stream context is started: a write blocked by a peer that does not read cannot be interrupted by the caller's deadline")
		return
	}
	l.Check(sx.InstrDominates(fn, watcher, sendNode), "C08-B3", key+"/watcher", watcher.Pos(), "watcher started on every path before the write", "the cancellation watcher is not started on every path before the stream write")
	// (3) close(done) on every path from the go statement to return
	isCloseDone := func(n sx.Node) bool {
		c, ok := n.Instr().(*ssa.Call)
		if !ok {
			return false
		}
		b, ok := c.Call.Value.(*ssa.Builtin)
		if !ok || b.Name() != "close" {
			return false
		}
		_, isMake := c.Call.Args[0].(*ssa.MakeChan)
		if isMake {
			return true
		}
		return sx.All(sx.Origins(c.Call.Args[0]), func(o sx.Origin) bool { return o.Kind == sx.KMake })
	}
	_ = doneChan
	w, must := sx.MustPassThrough(sx.NodeOf(watcher), isCloseDone, sx.IsExit)
	if !must {
		l.Bad("C08-B3", key+"/close-done", sx.PosOf(w.Instr()), "an exit of sendMsg is reachable after the watcher was started without closing its done channel: the watcher goroutine lives until the request's context ends (never, for context.Background())")
	} else {
		l.OK("C08-B3", key+"/close-done", send.Pos(), "close(done) on every path after the go statement")
	}
}

func c08B4(l *core.Ledger, r *rt, eps []*entryPoint) {
	for _, ep := range eps {
		rs := ep.fn.Signature.Results()
		if rs.Len() != 2 || !isErrorType(rs.At(1).Type()) || ep.onConfig {
			continue
		}
		// single-node call with an error result: RPCCall
		key := ep.key
		found := false
		// the select cases on this context's Done()
		var doneEdges []sx.Edge
		sx.AllInstrs(ep.fn, func(_ sx.Node, in ssa.Instruction) {
			sel, isSel := in.(*ssa.Select)
			if !isSel {
				return
			}
			for i, st := range sel.States {
				if st.Dir != types.RecvOnly {
					continue
				}
				if cv, isDone := isDoneOf(st.Chan); isDone && sameCtx(cv, ep.ctx) {
					if e, ok := selectCaseEdge(sel, i); ok {
						doneEdges = append(doneEdges, e)
					}
				}
			}
		})
		sx.AllInstrs(ep.fn, func(n sx.Node, in ssa.Instruction) {
			ret, ok := in.(*ssa.Return)
			if !ok || len(ret.Results) != 2 {
				return
			}
			// one outcome per way of reaching this return (merged exits are split)
			for _, c := range splitMerged(completion{at: ret, err: ret.Results[1], reply: ret.Results[0]}, 0) {
				if !c.under(ep.fn, doneEdges) {
					continue
				}
				found = true
				ok2 := sx.All(sx.Origins(c.err), func(o sx.Origin) bool {
					cl, isCall := o.V.(*ssa.Call)
					return o.Kind == sx.KCall && isCall && cl.Call.IsInvoke() && cl.Call.Method.Name() == "Err" && cl.Call.Value == ssa.Value(ep.ctx)
				})
				l.Check(ok2, "C08-B4", key, ret.Pos(), "returns ctx.Err() on the context edge", "on the context edge the call returns an error other than its context's Err(): errors.Is(err, ctx.Err()) fails")
			}
		})
		if !found {
			l.Bad("C08-B4", key, ep.fn.Pos(), "no return inside a ctx.Done() case: the call cannot end on context expiry")
		}
	}
}

// c08B4b: the error a caller is answered with because *its request's own
// context* ended is that context's Err() itself. The per-node layer answers
// such requests locally (enqueue's req.ctx.Done() case, sendMsg's test before
// the write); RPCCall hands that answer to the caller, the reply loops list it.
// Wrapped into something else (a status error, a formatted error)
// errors.Is(err, ctx.Err()) no longer holds for it.
func c08B4b(l *core.Ledger, r *rt) {
	isReqCtx := func(v ssa.Value) bool {
		return sx.All(sx.Origins(v), func(o sx.Origin) bool {
			return o.Kind == sx.KField && o.Field != nil && o.Field.Name() == "ctx" && o.Field.Pkg() != nil && o.Field.Pkg().Path() == core.RootModule
		})
	}
	isErrOf := func(v ssa.Value) bool {
		return sx.All(sx.Origins(v), func(o sx.Origin) bool {
			c, ok := o.V.(*ssa.Call)
			return o.Kind == sx.KCall && ok && c.Call.IsInvoke() && c.Call.Method.Name() == "Err" && isReqCtx(c.Call.Value)
		})
	}
	n := 0
	for _, f := range allFuncs(l.Prog, r.pkg) {
		f := f
		if f.Signature.Recv() == nil || !isNamed(f.Signature.Recv().Type(), core.RootModule, "channel") {
			continue
		}
		// edges on which the request's context is known to have ended
		var ended []sx.Edge
		sx.AllInstrs(f, func(_ sx.Node, in ssa.Instruction) {
			switch x := in.(type) {
			case *ssa.Select:
				for i, st := range x.States {
					if st.Dir != types.RecvOnly {
						continue
					}
					if cv, isDone := isDoneOf(st.Chan); isDone && isReqCtx(cv) {
						if e, ok := selectCaseEdge(x, i); ok {
							ended = append(ended, e)
						}
					}
				}
			case *ssa.If:
				m := func(o sx.Origin) bool {
					c, ok := o.V.(*ssa.Call)
					return o.Kind == sx.KCall && ok && c.Call.IsInvoke() && c.Call.Method.Name() == "Err" && isReqCtx(c.Call.Value)
				}
				if isErrNonNil(x, m) != 0 {
					ended = append(ended, errEdge(x, m, true))
				}
			}
		})
		if len(ended) == 0 {
			continue
		}
		sx.AllInstrs(f, func(nd sx.Node, in ssa.Instruction) {
			if nd.B == f.Recover || !edgesDominate(f, ended, nd) {
				return
			}
			switch x := in.(type) {
			case *ssa.Call:
				if !isRouteCall(&x.Call) {
					return
				}
				lit, ok := structLiteral(x.Call.Args[2])
				if !ok || lit["err"] == nil {
					return
				}
				n++
				l.Check(isErrOf(lit["err"]), "C08-B4", fmt.Sprintf("%s/ctx-answer%d", fnKey(f), n), x.Pos(), "answers with req.ctx.Err()", "a request whose own context has ended is answered with "+sx.OriginsString(sx.Origins(lit["err"]))+" instead of that context's Err(): the caller's error no longer matches ctx.Err() under errors.Is")
			case *ssa.Return:
				for i, res := range x.Results {
					if !isErrorType(f.Signature.Results().At(i).Type()) {
						continue
					}
					if c, isC := res.(*ssa.Const); isC && c.IsNil() {
						continue
					}
					res = reachingStoreInBlock(res)
					if c, isC := res.(*ssa.Const); isC && c.IsNil() {
						continue
					}
					n++
					l.Check(isErrOf(res), "C08-B4", fmt.Sprintf("%s/ctx-answer%d", fnKey(f), n), x.Pos(), "returns req.ctx.Err()", "a request whose own context has ended is failed with "+sx.OriginsString(sx.Origins(res))+" instead of that context's Err(): the caller's error no longer matches ctx.Err() under errors.Is")
				}
			}
		})
	}
	l.Floor("C08-B4", n, 1, "local answers to requests whose context has ended")
}

// reachingStoreInBlock: a load of a local slot (a named result spilled around a
// defer) that is stored earlier in the same block stands for the stored value.
func reachingStoreInBlock(v ssa.Value) ssa.Value {
	ld, ok := v.(*ssa.UnOp)
	if !ok || ld.Op != token.MUL {
		return v
	}
	al, ok := ld.X.(*ssa.Alloc)
	if !ok {
		return v
	}
	var last ssa.Value
	for _, in := range ld.Block().Instrs {
		if in == ssa.Instruction(ld) {
			break
		}
		if st, ok := in.(*ssa.Store); ok && st.Addr == ssa.Value(al) {
			last = st.Val
		}
	}
	if last != nil {
		return last
	}
	return v
}
