package rules

import (
	"bufio"
	"fmt"
	"go/ast"
	"go/token"
	"go/types"
	"os"
	"path/filepath"
	"sort"
	"strconv"
	"strings"
	"text/template/parse"

	"golang.org/x/tools/go/packages"

	"verif/checker/internal/core"
	"verif/checker/internal/gen"
)

func init() {
	register("C16", Entry{
		Title: "The generator is total, deterministic and never silently emits broken code",
		Run:   runC16,
		Meta: core.PropertyMeta{
			Explanation: "Three structural parts. (1) Determinism: every range over a Go map in a function reachable from the plugin path matches an order-insensitive idiom with a checked side condition (insert-only body; append followed by a sort before any other use; existential search returning one constant; import registration with pairwise distinct base names; first-match selection over pairwise exclusive predicates) - Y1; no ambient inputs (time, random, environment) - Y2. (2) The accept/reject/emit decision is a total, conflict-free function of the option lattice and agrees with doc/method-options.md: validateOptions' conditions and every chkFn are lifted from the AST into formulas over 8 option atoms + 2 streaming bits and all 1024 valuations are enumerated - exactly one client template per accepted method, unique call type, every combination the documentation forbids is rejected, every 'Yes' cell is accepted, N/A options have no effect on the emitted non-comment text (template def-use) - Y3/Y4. (3) What the templates reference exists: call-data fields written by a template are fields of that runtime struct, identifiers named through `use` exist and are exported, template functions are keys of the funcMap - Y5; the reserved-name set covers every exported identifier the static code declares plus QuorumSpec, and the guard compares every message name with every reserved name - Y6; every rejecting path ends in log.Fatal* - Y7. Y11: message types reach the emitted text only through QualifiedGoIdent. Y1 also demands that no expression evaluated in map order is handed the generated file.",
			NotDecided:  "'Output compiles for every service definition' and 'terminates without panic for every input' quantify over all programs the generator can emit and are not decided; protogen's own behaviour; the --bundle tool's map ranges (its output is compared by C17-U2).",
			Trusted:     append([]string{"text/template ranges over maps in sorted key order", "protogen disambiguates clashing import names in first-come order"}, commonTrust...),
		},
	})
}

const genPkgRel = "cmd/protoc-gen-gorums/gengorums"

func loadGenerator(l *core.Ledger, rule string) (*gen.Generator, *genModel) {
	gm := buildGenModel(l)
	pk := l.Prog.Pkg(genPkgRel)
	if pk == nil {
		l.Unknown(rule, "anchor/gengorums", token.NoPos, "generator package not loaded")
		return nil, gm
	}
	extByVar := map[string]string{}
	for _, name := range gm.ext.ByNumber {
		extByVar["gorums.E_"+gen.GoCamelCase(name)] = name
	}
	extByVar["correctable.E_Correctable"] = "internal.correctable"
	extByVar["correctable.E_CorrectableStream"] = "internal.correctable_stream"
	g := gen.LoadGenerator(pk, extByVar)
	for _, p := range g.Problems {
		l.Unknown(rule, "generator-model", token.NoPos, p)
	}
	return g, gm
}

func runC16(l *core.Ledger) {
	l.Rule("C16-Y1", "every range over a map reachable from GenerateFile/GenerateDevFiles matches an order-insensitive idiom with its side condition")
	l.Rule("C16-Y2", "who-may-call time.Now, math/rand, os.Getenv, os.Getpid, os.Hostname from the generator packages = nobody")
	l.Rule("C16-Y3", "decision table over 2^10 option valuations: exactly one client template per accepted method; unique call type; documented forbidden combinations rejected; documented 'Yes' combinations accepted; server streams only with correctable")
	l.Rule("C16-Y4", "for each call type, the options that influence emitted non-comment text are a subset of the options the documentation matrix marks 'Yes' for it")
	l.Rule("C16-Y5", "template ↔ runtime agreement: written call-data fields exist in that struct; identifiers named through `use` exist and are exported; template functions are funcMap keys")
	l.Rule("C16-Y10", "every identifier the generated file declares is checked against the input's names: the derived wrapper type names against the message names, and the service and method names against what the static code declares")
	l.Rule("C16-Y9", "the guard judges what will be generated: it compares the Go names of the messages (GoIdent.GoName - what the generated code declares) with the reserved identifiers, and it validates every method before it can decide that there is nothing to generate (an illegal combination may match no call type at all)")
	l.Rule("C16-Y8", "every generated file declares what the static code uses: the static code refers to QuorumSpec without declaring it, the qspec template declares it once per element of qspecServices, so qspecServices hands out every service it is given (one unconditional append per service)")
	l.Rule("C16-Y6", "reservedIdents ⊇ exported package-level identifiers declared by the static code ∪ {QuorumSpec}; gorumsGuard compares every top-level message name with every reserved name")
	l.Rule("C16-Y7", "every rejecting path of validateOptions / gorumsGuard reaches log.Fatal*")

	g, gm := loadGenerator(l, "C16-Y3")
	if g == nil {
		return
	}
	doc := parseOptionsDoc(l)
	c16Y1(l, g)
	c16Y2(l)
	table := c16Y3(l, g, doc)
	c16Y4Y5(l, g, gm, doc)
	c16Y6(l, g)
	c16Y7(l, g)
	c16Y8(l, g)
	c16Y9(l, g)
	c16Y10(l, g)
	c16Y11(l, g, "C16-Y11")
	c16Y13(l, g)
	c16Y12(l, g)
	_ = table
}

// c16Y11: the request and reply messages of a method may be declared in another
// package (imported proto files). The only way a Go type name for them reaches
// the emitted text with its package qualifier - and with the import registered -
// is GeneratedFile.QualifiedGoIdent. The bare GoIdent.GoName of a method's Input
// or Output compiles only while the message lives in the generated file's package.
func c16Y11(l *core.Ledger, g *gen.Generator, rule string) {
	l.Rule(rule, "the Go type of a method's request or reply message enters the emitted text only through GeneratedFile.QualifiedGoIdent (which qualifies an imported message and registers the import); no generator function reads method.Input/Output.GoIdent.GoName")
	info := g.Pkg.TypesInfo
	isMethodMsg := func(e ast.Expr) bool {
		se, ok := ast.Unparen(e).(*ast.SelectorExpr)
		if !ok || (se.Sel.Name != "Input" && se.Sel.Name != "Output") {
			return false
		}
		t := info.TypeOf(se.X)
		if p, ok := t.(*types.Pointer); ok {
			t = p.Elem()
		}
		n, ok := t.(*types.Named)
		return ok && n.Obj().Name() == "Method" && n.Obj().Pkg() != nil && strings.HasSuffix(n.Obj().Pkg().Path(), "compiler/protogen")
	}
	nq, nbad := 0, 0
	for _, f := range g.Pkg.Syntax {
		fname := l.Prog.Fset.File(f.Pos()).Name()
		if strings.HasSuffix(fname, "_test.go") {
			continue
		}
		ast.Inspect(f, func(n ast.Node) bool {
			switch x := n.(type) {
			case *ast.CallExpr:
				if se, ok := x.Fun.(*ast.SelectorExpr); ok && se.Sel.Name == "QualifiedGoIdent" && len(x.Args) == 1 {
					if a, ok := ast.Unparen(x.Args[0]).(*ast.SelectorExpr); ok && a.Sel.Name == "GoIdent" && isMethodMsg(a.X) {
						nq++
						l.OK(rule, fmt.Sprintf("gengorums/qualified#%d", nq), x.Pos(), "message type named through QualifiedGoIdent")
						return false
					}
				}
			case *ast.SelectorExpr:
				if x.Sel.Name == "GoName" {
					if a, ok := ast.Unparen(x.X).(*ast.SelectorExpr); ok && a.Sel.Name == "GoIdent" && isMethodMsg(a.X) {
						nbad++
						l.Bad(rule, fmt.Sprintf("gengorums/unqualified#%d", nbad), x.Pos(), "the bare Go name of a method's "+strings.ToLower(ast.Unparen(a.X).(*ast.SelectorExpr).Sel.Name)+" message is used ("+types.ExprString(x)+"): for a message imported from another proto package the emitted type has no package qualifier and the import is not registered - the generated file does not compile")
					}
				}
			}
			return true
		})
	}
	l.Floor(rule, nq, 3, "message types named through QualifiedGoIdent")
}

// ---------------------------------------------------------------------------
// documentation

type optionsDoc struct {
	callTypes map[string]string            // column name -> option ("" for none)
	options   map[string]string            // row name -> option
	matrix    map[string]map[string]string // option -> call-type option ("" = rpc) -> Yes/No/N/A
	exclusive bool                         // "these cannot be combined"
	problems  []string
}

func parseOptionsDoc(l *core.Ledger) *optionsDoc {
	d := &optionsDoc{callTypes: map[string]string{}, options: map[string]string{}, matrix: map[string]map[string]string{}}
	f, err := os.Open(filepath.Join(l.Prog.RepoDir, "doc", "method-options.md"))
	if err != nil {
		d.problems = append(d.problems, err.Error())
		return d
	}
	defer f.Close()
	var rows [][]string
	var tables [][][]string
	flush := func() {
		if len(rows) > 0 {
			tables = append(tables, rows)
			rows = nil
		}
	}
	sc := bufio.NewScanner(f)
	for sc.Scan() {
		ln := strings.TrimSpace(sc.Text())
		if strings.Contains(ln, "cannot be combined") {
			d.exclusive = true
		}
		if !strings.HasPrefix(ln, "|") {
			flush()
			continue
		}
		cells := strings.Split(strings.Trim(ln, "|"), "|")
		for i := range cells {
			cells[i] = strings.TrimSpace(cells[i])
		}
		if len(cells) > 0 && strings.Trim(cells[0], "-: ") == "" {
			continue // separator row
		}
		rows = append(rows, cells)
	}
	flush()
	optOf := func(s string) string {
		s = strings.Trim(s, "`")
		if s == "no option" {
			return ""
		}
		return strings.TrimPrefix(s, "gorums.")
	}
	for _, t := range tables {
		if len(t) < 2 {
			continue
		}
		h := t[0]
		switch {
		case len(h) >= 2 && h[0] == "Call type" && h[1] == "Gorums option":
			for _, r := range t[1:] {
				d.callTypes[r[0]] = optOf(r[1])
			}
		case len(h) >= 2 && h[0] == "Name" && h[1] == "Gorums option":
			for _, r := range t[1:] {
				d.options[r[0]] = optOf(r[1])
			}
		case len(h) >= 2 && h[0] == "Option":
			for _, r := range t[1:] {
				row := map[string]string{}
				for i := 1; i < len(r) && i < len(h); i++ {
					row[h[i]] = r[i]
				}
				d.matrix[r[0]] = row
			}
		}
	}
	if len(d.callTypes) < 5 || len(d.options) < 3 || len(d.matrix) < 3 {
		d.problems = append(d.problems, fmt.Sprintf("doc/method-options.md: tables not recognised (call types %d, options %d, matrix rows %d)", len(d.callTypes), len(d.options), len(d.matrix)))
	}
	return d
}

// cell returns the matrix entry for (option, call-type option).
func (d *optionsDoc) cell(option, callTypeOpt string) string {
	for rowName, opt := range d.options {
		if opt != option {
			continue
		}
		for colName, ct := range d.callTypes {
			if ct == callTypeOpt {
				return d.matrix[rowName][colName]
			}
		}
	}
	return ""
}

// ---------------------------------------------------------------------------
// Y1

type genFunc struct {
	name string
	decl *ast.FuncDecl
	lit  *ast.FuncLit
	pkg  *packages.Package
}

func (f genFunc) body() *ast.BlockStmt {
	if f.decl != nil {
		return f.decl.Body
	}
	return f.lit.Body
}

// reachableGenFuncs returns the functions of the generator packages reachable
// from the plugin entry points (GenerateFile, GenerateDevFiles), including
// every funcMap value (reachable through template execution).
func reachableGenFuncs(l *core.Ledger, g *gen.Generator) []genFunc {
	pk := g.Pkg
	decls := map[types.Object]*ast.FuncDecl{}
	for _, f := range pk.Syntax {
		if strings.HasSuffix(l.Prog.Fset.File(f.Pos()).Name(), "_test.go") {
			continue
		}
		for _, d := range f.Decls {
			if fd, ok := d.(*ast.FuncDecl); ok && fd.Body != nil {
				decls[pk.TypesInfo.Defs[fd.Name]] = fd
			}
		}
	}
	seen := map[ast.Node]bool{}
	var out []genFunc
	var visitBody func(name string, body *ast.BlockStmt)
	visit := func(obj types.Object) {
		fd := decls[obj]
		if fd == nil || seen[fd] {
			return
		}
		seen[fd] = true
		out = append(out, genFunc{name: core.RecvName(fd) + "." + fd.Name.Name, decl: fd, pkg: pk})
		visitBody(fd.Name.Name, fd.Body)
	}
	visitBody = func(name string, body *ast.BlockStmt) {
		ast.Inspect(body, func(n ast.Node) bool {
			switch x := n.(type) {
			case *ast.Ident:
				if obj, ok := pk.TypesInfo.Uses[x].(*types.Func); ok {
					visit(obj)
				}
				// package-level function values (funcMap, callTypesInfo literals)
				if v, ok := pk.TypesInfo.Uses[x].(*types.Var); ok && v.Parent() == pk.Types.Scope() {
					for _, f := range pk.Syntax {
						for _, d := range f.Decls {
							gd, ok := d.(*ast.GenDecl)
							if !ok {
								continue
							}
							for _, sp := range gd.Specs {
								vs, ok := sp.(*ast.ValueSpec)
								if !ok {
									continue
								}
								for i, nm := range vs.Names {
									if pk.TypesInfo.Defs[nm] == v && i < len(vs.Values) && !seen[vs.Values[i]] {
										seen[vs.Values[i]] = true
										ast.Inspect(vs.Values[i], func(m ast.Node) bool {
											if fl, ok := m.(*ast.FuncLit); ok && !seen[fl] {
												seen[fl] = true
												out = append(out, genFunc{name: nm.Name + "/func", lit: fl, pkg: pk})
												visitBody(nm.Name, fl.Body)
											}
											if id, ok := m.(*ast.Ident); ok {
												if obj, ok := pk.TypesInfo.Uses[id].(*types.Func); ok {
													visit(obj)
												}
											}
											return true
										})
									}
								}
							}
						}
					}
				}
			}
			return true
		})
	}
	for obj, fd := range decls {
		if fd.Recv == nil && (fd.Name.Name == "GenerateFile" || fd.Name.Name == "GenerateDevFiles") {
			visit(obj)
		}
	}
	sort.Slice(out, func(i, j int) bool { return out[i].name < out[j].name })
	return out
}

func c16Y1(l *core.Ledger, g *gen.Generator) {
	fns := reachableGenFuncs(l, g)
	info := g.Pkg.TypesInfo
	n := 0
	for _, f := range fns {
		if f.decl != nil && strings.HasSuffix(l.Prog.Fset.File(f.decl.Pos()).Name(), "gorums_bundle.go") {
			continue
		}
		cnt := 0
		var stack []ast.Node
		ast.Inspect(f.body(), func(nd ast.Node) bool {
			if nd == nil {
				stack = stack[:len(stack)-1]
				return true
			}
			stack = append(stack, nd)
			rs, ok := nd.(*ast.RangeStmt)
			if !ok {
				return true
			}
			if _, isLit := nd.(*ast.FuncLit); isLit {
				return true
			}
			t := info.TypeOf(rs.X)
			if t == nil {
				return true
			}
			if _, isMap := t.Underlying().(*types.Map); !isMap {
				return true
			}
			n++
			cnt++
			key := fmt.Sprintf("gengorums.%s/map-range%d(%s)", strings.TrimPrefix(f.name, "."), cnt, types.ExprString(rs.X))
			ok2, why := mapRangeIdiom(l, g, f, rs)
			l.Check(ok2, "C16-Y1", key, rs.Pos(), "order-insensitive: "+why, "the effect of this range over a Go map depends on iteration order ("+why+"): the generator's output differs from run to run for the same input")
			return true
		})
	}
	l.Floor("C16-Y1", n, 1, "map ranges on the plugin path")
}

// mapRangeIdiom classifies the body of a map range.
func mapRangeIdiom(l *core.Ledger, g *gen.Generator, f genFunc, rs *ast.RangeStmt) (bool, string) {
	info := g.Pkg.TypesInfo
	body := rs.Body.List
	le := collectLoopEffects(info, body)
	onlyAppends := le.mapInsert == 0 && len(le.returns) == 0 && len(le.calls) == 0 && le.other == 0 && len(le.appendTo) == 1
	// whatever the shape of the body: an expression evaluated in map order (a condition, an
	// initialiser, the value that is inserted or appended) must not work on the generated file -
	// protogen names clashing imports in the order in which identifiers are first qualified,
	// and text is emitted in the order of the calls
	if !(len(body) == 1 && isAddImportStmt(body[0])) {
		if what := touchesGeneratedFile(g, rs.Body); what != "" {
			return false, "an expression evaluated in map order works on the generated file (" + what + "): identifiers are qualified - and clashing imports numbered - in iteration order, even if the text is put in order afterwards"
		}
	}
	// (a) insert-only
	if le.mapInsert > 0 && len(le.appendTo) == 0 && len(le.returns) == 0 && len(le.calls) == 0 && le.other == 0 {
		return true, "(a) body only inserts into a map"
	}
	// (b) append to a slice that is sorted before any other use
	if onlyAppends {
		var dst types.Object
		for d := range le.appendTo {
			dst = d
		}
		if sortedNext(info, f.body(), rs, dst) {
			return true, "(b) keys appended to a slice that is sorted before its first use"
		}
		if !le.guarded {
			return false, "keys are appended to a slice in map order and the slice is used without being sorted first"
		}
		// (b*) filtered and returned unsorted: acceptable only if consumers are order-insensitive - decided by Y3 (unique call type)
		if f.decl != nil {
			if bad := orderSensitiveConsumer(g, f); bad != "" {
				return false, "filtered values are appended in map order and returned unsorted, and " + bad
			}
		}
		return true, "(b*) filtered values appended in map order and returned unsorted: order-insensitive iff at most one element can satisfy its consumer's predicate (decided by C16-Y3 'unique call type')"
	}
	// (c) existential search: in-loop returns all return the same constant, no other effect
	if c, ok := existentialSearch(info, body); ok {
		return true, "(c) existential search returning the constant " + c
	}
	// (d) import registration only
	if len(body) == 1 {
		if es, ok := body[0].(*ast.ExprStmt); ok {
			if ce, ok := es.X.(*ast.CallExpr); ok {
				if id, ok := ce.Fun.(*ast.Ident); ok && id.Name == "addImport" {
					// base names of the ranged literal's keys pairwise distinct
					if x, ok := rs.X.(*ast.Ident); ok && x.Name == "pkgIdentMap" {
						bases := map[string]string{}
						for path := range g.PkgIdent {
							b := path[strings.LastIndex(path, "/")+1:]
							if other, dup := bases[b]; dup {
								return false, "import paths " + other + " and " + path + " share the base name " + b + ": protogen numbers clashing imports in first-come (map) order"
							}
							bases[b] = path
						}
						return true, "(d) only registers imports; base names of the keys are pairwise distinct"
					}
				}
			}
		}
	}
	// (e) first-match selection over exclusive predicates: the only effect is a guarded `return <the ranged value>`
	if len(le.returns) == 1 && le.guarded && le.mapInsert == 0 && len(le.appendTo) == 0 && len(le.calls) == 0 && le.other == 0 {
		{
			if ret := le.returns[0]; len(ret.Results) == 1 && rs.Value != nil && objOf(info, ret.Results[0]) == objOf(info, rs.Value) {
				// predicates of nested call types must be pairwise exclusive
				for _, e := range g.CallTypes {
					if len(e.Nested) < 2 {
						continue
					}
					for i := 0; i < len(e.Nested); i++ {
						for j := i + 1; j < len(e.Nested); j++ {
							a, b := e.Nested[i], e.Nested[j]
							if a.Chk == nil || b.Chk == nil {
								return false, "selection predicate not in the option-predicate language"
							}
							if v, both := findValuation(func(v gen.Valuation) bool { return a.Chk.Eval(v) && b.Chk.Eval(v) }); both {
								return false, fmt.Sprintf("first-match selection in map order between %s and %s, which both hold for %s", a.Key, b.Key, valuationString(v))
							}
						}
					}
				}
				return true, "(e) first-match selection; the predicates are pairwise exclusive on the whole option lattice"
			}
		}
	}
	return false, "body creates output, calls functions or appends to an unsorted result"
}

func isAddImportStmt(st ast.Stmt) bool {
	es, ok := st.(*ast.ExprStmt)
	if !ok {
		return false
	}
	ce, ok := es.X.(*ast.CallExpr)
	if !ok {
		return false
	}
	id, ok := ce.Fun.(*ast.Ident)
	return ok && id.Name == "addImport"
}

// holdsGeneratedFile: t is *protogen.GeneratedFile or a struct (pointer) with such a field.
func holdsGeneratedFile(t types.Type, depth int) bool {
	if t == nil || depth > 3 {
		return false
	}
	if p, ok := t.(*types.Pointer); ok {
		if n, ok := p.Elem().(*types.Named); ok && n.Obj().Name() == "GeneratedFile" && n.Obj().Pkg() != nil && strings.HasSuffix(n.Obj().Pkg().Path(), "compiler/protogen") {
			return true
		}
		return holdsGeneratedFile(p.Elem(), depth+1)
	}
	if st, ok := t.Underlying().(*types.Struct); ok {
		for i := 0; i < st.NumFields(); i++ {
			if holdsGeneratedFile(st.Field(i).Type(), depth+1) {
				return true
			}
		}
	}
	return false
}

// touchesGeneratedFile reports a call inside n that is handed the generated
// file (as receiver or argument, directly or inside a struct), or that reaches
// such a call through functions of the generator package.
func touchesGeneratedFile(g *gen.Generator, n ast.Node) string {
	info := g.Pkg.TypesInfo
	decls := map[types.Object]*ast.FuncDecl{}
	for _, f := range g.Pkg.Syntax {
		for _, d := range f.Decls {
			if fd, ok := d.(*ast.FuncDecl); ok && fd.Body != nil {
				decls[info.Defs[fd.Name]] = fd
			}
		}
	}
	seen := map[*ast.FuncDecl]bool{}
	var scan func(n ast.Node, depth int) string
	scan = func(n ast.Node, depth int) string {
		found := ""
		ast.Inspect(n, func(m ast.Node) bool {
			if found != "" {
				return false
			}
			ce, ok := m.(*ast.CallExpr)
			if !ok {
				return true
			}
			if se, ok := ce.Fun.(*ast.SelectorExpr); ok && holdsGeneratedFile(info.TypeOf(se.X), 0) {
				found = types.ExprString(ce.Fun)
				return false
			}
			for _, a := range ce.Args {
				if holdsGeneratedFile(info.TypeOf(a), 0) {
					found = types.ExprString(ce.Fun) + " is handed the generated file"
					return false
				}
			}
			if fn := resolvedCall(info, ce); fn != nil && depth < 5 {
				if fd := decls[fn]; fd != nil && !seen[fd] {
					seen[fd] = true
					if w := scan(fd.Body, depth+1); w != "" {
						found = fn.Name() + " → " + w
						return false
					}
				}
			}
			return true
		})
		return found
	}
	return scan(n, 0)
}

func sortedNext(info *types.Info, fnBody *ast.BlockStmt, rs *ast.RangeStmt, dst types.Object) bool {
	// find the statement list containing rs
	var found bool
	var okSorted bool
	ast.Inspect(fnBody, func(n ast.Node) bool {
		bl, ok := n.(*ast.BlockStmt)
		if !ok || found {
			return true
		}
		for i, st := range bl.List {
			if st != ast.Stmt(rs) {
				continue
			}
			found = true
			for _, next := range bl.List[i+1:] {
				mentions := false
				ast.Inspect(next, func(m ast.Node) bool {
					if id, ok := m.(*ast.Ident); ok && info.Uses[id] == dst {
						mentions = true
					}
					return true
				})
				if !mentions {
					continue
				}
				if es, ok := next.(*ast.ExprStmt); ok {
					if ce, ok := es.X.(*ast.CallExpr); ok {
						if f := resolvedCall(info, ce); f != nil && f.Pkg() != nil && (f.Pkg().Path() == "sort" || f.Pkg().Path() == "slices") && len(ce.Args) >= 1 && objOf(info, ce.Args[0]) == dst {
							okSorted = true
						}
					}
				}
				return false
			}
		}
		return true
	})
	return okSorted
}

// loopEffects summarises what the body of a range statement does, whatever
// its control structure (nested ifs, guard clauses with continue, blocks):
// the statements with an effect outside the iteration, classified.
type loopEffects struct {
	appendTo   map[types.Object]int // dst = append(dst, ...)
	mapInsert  int                  // m[k] = v
	returns    []*ast.ReturnStmt
	calls      []*ast.CallExpr // expression statements
	other      int             // anything else with an effect
	guarded    bool            // some effect sits under a condition
	localsOnly bool
}

func collectLoopEffects(info *types.Info, body []ast.Stmt) *loopEffects {
	le := &loopEffects{appendTo: map[types.Object]int{}}
	var walk func(st ast.Stmt, cond bool)
	walkList := func(list []ast.Stmt, cond bool) {
		for i, st := range list {
			// statements after a guard clause (`if c { continue }`) are conditional, too
			c := cond
			for _, prev := range list[:i] {
				if ifs, ok := prev.(*ast.IfStmt); ok && endsInJump(ifs.Body) {
					c = true
				}
			}
			walk(st, c)
		}
	}
	walk = func(st ast.Stmt, cond bool) {
		switch x := st.(type) {
		case nil, *ast.EmptyStmt:
		case *ast.BranchStmt:
			if x.Tok != token.CONTINUE && x.Tok != token.BREAK {
				le.other++
			}
		case *ast.ReturnStmt:
			le.returns = append(le.returns, x)
			le.guarded = le.guarded || cond
		case *ast.IfStmt:
			if x.Init != nil {
				walk(x.Init, cond)
			}
			walkList(x.Body.List, true)
			if x.Else != nil {
				walk(x.Else, true)
			}
		case *ast.BlockStmt:
			walkList(x.List, cond)
		case *ast.RangeStmt:
			walkList(x.Body.List, true)
		case *ast.ForStmt:
			walkList(x.Body.List, true)
		case *ast.SwitchStmt:
			for _, cc := range x.Body.List {
				walkList(cc.(*ast.CaseClause).Body, true)
			}
		case *ast.DeclStmt:
		case *ast.IncDecStmt:
			// a running index / counter local to the function
			if id, ok := x.X.(*ast.Ident); !ok || objOf(info, id) == nil {
				le.other++
			}
		case *ast.ExprStmt:
			if ce, ok := x.X.(*ast.CallExpr); ok {
				le.calls = append(le.calls, ce)
				le.guarded = le.guarded || cond
			} else {
				le.other++
			}
		case *ast.AssignStmt:
			if x.Tok == token.DEFINE {
				return // a new local of this iteration
			}
			if len(x.Lhs) == 1 && len(x.Rhs) == 1 {
				if ix, ok := x.Lhs[0].(*ast.IndexExpr); ok {
					if _, isMap := info.TypeOf(ix.X).Underlying().(*types.Map); isMap {
						le.mapInsert++
						le.guarded = le.guarded || cond
						return
					}
					// dst[next] = v with a running index: the same collection as an append
					if _, isSlice := info.TypeOf(ix.X).Underlying().(*types.Slice); isSlice {
						if dst := objOf(info, ix.X); dst != nil {
							le.appendTo[dst]++
							le.guarded = le.guarded || cond
							return
						}
					}
				}
				if ce, ok := x.Rhs[0].(*ast.CallExpr); ok {
					if id, ok := ce.Fun.(*ast.Ident); ok && id.Name == "append" && len(ce.Args) >= 2 && !ce.Ellipsis.IsValid() {
						dst := objOf(info, x.Lhs[0])
						if dst != nil && objOf(info, ce.Args[0]) == dst {
							le.appendTo[dst]++
							le.guarded = le.guarded || cond
							return
						}
					}
				}
			}
			le.other++
		default:
			le.other++
		}
	}
	walkList(body, false)
	return le
}

func endsInJump(b *ast.BlockStmt) bool {
	if len(b.List) == 0 {
		return false
	}
	switch x := b.List[len(b.List)-1].(type) {
	case *ast.BranchStmt:
		return x.Tok == token.CONTINUE || x.Tok == token.BREAK
	case *ast.ReturnStmt:
		return true
	}
	return false
}

func guardedAppendOnly(info *types.Info, body []ast.Stmt) (types.Object, bool) {
	cur := body
	for depth := 0; depth < 4; depth++ {
		if len(cur) != 1 {
			return nil, false
		}
		switch x := cur[0].(type) {
		case *ast.IfStmt:
			if x.Else != nil || x.Init != nil {
				return nil, false
			}
			cur = x.Body.List
		case *ast.AssignStmt:
			if len(x.Lhs) != 1 || len(x.Rhs) != 1 {
				return nil, false
			}
			ce, ok := x.Rhs[0].(*ast.CallExpr)
			if !ok {
				return nil, false
			}
			id, ok := ce.Fun.(*ast.Ident)
			if !ok || id.Name != "append" {
				return nil, false
			}
			dst := objOf(info, x.Lhs[0])
			if dst != nil && len(ce.Args) == 2 && objOf(info, ce.Args[0]) == dst {
				return dst, depth > 0
			}
			return nil, false
		default:
			return nil, false
		}
	}
	return nil, false
}

func existentialSearch(info *types.Info, body []ast.Stmt) (string, bool) {
	consts := map[string]bool{}
	effects := false
	var walk func(st ast.Stmt)
	walk = func(st ast.Stmt) {
		switch x := st.(type) {
		case *ast.ReturnStmt:
			if len(x.Results) == 1 {
				if tv, ok := info.Types[x.Results[0]]; ok && tv.Value != nil {
					consts[tv.Value.String()] = true
					return
				}
			}
			effects = true
		case *ast.IfStmt:
			if x.Init != nil {
				walk(x.Init)
			}
			for _, s := range x.Body.List {
				walk(s)
			}
			if x.Else != nil {
				walk(x.Else)
			}
		case *ast.BlockStmt:
			for _, s := range x.List {
				walk(s)
			}
		case *ast.RangeStmt:
			for _, s := range x.Body.List {
				walk(s)
			}
		case *ast.ForStmt:
			for _, s := range x.Body.List {
				walk(s)
			}
		case *ast.AssignStmt:
			// local definitions only
			if x.Tok != token.DEFINE {
				effects = true
			}
		default:
			effects = true
		}
	}
	for _, st := range body {
		walk(st)
	}
	if effects || len(consts) != 1 {
		return "", false
	}
	for c := range consts {
		return c, true
	}
	return "", false
}

// ---------------------------------------------------------------------------
// Y2

func c16Y2(l *core.Ledger) {
	banned := map[string]bool{"time.Now": true, "os.Getenv": true, "os.Getpid": true, "os.Hostname": true, "os.LookupEnv": true, "os.Environ": true}
	var hits []string
	n := 0
	for _, rel := range []string{genPkgRel, "cmd/protoc-gen-gorums"} {
		pk := l.Prog.Pkg(rel)
		if pk == nil {
			l.Unknown("C16-Y2", "anchor/"+rel, token.NoPos, "package not loaded")
			continue
		}
		for _, f := range pk.Syntax {
			ast.Inspect(f, func(nd ast.Node) bool {
				id, ok := nd.(*ast.Ident)
				if !ok {
					return true
				}
				fn, ok := pk.TypesInfo.Uses[id].(*types.Func)
				if !ok || fn.Pkg() == nil {
					return true
				}
				n++
				full := fn.Pkg().Path() + "." + fn.Name()
				if banned[full] || fn.Pkg().Path() == "math/rand" || fn.Pkg().Path() == "crypto/rand" {
					if ambientOnlyGatesDiagnostics(l, pk, full) {
						l.Note("C16-Y2: %s %s is read, but its value only decides whether diagnostics are written (log / stderr); it cannot reach the generated output", l.Prog.Pos(id.Pos()), full)
						return true
					}
					hits = append(hits, l.Prog.Pos(id.Pos())+" "+full)
				}
				return true
			})
		}
	}
	sort.Strings(hits)
	l.Check(len(hits) == 0, "C16-Y2", "generator/ambient-inputs", token.NoPos, fmt.Sprintf("%d function references scanned, none ambient", n), fmt.Sprintf("the generator reads ambient state: %v", hits))
	// positive fixture: the rule can fire
	l.Check(banned["time.Now"], "C16-Y2", "fixture/time.Now", token.NoPos, "fixture: time.Now is in the banned table", "fixture broken")
	c16Y2state(l)
}

// c16Y2state: one plugin process generates every file of a protoc invocation.
// Package-level variables that generation writes (caches, counters,
// accumulators) carry state from one file to the next: the output for a file
// then depends on which files came before it. Functions of the generator
// package (the bundler, a dev tool, aside) must not assign to, insert into,
// append to or delete from a package-level variable.
func c16Y2state(l *core.Ledger) {
	pk := l.Prog.Pkg(genPkgRel)
	if pk == nil {
		return
	}
	info := pk.TypesInfo
	rootVar := func(e ast.Expr) *types.Var {
		for {
			switch x := e.(type) {
			case *ast.ParenExpr:
				e = x.X
			case *ast.IndexExpr:
				e = x.X
			case *ast.SelectorExpr:
				if id, ok := x.X.(*ast.Ident); ok {
					if _, isPkg := info.Uses[id].(*types.PkgName); isPkg {
						return nil
					}
				}
				e = x.X
			case *ast.StarExpr:
				e = x.X
			case *ast.Ident:
				v, _ := info.Uses[x].(*types.Var)
				if v != nil && v.Parent() == pk.Types.Scope() {
					return v
				}
				return nil
			default:
				return nil
			}
		}
	}
	// input-dependence: an expression depends on the file being generated if it mentions a value
	// of a protogen / protoreflect type (other than the output sink), or a parameter that some call
	// site in the package feeds with such an expression. Writes that depend only on the
	// generator's own static tables (an idempotent memo of a fixed table) carry nothing over.
	isInputType := func(t types.Type) bool {
		for {
			switch x := t.(type) {
			case *types.Pointer:
				t = x.Elem()
				continue
			case *types.Slice:
				t = x.Elem()
				continue
			case *types.Named:
				if x.Obj().Pkg() == nil {
					return false
				}
				path := x.Obj().Pkg().Path()
				if strings.HasSuffix(path, "compiler/protogen") {
					return x.Obj().Name() != "GeneratedFile" && x.Obj().Name() != "GoImportPath" && x.Obj().Name() != "GoIdent"
				}
				return strings.HasSuffix(path, "reflect/protoreflect") || strings.HasSuffix(path, "types/descriptorpb") || strings.HasSuffix(path, "types/pluginpb")
			}
			return false
		}
	}
	declOf := map[types.Object]*ast.FuncDecl{}
	for _, f := range pk.Syntax {
		for _, d := range f.Decls {
			if fd, ok := d.(*ast.FuncDecl); ok {
				declOf[info.Defs[fd.Name]] = fd
			}
		}
	}
	var tainted func(e ast.Node, fd *ast.FuncDecl, depth int) bool
	paramTainted := func(fd *ast.FuncDecl, v *types.Var, depth int) bool {
		if depth > 3 {
			return true
		}
		idx, i := -1, 0
		for _, fl := range fd.Type.Params.List {
			for _, nm := range fl.Names {
				if info.Defs[nm] == types.Object(v) {
					idx = i
				}
				i++
			}
		}
		if idx < 0 {
			return false
		}
		self := info.Defs[fd.Name]
		hit := false
		for _, f := range pk.Syntax {
			var cur *ast.FuncDecl
			ast.Inspect(f, func(nd ast.Node) bool {
				if x, ok := nd.(*ast.FuncDecl); ok {
					cur = x
				}
				ce, ok := nd.(*ast.CallExpr)
				if !ok || idx >= len(ce.Args) {
					return true
				}
				if id, ok := ce.Fun.(*ast.Ident); ok && info.Uses[id] == self && cur != nil && tainted(ce.Args[idx], cur, depth+1) {
					hit = true
				}
				return true
			})
		}
		return hit
	}
	tainted = func(e ast.Node, fd *ast.FuncDecl, depth int) bool {
		hit := false
		ast.Inspect(e, func(nd ast.Node) bool {
			id, ok := nd.(*ast.Ident)
			if !ok || hit {
				return !hit
			}
			v, isVar := info.Uses[id].(*types.Var)
			if !isVar {
				return true
			}
			if isInputType(v.Type()) {
				hit = true
				return false
			}
			if v.Parent() == pk.Types.Scope() || v.IsField() || fd == nil || depth > 4 {
				return true
			}
			// a plain parameter: what do the callers pass?
			if paramTainted(fd, v, depth) {
				hit = true
				return false
			}
			// a local: what is it computed from?
			ast.Inspect(fd.Body, func(m ast.Node) bool {
				switch y := m.(type) {
				case *ast.AssignStmt:
					for i, lhs := range y.Lhs {
						lid, ok := lhs.(*ast.Ident)
						if !ok || (info.Defs[lid] != types.Object(v) && info.Uses[lid] != types.Object(v)) {
							continue
						}
						rhs := y.Rhs[0]
						if i < len(y.Rhs) {
							rhs = y.Rhs[i]
						}
						if rhs != e && tainted(rhs, fd, depth+1) {
							hit = true
						}
					}
				case *ast.RangeStmt:
					for _, kv := range []ast.Expr{y.Key, y.Value} {
						if lid, ok := kv.(*ast.Ident); ok && info.Defs[lid] == types.Object(v) && tainted(y.X, fd, depth+1) {
							hit = true
						}
					}
				case *ast.ValueSpec:
					for i, nm := range y.Names {
						if info.Defs[nm] == types.Object(v) && i < len(y.Values) && tainted(y.Values[i], fd, depth+1) {
							hit = true
						}
					}
				}
				return !hit
			})
			return !hit
		})
		return hit
	}
	var hits []string
	nf := 0
	for _, f := range pk.Syntax {
		name := l.Prog.Fset.File(f.Pos()).Name()
		if strings.HasSuffix(name, "_test.go") || strings.HasSuffix(name, "gorums_bundle.go") {
			continue
		}
		for _, d := range f.Decls {
			fd, ok := d.(*ast.FuncDecl)
			if !ok || fd.Body == nil || fd.Name.Name == "init" {
				continue
			}
			nf++
			ast.Inspect(fd.Body, func(nd ast.Node) bool {
				switch x := nd.(type) {
				case *ast.AssignStmt:
					if x.Tok == token.DEFINE {
						return true
					}
					for i, lhs := range x.Lhs {
						if v := rootVar(lhs); v != nil {
							dep := tainted(lhs, fd, 0)
							if i < len(x.Rhs) {
								dep = dep || tainted(x.Rhs[i], fd, 0)
							} else if len(x.Rhs) == 1 {
								dep = dep || tainted(x.Rhs[0], fd, 0)
							}
							if dep {
								hits = append(hits, fmt.Sprintf("%s: %s writes package-level %s with a value that depends on the file being generated", l.Prog.Pos(x.Pos()), fd.Name.Name, v.Name()))
							}
						}
					}
				case *ast.IncDecStmt:
					if v := rootVar(x.X); v != nil {
						hits = append(hits, fmt.Sprintf("%s: %s updates package-level %s", l.Prog.Pos(x.Pos()), fd.Name.Name, v.Name()))
					}
				case *ast.CallExpr:
					if id, ok := x.Fun.(*ast.Ident); ok && (id.Name == "delete" || id.Name == "clear") && len(x.Args) >= 1 {
						if _, isB := info.Uses[id].(*types.Builtin); isB {
							if v := rootVar(x.Args[0]); v != nil {
								hits = append(hits, fmt.Sprintf("%s: %s removes from package-level %s", l.Prog.Pos(x.Pos()), fd.Name.Name, v.Name()))
							}
						}
					}
				}
				return true
			})
		}
	}
	sort.Strings(hits)
	l.Check(len(hits) == 0, "C16-Y2", "generator/process-state", token.NoPos, fmt.Sprintf("%d generator functions scanned: no input-dependent write to a package-level variable", nf),
		fmt.Sprintf("generation writes package-level state, which survives from one file of a protoc invocation to the next - the output for a file depends on the files generated before it: %v", hits))
}

// ---------------------------------------------------------------------------
// Y3

var lattice = []string{"rpc", "unicast", "multicast", "quorumcall", "correctable", "async", "per_node_arg", "custom_return_type"}

func allValuations() []gen.Valuation {
	var out []gen.Valuation
	for bits := 0; bits < 1<<len(lattice); bits++ {
		for s := 0; s < 4; s++ {
			v := gen.Valuation{Opts: map[string]bool{}, StreamServer: s&1 != 0, StreamClient: s&2 != 0}
			for i, o := range lattice {
				if bits&(1<<i) != 0 {
					v.Opts[o] = true
				}
			}
			out = append(out, v)
		}
	}
	return out
}

func findValuation(pred func(gen.Valuation) bool) (gen.Valuation, bool) {
	for _, v := range allValuations() {
		if pred(v) {
			return v, true
		}
	}
	return gen.Valuation{}, false
}

func valuationString(v gen.Valuation) string {
	var s []string
	for _, o := range lattice {
		if v.Opts[o] {
			s = append(s, o)
		}
	}
	if v.StreamServer {
		s = append(s, "stream-server")
	}
	if v.StreamClient {
		s = append(s, "stream-client")
	}
	if len(s) == 0 {
		return "{no option}"
	}
	return "{" + strings.Join(s, ", ") + "}"
}

// rejectFormula lifts validateOptions: the disjunction of the conditions
// under which it returns a non-nil error.
func rejectFormula(g *gen.Generator) ([]gen.Formula, error) {
	fd := g.FuncDecl("validateOptions")
	if fd == nil {
		return nil, fmt.Errorf("validateOptions not found")
	}
	return rejectOfBody(g, fd.Body.List, 0)
}

// rejectOfBody lifts a loop-free validator body into the condition under which
// it returns a non-nil error, by symbolic evaluation: every statement list has
// a rejection condition R and a fall-through condition F. Understood: return
// nil / return <error> / return v(m), if-else chains, tagless switches,
// `if err := v(m); err != nil { return err }`, blocks; v is another validator
// of the package (one parameter, result error).
func rejectOfBody(g *gen.Generator, list []ast.Stmt, depth int) ([]gen.Formula, error) {
	r, _, err := evalValidator(g, list, depth)
	if err != nil {
		return nil, err
	}
	return []gen.Formula{r}, nil
}

func evalValidator(g *gen.Generator, list []ast.Stmt, depth int) (rej, fall gen.Formula, err error) {
	return evalValidatorEnv(g, list, depth, map[string]ast.Expr{})
}

// substLocals replaces the validator's local variables (x := <side-effect-free
// expression over the method>) by their definitions, so that conditions over
// them are in the option-predicate language.
func substLocals(e ast.Expr, env map[string]ast.Expr) ast.Expr {
	if len(env) == 0 {
		return e
	}
	switch x := e.(type) {
	case *ast.Ident:
		if d, ok := env[x.Name]; ok {
			return d
		}
	case *ast.ParenExpr:
		return &ast.ParenExpr{Lparen: x.Lparen, X: substLocals(x.X, env), Rparen: x.Rparen}
	case *ast.UnaryExpr:
		return &ast.UnaryExpr{OpPos: x.OpPos, Op: x.Op, X: substLocals(x.X, env)}
	case *ast.BinaryExpr:
		return &ast.BinaryExpr{X: substLocals(x.X, env), OpPos: x.OpPos, Op: x.Op, Y: substLocals(x.Y, env)}
	}
	return e
}

func evalValidatorEnv(g *gen.Generator, list []ast.Stmt, depth int, env map[string]ast.Expr) (rej, fall gen.Formula, err error) {
	if depth > 6 {
		return nil, nil, fmt.Errorf("validators nested too deeply")
	}
	validatorOf := func(e ast.Expr) *ast.FuncDecl {
		ce, ok := ast.Unparen(e).(*ast.CallExpr)
		if !ok || len(ce.Args) != 1 {
			return nil
		}
		id, ok := ce.Fun.(*ast.Ident)
		if !ok {
			return nil
		}
		fd := g.FuncDecl(id.Name)
		if fd == nil || fd.Type.Results == nil || len(fd.Type.Results.List) != 1 || types.ExprString(fd.Type.Results.List[0].Type) != "error" {
			return nil
		}
		return fd
	}
	rej, fall = gen.Const(false), gen.Const(true)
	seq := func(r2, f2 gen.Formula) {
		rej = gen.Or(rej, gen.And(fall, r2))
		fall = gen.And(fall, f2)
	}
	for _, st := range list {
		switch x := st.(type) {
		case *ast.ReturnStmt:
			if len(x.Results) != 1 {
				return nil, nil, fmt.Errorf("validator returns %d values", len(x.Results))
			}
			if fd := validatorOf(x.Results[0]); fd != nil {
				r, _, err := evalValidator(g, fd.Body.List, depth+1)
				if err != nil {
					return nil, nil, err
				}
				seq(r, gen.Const(false))
			} else if types.ExprString(x.Results[0]) == "nil" {
				seq(gen.Const(false), gen.Const(false))
			} else {
				seq(gen.Const(true), gen.Const(false))
			}
			return rej, fall, nil
		case *ast.BlockStmt:
			r, f, err := evalValidatorEnv(g, x.List, depth, env)
			if err != nil {
				return nil, nil, err
			}
			seq(r, f)
		case *ast.IfStmt:
			// delegation: if err := v(m); err != nil { return err }
			if as, ok := x.Init.(*ast.AssignStmt); ok && x.Else == nil && len(as.Lhs) == 1 && len(as.Rhs) == 1 {
				if fd := validatorOf(as.Rhs[0]); fd != nil && types.ExprString(x.Cond) == types.ExprString(as.Lhs[0])+" != nil" && returnsError(x.Body.List) {
					r, _, err := evalValidator(g, fd.Body.List, depth+1)
					if err != nil {
						return nil, nil, err
					}
					seq(r, gen.Not(r))
					continue
				}
			}
			if x.Init != nil {
				return nil, nil, fmt.Errorf("validateOptions: if with an init statement that is not a validator call")
			}
			c, err := g.ParseFormula(substLocals(x.Cond, env))
			if err != nil {
				return nil, nil, err
			}
			ra, fa, err := evalValidatorEnv(g, x.Body.List, depth, env)
			if err != nil {
				return nil, nil, err
			}
			rb, fb := gen.Formula(gen.Const(false)), gen.Formula(gen.Const(true))
			if x.Else != nil {
				rb, fb, err = evalValidatorEnv(g, []ast.Stmt{x.Else}, depth, env)
				if err != nil {
					return nil, nil, err
				}
			}
			seq(gen.Or(gen.And(c, ra), gen.And(gen.Not(c), rb)), gen.Or(gen.And(c, fa), gen.And(gen.Not(c), fb)))
		case *ast.SwitchStmt:
			if x.Tag != nil || x.Init != nil {
				return nil, nil, fmt.Errorf("validateOptions: switch with a tag")
			}
			r, f := gen.Formula(gen.Const(false)), gen.Formula(gen.Const(false))
			none := gen.Formula(gen.Const(true)) // no earlier case matched
			var deflt *ast.CaseClause
			for _, cc := range x.Body.List {
				c := cc.(*ast.CaseClause)
				if c.List == nil {
					deflt = c
					continue
				}
				var cond gen.Formula = gen.Const(false)
				for _, e := range c.List {
					fe, err := g.ParseFormula(substLocals(e, env))
					if err != nil {
						return nil, nil, err
					}
					cond = gen.Or(cond, fe)
				}
				rc, fc, err := evalValidatorEnv(g, c.Body, depth, env)
				if err != nil {
					return nil, nil, err
				}
				r = gen.Or(r, gen.And(gen.And(none, cond), rc))
				f = gen.Or(f, gen.And(gen.And(none, cond), fc))
				none = gen.And(none, gen.Not(cond))
			}
			rd, fd := gen.Formula(gen.Const(false)), gen.Formula(gen.Const(true))
			if deflt != nil {
				var err error
				rd, fd, err = evalValidatorEnv(g, deflt.Body, depth, env)
				if err != nil {
					return nil, nil, err
				}
			}
			r = gen.Or(r, gen.And(none, rd))
			f = gen.Or(f, gen.And(none, fd))
			seq(r, f)
		case *ast.EmptyStmt:
		case *ast.AssignStmt:
			// a local that names a side-effect-free expression over the method
			id, isID := x.Lhs[0].(*ast.Ident)
			if x.Tok != token.DEFINE || len(x.Lhs) != 1 || len(x.Rhs) != 1 || !isID {
				return nil, nil, fmt.Errorf("validateOptions: unsupported assignment %s", types.ExprString(x.Lhs[0]))
			}
			if _, isCall := ast.Unparen(x.Rhs[0]).(*ast.CallExpr); !isCall {
				if _, isBin := ast.Unparen(x.Rhs[0]).(*ast.BinaryExpr); !isBin {
					return nil, nil, fmt.Errorf("validateOptions: local %s is not defined by a predicate expression", id.Name)
				}
			}
			env[id.Name] = substLocals(x.Rhs[0], env)
		default:
			return nil, nil, fmt.Errorf("validateOptions: unsupported statement %T", st)
		}
	}
	return rej, fall, nil
}

func returnsError(body []ast.Stmt) bool {
	if len(body) == 0 {
		return false
	}
	ret, ok := body[len(body)-1].(*ast.ReturnStmt)
	return ok && len(ret.Results) == 1 && types.ExprString(ret.Results[0]) != "nil"
}

type decision struct {
	rejected  bool
	templates []string // templates emitted by genGorumsMethods over all client call types
	entries   []string
}

func decide(g *gen.Generator, reject []gen.Formula, v gen.Valuation) decision {
	var d decision
	for _, f := range reject {
		if f.Eval(v) {
			d.rejected = true
		}
	}
	for _, e := range g.CallTypes {
		if e.ExtVar == "" {
			continue
		}
		ct := e
		for _, n := range e.Nested {
			if n.Chk != nil && n.Chk.Eval(v) {
				ct = n
				break
			}
		}
		if ct.Chk != nil && ct.Chk.Eval(v) {
			d.templates = append(d.templates, ct.Template)
			d.entries = append(d.entries, ct.Key)
		}
	}
	return d
}

func c16Y3(l *core.Ledger, g *gen.Generator, doc *optionsDoc) map[string]int {
	for _, p := range doc.problems {
		l.Unknown("C16-Y3", "doc/method-options.md", token.NoPos, p)
	}
	reject, err := rejectFormula(g)
	if err != nil {
		l.Unknown("C16-Y3", "gengorums.validateOptions", token.NoPos, "cannot lift the rejection conditions: "+err.Error())
		return nil
	}
	for _, e := range g.CallTypes {
		if e.ChkErr != "" {
			l.Unknown("C16-Y3", "gengorums.gorumsCallTypesInfo["+e.Key+"]", e.Pos, "cannot lift chkFn: "+e.ChkErr)
			return nil
		}
		for _, n := range e.Nested {
			if n.ChkErr != "" {
				l.Unknown("C16-Y3", "gengorums.gorumsCallTypesInfo["+e.Key+"]."+n.Key, n.Pos, "cannot lift chkFn: "+n.ChkErr)
				return nil
			}
		}
	}
	if !l.Floor("C16-Y3", len(g.CallTypes), 9, "entries of gorumsCallTypesInfo") {
		return nil
	}
	vals := allValuations()
	stats := map[string]int{"valuations": len(vals)}
	var multi, none, dupType []string
	for _, v := range vals {
		d := decide(g, reject, v)
		if d.rejected {
			stats["rejected"]++
			continue
		}
		stats["accepted"]++
		switch {
		case len(d.templates) > 1:
			if len(multi) < 3 {
				multi = append(multi, fmt.Sprintf("%s emits %v", valuationString(v), d.entries))
			}
			stats["multi"]++
		case len(d.templates) == 0:
			if len(none) < 3 {
				none = append(none, valuationString(v))
			}
			stats["none"]++
		}
		// unique call type among entries whose own option is present
		passing := 0
		for _, e := range g.CallTypes {
			if e.ExtVar == "" || !v.Opts[e.Ext] {
				continue
			}
			ct := e
			for _, n := range e.Nested {
				if n.Chk != nil && n.Chk.Eval(v) {
					ct = n
					break
				}
			}
			if ct.Chk != nil && ct.Chk.Eval(v) {
				passing++
			}
		}
		if passing > 1 {
			stats["dupType"]++
			if len(dupType) < 3 {
				dupType = append(dupType, valuationString(v))
			}
		}
	}
	l.Check(stats["multi"] == 0, "C16-Y3", "decision-table/one-template", token.NoPos, fmt.Sprintf("%d accepted valuations, each emits at most one client method", stats["accepted"]),
		fmt.Sprintf("%d accepted option combinations emit two or more client methods with the same name (e.g. %s): the output does not compile, and no diagnostic is given", stats["multi"], strings.Join(multi, "; ")))
	l.Check(stats["none"] == 0, "C16-Y3", "decision-table/some-template", token.NoPos, "every accepted valuation emits a client method", fmt.Sprintf("%d accepted option combinations emit no client method at all (e.g. %s)", stats["none"], strings.Join(none, "; ")))
	l.Check(stats["dupType"] == 0, "C16-Y3", "decision-table/unique-call-type", token.NoPos, "callType() is unique on every accepted valuation", fmt.Sprintf("for %d accepted combinations callType() depends on map order (e.g. %s): docName/outType differ from run to run", stats["dupType"], strings.Join(dupType, "; ")))

	if len(doc.problems) == 0 {
		// documented: call types cannot be combined
		var ctOpts []string
		for _, o := range doc.callTypes {
			if o != "" {
				ctOpts = append(ctOpts, o)
			}
		}
		sort.Strings(ctOpts)
		if doc.exclusive {
			for i := 0; i < len(ctOpts); i++ {
				for j := i + 1; j < len(ctOpts); j++ {
					a, b := ctOpts[i], ctOpts[j]
					v, acc := findValuation(func(v gen.Valuation) bool {
						return v.Opts[a] && v.Opts[b] && !decide(g, reject, v).rejected
					})
					l.Check(!acc, "C16-Y3", fmt.Sprintf("doc/exclusive/%s+%s", a, b), token.NoPos, "combination rejected as documented", fmt.Sprintf("the documentation says call types cannot be combined, but %s is accepted without a diagnostic", valuationString(v)))
				}
			}
		}
		// matrix
		var rows []string
		for r := range doc.matrix {
			rows = append(rows, r)
		}
		sort.Strings(rows)
		for _, rowName := range rows {
			opt := doc.options[rowName]
			var cols []string
			for c := range doc.matrix[rowName] {
				cols = append(cols, c)
			}
			sort.Strings(cols)
			for _, colName := range cols {
				cell := doc.matrix[rowName][colName]
				ct, known := doc.callTypes[colName]
				if !known || opt == "" {
					l.Unknown("C16-Y3", "doc/matrix/"+rowName+"/"+colName, token.NoPos, "matrix row or column does not name a known option / call type")
					continue
				}
				key := fmt.Sprintf("doc/matrix/%s×%s", opt, orStr(ct, "rpc"))
				base := func(v gen.Valuation) bool {
					// exactly this call type (none for rpc), this option set, no streaming
					for _, o := range ctOpts {
						if v.Opts[o] != (o == ct) {
							return false
						}
					}
					return v.Opts[opt] && !v.StreamClient && !v.StreamServer && !v.Opts["rpc"]
				}
				switch cell {
				case "Yes":
					// the plain combination (option + call type, nothing else) must be accepted
					v, rej := findValuation(func(v gen.Valuation) bool {
						if !base(v) {
							return false
						}
						for _, o := range []string{"async", "per_node_arg", "custom_return_type"} {
							if o != opt && v.Opts[o] {
								return false
							}
						}
						return decide(g, reject, v).rejected
					})
					l.Check(!rej, "C16-Y3", key, token.NoPos, "documented combination accepted", "the documentation allows "+valuationString(v)+" but the generator rejects it")
				case "No":
					v, acc := findValuation(func(v gen.Valuation) bool { return base(v) && !decide(g, reject, v).rejected })
					l.Check(!acc, "C16-Y3", key, token.NoPos, "documented illegal combination rejected", "the documentation forbids "+valuationString(v)+" but the generator accepts it")
				case "N/A":
					l.OK("C16-Y3", key, token.NoPos, "N/A: no effect on emitted code is decided by C16-Y4")
				default:
					l.Unknown("C16-Y3", key, token.NoPos, "unknown matrix cell "+strconv.Quote(cell))
				}
			}
		}
		// server streams only with correctable
		v, acc := findValuation(func(v gen.Valuation) bool {
			return v.StreamServer && !v.Opts["correctable"] && !decide(g, reject, v).rejected
		})
		l.Check(!acc, "C16-Y3", "doc/stream/server-needs-correctable", token.NoPos, "server streams without correctable are rejected", "a server-streaming method without the correctable option is accepted: "+valuationString(v))
	}
	l.Extra["decision_table"] = stats
	return stats
}

// ---------------------------------------------------------------------------
// Y4 / Y5: templates

// optionFuncs: funcMap functions whose result depends on an option; the
// option set is re-derived from the function's AST (extensions it mentions).
func optionsMentioned(g *gen.Generator, e ast.Expr) []string {
	set := map[string]bool{}
	var walk func(n ast.Node)
	seen := map[types.Object]bool{}
	walk = func(n ast.Node) {
		ast.Inspect(n, func(m ast.Node) bool {
			switch x := m.(type) {
			case *ast.SelectorExpr:
				if o, ok := g.ExtByVar[types.ExprString(x)]; ok {
					set[o] = true
				}
			case *ast.Ident:
				if l, ok := g.Lists[x.Name]; ok {
					for _, o := range l {
						set[o] = true
					}
				}
				// follow package-level functions
				if fn, ok := g.Pkg.TypesInfo.Uses[x].(*types.Func); ok && fn.Pkg() == g.Pkg.Types && !seen[fn] {
					seen[fn] = true
					for _, f := range g.Pkg.Syntax {
						for _, d := range f.Decls {
							if fd, ok := d.(*ast.FuncDecl); ok && g.Pkg.TypesInfo.Defs[fd.Name] == fn && fd.Body != nil {
								walk(fd.Body)
							}
						}
					}
				}
			}
			return true
		})
	}
	walk(e)
	var out []string
	for o := range set {
		out = append(out, o)
	}
	sort.Strings(out)
	return out
}

// templateInfluence computes, for one template, the set of funcMap functions
// whose results reach emitted non-comment text (directly, through $variables,
// or by controlling an {{if}}).
type tmplUse struct {
	funcsOut   map[string]bool // functions influencing non-comment output
	funcsAll   map[string]bool // every function referenced
	uses       []string        // arguments of `use`
	cdVar      string          // the $variable holding `use "gorums.XCallData"`
	cdType     string          // XCallData
	text       string
	fieldsLit  []string // Field: keys inside the call-data literal
	fieldsAsgn []string // cd.Field = assignments
}

func analyseTemplate(g *gen.Generator, name string) (*tmplUse, error) {
	tree, err := g.ParseTemplate(name)
	if err != nil {
		return nil, err
	}
	u := &tmplUse{funcsOut: map[string]bool{}, funcsAll: map[string]bool{}, text: g.Strings[name]}
	varFuncs := map[string]map[string]bool{} // $var -> functions it derives from
	var funcsOfPipe func(p *parse.PipeNode) map[string]bool
	funcsOfPipe = func(p *parse.PipeNode) map[string]bool {
		out := map[string]bool{}
		if p == nil {
			return out
		}
		for _, c := range p.Cmds {
			for _, a := range c.Args {
				switch x := a.(type) {
				case *parse.IdentifierNode:
					out[x.Ident] = true
					u.funcsAll[x.Ident] = true
					if x.Ident == "use" && len(c.Args) >= 2 {
						if s, ok := c.Args[1].(*parse.StringNode); ok {
							u.uses = append(u.uses, s.Text)
						}
					}
				case *parse.VariableNode:
					for f := range varFuncs[x.Ident[0]] {
						out[f] = true
					}
				case *parse.PipeNode:
					for f := range funcsOfPipe(x) {
						out[f] = true
					}
				}
			}
		}
		return out
	}
	inComment := false
	trackText := func(s string) {
		// update the "inside a // comment" state at the end of s
		for _, ln := range strings.SplitAfter(s, "\n") {
			if strings.HasSuffix(ln, "\n") {
				inComment = false
				continue
			}
			if strings.Contains(ln, "//") {
				inComment = true
			}
		}
	}
	var walk func(n parse.Node, ctrl map[string]bool)
	walk = func(n parse.Node, ctrl map[string]bool) {
		switch x := n.(type) {
		case *parse.ListNode:
			if x == nil {
				return
			}
			for _, c := range x.Nodes {
				walk(c, ctrl)
			}
		case *parse.TextNode:
			s := string(x.Text)
			// non-comment text under control of option-dependent conditions
			nonComment := false
			for _, ln := range strings.Split(s, "\n") {
				t := strings.TrimSpace(ln)
				if t != "" && !strings.HasPrefix(t, "//") && !(inComment && ln == strings.Split(s, "\n")[0]) {
					nonComment = true
				}
			}
			if nonComment {
				for f := range ctrl {
					u.funcsOut[f] = true
				}
			}
			trackText(s)
		case *parse.ActionNode:
			fs := funcsOfPipe(x.Pipe)
			if len(x.Pipe.Decl) > 0 {
				for _, d := range x.Pipe.Decl {
					varFuncs[d.Ident[0]] = fs
					// remember the call-data variable
					for _, us := range u.uses {
						if fs["use"] && strings.HasSuffix(us, "CallData") && strings.HasPrefix(us, "gorums.") {
							last := u.uses[len(u.uses)-1]
							if last == us && strings.Contains(x.String(), us) {
								u.cdVar, u.cdType = d.Ident[0], strings.TrimPrefix(us, "gorums.")
							}
						}
					}
				}
				return
			}
			if !inComment {
				for f := range fs {
					u.funcsOut[f] = true
				}
				for f := range ctrl {
					u.funcsOut[f] = true
				}
			}
		case *parse.IfNode:
			fs := funcsOfPipe(x.Pipe)
			inner := map[string]bool{}
			for f := range ctrl {
				inner[f] = true
			}
			for f := range fs {
				inner[f] = true
			}
			walk(x.List, inner)
			walk(x.ElseList, inner)
		case *parse.RangeNode:
			fs := funcsOfPipe(x.Pipe)
			for _, d := range x.Pipe.Decl {
				varFuncs[d.Ident[0]] = fs
			}
			walk(x.List, ctrl)
			walk(x.ElseList, ctrl)
		case *parse.WithNode:
			walk(x.List, ctrl)
			walk(x.ElseList, ctrl)
		}
	}
	walk(tree.Root, map[string]bool{})
	return u, nil
}

func c16Y4Y5(l *core.Ledger, g *gen.Generator, gm *genModel, doc *optionsDoc) {
	rtPkg := l.Prog.Pkg("")
	ordPkg := l.Prog.Pkg("ordering")
	// option dependence of funcMap functions
	funcOpts := map[string][]string{}
	for k, v := range g.FuncMap {
		funcOpts[k] = optionsMentioned(g, v)
	}
	type ctInfo struct {
		entry *gen.CallTypeEntry
		ct    string // documentation call-type option ("" = rpc)
	}
	var cts []ctInfo
	for _, e := range g.CallTypes {
		if e.ExtVar == "" {
			continue
		}
		docCT := e.Ext
		switch e.Ext {
		case "rpc":
			docCT = ""
		case "async":
			docCT = "quorumcall"
		}
		if len(e.Nested) > 0 {
			for _, n := range e.Nested {
				cts = append(cts, ctInfo{n, docCT})
			}
			continue
		}
		cts = append(cts, ctInfo{e, docCT})
	}
	n := 0
	templatesSeen := map[string]bool{}
	for _, ci := range cts {
		e := ci.entry
		if e.Template == "" {
			continue
		}
		key := "gengorums." + e.Template + "[" + e.Key + "]"
		u, err := analyseTemplate(g, e.Template)
		if err != nil {
			l.Bad("C16-Y5", "gengorums."+e.Template+"/parse", g.StrPos[e.Template], "the template does not parse with the funcMap's functions ("+err.Error()+"): template.Must panics as soon as the generator reaches this call type")
			continue
		}
		n++
		// Y4
		if len(doc.problems) == 0 {
			influencing := map[string][]string{}
			for f := range u.funcsOut {
				for _, o := range funcOpts[f] {
					if o == "per_node_arg" || o == "custom_return_type" {
						influencing[o] = append(influencing[o], f)
					}
				}
			}
			for _, o := range []string{"custom_return_type", "per_node_arg"} {
				cell := doc.cell(o, ci.ct)
				k := fmt.Sprintf("%s/%s", key, o)
				fs := influencing[o]
				sort.Strings(fs)
				switch {
				case cell == "Yes":
					l.OK("C16-Y4", k, e.Pos, "option applies to this call type")
				case len(fs) == 0:
					l.OK("C16-Y4", k, e.Pos, "option "+o+" ("+orStr(cell, "?")+") does not reach the emitted code")
				default:
					l.Bad("C16-Y4", k, g.StrPos[e.Template], fmt.Sprintf("the documentation marks %s as %s for this call type, but the template's emitted code depends on it through %v: a method that sets the option gets silently different (for rpc: non-compiling) code", o, cell, fs))
				}
			}
		}
		// Y5 (once per template)
		if templatesSeen[e.Template] {
			continue
		}
		templatesSeen[e.Template] = true
		c16Y5Template(l, g, rtPkg, ordPkg, e.Template, u)
	}
	for _, e := range g.CallTypes {
		if e.ExtVar == "" && e.Template != "" && !templatesSeen[e.Template] {
			templatesSeen[e.Template] = true
			if u, err := analyseTemplate(g, e.Template); err == nil {
				n++
				c16Y5Template(l, g, rtPkg, ordPkg, e.Template, u)
			} else {
				l.Bad("C16-Y5", "gengorums."+e.Template+"/parse", g.StrPos[e.Template], "the template does not parse with the funcMap's functions ("+err.Error()+"): template.Must panics as soon as the generator reaches it")
			}
		}
	}
	l.Floor("C16-Y5", n, 9, "templates analysed")
}

func c16Y5Template(l *core.Ledger, g *gen.Generator, rtPkg, ordPkg *packages.Package, name string, u *tmplUse) {
	key := "gengorums." + name
	pos := g.StrPos[name]
	// funcMap keys
	var missing []string
	for f := range u.funcsAll {
		if _, ok := g.FuncMap[f]; !ok {
			switch f {
			case "and", "or", "not", "len", "index", "print", "printf", "println", "eq", "ne", "lt", "le", "gt", "ge", "call", "slice":
			default:
				missing = append(missing, f)
			}
		}
	}
	sort.Strings(missing)
	l.Check(len(missing) == 0, "C16-Y5", key+"/funcs", pos, "all template functions are funcMap keys", fmt.Sprintf("template calls functions that are not in the funcMap: %v (the generator panics when it reaches this template)", missing))
	// use "pkg.Ident"
	importMap := map[string]string{}
	for _, f := range g.Pkg.Syntax {
		ast.Inspect(f, func(nd ast.Node) bool {
			vs, ok := nd.(*ast.ValueSpec)
			if !ok || len(vs.Names) != 1 || vs.Names[0].Name != "importMap" || len(vs.Values) != 1 {
				return true
			}
			if cl, ok := vs.Values[0].(*ast.CompositeLit); ok {
				for _, el := range cl.Elts {
					kv := el.(*ast.KeyValueExpr)
					k, _ := strconv.Unquote(kv.Key.(*ast.BasicLit).Value)
					if ce, ok := kv.Value.(*ast.CallExpr); ok && len(ce.Args) == 1 {
						if bl, ok := ce.Args[0].(*ast.BasicLit); ok {
							v, _ := strconv.Unquote(bl.Value)
							importMap[k] = v
						}
					}
				}
			}
			return true
		})
	}
	var badUse []string
	for _, us := range u.uses {
		parts := strings.SplitN(us, ".", 2)
		if len(parts) != 2 {
			badUse = append(badUse, us)
			continue
		}
		path, ok := importMap[parts[0]]
		if !ok {
			badUse = append(badUse, us+" (package not in importMap)")
			continue
		}
		var scope *types.Scope
		switch path {
		case core.RootModule:
			scope = rtPkg.Types.Scope()
		case core.RootModule + "/ordering":
			if ordPkg != nil {
				scope = ordPkg.Types.Scope()
			}
		default:
			if imp, ok := g.Pkg.Imports[path]; ok && imp.Types != nil {
				scope = imp.Types.Scope()
			} else if imp, ok := rtPkg.Imports[path]; ok && imp.Types != nil {
				scope = imp.Types.Scope()
			}
		}
		if scope == nil {
			continue // a package this run has no type information for (not imported by generator or runtime)
		}
		obj := scope.Lookup(parts[1])
		if obj == nil || !obj.Exported() {
			badUse = append(badUse, us+" (no such exported identifier)")
		}
	}
	sort.Strings(badUse)
	l.Check(len(badUse) == 0, "C16-Y5", key+"/use", pos, fmt.Sprintf("%d identifiers named through use exist", len(u.uses)), fmt.Sprintf("template refers to identifiers that do not exist in the runtime: %v", badUse))
	// call-data fields
	if u.cdType == "" {
		return
	}
	tn, _ := rtPkg.Types.Scope().Lookup(u.cdType).(*types.TypeName)
	if tn == nil {
		l.Bad("C16-Y5", key+"/call-data", pos, "template builds gorums."+u.cdType+", which does not exist")
		return
	}
	st, _ := tn.Type().Underlying().(*types.Struct)
	has := func(f string) bool {
		for i := 0; i < st.NumFields(); i++ {
			if st.Field(i).Name() == f {
				return true
			}
		}
		return false
	}
	// textual scan of the template for `cd.X =` and `X:` keys inside the literal following {{$callData}}{
	var bad []string
	text := u.text
	for _, ln := range strings.Split(text, "\n") {
		t := strings.TrimSpace(ln)
		if strings.HasPrefix(t, "cd.") {
			rest := strings.TrimPrefix(t, "cd.")
			if i := strings.IndexAny(rest, " =\t"); i > 0 && strings.Contains(rest[i:], "=") {
				if f := rest[:i]; !has(f) {
					bad = append(bad, "cd."+f+" = …")
				}
			}
		}
	}
	if i := strings.Index(text, "cd := {{"+u.cdVar+"}}{"); i >= 0 {
		lit := text[i:]
		if j := strings.Index(lit, "\n\t}"); j >= 0 {
			lit = lit[:j]
		}
		for _, ln := range strings.Split(lit, "\n")[1:] {
			t := strings.TrimSpace(ln)
			if k := strings.Index(t, ":"); k > 0 {
				f := strings.TrimSpace(t[:k])
				if isIdentifier(f) && !has(f) {
					bad = append(bad, f+": …")
				}
			}
		}
	}
	sort.Strings(bad)
	l.Check(len(bad) == 0, "C16-Y5", key+"/call-data", pos, "every call-data field the template writes exists in gorums."+u.cdType, fmt.Sprintf("template writes fields that gorums.%s does not have: %v — the emitted code cannot compile, and the generator gives no diagnostic", u.cdType, bad))
}

func isIdentifier(s string) bool {
	if s == "" {
		return false
	}
	for i, r := range s {
		if !(r == '_' || (r >= 'a' && r <= 'z') || (r >= 'A' && r <= 'Z') || (i > 0 && r >= '0' && r <= '9')) {
			return false
		}
	}
	return true
}

// ---------------------------------------------------------------------------
// Y6 / Y7

func c16Y6(l *core.Ledger, g *gen.Generator) {
	dev := l.Prog.Pkg("cmd/protoc-gen-gorums/dev")
	if dev == nil {
		l.Unknown("C16-Y6", "anchor/dev", token.NoPos, "dev package not loaded")
		return
	}
	reserved := map[string]bool{}
	for _, r := range g.Reserved {
		reserved[r] = true
	}
	var declared []string
	for _, f := range dev.Syntax {
		base := filepath.Base(l.Prog.Fset.File(f.Pos()).Name())
		if strings.HasPrefix(base, "zorums") || strings.HasSuffix(base, "_test.go") {
			continue
		}
		for _, d := range f.Decls {
			switch x := d.(type) {
			case *ast.FuncDecl:
				if x.Recv == nil && x.Name.IsExported() {
					declared = append(declared, x.Name.Name)
				}
			case *ast.GenDecl:
				for _, sp := range x.Specs {
					switch s := sp.(type) {
					case *ast.TypeSpec:
						if s.Name.IsExported() {
							declared = append(declared, s.Name.Name)
						}
					case *ast.ValueSpec:
						for _, n := range s.Names {
							if n.IsExported() {
								declared = append(declared, n.Name)
							}
						}
					}
				}
			}
		}
	}
	declared = append(declared, "QuorumSpec")
	sort.Strings(declared)
	var missing []string
	for _, d := range declared {
		if !reserved[d] {
			missing = append(missing, d)
		}
	}
	l.Floor("C16-Y6", len(declared), 5, "exported identifiers declared by the static code")
	l.Check(len(missing) == 0, "C16-Y6", "gengorums.reservedIdents", g.StrPos["reservedIdents"], fmt.Sprintf("reserved set covers %v", declared),
		fmt.Sprintf("the static code declares %v, but reservedIdents = %v lacks %v: a proto message with such a name is accepted and the emitted file declares the identifier twice", declared, g.Reserved, missing))
	// the guard loop
	var guard *ast.FuncDecl
	for _, f := range g.Pkg.Syntax {
		for _, d := range f.Decls {
			if fd, ok := d.(*ast.FuncDecl); ok && fd.Name.Name == "gorumsGuard" {
				guard = fd
			}
		}
	}
	if guard == nil {
		l.Unknown("C16-Y6", "gengorums.gorumsGuard", token.NoPos, "gorumsGuard not found")
		return
	}
	okLoop := false
	info := g.Pkg.TypesInfo
	// innerMatch: a range over reservedIdents whose body compares the element with something
	// and does `then` on equality
	innerMatch := func(body ast.Node, then func(*ast.IfStmt) bool) bool {
		hit := false
		ast.Inspect(body, func(m ast.Node) bool {
			inner, ok := m.(*ast.RangeStmt)
			if !ok || types.ExprString(inner.X) != "reservedIdents" || inner.Value == nil {
				return true
			}
			ast.Inspect(inner.Body, func(k ast.Node) bool {
				ifs, ok := k.(*ast.IfStmt)
				if !ok {
					return true
				}
				be, ok := ifs.Cond.(*ast.BinaryExpr)
				if !ok || be.Op != token.EQL {
					return true
				}
				if objOf(info, be.Y) == objOf(info, inner.Value) || objOf(info, be.X) == objOf(info, inner.Value) {
					if then(ifs) {
						hit = true
					}
				}
				return true
			})
			return true
		})
		return hit
	}
	// isMembership: the expression is true exactly when its argument is a reserved identifier
	isMembership := func(e ast.Expr) bool {
		ce, ok := ast.Unparen(e).(*ast.CallExpr)
		if !ok || len(ce.Args) == 0 {
			return false
		}
		if f := resolvedCall(info, ce); f != nil && f.Pkg() != nil && f.Pkg().Path() == "slices" && f.Name() == "Contains" && len(ce.Args) == 2 && types.ExprString(ce.Args[0]) == "reservedIdents" {
			return true
		}
		id, ok := ce.Fun.(*ast.Ident)
		if !ok || len(ce.Args) != 1 {
			return false
		}
		fd := g.FuncDecl(id.Name)
		if fd == nil || fd.Type.Params.NumFields() != 1 || len(fd.Body.List) == 0 {
			return false
		}
		// range reservedIdents { if param == elem { return true } } ... return false
		last, ok := fd.Body.List[len(fd.Body.List)-1].(*ast.ReturnStmt)
		if !ok || len(last.Results) != 1 || types.ExprString(last.Results[0]) != "false" {
			return false
		}
		return innerMatch(fd.Body, func(ifs *ast.IfStmt) bool {
			if len(ifs.Body.List) != 1 {
				return false
			}
			r, ok := ifs.Body.List[0].(*ast.ReturnStmt)
			return ok && len(r.Results) == 1 && types.ExprString(r.Results[0]) == "true"
		})
	}
	// reservedSets: local maps of a function filled from reservedIdents (set[id] = ...)
	reservedSets := func(fd *ast.FuncDecl) map[types.Object]bool {
		out := map[types.Object]bool{}
		ast.Inspect(fd.Body, func(nd ast.Node) bool {
			rs, ok := nd.(*ast.RangeStmt)
			if !ok || types.ExprString(rs.X) != "reservedIdents" || rs.Value == nil {
				return true
			}
			for _, st := range rs.Body.List {
				as, ok := st.(*ast.AssignStmt)
				if !ok || len(as.Lhs) != 1 {
					continue
				}
				ix, ok := as.Lhs[0].(*ast.IndexExpr)
				if ok && objOf(info, ix.Index) == objOf(info, rs.Value) {
					if o := objOf(info, ix.X); o != nil {
						out[o] = true
					}
				}
			}
			return true
		})
		return out
	}
	// isReservedTest: cond is true exactly when some name is a reserved identifier
	isReservedTest := func(fd *ast.FuncDecl, cond ast.Expr, init ast.Stmt) bool {
		if isMembership(cond) {
			return true
		}
		sets := reservedSets(fd)
		if ix, ok := ast.Unparen(cond).(*ast.IndexExpr); ok && sets[objOf(info, ix.X)] {
			return true
		}
		if as, ok := init.(*ast.AssignStmt); ok && len(as.Lhs) == 2 && len(as.Rhs) == 1 {
			if ix, ok := as.Rhs[0].(*ast.IndexExpr); ok && sets[objOf(info, ix.X)] && objOf(info, cond) == objOf(info, as.Lhs[1]) {
				return true
			}
		}
		return false
	}
	// scansMessages: fd ranges over `over` and does `then` for a message whose name is reserved
	scansMessages := func(fd *ast.FuncDecl, over func(ast.Expr) bool, then func(*ast.IfStmt) bool) bool {
		hit := false
		ast.Inspect(fd.Body, func(nd ast.Node) bool {
			outer, ok := nd.(*ast.RangeStmt)
			if !ok || !over(outer.X) {
				return true
			}
			if innerMatch(outer.Body, then) {
				hit = true
			}
			ast.Inspect(outer.Body, func(m ast.Node) bool {
				if ifs, ok := m.(*ast.IfStmt); ok && isReservedTest(fd, ifs.Cond, ifs.Init) && then(ifs) {
					hit = true
				}
				return true
			})
			return true
		})
		return hit
	}
	isMessages := func(e ast.Expr) bool { return strings.HasSuffix(types.ExprString(e), ".Messages") }
	if scansMessages(guard, isMessages, func(ifs *ast.IfStmt) bool { return callsFatal(info, ifs.Body) }) {
		okLoop = true
	}
	// or: a helper scans the message list and reports a hit, which is fatal here
	ast.Inspect(guard.Body, func(nd ast.Node) bool {
		ifs, ok := nd.(*ast.IfStmt)
		if !ok || !callsFatal(info, ifs.Body) {
			return true
		}
		as, ok := ifs.Init.(*ast.AssignStmt)
		if !ok || len(as.Rhs) != 1 || len(as.Lhs) == 0 || objOf(info, ifs.Cond) != objOf(info, as.Lhs[len(as.Lhs)-1]) {
			return true
		}
		ce, ok := as.Rhs[0].(*ast.CallExpr)
		if !ok || len(ce.Args) != 1 || !isMessages(ce.Args[0]) {
			return true
		}
		id, ok := ce.Fun.(*ast.Ident)
		if !ok {
			return true
		}
		h := g.FuncDecl(id.Name)
		if h == nil || h.Type.Params.NumFields() != 1 || len(h.Type.Params.List[0].Names) != 1 || len(h.Body.List) == 0 {
			return true
		}
		param := objOf(info, h.Type.Params.List[0].Names[0])
		lastRet, ok := h.Body.List[len(h.Body.List)-1].(*ast.ReturnStmt)
		if !ok || len(lastRet.Results) == 0 || types.ExprString(lastRet.Results[len(lastRet.Results)-1]) != "false" {
			return true
		}
		reportsHit := func(i *ast.IfStmt) bool {
			if len(i.Body.List) == 0 {
				return false
			}
			r, ok := i.Body.List[len(i.Body.List)-1].(*ast.ReturnStmt)
			return ok && len(r.Results) > 0 && types.ExprString(r.Results[len(r.Results)-1]) == "true"
		}
		if scansMessages(h, func(e ast.Expr) bool { return objOf(info, e) == param }, reportsHit) {
			okLoop = true
		}
		return true
	})
	l.Check(okLoop, "C16-Y6", "gengorums.gorumsGuard/loop", guard.Pos(), "every message name is compared with every reserved name; a match is fatal", "gorumsGuard does not compare every top-level message name with every reserved identifier and stop with a diagnostic on a match")
}

func callsFatal(info *types.Info, n ast.Node) bool {
	found := false
	ast.Inspect(n, func(m ast.Node) bool {
		if ce, ok := m.(*ast.CallExpr); ok {
			if f := resolvedCall(info, ce); f != nil && f.Pkg() != nil && f.Pkg().Path() == "log" && strings.HasPrefix(f.Name(), "Fatal") {
				found = true
			}
		}
		return true
	})
	return found
}

func c16Y7(l *core.Ledger, g *gen.Generator) {
	info := g.Pkg.TypesInfo
	validators := delegatingValidators(g)
	// every call site of validateOptions: its error is tested and the non-nil branch is fatal;
	// and it is reached for every method: directly in the body of the loop over the methods,
	// with no way round it (continue/break/return) before it
	n := 0
	for _, f := range g.Pkg.Syntax {
		if strings.HasSuffix(l.Prog.Fset.File(f.Pos()).Name(), "_test.go") {
			continue
		}
		var stack []ast.Node
		ast.Inspect(f, func(nd ast.Node) bool {
			if nd == nil {
				stack = stack[:len(stack)-1]
				return true
			}
			stack = append(stack, nd)
			ce, ok := nd.(*ast.CallExpr)
			if !ok {
				return true
			}
			if fn := resolvedCall(info, ce); fn == nil || !validators[fn.Name()] || fn.Pkg() != g.Pkg.Types {
				return true
			}
			// inside a delegating validator the verdict is handed on, not acted upon: its own
			// call sites are judged for that; "reached for every method" is judged here
			inDelegator := false
			for k := len(stack) - 2; k >= 0; k-- {
				if fd, isFD := stack[k].(*ast.FuncDecl); isFD {
					if validators[fd.Name.Name] && fd.Name.Name != "validateOptions" {
						inDelegator = true
					}
				}
			}
			// the assignment that receives the error, and the statement it belongs to
			var as *ast.AssignStmt
			var ifs *ast.IfStmt
			var holder ast.Stmt // the statement that sits in a statement list
			var list []ast.Stmt
			idx := -1
			for k := len(stack) - 2; k >= 0; k-- {
				switch x := stack[k].(type) {
				case *ast.AssignStmt:
					if as == nil && len(x.Rhs) == 1 && x.Rhs[0] == ast.Expr(ce) {
						as = x
					}
				case *ast.IfStmt:
					if as != nil && x.Init == ast.Stmt(as) && ifs == nil {
						ifs = x
					}
				case *ast.BlockStmt:
					if list == nil {
						list = x.List
						for q, st := range x.List {
							if st == ast.Stmt(as) || (ifs != nil && st == ast.Stmt(ifs)) {
								idx, holder = q, st
							}
						}
					}
				}
				if list != nil {
					break
				}
			}
			if as == nil || idx < 0 {
				// a validator delegating to validateOptions (return validateOptions(m)) is not a use site
				for k := len(stack) - 2; k >= 0; k-- {
					if _, isRet := stack[k].(*ast.ReturnStmt); isRet {
						return true
					}
				}
				n++
				l.Bad("C16-Y7", "gengorums/validateOptions-call", ce.Pos(), "the result of validateOptions is not kept and tested: generation continues with an illegal combination")
				return true
			}
			n++
			errObj := objOf(info, as.Lhs[0])
			isErrTest := func(x *ast.IfStmt) bool {
				be, isBE := x.Cond.(*ast.BinaryExpr)
				return isBE && be.Op == token.NEQ && objOf(info, be.X) == errObj && (callsFatal(info, x.Body) || (inDelegator && returnsError(x.Body.List)))
			}
			ok2 := false
			if ifs != nil {
				ok2 = isErrTest(ifs)
			} else if idx+1 < len(list) {
				if nx, isIf := list[idx+1].(*ast.IfStmt); isIf {
					ok2 = isErrTest(nx)
				}
			}
			l.Check(ok2, "C16-Y7", "gengorums/validateOptions-call", ce.Pos(), "a validation error is fatal", "the result of validateOptions is not turned into a fatal diagnostic: generation continues with an illegal combination")
			// reached for every method
			var loop *ast.RangeStmt
			for k := len(stack) - 1; k >= 0; k-- {
				if r, isR := stack[k].(*ast.RangeStmt); isR {
					loop = r
					break
				}
			}
			if loop == nil {
				return true
			}
			direct := false
			for q, st := range loop.Body.List {
				if st == holder {
					direct = true
					skip := false
					for _, before := range loop.Body.List[:q] {
						ast.Inspect(before, func(x ast.Node) bool {
							switch x.(type) {
							case *ast.BranchStmt, *ast.ReturnStmt:
								skip = true
							case *ast.FuncLit:
								return false
							}
							return true
						})
					}
					l.Check(!skip, "C16-Y7", "gengorums/validateOptions-call/every-method", ce.Pos(), "no way round the validation inside the loop over the methods", "the loop over the methods can move on (continue/break/return) before validateOptions ran for the method: a method with an illegal option combination that the current call type does not select is never validated - it is silently skipped or silently generated")
				}
			}
			if !direct {
				l.Bad("C16-Y7", "gengorums/validateOptions-call/every-method", ce.Pos(), "validateOptions is called under a condition inside the loop over the methods: methods for which the condition does not hold are never validated")
			}
			return true
		})
	}
	l.Floor("C16-Y7", n, 1, "validateOptions call sites")
}

// orderSensitiveConsumer looks at every call of a function that hands out a
// slice filled in map order. Ranging over the result (first-match selection,
// whose predicates Y3 shows to be exclusive) and taking its length do not
// depend on the order; anything else - indexing, keeping it in a variable,
// passing it on - does.
func orderSensitiveConsumer(g *gen.Generator, f genFunc) string {
	return orderSensitiveConsumerOf(g, g.Pkg.TypesInfo.Defs[f.decl.Name], 0)
}

func orderSensitiveConsumerOf(g *gen.Generator, obj types.Object, depth int) string {
	if obj == nil || depth > 4 {
		return ""
	}
	bad := ""
	for _, file := range g.Pkg.Syntax {
		var stack []ast.Node
		ast.Inspect(file, func(n ast.Node) bool {
			if n == nil {
				stack = stack[:len(stack)-1]
				return true
			}
			stack = append(stack, n)
			ce, ok := n.(*ast.CallExpr)
			if !ok {
				return true
			}
			id, ok := ce.Fun.(*ast.Ident)
			if !ok || g.Pkg.TypesInfo.Uses[id] != obj {
				return true
			}
			var parent ast.Node
			if len(stack) >= 2 {
				parent = stack[len(stack)-2]
			}
			switch p := parent.(type) {
			case *ast.RangeStmt:
				if p.X == ast.Expr(ce) {
					return true
				}
			case *ast.CallExpr:
				if fid, isID := p.Fun.(*ast.Ident); isID && fid.Name == "len" {
					return true
				}
			case *ast.ReturnStmt:
				// handed on as the result of the enclosing function: that function's callers decide
				if len(p.Results) == 1 {
					for k := len(stack) - 3; k >= 0; k-- {
						if fd, isFD := stack[k].(*ast.FuncDecl); isFD {
							if b := orderSensitiveConsumerOf(g, g.Pkg.TypesInfo.Defs[fd.Name], depth+1); b != "" {
								bad = b
							}
							return true
						}
						if _, isLit := stack[k].(*ast.FuncLit); isLit {
							break
						}
					}
				}
			}
			bad = "its result is used at " + g.Pkg.Fset.Position(ce.Pos()).String() + " other than by ranging over it or taking its length (an element picked by position is picked in map order)"
			return true
		})
	}
	return bad
}

// c16Y8: the QuorumSpec interface is declared by the qspec template inside
// {{range qspecServices .Services}} and used by the bundled static code in
// every generated file. A filter in qspecServices leaves a file whose service
// does not pass it without the declaration: undefined: QuorumSpec.
func c16Y8(l *core.Ledger, g *gen.Generator) {
	var fd *ast.FuncDecl
	for _, f := range g.Pkg.Syntax {
		for _, d := range f.Decls {
			if x, ok := d.(*ast.FuncDecl); ok && x.Name.Name == "qspecServices" && x.Recv == nil {
				fd = x
			}
		}
	}
	if fd == nil || fd.Body == nil {
		l.Unknown("C16-Y8", "anchor/qspecServices", token.NoPos, "template function qspecServices not found")
		return
	}
	info := g.Pkg.TypesInfo
	var outer *ast.RangeStmt
	for _, st := range fd.Body.List {
		if r, ok := st.(*ast.RangeStmt); ok && outer == nil {
			outer = r
		}
	}
	// a body that simply returns its argument also hands out every service
	if outer == nil {
		okRet := false
		if len(fd.Body.List) == 1 {
			if ret, ok := fd.Body.List[0].(*ast.ReturnStmt); ok && len(ret.Results) == 1 && len(fd.Type.Params.List) == 1 && len(fd.Type.Params.List[0].Names) == 1 {
				okRet = objOf(info, ret.Results[0]) == info.Defs[fd.Type.Params.List[0].Names[0]]
			}
		}
		l.Check(okRet, "C16-Y8", "gengorums.qspecServices", fd.Pos(), "returns its argument", "qspecServices has no loop over the services and does not return its argument either")
		return
	}
	isAppendOf := func(st ast.Stmt) bool {
		as, ok := st.(*ast.AssignStmt)
		if !ok || len(as.Rhs) != 1 {
			return false
		}
		ce, ok := as.Rhs[0].(*ast.CallExpr)
		if !ok {
			return false
		}
		id, ok := ce.Fun.(*ast.Ident)
		if !ok || id.Name != "append" || len(ce.Args) != 2 {
			return false
		}
		return outer.Value != nil && objOf(info, ce.Args[1]) == objOf(info, outer.Value)
	}
	ok, why := false, "no statement of the loop body appends the service unconditionally"
	for q, st := range outer.Body.List {
		if !isAppendOf(st) {
			continue
		}
		ok, why = true, ""
		for _, before := range outer.Body.List[:q] {
			ast.Inspect(before, func(x ast.Node) bool {
				switch y := x.(type) {
				case *ast.RangeStmt, *ast.ForStmt, *ast.FuncLit, *ast.SwitchStmt, *ast.SelectStmt:
					// an unlabelled continue/break in there stays in there
					labelled := false
					ast.Inspect(y, func(z ast.Node) bool {
						if b, isB := z.(*ast.BranchStmt); isB && b.Label != nil {
							labelled = true
						}
						if _, isRet := z.(*ast.ReturnStmt); isRet {
							if _, isLit := y.(*ast.FuncLit); !isLit {
								labelled = true
							}
						}
						return true
					})
					if labelled {
						ok, why = false, "a labelled jump or return before the append can skip it"
					}
					return false
				case *ast.BranchStmt, *ast.ReturnStmt:
					ok, why = false, "a continue/break/return before the append can skip it"
				}
				return true
			})
		}
	}
	l.Check(ok, "C16-Y8", "gengorums.qspecServices", fd.Pos(), "every service is handed to the qspec template", "qspecServices filters the services ("+why+"): for a file whose service does not pass the filter (for instance a service of plain rpc methods) the qspec template declares no QuorumSpec, while the static code in the same file refers to it - the plugin exits 0 and its output does not compile")
}

// c16Y9: two clauses about gorumsGuard that the loop-shape rule Y6 does not see.
// delegatingValidators: functions of the generator package with a single error
// result that hand on the verdict of validateOptions (or of another such
// function) for the methods they are given: every return is nil or the error of
// such a call. A call of one of them is a call of validateOptions for the rules
// that ask "is every method validated, and is a validation error fatal".
func delegatingValidators(g *gen.Generator) map[string]bool {
	info := g.Pkg.TypesInfo
	out := map[string]bool{"validateOptions": true}
	for changed, round := true, 0; changed && round < 3; round++ {
		changed = false
		for _, f := range g.Pkg.Syntax {
			for _, d := range f.Decls {
				fd, ok := d.(*ast.FuncDecl)
				if !ok || fd.Body == nil || fd.Recv != nil || out[fd.Name.Name] {
					continue
				}
				if fd.Type.Results == nil || len(fd.Type.Results.List) != 1 || types.ExprString(fd.Type.Results.List[0].Type) != "error" {
					continue
				}
				calls, okAll := 0, true
				errVars := map[types.Object]bool{}
				ast.Inspect(fd.Body, func(n ast.Node) bool {
					switch x := n.(type) {
					case *ast.AssignStmt:
						if len(x.Rhs) == 1 {
							if ce, isCall := x.Rhs[0].(*ast.CallExpr); isCall {
								if fn := resolvedCall(info, ce); fn != nil && out[fn.Name()] && fn.Pkg() == g.Pkg.Types {
									calls++
									for _, lhs := range x.Lhs {
										errVars[objOf(info, lhs)] = true
									}
								}
							}
						}
					case *ast.FuncLit:
						return false
					}
					return true
				})
				ast.Inspect(fd.Body, func(n ast.Node) bool {
					switch x := n.(type) {
					case *ast.FuncLit:
						return false
					case *ast.ReturnStmt:
						if len(x.Results) != 1 {
							okAll = false
							return true
						}
						r := ast.Unparen(x.Results[0])
						if isNilIdent(info, r) || errVars[objOf(info, r)] {
							return true
						}
						if ce, isCall := r.(*ast.CallExpr); isCall {
							if fn := resolvedCall(info, ce); fn != nil && out[fn.Name()] && fn.Pkg() == g.Pkg.Types {
								calls++
								return true
							}
						}
						okAll = false
					}
					return true
				})
				if okAll && calls > 0 {
					out[fd.Name.Name] = true
					changed = true
				}
			}
		}
	}
	return out
}

func c16Y9(l *core.Ledger, g *gen.Generator) {
	guard := g.FuncDecl("gorumsGuard")
	if guard == nil || guard.Body == nil {
		l.Unknown("C16-Y9", "anchor/gorumsGuard", token.NoPos, "gorumsGuard not found")
		return
	}
	info := g.Pkg.TypesInfo
	// functions of the package that the guard calls (one level), for helpers holding the comparison
	bodies := []*ast.BlockStmt{guard.Body}
	ast.Inspect(guard.Body, func(n ast.Node) bool {
		if ce, ok := n.(*ast.CallExpr); ok {
			if id, ok := ce.Fun.(*ast.Ident); ok {
				if fd := g.FuncDecl(id.Name); fd != nil && fd.Body != nil && fd != guard {
					bodies = append(bodies, fd.Body)
				}
			}
		}
		return true
	})
	isMessage := func(e ast.Expr) bool {
		t := info.TypeOf(e)
		return t != nil && isNamed(t, "google.golang.org/protobuf/compiler/protogen", "Message")
	}
	goName, protoName := token.NoPos, token.NoPos
	for _, b := range bodies {
		ast.Inspect(b, func(n ast.Node) bool {
			switch x := n.(type) {
			case *ast.SelectorExpr:
				// msg.GoIdent.GoName
				if x.Sel.Name == "GoName" {
					if in, ok := x.X.(*ast.SelectorExpr); ok && in.Sel.Name == "GoIdent" && isMessage(in.X) {
						goName = x.Pos()
					}
				}
			case *ast.CallExpr:
				// msg.Desc.Name()
				if sel, ok := x.Fun.(*ast.SelectorExpr); ok && sel.Sel.Name == "Name" {
					if in, ok := sel.X.(*ast.SelectorExpr); ok && in.Sel.Name == "Desc" && isMessage(in.X) {
						protoName = x.Pos()
					}
				}
			}
			return true
		})
	}
	switch {
	case goName.IsValid():
		l.OK("C16-Y9", "gengorums.gorumsGuard/go-name", goName, "compares GoIdent.GoName")
	case protoName.IsValid():
		l.Bad("C16-Y9", "gengorums.gorumsGuard/go-name", protoName, "the guard compares the proto spelling of a message name (Desc.Name()) with the reserved identifiers, but the generated code declares its Go name: messages named node, manager, configuration, quorum_spec, new_manager pass the guard and the emitted file declares Node, Manager, ... twice - exit 0 and output that does not compile")
	default:
		l.Unknown("C16-Y9", "gengorums.gorumsGuard/go-name", guard.Pos(), "cannot tell which name of a message the guard looks at")
	}
	// validation before the nothing-to-do decision
	validators := delegatingValidators(g)
	var has, val token.Pos
	ast.Inspect(guard.Body, func(n ast.Node) bool {
		ce, ok := n.(*ast.CallExpr)
		if !ok {
			return true
		}
		if f := resolvedCall(info, ce); f != nil {
			switch f.Name() {
			case "hasGorumsMethods":
				if !has.IsValid() {
					has = ce.Pos()
				}
			default:
				if validators[f.Name()] && f.Pkg() == g.Pkg.Types && !val.IsValid() {
					val = ce.Pos()
				}
			}
		}
		return true
	})
	if !has.IsValid() {
		l.OK("C16-Y9", "gengorums.gorumsGuard/validate-first", guard.Pos(), "the guard does not decide by hasGorumsMethods")
		return
	}
	l.Check(val.IsValid() && val < has, "C16-Y9", "gengorums.gorumsGuard/validate-first", has, "every method is validated before the nothing-to-do decision", "the guard decides that there is nothing to generate (no method matches a call type) before any method was validated: a service whose methods all carry an illegal combination that matches no call type (async without quorumcall) is skipped silently - exit 0, no output, no diagnostic - although the same method is rejected next to one well-formed method")
}

// c16Y13: `use "pkg.Ident" .GenFile` registers the import of pkg in the
// generated file at the moment it is executed. If the variable it defines is
// used only under a condition that is narrower than the one under which the
// `use` itself runs, some input executes the `use` without emitting the
// identifier: the file imports a package it does not use and does not compile.
// Packages the static code (emitted into every file) imports are always used.
func c16Y13(l *core.Ledger, g *gen.Generator) {
	l.Rule("C16-Y13", "every template variable defined by `use` (which registers an import) is used at least once under no narrower condition than its definition - unless the static code imports the package anyway")
	always := map[string]bool{}
	if dev := l.Prog.Pkg("cmd/protoc-gen-gorums/dev"); dev != nil {
		for _, f := range dev.Syntax {
			fname := l.Prog.Fset.File(f.Pos()).Name()
			if strings.HasSuffix(fname, ".pb.go") || strings.HasSuffix(fname, "_test.go") {
				continue
			}
			for _, im := range f.Imports {
				p := strings.Trim(im.Path.Value, "\"")
				always[p[strings.LastIndex(p, "/")+1:]] = true
			}
		}
	}
	// the full templates: what the call-type table names (fragments are parts of them)
	nameSet := map[string]bool{}
	for _, e := range g.CallTypes {
		if e.Template != "" {
			nameSet[e.Template] = true
		}
		for _, ne := range e.Nested {
			if ne.Template != "" {
				nameSet[ne.Template] = true
			}
		}
	}
	var names []string
	for name := range nameSet {
		if text, ok := g.Strings[name]; ok && strings.Contains(text, "use ") {
			names = append(names, name)
		}
	}
	sort.Strings(names)
	n := 0
	reported := map[string]bool{}
	for _, name := range names {
		tree, err := g.ParseTemplate(name)
		if err != nil || tree == nil || tree.Root == nil {
			continue // a fragment that does not parse on its own; it is part of a full template
		}
		type def struct {
			v, arg string
			path   []parse.Node
			pos    parse.Pos
		}
		var defs []def
		uses := map[string][][]parse.Node{}
		var walkPipeUses func(p *parse.PipeNode, path []parse.Node)
		var walkArgs func(args []parse.Node, path []parse.Node)
		walkArgs = func(args []parse.Node, path []parse.Node) {
			for _, a := range args {
				switch x := a.(type) {
				case *parse.VariableNode:
					uses[x.Ident[0]] = append(uses[x.Ident[0]], append([]parse.Node(nil), path...))
				case *parse.PipeNode:
					walkPipeUses(x, path)
				}
			}
		}
		walkPipeUses = func(p *parse.PipeNode, path []parse.Node) {
			if p == nil {
				return
			}
			for _, c := range p.Cmds {
				walkArgs(c.Args, path)
			}
		}
		var walk func(nd parse.Node, path []parse.Node)
		walk = func(nd parse.Node, path []parse.Node) {
			switch x := nd.(type) {
			case *parse.ListNode:
				if x == nil {
					return
				}
				for _, c := range x.Nodes {
					walk(c, path)
				}
			case *parse.ActionNode:
				if len(x.Pipe.Decl) == 1 && len(x.Pipe.Cmds) == 1 && len(x.Pipe.Cmds[0].Args) >= 2 {
					if id, ok := x.Pipe.Cmds[0].Args[0].(*parse.IdentifierNode); ok && id.Ident == "use" {
						if s, ok := x.Pipe.Cmds[0].Args[1].(*parse.StringNode); ok {
							defs = append(defs, def{x.Pipe.Decl[0].Ident[0], s.Text, append([]parse.Node(nil), path...), x.Pos})
						}
					}
				}
				walkPipeUses(x.Pipe, path)
			case *parse.IfNode:
				walkPipeUses(x.Pipe, path)
				walk(x.List, append(path, x))
				walk(x.ElseList, append(path, x.ElseList))
			case *parse.RangeNode:
				walkPipeUses(x.Pipe, path)
				walk(x.List, append(path, x))
				walk(x.ElseList, append(path, x.ElseList))
			case *parse.WithNode:
				walkPipeUses(x.Pipe, path)
				walk(x.List, append(path, x))
				walk(x.ElseList, append(path, x.ElseList))
			case *parse.TemplateNode:
				walkPipeUses(x.Pipe, path)
			}
		}
		walk(tree.Root, nil)
		for _, d := range defs {
			pkg := d.arg
			if i := strings.Index(pkg, "."); i >= 0 {
				pkg = pkg[:i]
			}
			key := fmt.Sprintf("gengorums.%s/%s=use(%s)", name, d.v, d.arg)
			if reported[d.v+d.arg+fmt.Sprint(len(d.path))] && false {
				continue
			}
			n++
			if always[pkg] {
				l.OK("C16-Y13", key, g.StrPos[name], "the static code imports "+pkg+" in every generated file")
				continue
			}
			ok := false
			for _, up := range uses[d.v] {
				if len(up) == len(d.path) {
					same := true
					for i := range up {
						if up[i] != d.path[i] {
							same = false
						}
					}
					if same {
						ok = true
					}
				}
			}
			l.Check(ok, "C16-Y13", key, g.StrPos[name], "used under the condition it is defined under", "the template registers the import of "+pkg+" ("+d.v+" := use \""+d.arg+"\") outside the condition under which it uses "+d.v+": for a method on which that condition is false - and a file in which nothing else uses the package - the generated file imports "+pkg+" without using it and does not compile, with no diagnostic")
		}
	}
	l.Floor("C16-Y13", n, 10, "`use` definitions in the templates")
}

// c16Y12: who may reject an input. The documentation names what is illegal: the
// option combinations (lifted from validateOptions and compared with the tables
// by Y3), the reserved message names (Y6), more than one service per file. Every
// other input is promised to be accepted, so a path to a fatal diagnostic on the
// plugin path is either the propagation of an error (validateOptions, a
// library) or guarded by one of these documented conditions.
// definingCall: the function whose call defines obj in the init of ifs or in the statement before it.
func definingCall(info *types.Info, body *ast.BlockStmt, ifs *ast.IfStmt, obj types.Object) *types.Func {
	if obj == nil {
		return nil
	}
	return errorSource(info, body, ifs, obj)
}

func c16Y12(l *core.Ledger, g *gen.Generator) {
	y14Seen, y14Bad, y14Pos := false, "", token.NoPos
	l.Rule("C16-Y12", "who may reject: every fatal diagnostic on the plugin path is the propagation of an error value (of validateOptions or a function outside the generator package), or is guarded by the reserved-identifier comparison or the one-service-per-file test - the conditions the documentation names; no other predicate over the input rejects it")
	info := g.Pkg.TypesInfo
	validators := delegatingValidators(g)
	n := 0
	for _, f := range reachableGenFuncs(l, g) {
		if f.decl != nil && strings.HasSuffix(l.Prog.Fset.File(f.decl.Pos()).Name(), "gorums_bundle.go") {
			continue
		}
		var stack []ast.Node
		ast.Inspect(f.body(), func(nd ast.Node) bool {
			if nd == nil {
				stack = stack[:len(stack)-1]
				return true
			}
			stack = append(stack, nd)
			ce, ok := nd.(*ast.CallExpr)
			if !ok {
				return true
			}
			fn := resolvedCall(info, ce)
			if fn == nil || fn.Pkg() == nil || fn.Pkg().Path() != "log" || !strings.HasPrefix(fn.Name(), "Fatal") {
				return true
			}
			n++
			key := fmt.Sprintf("gengorums.%s/fatal#%d", strings.TrimPrefix(f.name, "."), n)
			// enclosing conditions, innermost first
			reason, bad := "", ""
			for k := len(stack) - 2; k >= 0 && reason == ""; k-- {
				ifs, isIf := stack[k].(*ast.IfStmt)
				if !isIf {
					continue
				}
				// is the call in the body (not the else)?
				inBody := false
				for q := k + 1; q < len(stack); q++ {
					if stack[q] == ast.Node(ifs.Body) {
						inBody = true
					}
				}
				if !inBody {
					continue
				}
				cond := ifs.Cond
				// (a) err != nil
				if be, isBE := cond.(*ast.BinaryExpr); isBE && be.Op == token.NEQ && isNilIdent(info, be.Y) {
					if t := info.TypeOf(be.X); t != nil && types.Identical(t, types.Universe.Lookup("error").Type()) {
						// where does the error come from?
						src := errorSource(info, f.body(), ifs, objOf(info, be.X))
						if src == nil || src.Pkg() == nil || src.Pkg() != g.Pkg.Types || validators[src.Name()] {
							reason = "propagates an error"
						} else {
							bad = "the error of " + src.Name() + ", a validator of the generator other than validateOptions"
						}
						break
					}
				}
				// (b) the reserved-identifier comparison, (c) the one-service test
				mentions := func(pred func(*ast.Ident) bool) bool {
					hit := false
					if ifs.Init != nil {
						ast.Inspect(ifs.Init, func(m ast.Node) bool {
							if id, isID := m.(*ast.Ident); isID && pred(id) {
								hit = true
							}
							return true
						})
					}
					ast.Inspect(cond, func(m ast.Node) bool {
						if id, isID := m.(*ast.Ident); isID && pred(id) {
							hit = true
						}
						return true
					})
					return hit
				}
				if mentions(func(id *ast.Ident) bool { return rangesOver(info, f.body(), objOf(info, id), "reservedIdents") }) {
					reason = "reserved identifier"
					break
				}
				// the comparison held by a predicate helper called in the condition itself
				rangesReserved := func(name string) bool {
					fd := g.FuncDecl(name)
					if fd == nil || fd.Body == nil {
						return false
					}
					hit := false
					ast.Inspect(fd.Body, func(m ast.Node) bool {
						switch x := m.(type) {
						case *ast.RangeStmt:
							if id, isID := x.X.(*ast.Ident); isID && id.Name == "reservedIdents" {
								hit = true
							}
						case *ast.CallExpr:
							// slices.Contains(reservedIdents, name)
							for _, a := range x.Args {
								if id, isID := a.(*ast.Ident); isID && id.Name == "reservedIdents" {
									hit = true
								}
							}
						}
						return true
					})
					return hit
				}
				callsReservedHelper := false
				ast.Inspect(cond, func(m ast.Node) bool {
					if ce, isCall := m.(*ast.CallExpr); isCall {
						if fn := resolvedCall(info, ce); fn != nil && fn.Pkg() == g.Pkg.Types && rangesReserved(fn.Name()) {
							callsReservedHelper = true
						}
						for _, a := range ce.Args {
							if id, isID := a.(*ast.Ident); isID && id.Name == "reservedIdents" {
								callsReservedHelper = true
							}
						}
					}
					return true
				})
				if callsReservedHelper {
					reason = "reserved identifier (predicate helper)"
					break
				}
				// the comparison held by a helper: a value defined from a call of a generator
				// function whose body ranges over the reserved identifiers
				if mentions(func(id *ast.Ident) bool {
					src := definingCall(info, f.body(), ifs, objOf(info, id))
					if src == nil || src.Pkg() != g.Pkg.Types {
						return false
					}
					fd := g.FuncDecl(src.Name())
					if fd == nil || fd.Body == nil {
						return false
					}
					ranges := false
					ast.Inspect(fd.Body, func(m ast.Node) bool {
						if rs, isRS := m.(*ast.RangeStmt); isRS {
							if x, isID := rs.X.(*ast.Ident); isID && x.Name == "reservedIdents" {
								ranges = true
							}
						}
						return true
					})
					return ranges
				}) {
					reason = "reserved identifier (helper)"
					break
				}
				if mentions(func(id *ast.Ident) bool { return id.Name == "Services" }) {
					// exactly: len(<file>.Services) compared with a literal - every file with more than one
					// service is rejected, whatever its methods are (the static code and the QuorumSpec
					// interface are emitted once per service of the file)
					exact := false
					if be, isBin := ast.Unparen(cond).(*ast.BinaryExpr); isBin {
						isLenServices := func(e ast.Expr) bool {
							ce2, ok := ast.Unparen(e).(*ast.CallExpr)
							if !ok || len(ce2.Args) != 1 {
								return false
							}
							if id, ok := ce2.Fun.(*ast.Ident); !ok || id.Name != "len" {
								return false
							}
							sel, ok := ast.Unparen(ce2.Args[0]).(*ast.SelectorExpr)
							return ok && sel.Sel.Name == "Services"
						}
						isLit := func(e ast.Expr) bool { _, ok := ast.Unparen(e).(*ast.BasicLit); return ok }
						exact = (isLenServices(be.X) && isLit(be.Y)) || (isLenServices(be.Y) && isLit(be.X))
					}
					if exact {
						reason = "one service per file"
						y14Seen = true
					} else {
						y14Bad = "the test for several services is " + types.ExprString(cond) + ", which does not count every service of the file"
						y14Pos = ce.Pos()
						reason = "one service per file (judged by C16-Y14)"
					}
					break
				}
				bad = "the condition " + types.ExprString(cond)
				break
			}
			if reason == "" && bad == "" {
				bad = "no condition at all"
			}
			if reason != "" {
				l.OK("C16-Y12", key, ce.Pos(), reason)
			} else {
				l.Bad("C16-Y12", key, ce.Pos(), "the generator stops with a fatal diagnostic on "+bad+": this is not one of the conditions the documentation names as illegal (option combinations decided by validateOptions, reserved message names, several services in one file), so an input the documentation allows can be rejected")
			}
			return true
		})
	}
	l.Floor("C16-Y12", n, 3, "fatal diagnostics on the plugin path")
	if l.Remap == nil {
		l.Rule("C16-Y14", "a file with more than one service is rejected with a diagnostic, whatever the methods of the services are: the guard compares len(file.Services) itself with a literal (the qspec template declares QuorumSpec once per service, the static code once per file - a second service of plain rpc methods is enough for 'QuorumSpec redeclared')")
		switch {
		case y14Bad != "":
			l.Bad("C16-Y14", "gengorums.gorumsGuard/several-services", y14Pos, y14Bad+": a file with a second service that this count leaves out is accepted with status 0, and the emitted file declares QuorumSpec once per service - it does not compile")
		case !y14Seen:
			l.Bad("C16-Y14", "gengorums.gorumsGuard/several-services", token.NoPos, "no fatal diagnostic is guarded by a test of len(file.Services): a file with several services is accepted with status 0 and the emitted file declares QuorumSpec once per service - it does not compile")
		default:
			l.OK("C16-Y14", "gengorums.gorumsGuard/several-services", token.NoPos, "len(file.Services) is compared with a literal")
		}
	}
}

// errorSource: the function whose result is assigned to errObj in the init of ifs
// or in the statement before it.
func errorSource(info *types.Info, body *ast.BlockStmt, ifs *ast.IfStmt, errObj types.Object) *types.Func {
	var out *types.Func
	consider := func(st ast.Stmt) {
		as, ok := st.(*ast.AssignStmt)
		if !ok || len(as.Rhs) != 1 {
			return
		}
		for _, lhs := range as.Lhs {
			if objOf(info, lhs) == errObj {
				if ce, isCall := as.Rhs[0].(*ast.CallExpr); isCall {
					out = resolvedCall(info, ce)
				}
			}
		}
	}
	if ifs.Init != nil {
		consider(ifs.Init)
	}
	if out != nil {
		return out
	}
	ast.Inspect(body, func(n ast.Node) bool {
		bl, ok := n.(*ast.BlockStmt)
		if !ok {
			return true
		}
		for i, st := range bl.List {
			if st == ast.Stmt(ifs) && i > 0 {
				consider(bl.List[i-1])
			}
		}
		return true
	})
	return out
}

// rangesOver: obj is the key or value variable of a range over the package-level variable named global.
func rangesOver(info *types.Info, body *ast.BlockStmt, obj types.Object, global string) bool {
	if obj == nil {
		return false
	}
	hit := false
	ast.Inspect(body, func(n ast.Node) bool {
		rs, ok := n.(*ast.RangeStmt)
		if !ok {
			return true
		}
		if id, isID := rs.X.(*ast.Ident); isID && id.Name == global {
			for _, kv := range []ast.Expr{rs.Key, rs.Value} {
				if kv != nil && objOf(info, kv) == obj {
					hit = true
				}
			}
		}
		return true
	})
	return hit
}
