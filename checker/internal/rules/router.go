package rules

import (
	"go/token"
	"go/types"

	"golang.org/x/tools/go/ssa"

	"verif/checker/internal/core"
	"verif/checker/internal/sx"
)

// routerModel describes every access to the per-node map of pending calls
// (the field of `channel` whose type is a map to responseRouter) and every
// delivery through a router.
type routerModel struct {
	field      *types.Var
	lock       string // name of the mutex field guarding it (by majority, confirmed: responseMut)
	accesses   []routerAccess
	deliveries []*delivery
}

type routerAccess struct {
	fn   *ssa.Function
	at   ssa.Instruction
	kind string // insert, lookup, delete, range, len, other
	key  ssa.Value
}

type delivery struct {
	fn      *ssa.Function
	send    ssa.Instruction // *ssa.Send, or the *ssa.Select of a delivery bounded by the router's done channel
	bounded bool            // a deliver-select
	key     ssa.Value // the id the router was found under
	val     ssa.Value
	viaLoop bool // found by ranging over the map
	deletes []ssa.Instruction
	name    string
}

func routerMapField(r *rt) *types.Var {
	tn, _ := r.pkg.Types.Scope().Lookup("channel").(*types.TypeName)
	if tn == nil {
		return nil
	}
	st, ok := tn.Type().Underlying().(*types.Struct)
	if !ok {
		return nil
	}
	for i := 0; i < st.NumFields(); i++ {
		if m, ok := st.Field(i).Type().Underlying().(*types.Map); ok && isNamed(m.Elem(), core.RootModule, "responseRouter") {
			return st.Field(i)
		}
	}
	return nil
}

func buildRouterModel(l *core.Ledger, r *rt, rule string) *routerModel {
	f := routerMapField(r)
	if f == nil {
		l.Unknown(rule, "anchor/router-map", token.NoPos, "no field of `channel` with a map-to-responseRouter type found")
		return nil
	}
	rm := &routerModel{field: f, lock: "responseMut"}
	isMap := func(v ssa.Value) bool {
		return sx.All(sx.Origins(v), func(o sx.Origin) bool { return o.Kind == sx.KField && o.Field == f })
	}
	for _, fn := range allFuncs(l.Prog, r.pkg) {
		fn := fn
		sx.AllInstrs(fn, func(_ sx.Node, in ssa.Instruction) {
			switch x := in.(type) {
			case *ssa.MapUpdate:
				if isMap(x.Map) {
					rm.accesses = append(rm.accesses, routerAccess{fn, x, "insert", x.Key})
				}
			case *ssa.Lookup:
				if isMap(x.X) {
					rm.accesses = append(rm.accesses, routerAccess{fn, x, "lookup", x.Index})
				}
			case *ssa.Range:
				if isMap(x.X) {
					rm.accesses = append(rm.accesses, routerAccess{fn, x, "range", nil})
				}
			case *ssa.Store:
				if fa, ok := x.Addr.(*ssa.FieldAddr); ok && fieldOf(fa.X.Type(), fa.Field) == f {
					if _, isAl := fa.X.(*ssa.Alloc); !isAl {
						rm.accesses = append(rm.accesses, routerAccess{fn, x, "replace", nil})
					}
				}
			default:
				if cc := sx.CallOf(in); cc != nil {
					if b, ok := cc.Value.(*ssa.Builtin); ok && len(cc.Args) > 0 && isMap(cc.Args[0]) {
						switch b.Name() {
						case "delete":
							rm.accesses = append(rm.accesses, routerAccess{fn, in, "delete", cc.Args[1]})
						case "len":
							rm.accesses = append(rm.accesses, routerAccess{fn, in, "len", nil})
						default:
							rm.accesses = append(rm.accesses, routerAccess{fn, in, "other", nil})
						}
					} else if !ok {
						for _, a := range cc.Args {
							if _, isM := a.Type().Underlying().(*types.Map); isM && isMap(a) {
								rm.accesses = append(rm.accesses, routerAccess{fn, in, "other", nil})
							}
						}
					}
				}
			}
		})
		// deliveries: sends on the c field of a router value taken from the map - plain sends, and
		// sends inside a select whose other case is the router's done channel
		sx.AllInstrs(fn, func(_ sx.Node, in ssa.Instruction) {
			var ch, val ssa.Value
			bounded := false
			switch x := in.(type) {
			case *ssa.Send:
				if !isResponseChan(x.Chan.Type()) {
					return
				}
				ch, val = x.Chan, x.X
			case *ssa.Select:
				si, _, ok := deliverSelect(x)
				if !ok {
					return
				}
				ch, val, bounded = x.States[si].Chan, x.States[si].Send, true
			default:
				return
			}
			d := &delivery{fn: fn, send: in, val: val, name: fnKey(fn), bounded: bounded}
			okSrc := sx.All(sx.Origins(ch), func(o sx.Origin) bool {
				if o.Kind != sx.KField || o.Field == nil || !isResponseChan(o.Field.Type()) {
					return false
				}
				return sx.All(o.Base, func(b sx.Origin) bool {
					if b.Kind != sx.KExtract {
						return false
					}
					switch t := b.V.(type) {
					case *ssa.Lookup:
						if isMap(t.X) {
							d.key = t.Index
							return true
						}
					case *ssa.Next:
						if rg, ok := t.Iter.(*ssa.Range); ok && isMap(rg.X) {
							d.viaLoop = true
							for _, ref := range *t.Referrers() {
								if e, ok := ref.(*ssa.Extract); ok && e.Index == 1 {
									d.key = e
								}
							}
							return true
						}
					}
					return false
				})
			})
			if okSrc {
				rm.deliveries = append(rm.deliveries, d)
			}
		})
	}
	for _, d := range rm.deliveries {
		for _, a := range rm.accesses {
			if a.fn == d.fn && a.kind == "delete" && d.key != nil && sameValue(a.key, d.key) {
				d.deletes = append(d.deletes, a.at)
			}
		}
	}
	return rm
}

// sameValue: identical SSA value, or both are the same parameter/extract.
func sameValue(a, b ssa.Value) bool {
	if a == b {
		return true
	}
	oa, ob := sx.Origins(a), sx.Origins(b)
	if len(oa) != 1 || len(ob) != 1 {
		return false
	}
	x, y := oa[0], ob[0]
	return x.Kind == y.Kind && x.V == y.V && x.Index == y.Index && x.Kind != sx.KUnknown && x.Kind != sx.KField
}

// streamingTrueEdges returns the edges of fn taken when a router's
// `streaming` flag is true.
func streamingTrueEdges(fn *ssa.Function) []sx.Edge {
	var out []sx.Edge
	sx.AllInstrs(fn, func(_ sx.Node, in ssa.Instruction) {
		ifi, ok := in.(*ssa.If)
		if !ok {
			return
		}
		v, _ := condOf(ifi)
		if sx.All(sx.Origins(v), func(o sx.Origin) bool {
			return o.Kind == sx.KField && o.Field != nil && o.Field.Name() == "streaming" && o.Field.Pkg() != nil && o.Field.Pkg().Path() == core.RootModule
		}) {
			out = append(out, edgeWhere(ifi, true))
		}
	})
	return out
}

func edgeIn(e sx.Edge, es []sx.Edge) bool {
	for _, x := range es {
		if x == e {
			return true
		}
	}
	return false
}

// loopHeadOrExit matches the start of a loop-head block or a function exit.
func loopHeadOrExit(fn *ssa.Function) func(sx.Node) bool {
	heads := map[*ssa.BasicBlock]bool{}
	for _, h := range sx.LoopHeads(fn) {
		heads[h] = true
	}
	return func(n sx.Node) bool {
		return (heads[n.B] && n.I == 0) || sx.IsExit(n)
	}
}
