package rules

import (
	"fmt"
	"go/constant"
	"go/token"
	"go/types"
	"strings"

	"golang.org/x/tools/go/ssa"

	"verif/checker/internal/core"
	"verif/checker/internal/sx"
)

func init() {
	register("C07", Entry{
		Title: "Minority failures are tolerated and every failing node is reported exactly once",
		Run:   runC07,
		Meta: core.PropertyMeta{
			Explanation: "E1: errors never reach the quorum function and every error is recorded once as nodeError{r.nid, r.err} (C01-R3 and C02-T2 re-run under this property). E2: every error-carrying response names the node of the producing channel. E3: a request taken from the queue is either written to the stream successfully or answered with an error that is non-nil by construction under the request's own id; enqueue either queues the request or answers it. E4: the stream reader, on a read error, fails every pending call (a range over the whole router map sending a stream-down error of code Unavailable to every entry, unfiltered) before it loops or returns. E5: WrapMessage stores the handler's status (FromError, or Unknown with the error text) on every path and the reader rebuilds the error from that status and delivers it with the message. E6: every delivery of a response that can carry an error deletes the router in the same critical section, streaming or not, so one node contributes at most one error per call. E7: the stream is marked broken only while it is current (C09-W8 re-run). E8 (known finding): the sequential blocking hand-off waits for a down node's connection attempts.",
			NotDecided:  "That the error produced by a failed *write* is of 'unavailable type': sender forwards whatever SendMsg returned (a run-time value classification); success 'whenever the remaining replies satisfy the quorum function' is C01-R1 + C02-T1; liveness.",
			Trusted:     append([]string{"grpc status.FromError/FromProto/Err round-trip a status", "a cancelled stream context makes RecvMsg return an error"}, commonTrust...),
		},
	})
}

func runC07(l *core.Ledger) {
	r := runtimePkg(l)
	if r == nil {
		return
	}
	l.Rule("C07-E1", "the reply map is written only on the no-error edge (C01-R3) and every error is appended once as nodeError{nodeID: r.nid, cause: r.err} on the error edge (C02-T2)")
	l.Rule("C07-E2", "every error-carrying response names c.node.ID() of the producing channel")
	l.Rule("C07-E3", "sender: every path from the dequeue back to the loop head passes a successful sendMsg or a routeResponse(request's id, response with an error non-nil by construction); enqueue: every path queues the request or routes an error")
	l.Rule("C07-E4", "receiver: the RecvMsg error edge passes through a routine that ranges over the whole router map and sends an Unavailable stream-down error to every entry, before looping or returning")
	l.Rule("C07-E5", "WrapMessage stores status.FromError(err) (or Unknown + err text) in md.Status on every path; receiver rebuilds err from status.FromProto(resp.Metadata.GetStatus()).Err() and delivers it with the message")
	l.Rule("C07-E6", "a delivery whose response may carry an error deletes the router in the same critical section even for streaming routers")

	// E1: re-run the reply-loop rules of C01/C02 under this property's ids
	loops := findReplyLoops(l, r, "C07-E1")
	if l.Floor("C07-E1", len(loops), 3, "reply loops") {
		l.With(map[string]string{"C01-R3": "C07-E1", "C02-T2": "C07-E1"}, func() {
			for _, rl := range loops {
				c01Loop(l, r, rl)
				c02Loop(l, r, rl)
			}
		})
	}
	l.Rule("C07-E7", "the stream is marked broken only while the failed stream is still the current one (C09-W8 re-run): marking a stream the reader has already restored makes the sender replace it, the reader stays parked on the replaced stream and the node - up and answering - never contributes a reply or an error again")
	l.With(map[string]string{"C09-W8": "C07-E7"}, func() { c09W6(l, r) })
	checkResponseProvenance(l, r, "C07-E2")
	c07E8(l, r)
	c07E9(l, r)
	c07E3(l, r)
	c07E4(l, r)
	c07E5(l, r)
	if rm := buildRouterModel(l, r, "C07-E6"); rm != nil {
		checkDeliverDelete(l, r, rm, "C07-E6", true)
	}
}

// c07E8: a node that is down must not keep the request from the healthy nodes.
// The call types hand the request to the nodes one after the other on the
// caller's goroutine; if the hand-off to a node waits for that node's sender,
// and the sender spends a connection attempt per request on a node that is down,
// the nodes behind it in the configuration get the request late - after the
// caller's deadline when several calls queue up - and the call fails although
// the remaining nodes would have satisfied the quorum function.
func c07E8(l *core.Ledger, r *rt) {
	l.Rule("C07-E8", "a failing node does not delay the request to the other nodes: the per-node hand-off in the call types' send loops does not wait for a sender that is making a connection attempt (buffered or non-blocking hand-off, or a sender that connects off the send path)")
	eq, handoff, canBeUnbuffered, dials := handoffWaitsForDial(l, r)
	if eq == nil {
		l.Unknown("C07-E8", "anchor/enqueue", token.NoPos, "enqueue or sender not found")
		return
	}
	// the send loops call enqueue sequentially on the caller's goroutine
	sequential := ""
	var eps []*entryPoint
	l.With(map[string]string{}, func() { eps = findEntryPoints(l, r, "C07-E8") })
	for _, ep := range eps {
		for _, e := range ep.enqueues {
			if sx.InLoop(sx.NodeOf(e)) && sequential == "" {
				sequential = ep.key
			}
		}
	}
	key := fnKey(eq) + "/hand-off-waits-for-connection-attempt"
	if handoff == nil || !canBeUnbuffered || dials == "" || sequential == "" {
		l.OK("C07-E8", key, eq.Pos(), "the hand-off to a node does not wait for that node's connection attempts")
		return
	}
	l.Bad("C07-E8", key, handoff.Pos(), "the send loops (e.g. "+sequential+") hand the request to the nodes one after the other through a blocking select on a queue that is unbuffered by default, and a node's sender makes a synchronous connection attempt per request while the node is down ("+dials+"): a down node that sorts before healthy ones holds every call up for the length of a connection attempt per queued request - with short deadlines and back-to-back calls the healthy nodes get the request too late and the call fails although they satisfy the quorum function")
}

// errNonNilByConstruction decides that v is an error value that cannot be
// nil at node n.
func errNonNilByConstruction(fn *ssa.Function, v ssa.Value, n sx.Node) (bool, string) {
	if sx.KnownNonNil(v, n.B) {
		return true, "tested non-nil on every path here"
	}
	os := sx.Origins(v)
	ok := sx.All(os, func(o sx.Origin) bool {
		switch o.Kind {
		case sx.KGlobal:
			g, _ := o.V.(*ssa.Global)
			return globalErrNonNil(g)
		case sx.KCall:
			c := o.V.(*ssa.Call)
			if calleeIs(&c.Call, "fmt.Errorf", "errors.New", "google.golang.org/grpc/status.Error", "google.golang.org/grpc/status.Errorf") {
				return true
			}
			// ctx.Err() inside the case that observed ctx.Done()
			if c.Call.IsInvoke() && c.Call.Method.Name() == "Err" {
				return doneCaseDominates(fn, c.Call.Value, n) || nonNilTested(fn, c, n)
			}
			// a value tested non-nil on every path to n
			return nonNilTested(fn, c, n)
		}
		return false
	})
	return ok, sx.OriginsString(os)
}

func nonNilTested(fn *ssa.Function, v ssa.Value, n sx.Node) bool {
	var edges []sx.Edge
	m := func(o sx.Origin) bool { return (o.Kind == sx.KCall || o.Kind == sx.KExtract) && o.V == v }
	sx.AllInstrs(fn, func(_ sx.Node, in ssa.Instruction) {
		if ifi, ok := in.(*ssa.If); ok && isErrNonNil(ifi, m) != 0 {
			edges = append(edges, errEdge(ifi, m, true))
		}
	})
	return edgesDominate(fn, edges, n)
}

// doneCaseDominates: n lies inside a select case that received from
// ctxVal.Done().
func doneCaseDominates(fn *ssa.Function, ctxVal ssa.Value, n sx.Node) bool {
	ok := false
	sx.AllInstrs(fn, func(_ sx.Node, in ssa.Instruction) {
		sel, isSel := in.(*ssa.Select)
		if !isSel {
			return
		}
		for i, st := range sel.States {
			if st.Dir != types.RecvOnly {
				continue
			}
			if cv, isDone := isDoneOf(st.Chan); isDone && sameCtx(cv, ctxVal) {
				if e, found := selectCaseEdge(sel, i); found && sx.EdgeDominates(fn, e, n) {
					ok = true
				}
			}
		}
	})
	return ok
}

func sameCtx(a, b ssa.Value) bool {
	if a == b {
		return true
	}
	return sx.OriginsString(sx.Origins(a)) == sx.OriginsString(sx.Origins(b)) && sx.All(sx.Origins(a), func(o sx.Origin) bool {
		return o.Kind == sx.KParam || o.Kind == sx.KField
	})
}

func isSendMsgCall(c *ssa.CallCommon) bool {
	f := c.StaticCallee()
	if f == nil || f.Signature.Recv() == nil || !isNamed(f.Signature.Recv().Type(), core.RootModule, "channel") {
		return false
	}
	p, rs := f.Signature.Params(), f.Signature.Results()
	return p.Len() == 1 && isNamed(p.At(0).Type(), core.RootModule, "request") && rs.Len() == 1 && isErrorType(rs.At(0).Type())
}

func findSenderFn(l *core.Ledger, r *rt) (*ssa.Function, *ssa.Select, int) {
	for _, f := range allFuncs(l.Prog, r.pkg) {
		var sel *ssa.Select
		idx := -1
		sx.AllInstrs(f, func(_ sx.Node, in ssa.Instruction) {
			if s, ok := in.(*ssa.Select); ok {
				for i, st := range s.States {
					if st.Dir == types.RecvOnly && isRequestChan(st.Chan.Type()) {
						// the dequeue the sender waits in; a non-blocking select on the queue is a drain (see senderDrains)
						if sel == nil || (s.Blocking && !sel.Blocking) {
							sel, idx = s, i
						}
					}
				}
			}
		})
		if sel != nil {
			return f, sel, idx
		}
		// plain receive form
		var found bool
		sx.AllInstrs(f, func(_ sx.Node, in ssa.Instruction) {
			if u, ok := in.(*ssa.UnOp); ok && u.Op == token.ARROW && isRequestChan(u.X.Type()) {
				found = true
			}
		})
		if found {
			return f, nil, -1
		}
	}
	return nil, nil, -1
}

type senderDrain struct {
	sel *ssa.Select
	idx int
}

// senderDrains: the non-blocking selects of the sender that receive from the
// request queue (other than its main dequeue).
func senderDrains(fn *ssa.Function, main *ssa.Select) []senderDrain {
	var out []senderDrain
	sx.AllInstrs(fn, func(_ sx.Node, in ssa.Instruction) {
		s, ok := in.(*ssa.Select)
		if !ok || s == main {
			return
		}
		for i, st := range s.States {
			if st.Dir == types.RecvOnly && isRequestChan(st.Chan.Type()) {
				out = append(out, senderDrain{s, i})
			}
		}
	})
	return out
}

func c07E3(l *core.Ledger, r *rt) {
	fn, sel, idx := findSenderFn(l, r)
	if fn == nil || sel == nil {
		l.Unknown("C07-E3", "anchor/sender", token.NoPos, "no function selecting on a receive from the per-node request queue found")
		return
	}
	key := fnKey(fn)
	recvEdge, ok := selectCaseEdge(sel, idx)
	if !ok {
		l.Unknown("C07-E3", key, sel.Pos(), "cannot locate the dequeue case")
		return
	}
	reqVal := selectRecvValue(sel, idx)
	isReq := func(o sx.Origin) bool {
		return o.Kind == sx.KExtract && o.V == sel && reqVal != nil && o.Index == reqVal.(*ssa.Extract).Index
	}
	// successful write: the nil edge of the test on sendMsg's result
	var okEdges []sx.Edge
	var sendCalls []*ssa.Call
	sx.AllInstrs(fn, func(_ sx.Node, in ssa.Instruction) {
		if c, isCall := in.(*ssa.Call); isCall && isSendMsgCall(&c.Call) {
			sendCalls = append(sendCalls, c)
		}
	})
	for _, sc := range sendCalls {
		m := func(o sx.Origin) bool { return (o.Kind == sx.KCall || o.Kind == sx.KExtract) && o.V == ssa.Value(sc) }
		sx.AllInstrs(fn, func(_ sx.Node, in ssa.Instruction) {
			if ifi, isIf := in.(*ssa.If); isIf && isErrNonNil(ifi, m) != 0 {
				okEdges = append(okEdges, errEdge(ifi, m, false))
			}
		})
		if !sx.All(sx.Origins(sc.Call.Args[1]), isReq) {
			l.Bad("C07-E3", key+"/sendMsg-arg", sc.Pos(), "sendMsg is not given the request just dequeued")
		}
	}
	answered := func(n sx.Node) bool {
		c, isCall := n.Instr().(*ssa.Call)
		if !isCall || !isRouteCall(&c.Call) {
			return false
		}
		if !sx.All(sx.Origins(c.Call.Args[1]), isReqMsgID(isReq)) {
			return false
		}
		lit, okLit := structLiteral(c.Call.Args[2])
		if !okLit || lit["err"] == nil {
			return false
		}
		nn, _ := errNonNilByConstruction(fn, lit["err"], n)
		return nn
	}
	selNode := sx.NodeOf(sel)
	// further dequeues: non-blocking selects on the queue (the drain before the sender returns);
	// what they take out must be answered as well
	drains := senderDrains(fn, sel)
	isAnyDequeue := func(n sx.Node) bool {
		if n == selNode {
			return true
		}
		for _, d := range drains {
			if n.Instr() == ssa.Instruction(d.sel) {
				return true
			}
		}
		return false
	}
	for di, d := range drains {
		dEdge, okE := selectCaseEdge(d.sel, d.idx)
		dVal := selectRecvValue(d.sel, d.idx)
		if !okE || dVal == nil {
			l.Bad("C07-E3", fmt.Sprintf("%s/drain%d", key, di), d.sel.Pos(), "a request is taken out of the queue by a non-blocking select and not looked at: its caller is never answered")
			continue
		}
		isDReq := func(o sx.Origin) bool {
			return o.Kind == sx.KExtract && o.V == d.sel && o.Index == dVal.(*ssa.Extract).Index
		}
		dAnswered := func(n sx.Node) bool {
			c, isCall := n.Instr().(*ssa.Call)
			if !isCall || !isRouteCall(&c.Call) || !sx.All(sx.Origins(c.Call.Args[1]), isReqMsgID(isDReq)) {
				return false
			}
			lit, okLit := structLiteral(c.Call.Args[2])
			if !okLit || lit["err"] == nil {
				return false
			}
			nn, _ := errNonNilByConstruction(fn, lit["err"], n)
			return nn
		}
		if w, reachD := sx.Reach(sx.Node{B: dEdge.To, I: -1}, func(n sx.Node) bool { return isAnyDequeue(n) || sx.IsReturn(n) }, sx.Query{BlockNode: dAnswered}); reachD {
			l.Bad("C07-E3", fmt.Sprintf("%s/drain%d", key, di), sx.PosOf(w.Instr()), "a request taken out of the queue while draining it is not answered with a non-nil error under its id: its caller waits forever")
		} else {
			l.OK("C07-E3", fmt.Sprintf("%s/drain%d", key, di), d.sel.Pos(), "every drained request is answered with an error")
		}
	}
	w, reach := sx.Reach(sx.Node{B: recvEdge.To, I: -1}, func(n sx.Node) bool { return isAnyDequeue(n) || sx.IsReturn(n) }, sx.Query{
		BlockNode: answered,
		BlockEdge: func(e sx.Edge) bool { return edgeIn(e, okEdges) },
	})
	if reach {
		l.Bad("C07-E3", key, sx.PosOf(w.Instr()), "a dequeued request can be dropped: a path leads from the dequeue to the next wait (or return) without a successful sendMsg and without answering the request's id with a non-nil error — the caller waits forever for that node")
	} else {
		l.OK("C07-E3", key, sel.Pos(), fmt.Sprintf("every path: successful sendMsg or error answer (%d sendMsg site(s))", len(sendCalls)))
	}

	// enqueue
	if eq := findEnqueueFn(l, r); eq != nil {
		ekey := fnKey(eq)
		req := eq.Params[1]
		queued := func(n sx.Node) bool { return false }
		var qEdges []sx.Edge
		sx.AllInstrs(eq, func(_ sx.Node, in ssa.Instruction) {
			if s, isSel := in.(*ssa.Select); isSel {
				for i, st := range s.States {
					if st.Dir == types.SendOnly && isRequestChan(st.Chan.Type()) {
						if e, found := selectCaseEdge(s, i); found {
							qEdges = append(qEdges, e)
						}
					}
				}
			}
		})
		_ = queued
		ans := func(n sx.Node) bool {
			switch x := n.Instr().(type) {
			case *ssa.Send:
				return isRequestChan(x.Chan.Type())
			case *ssa.Call:
				if !isRouteCall(&x.Call) || !sx.All(sx.Origins(x.Call.Args[1]), isReqMsgID(sx.IsParam(req))) {
					return false
				}
				lit, okLit := structLiteral(x.Call.Args[2])
				if !okLit || lit["err"] == nil {
					return false
				}
				nn, _ := errNonNilByConstruction(eq, lit["err"], n)
				return nn
			}
			return false
		}
		w, reach := sx.Reach(sx.Entry(eq), sx.IsReturn, sx.Query{BlockNode: ans, BlockEdge: func(e sx.Edge) bool { return edgeIn(e, qEdges) }})
		if reach {
			l.Bad("C07-E3", ekey, sx.PosOf(w.Instr()), "enqueue can return without queueing the request and without answering it with an error")
		} else {
			l.OK("C07-E3", ekey, eq.Pos(), "queues the request or routes a non-nil error under its id")
		}
	}
}

// cancelsAll decides whether fn ranges over the whole router map and sends
// an error response to every entry, unfiltered.
func cancelsAll(l *core.Ledger, r *rt, rm *routerModel, fn *ssa.Function) (bool, string) {
	for _, d := range rm.deliveries {
		if d.fn != fn || !d.viaLoop {
			continue
		}
		lit, ok := structLiteral(d.val)
		if !ok || lit["err"] == nil {
			return false, "the value sent to each waiter is not an error literal"
		}
		if !sx.All(sx.Origins(lit["err"]), sx.IsGlobalNamed("streamDownErr")) {
			if nn, desc := errNonNilByConstruction(fn, lit["err"], sx.NodeOf(d.send)); !nn {
				return false, "error sent to the waiters may be nil: " + desc
			}
		}
		// unfiltered: the send is reached on every iteration: from the body start every path to the next iteration passes the send
		var next *ssa.Next
		sx.AllInstrs(fn, func(_ sx.Node, in ssa.Instruction) {
			if nx, ok := in.(*ssa.Next); ok {
				next = nx
			}
		})
		if next == nil {
			return false, "no range loop"
		}
		// ok-edge of the range
		var okExtract ssa.Value
		for _, ref := range *next.Referrers() {
			if e, isE := ref.(*ssa.Extract); isE && e.Index == 0 {
				okExtract = e
			}
		}
		var bodyEdge sx.Edge
		found := false
		for _, ifi := range ifsOn(fn, okExtract) {
			bodyEdge = edgeWhere(ifi, true)
			found = true
		}
		if !found {
			return false, "cannot find the range body"
		}
		// every way through the body delivers (a router with a done channel through the bounded form, the others plainly)
		isDelivery := func(n sx.Node) bool {
			for _, d2 := range rm.deliveries {
				if d2.fn == fn && d2.viaLoop && n.Instr() == d2.send {
					return true
				}
			}
			return false
		}
		if _, skip := sx.Reach(sx.Node{B: bodyEdge.To, I: -1}, func(n sx.Node) bool { return n.Instr() == ssa.Instruction(next) || sx.IsExit(n) }, sx.Query{BlockNode: isDelivery}); skip {
			return false, "some router entries are skipped (filtered range or early exit)"
		}
		// and the loop is reached on every path from entry to exit
		if _, avoid := sx.Reach(sx.Entry(fn), sx.IsReturn, sx.Query{BlockNode: sx.IsInstr(next)}); avoid {
			return false, "the function can return without ranging over the router map"
		}
		return true, ""
	}
	return false, "no range over the router map with a send to each entry"
}

func c07E4(l *core.Ledger, r *rt) {
	rm := buildRouterModel(l, r, "C07-E4")
	if rm == nil {
		return
	}
	// the reader: the function with a client RecvMsg inside a loop whose receiver type is *channel
	var reader *ssa.Function
	for _, f := range allFuncs(l.Prog, r.pkg) {
		if f.Signature.Recv() != nil && isNamed(f.Signature.Recv().Type(), core.RootModule, "channel") && len(recvMsgCalls(f)) > 0 {
			reader = f
		}
	}
	if reader == nil {
		l.Unknown("C07-E4", "anchor/receiver", token.NoPos, "no method of *channel calling RecvMsg found")
		return
	}
	key := fnKey(reader)
	rc := recvMsgCalls(reader)[0]
	m := func(o sx.Origin) bool { return (o.Kind == sx.KCall || o.Kind == sx.KExtract) && o.V == ssa.Value(rc) }
	var errEdges []sx.Edge
	sx.AllInstrs(reader, func(_ sx.Node, in ssa.Instruction) {
		if ifi, ok := in.(*ssa.If); ok && isErrNonNil(ifi, m) != 0 {
			errEdges = append(errEdges, errEdge(ifi, m, true))
		}
	})
	if len(errEdges) == 0 {
		l.Bad("C07-E4", key, rc.Pos(), "the result of RecvMsg is never tested")
		return
	}
	// find callee(s) that cancel everything
	cancellers := map[*ssa.Function]string{}
	isCancelCall := func(n sx.Node) bool {
		c, ok := n.Instr().(*ssa.Call)
		if !ok {
			return false
		}
		f := c.Call.StaticCallee()
		if f == nil || f.Pkg == nil || f.Pkg.Pkg.Path() != core.RootModule {
			return false
		}
		why, seen := cancellers[f]
		if !seen {
			okc, w := cancelsAll(l, r, rm, f)
			why = w
			if okc {
				why = "ok"
			}
			cancellers[f] = why
		}
		return why == "ok"
	}
	// inline form: the reader itself ranges
	bad := false
	for _, e := range errEdges {
		w, reach := sx.Reach(sx.Node{B: e.To, I: -1}, func(n sx.Node) bool { return n.Instr() == ssa.Instruction(rc) || sx.IsReturn(n) }, sx.Query{BlockNode: isCancelCall})
		if reach {
			bad = true
			why := ""
			for f, w := range cancellers {
				if w != "ok" && rangesRouterMap(rm, f) {
					why = " (" + fnKey(f) + ": " + w + ")"
				}
			}
			l.Bad("C07-E4", key, sx.PosOf(w.Instr()), "after a failed RecvMsg the reader can loop or return without failing every pending call"+why+": calls waiting for this node are left waiting")
		}
	}
	if !bad {
		l.OK("C07-E4", key, rc.Pos(), "stream error ⇒ every pending call is answered with the stream-down error before the reader continues")
	}
	// C12-X8 (emitted only where the caller maps it): the reader leaves only after failing the
	// pending calls - also when it leaves after a successful read (the node's context was
	// cancelled between the read and the exit test): it never reads again, so it never sees
	// the stream error, and nobody else answers the calls that wait for a reply
	if l.Remap != nil {
		w, reach := sx.Reach(sx.NodeOf(rc), sx.IsReturn, sx.Query{BlockNode: isCancelCall})
		pos := rc.Pos()
		if reach {
			pos = sx.PosOf(w.Instr())
		}
		l.Check(!reach, "C12-X8", key+"/exit", pos, "every path from a read to the reader's return fails every pending call", "the reader can return after a read without failing the pending calls: when Close cancels the node context between a successful read and the exit test, the calls that still wait for a reply from this node are never answered (the sender only answers what is queued)")
	}
	// the error's code: what the cancelling routine sends must be Unavailable by construction.
	// Only C07 speaks about the kind of error; the re-runs of this rule under other
	// properties (waiters are failed at all) do not include this clause.
	if l.Remap != nil {
		return
	}
	okCode, nDeliv := true, 0
	why := ""
	for _, d := range rm.deliveries {
		if !d.viaLoop || cancellers[d.fn] != "ok" {
			continue
		}
		lit, ok := structLiteral(d.val)
		if !ok || lit["err"] == nil {
			continue
		}
		nDeliv++
		for _, o := range sx.Origins(lit["err"]) {
			code, known := errCodeOfOrigin(o)
			if !known || code != 14 { // codes.Unavailable == 14
				okCode = false
				why = o.String()
			}
		}
	}
	if nDeliv == 0 {
		okCode = false
	}
	l.Check(okCode, "C07-E4", "gorums.streamDownErr", token.NoPos, "the error sent to every waiter is status.Error(codes.Unavailable, …) by construction (a package-level value initialised once, or built in place)", "the stream-down error is not built with code Unavailable: "+why)
}

// errCodeOfOrigin returns the constant status code an error value is built
// with: status.Error(f)(code, …) in place, or a package-level variable that is
// initialised once with such a call and never written again.
func errCodeOfOrigin(o sx.Origin) (int64, bool) {
	codeOf := func(c *ssa.Call) (int64, bool) {
		if !calleeIs(&c.Call, "google.golang.org/grpc/status.Error", "google.golang.org/grpc/status.Errorf") {
			return 0, false
		}
		k, isC := c.Call.Args[0].(*ssa.Const)
		if !isC || k.Value == nil {
			return 0, false
		}
		v, exact := constant.Int64Val(constant.ToInt(k.Value))
		return v, exact
	}
	switch o.Kind {
	case sx.KCall:
		if c, ok := o.V.(*ssa.Call); ok {
			return codeOf(c)
		}
	case sx.KGlobal:
		g, _ := o.V.(*ssa.Global)
		if g == nil || !globalErrNonNil(g) {
			return 0, false
		}
		if init := g.Pkg.Func("init"); init != nil {
			var code int64
			found := false
			sx.AllInstrs(init, func(_ sx.Node, in ssa.Instruction) {
				if st, ok := in.(*ssa.Store); ok && st.Addr == ssa.Value(g) {
					if c, ok := st.Val.(*ssa.Call); ok {
						code, found = codeOf(c)
					}
				}
			})
			return code, found
		}
	}
	return 0, false
}

func rangesRouterMap(rm *routerModel, f *ssa.Function) bool {
	for _, a := range rm.accesses {
		if a.fn == f && a.kind == "range" {
			return true
		}
	}
	return false
}

func c07E5(l *core.Ledger, r *rt) {
	if fn := r.mustFn("C07-E5", "WrapMessage"); fn != nil {
		md, errp := fn.Params[0], fn.Params[2]
		fresh := wrapFreshMetadata(fn)
		// every path to return stores md.Status
		isStatusStore := func(n sx.Node) bool {
			st, ok := n.Instr().(*ssa.Store)
			if !ok {
				return false
			}
			base, ok := fieldAddrOf(st.Addr, "Status")
			if ok && fresh != nil && base == ssa.Value(fresh) {
				return true // the reply's own metadata literal
			}
			return ok && sx.All(sx.Origins(base), sx.IsParam(md))
		}
		_, must := sx.MustPassThrough(sx.Entry(fn), isStatusStore, sx.IsReturn)
		// value: Proto() of a status from FromError(err) or New(Unknown, err.Error())
		okVal := false
		valWhy := ""
		var helperOrigins []sx.Origin
		sx.AllInstrs(fn, func(n sx.Node, in ssa.Instruction) {
			if !isStatusStore(n) {
				return
			}
			st := in.(*ssa.Store)
			valWhy = " (stored: " + sx.OriginsString(sx.Origins(st.Val)) + ")"
			nonNil := 0
			for _, o := range sx.Origins(st.Val) {
				if !sx.IsNilConst(o) {
					nonNil++
				}
			}
			val := st.Val
			// a helper of the package that is handed the error and returns the status: judged by its returns
			if hc, isCall := val.(*ssa.Call); isCall && len(hc.Call.Args) == 1 && hc.Call.Args[0] == ssa.Value(errp) {
				if hf := hc.Call.StaticCallee(); hf != nil && inRepo(hf) && len(hf.Params) == 1 && len(hf.Blocks) > 0 {
					var rets []ssa.Value
					sx.AllInstrs(hf, func(_ sx.Node, in2 ssa.Instruction) {
						if r2, isRet := in2.(*ssa.Return); isRet && len(r2.Results) == 1 {
							rets = append(rets, r2.Results[0])
						}
					})
					if len(rets) > 0 {
						errp = hf.Params[0]
						nonNil = 0
						var os []sx.Origin
						for _, rv := range rets {
							os = append(os, sx.Origins(rv)...)
						}
						for _, o := range os {
							if !sx.IsNilConst(o) {
								nonNil++
							}
						}
						helperOrigins = os
					}
				}
			}
			origins := sx.Origins(val)
			if helperOrigins != nil {
				origins = helperOrigins
			}
			okVal = nonNil > 0 && sx.All(origins, func(o sx.Origin) bool {
				if sx.IsNilConst(o) {
					return true // no status for a nil error: what FromError(nil).Proto() yields as well
				}
				c, ok := o.V.(*ssa.Call)
				if o.Kind != sx.KCall || !ok || c.Call.StaticCallee() == nil || c.Call.StaticCallee().Name() != "Proto" {
					return false
				}
				return sx.All(sx.Origins(c.Call.Args[0]), func(s sx.Origin) bool {
					switch s.Kind {
					case sx.KExtract:
						fc, ok := s.V.(*ssa.Call)
						return ok && s.Index == 0 && calleeIs(&fc.Call, "google.golang.org/grpc/status.FromError") && fc.Call.Args[0] == ssa.Value(errp)
					case sx.KCall:
						nc := s.V.(*ssa.Call)
						// status.Convert(err): FromError without the ok flag - the error's own status, or
						// Unknown with the error's text
						if calleeIs(&nc.Call, "google.golang.org/grpc/status.Convert") {
							return len(nc.Call.Args) == 1 && nc.Call.Args[0] == ssa.Value(errp)
						}
						if !calleeIs(&nc.Call, "google.golang.org/grpc/status.New") {
							return false
						}
						k, isC := nc.Call.Args[0].(*ssa.Const)
						if !isC || k.Value == nil {
							return false
						}
						v, _ := constant.Uint64Val(k.Value)
						if v != 2 { // codes.Unknown
							return false
						}
						// message = err.Error()
						return sx.All(sx.Origins(nc.Call.Args[1]), func(e sx.Origin) bool {
							ec, ok := e.V.(*ssa.Call)
							return e.Kind == sx.KCall && ok && ec.Call.IsInvoke() && ec.Call.Method.Name() == "Error" && ec.Call.Value == ssa.Value(errp)
						})
					}
					return false
				})
			})
		})
		l.Check(must && okVal, "C07-E5", "gorums.WrapMessage", fn.Pos(), "md.Status = status of the handler's error on every path", fmt.Sprintf("handler errors do not travel: Status stored on every path: %v; value is FromError(err) / New(Unknown, err.Error()): %v%s", must, okVal, valWhy))
	}
	// the status travels in a reply without payload: a handler of a server-stream method reports its
	// error with WrapMessage(md, nil, err) - the encoder must not refuse a Message whose payload is nil
	if gm := r.mustFn("C07-E5", "Codec.gorumsMarshal"); gm != nil && len(gm.Params) >= 2 {
		msgp := gm.Params[1]
		refused := token.NoPos
		sx.AllInstrs(gm, func(_ sx.Node, in ssa.Instruction) {
			ifi, ok := in.(*ssa.If)
			if !ok {
				return
			}
			cv, _ := condOf(ifi)
			b, ok := cv.(*ssa.BinOp)
			if !ok || (b.Op != token.EQL && b.Op != token.NEQ) {
				return
			}
			k, isC := b.Y.(*ssa.Const)
			if !isC || !k.IsNil() || !sx.All(sx.Origins(b.X), sx.IsFieldNamed("Message", sx.IsParam(msgp))) {
				return
			}
			nilEdge := edgeWhere(ifi, b.Op == token.EQL)
			if len(nilEdge.To.Instrs) == 0 {
				return
			}
			w, reach := sx.Reach(sx.Node{B: nilEdge.To, I: -1}, func(n sx.Node) bool {
				ret, ok := n.Instr().(*ssa.Return)
				if !ok || len(ret.Results) != 2 {
					return false
				}
				return sx.All(sx.Origins(ret.Results[1]), func(o sx.Origin) bool {
					c, isCall := o.V.(*ssa.Call)
					return o.Kind == sx.KCall && isCall && (calleeIs(&c.Call, "fmt.Errorf") || calleeIs(&c.Call, "errors.New") || calleeIs(&c.Call, "google.golang.org/grpc/status.Error") || calleeIs(&c.Call, "google.golang.org/grpc/status.Errorf"))
				})
			}, sx.Query{BlockNode: func(n sx.Node) bool {
				c, ok := n.Instr().(*ssa.Call)
				return ok && c.Call.StaticCallee() != nil && strings.HasPrefix(c.Call.StaticCallee().Name(), "Marshal")
			}})
			if reach {
				refused = w.Instr().Pos()
			}
		})
		l.Check(refused == token.NoPos, "C07-E5", "gorums.(Codec).gorumsMarshal/reply-without-payload", gm.Pos(), "a Message without payload is encoded",
			"the encoder refuses a Message whose payload is nil with an error of its own: the generated handlers of server-stream methods report a handler's error as WrapMessage(md, nil, err) - that reply cannot be marshalled, the server's SendMsg fails and ends the stream, and the caller gets 'stream is down' (Unavailable) for the node instead of the handler's code and message, as does every other call pending on that healthy node")
	}
	// receiver side
	for _, f := range allFuncs(l.Prog, r.pkg) {
		if f.Signature.Recv() == nil || !isNamed(f.Signature.Recv().Type(), core.RootModule, "channel") || len(recvMsgCalls(f)) == 0 {
			continue
		}
		rc := recvMsgCalls(f)[0]
		tgt, ok := sx.Single(sx.Origins(rc.Call.Args[0]))
		if !ok {
			continue
		}
		isTarget := func(o sx.Origin) bool { return o.Kind == tgt.Kind && o.V == tgt.V }
		found := false
		for _, s := range responseSites(l, r) {
			if s.fn != f || s.kind != "literal" || s.fields["msg"] == nil {
				continue
			}
			found = true
			ev := s.fields["err"]
			okErr := ev != nil && sx.All(sx.Origins(ev), func(o sx.Origin) bool {
				c, ok := o.V.(*ssa.Call)
				if o.Kind != sx.KCall || !ok || c.Call.StaticCallee() == nil || c.Call.StaticCallee().Name() != "Err" {
					return false
				}
				return sx.All(sx.Origins(c.Call.Args[0]), func(p sx.Origin) bool {
					pc, ok := p.V.(*ssa.Call)
					if p.Kind != sx.KCall || !ok || !calleeIs(&pc.Call, "google.golang.org/grpc/status.FromProto") {
						return false
					}
					return sx.All(sx.Origins(pc.Call.Args[0]), func(g sx.Origin) bool {
						gc, ok := g.V.(*ssa.Call)
						if g.Kind != sx.KCall || !ok || gc.Call.StaticCallee() == nil || gc.Call.StaticCallee().Name() != "GetStatus" {
							return false
						}
						return sx.All(sx.Origins(gc.Call.Args[0]), sx.IsFieldNamed("Metadata", isTarget))
					})
				})
			})
			l.Check(okErr, "C07-E5", fnKey(f)+"/status", sx.PosOf(s.at), "err = status.FromProto(resp.Metadata.GetStatus()).Err() of the message just read", "the reader does not rebuild the handler's error from the received status: a failed handler looks like a successful (empty) reply")
		}
		if !found {
			l.Bad("C07-E5", fnKey(f)+"/status", f.Pos(), "the stream reader delivers no message-carrying response")
		}
	}
}

// c07E9: the kind of error a failed write yields. gRPC's SendMsg returns io.EOF
// when the stream has ended (the status goes to RecvMsg); handed on unchanged it
// reaches the call as "node X: EOF" - no status code - although the connection
// failed. The write path translates it into the unavailable-type error.
func c07E9(l *core.Ledger, r *rt) {
	l.Rule("C07-E9", "sendMsg does not hand on the bare io.EOF of SendMsg: on the matching edge of a test of the write's error against io.EOF it stores an error that is Unavailable by construction")
	var fn *ssa.Function
	var send *ssa.Call
	for _, f := range allFuncs(l.Prog, r.pkg) {
		if f.Signature.Recv() == nil || !isNamed(f.Signature.Recv().Type(), core.RootModule, "channel") {
			continue
		}
		sx.AllInstrs(f, func(_ sx.Node, in ssa.Instruction) {
			if c, ok := in.(*ssa.Call); ok && c.Call.IsInvoke() && c.Call.Method.Name() == "SendMsg" {
				fn, send = f, c
			}
		})
	}
	if fn == nil {
		l.Unknown("C07-E9", "anchor/sendMsg", token.NoPos, "no client stream write found")
		return
	}
	key := fnKey(fn) + "/eof-translated"
	isWriteErr := func(v ssa.Value) bool {
		return sx.Any(sx.Origins(v), func(o sx.Origin) bool { return o.V == ssa.Value(send) })
	}
	isEOF := func(v ssa.Value) bool {
		return sx.All(sx.Origins(v), func(o sx.Origin) bool {
			g, ok := o.V.(*ssa.Global)
			return ok && g.Name() == "EOF" && g.Pkg != nil && g.Pkg.Pkg.Path() == "io"
		})
	}
	var eofEdges []sx.Edge
	sx.AllInstrs(fn, func(_ sx.Node, in ssa.Instruction) {
		ifi, ok := in.(*ssa.If)
		if !ok {
			return
		}
		v, pos := condOf(ifi)
		t, f := sx.CondEdges(ifi)
		if !pos {
			t, f = f, t
		}
		switch x := v.(type) {
		case *ssa.Call:
			if calleeIs(&x.Call, "errors.Is") && len(x.Call.Args) == 2 && isWriteErr(x.Call.Args[0]) && isEOF(x.Call.Args[1]) {
				eofEdges = append(eofEdges, t)
			}
		case *ssa.BinOp:
			if x.Op == token.EQL && ((isWriteErr(x.X) && isEOF(x.Y)) || (isWriteErr(x.Y) && isEOF(x.X))) {
				eofEdges = append(eofEdges, t)
			} else if x.Op == token.NEQ && ((isWriteErr(x.X) && isEOF(x.Y)) || (isWriteErr(x.Y) && isEOF(x.X))) {
				eofEdges = append(eofEdges, f)
			}
		}
	})
	ok := false
	sx.AllInstrs(fn, func(nd sx.Node, in ssa.Instruction) {
		st, isSt := in.(*ssa.Store)
		if !isSt || !isErrorType(st.Val.Type()) || !edgesDominate(fn, eofEdges, nd) {
			return
		}
		if sx.All(sx.Origins(st.Val), func(o sx.Origin) bool { code, known := errCodeOfOrigin(o); return known && code == 14 }) {
			ok = true
		}
	})
	// a local error variable: the replacement arrives at the merge as a phi edge from the EOF branch
	sx.AllInstrs(fn, func(_ sx.Node, in ssa.Instruction) {
		ph, isPhi := in.(*ssa.Phi)
		if !isPhi || !isErrorType(ph.Type()) {
			return
		}
		for i, e := range ph.Edges {
			pred := ph.Block().Preds[i]
			if !edgesDominate(fn, eofEdges, sx.Node{B: pred, I: len(pred.Instrs) - 1}) {
				continue
			}
			if sx.All(sx.Origins(e), func(o sx.Origin) bool { code, known := errCodeOfOrigin(o); return known && code == 14 }) {
				ok = true
			}
		}
	})
	// without a named result: a return on the EOF edge
	sx.AllInstrs(fn, func(nd sx.Node, in ssa.Instruction) {
		ret, isRet := in.(*ssa.Return)
		if !isRet || len(ret.Results) != 1 || !edgesDominate(fn, eofEdges, nd) {
			return
		}
		if sx.All(sx.Origins(ret.Results[0]), func(o sx.Origin) bool { code, known := errCodeOfOrigin(o); return known && code == 14 }) {
			ok = true
		}
	})
	l.Check(ok, "C07-E9", key, send.Pos(), "io.EOF of the write is replaced by an Unavailable error", "the write path hands the error of SendMsg on as it is: when the stream has ended gRPC returns the bare io.EOF (the status goes to RecvMsg), and the call whose write failed reports 'node X: EOF' - an error without a status code - although the connection failed; every other path reports Unavailable")
}
