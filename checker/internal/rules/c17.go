package rules

import (
	"bytes"
	"fmt"
	"go/ast"
	"go/parser"
	"go/scanner"
	"go/token"
	"go/types"
	"path/filepath"
	"sort"
	"strings"
	"text/template"

	"verif/checker/internal/core"
	"verif/checker/internal/gen"
)

func init() {
	register("C17", Entry{
		Title:    "Generated stubs bind methods correctly; committed generated code is current",
		Run:      runC17,
		Examples: true,
		Meta: core.PropertyMeta{
			Explanation: "(1) For every method of every service whose generated code is committed, decided against the *descriptor* embedded in the sibling .pb.go (decoded from its byte literal, never by importing the package): B1 bijection between descriptor methods, registered handler names and stub Method strings; B2 request/reply/result Go types; B3 receiver, call-data type, raw entry point, ServerStream literal, per-node function and call options exactly as the method's options say; B4 server reply discipline (one reply per unary call echoing in.Metadata with the implementation's results; stream handlers clone the metadata per reply and send a final message only on error; one-way handlers send nothing; all defer Release first); B5 QuorumSpec = exactly the quorum functions the stubs call, with descriptor-typed signatures; typed accessors (K8). (2) U1: every committed *_gorums.pb.go equals, declaration by declaration and token by token (comments and formatting aside, package qualifiers compared by import path), the expansion of the *current* template constants - folded from the generator's AST and interpreted by the checker's own text/template with a reference funcMap driven by the decoded descriptors; the funcMap's option dependencies and the three option helper functions are cross-checked against the generator's AST (U1b). U2: the declarations of the bundled staticCode literal equal those of the dev package's static sources; pkgIdentMap names exported identifiers of the packages it lists. U3: the version marker of every committed file equals the runtime's GenVersion. B10: field() selects a part of the type name and does not rewrite it.",
			NotDecided:  "'Behaves like the checked-in ones' at run time; services that are not committed (covered only through the templates themselves); leading doc comments copied from .proto sources (the embedded descriptors carry no source info; comments are set aside by the property); protogen's import naming.",
			Trusted:     append([]string{"text/template semantics of the Go standard library", "protoc-gen-go embeds the FileDescriptorProto of the .proto it was run on"}, commonTrust...),
		},
	})
}

func runC17(l *core.Ledger) {
	l.Rule("C17-B1", "bijection between descriptor methods, RegisterHandler names and stub Method strings")
	l.Rule("C17-B2", "request, reply and result Go types of stubs, handlers and adapters are the descriptor's")
	l.Rule("C17-B3", "receiver, call-data type, raw entry point, ServerStream, PerNodeArgFn and call options follow the method's options")
	l.Rule("C17-B4", "server reply discipline per handler kind; defer ctx.Release() first")
	l.Rule("C17-B5", "QuorumSpec method set and signatures match the descriptor")
	l.Rule("C17-B6", "in the templates, the client stubs' Method string and the server's RegisterHandler name are the same expression over the method (variables resolved, simple template functions inlined)")
	l.Rule("C17-B7", "the custom return type of a method is a message of the package being generated: customOut does not give it the import path of the reply type")
	l.Rule("C17-B8", "an option is in effect when it is set to true: the option helpers consult the value of the extension, not only its presence")
	l.Rule("C17-B9", "wrapper types (Async<T>, Correctable<T>) are distinct for distinct return types, also when two return types of different Go packages have the same name")
	l.Rule("C17-B10", "field() - through which every derived type and field name is made - selects the part of the Go type name after the package qualifier and does not rewrite it: derived names are distinct for distinct type names of one package")
	l.Rule("C17-U1", "every committed *_gorums.pb.go equals the expansion of the current templates for its descriptor (token streams per declaration, comments aside)")
	l.Rule("C17-U1b", "the reference funcMap agrees with the generator's: same keys, same option dependencies; hasMethodOption / hasAllMethodOption / countMethodOptions have their defining loop shape")
	l.Rule("C17-U2", "declarations of the staticCode literal == non-import declarations of the dev package's static files; pkgIdentMap values are exported members of their packages")
	l.Rule("C17-U3", "EnforceVersion literals of every committed generated file equal the runtime's GenVersion")

	checkNameBinding(l, "C17-B1")
	checkStubs(l, map[string]string{"B2": "C17-B2", "B3": "C17-B3", "R7": "C17-B2", "P6": "C17-B2"})
	checkHandlers(l, map[string]string{"B2": "C17-B2", "B4": "C17-B4", "H3": "C17-B4", "P4": "C17-B4", "S1": "C17-B4"})
	checkQuorumSpec(l, "C17-B5")
	checkAccessors(l, "C17-B2")
	g, gm := loadGenerator(l, "C17-U1")
	if g == nil {
		return
	}
	c17FuncMapAgreement(l, g)
	c17U1(l, g, gm)
	c17U2(l, g)
	c17B6(l, g)
	c17GenFuncs(l, g)
	l.Rule("C17-B11", "a service the documentation allows is generated: the generator stops only for the documented reasons (C16-Y12 re-run) - a new reason to reject (a custom return type declared in a sibling file, a nested message) means that a freshly written service that works with the committed generator gets no stubs")
	l.With(map[string]string{"C16-Y12": "C17-B11"}, func() { c16Y12(l, g) })
	c17B12(l, g)
}

// c17B12: when the generator may decide that a file is none of its business.
// A method without any option is an ordered rpc - a Gorums call type of its
// own - so every file with a service gets stubs (tests/dummy, tests/tls,
// tests/metadata are written like that, without importing gorums.proto).
func c17B12(l *core.Ledger, g *gen.Generator) {
	l.Rule("C17-B12", "the generator answers 'nothing to generate' only for a file without services or without methods: every 'return false' of gorumsGuard is guarded by a test of len(file.Services) or by a predicate over file.Services itself - any other reason (an import that is missing, an option that is absent) leaves a service of ordered rpcs without stubs, with exit status 0")
	fd := g.FuncDecl("gorumsGuard")
	if fd == nil || fd.Body == nil {
		l.Unknown("C17-B12", "anchor/gorumsGuard", token.NoPos, "gorumsGuard not found")
		return
	}
	n := 0
	var visit func(list []ast.Stmt, conds []ast.Expr)
	okCond := func(c ast.Expr) bool {
		ok := false
		ast.Inspect(c, func(m ast.Node) bool {
			// the file's services, as a selector or through a local that is named after them
			switch y := m.(type) {
			case *ast.SelectorExpr:
				if y.Sel.Name == "Services" {
					ok = true
				}
			case *ast.Ident:
				if strings.Contains(strings.ToLower(y.Name), "service") || strings.Contains(strings.ToLower(y.Name), "method") {
					ok = true
				}
			}
			ce, isCall := m.(*ast.CallExpr)
			if !isCall {
				return true
			}
			for _, a := range ce.Args {
				if sel, isSel := ast.Unparen(a).(*ast.SelectorExpr); isSel && sel.Sel.Name == "Services" {
					ok = true // len(file.Services), hasGorumsMethods(file.Services)
				}
			}
			return true
		})
		return ok
	}
	visit = func(list []ast.Stmt, conds []ast.Expr) {
		for _, st := range list {
			switch x := st.(type) {
			case *ast.ReturnStmt:
				if len(x.Results) == 0 {
					continue
				}
				id, isID := ast.Unparen(x.Results[0]).(*ast.Ident)
				if !isID || id.Name != "false" {
					continue
				}
				n++
				good := false
				for _, c := range conds {
					if okCond(c) {
						good = true
					}
				}
				l.Check(good, "C17-B12", fmt.Sprintf("gengorums.gorumsGuard/nothing-to-generate#%d", n), x.Pos(), "decided from the file's services",
					"gorumsGuard answers 'nothing to generate' for a reason that is not about the file's services and methods: a service of ordered rpcs (methods without options need no import of gorums.proto) silently gets no generated file - a freshly generated service has no stubs at all")
			case *ast.IfStmt:
				visit(x.Body.List, append(append([]ast.Expr{}, conds...), x.Cond))
				if eb, isB := x.Else.(*ast.BlockStmt); isB {
					visit(eb.List, conds)
				} else if ei, isIf := x.Else.(*ast.IfStmt); isIf {
					visit([]ast.Stmt{ei}, conds)
				}
			case *ast.BlockStmt:
				visit(x.List, conds)
			case *ast.ForStmt:
				visit(x.Body.List, conds)
			case *ast.RangeStmt:
				visit(x.Body.List, conds)
			}
		}
	}
	visit(fd.Body.List, nil)
	l.Floor("C17-B12", n, 1, "'nothing to generate' answers of gorumsGuard")
}

// ---------------------------------------------------------------------------
// reference template data

type tIdent struct{ GoName string }
type tMsg struct{ GoIdent tIdent }
type tDesc struct{ FullName string }
type tComments struct{ Leading string }
type tMethod struct {
	GoName   string
	Desc     tDesc
	Comments tComments
	Output   tMsg
	m        *gen.Method
}
type tService struct {
	GoName  string
	Methods []*tMethod
}
type tGenFile struct {
	gp      *genPkg
	imports map[string]bool
}
type tMethodData struct {
	GenFile *tGenFile
	Method  *tMethod
}
type tServicesData struct {
	GenFile  *tGenFile
	Services []*tService
}

func pkgToken(path string) string {
	var b strings.Builder
	b.WriteString("PKG_")
	for _, r := range path {
		if (r >= 'a' && r <= 'z') || (r >= 'A' && r <= 'Z') || (r >= '0' && r <= '9') {
			b.WriteRune(r)
		} else {
			fmt.Fprintf(&b, "_%x_", r)
		}
	}
	return b.String()
}

func (g *tGenFile) qualify(path, name string) string {
	if path == "" || path == g.gp.pkg.PkgPath {
		return name
	}
	return pkgToken(path) + "." + name
}

func (g *tGenFile) typeRef(tr gen.TypeRef, custom string) string {
	name := tr.GoName
	if custom != "" {
		name = custom
	}
	if tr.SameFile || tr.PkgPath == g.gp.pkg.PkgPath {
		return name
	}
	return g.qualify(tr.PkgPath, name)
}

// referenceFuncMap re-implements the generator's template functions on the
// decoded descriptors. callTypeOf gives docName/outPrefix from the
// generator's own call-type table.
func referenceFuncMap(g *gen.Generator, importMap map[string]string) template.FuncMap {
	field := func(typeName string) string { return typeName[strings.LastIndex(typeName, ".")+1:] }
	entryFor := func(m *tMethod) *gen.CallTypeEntry {
		v := gen.Valuation{Opts: m.m.Opts, StreamServer: m.m.ServerStreaming, StreamClient: m.m.ClientStreaming}
		for _, e := range g.CallTypes {
			if e.ExtVar == "" || !m.m.Opts[e.Ext] {
				continue
			}
			ct := e
			for _, n := range e.Nested {
				if n.Chk != nil && n.Chk.Eval(v) {
					ct = n
					break
				}
			}
			if ct.Chk != nil && ct.Chk.Eval(v) {
				return ct
			}
		}
		return &gen.CallTypeEntry{}
	}
	customOut := func(gf *tGenFile, m *tMethod) string { return gf.typeRef(m.m.Out, m.m.CustomReturn) }
	out := func(gf *tGenFile, m *tMethod) string { return gf.typeRef(m.m.Out, "") }
	outType := func(m *tMethod, o string) string { return entryFor(m).OutPrefix + field(o) }
	internalOut := func(o string) string { return "internal" + field(o) }
	mapType := func(gf *tGenFile, svcs []*tService, f func(m *tMethod, s map[string]string)) map[string]string {
		s := map[string]string{}
		for _, sv := range svcs {
			for _, m := range sv.Methods {
				f(m, s)
			}
		}
		return s
	}
	hasCT := func(m *tMethod) bool { return m.m.Has(g.Lists["gorumsCallTypes"]...) }
	return template.FuncMap{
		"use": func(pkgIdent string, gf *tGenFile) string {
			if strings.Count(pkgIdent, ".") != 1 {
				return "EXPECTED PACKAGE NAME AND IDENTIFIER, but got: " + pkgIdent
			}
			i := strings.Index(pkgIdent, ".")
			path, ok := importMap[pkgIdent[:i]]
			if !ok {
				return "IMPORT NOT FOUND: " + pkgIdent[:i]
			}
			return gf.qualify(path, pkgIdent[i+1:])
		},
		"hasPerNodeArg": func(m *tMethod) bool { return m.m.Has("per_node_arg") },
		"perNodeArg": func(m *tMethod, arg string) string {
			if m.m.Has("per_node_arg") {
				return arg
			}
			return ""
		},
		"perNodeFnType": func(gf *tGenFile, m *tMethod, arg string) string {
			if m.m.Has("per_node_arg") {
				in := gf.typeRef(m.m.In, "")
				return arg + " func(*" + in + ", uint32) *" + in
			}
			return ""
		},
		"correctableStream": func(m *tMethod) bool { return m.m.Has("correctable") && m.m.ServerStreaming },
		"withCorrectable": func(m *tMethod, arg string) string {
			if m.m.Has("correctable") {
				return arg
			}
			return ""
		},
		"withPromise": func(m *tMethod, arg string) string {
			if m.m.Has(g.Lists["callTypesWithPromiseObject"]...) {
				return arg
			}
			return ""
		},
		"docName":     func(m *tMethod) string { return entryFor(m).DocName },
		"fullName":    func(m *tMethod) string { return "/" + m.m.Service.FullName + "/" + m.m.Name },
		"serviceName": func(m *tMethod) string { return m.m.Service.Name },
		"in":          func(gf *tGenFile, m *tMethod) string { return gf.typeRef(m.m.In, "") },
		"isOneway":    func(m *tMethod) bool { return m.m.Has("multicast", "unicast") },
		"methods": func(svcs []*tService) (ms []*tMethod) {
			for _, s := range svcs {
				ms = append(ms, s.Methods...)
			}
			return
		},
		"out":         out,
		"outType":     outType,
		"internalOut": internalOut,
		"customOut":   customOut,
		"mapInternalOutType": func(gf *tGenFile, svcs []*tService) map[string]string {
			return mapType(gf, svcs, func(m *tMethod, s map[string]string) {
				if m.m.Has(g.Lists["callTypesWithInternal"]...) {
					o := out(gf, m)
					s[internalOut(o)] = o
				}
			})
		},
		"mapAsyncOutType": func(gf *tGenFile, svcs []*tService) map[string]string {
			return mapType(gf, svcs, func(m *tMethod, s map[string]string) {
				if m.m.HasAll("quorumcall", "async") {
					o := customOut(gf, m)
					s[outType(m, o)] = o
				}
			})
		},
		"mapCorrectableOutType": func(gf *tGenFile, svcs []*tService) map[string]string {
			return mapType(gf, svcs, func(m *tMethod, s map[string]string) {
				if m.m.Has("correctable") {
					o := customOut(gf, m)
					s[outType(m, o)] = o
				}
			})
		},
		"qspecServices": func(svcs []*tService) []*tService { return svcs },
		"qspecMethods": func(ms []*tMethod) (s []*tMethod) {
			for _, m := range ms {
				if m.m.Has("multicast", "unicast") || !hasCT(m) {
					continue
				}
				s = append(s, m)
			}
			return
		},
		"unexport": func(s string) string { return strings.ToLower(s[:1]) + s[1:] },
		"contains": strings.Contains,
		"field":    field,
	}
}

// expected option dependencies of the reference functions
var referenceFuncOpts = map[string][]string{
	"hasPerNodeArg": {"per_node_arg"}, "perNodeArg": {"per_node_arg"}, "perNodeFnType": {"per_node_arg"},
	"correctableStream": {"correctable"}, "withCorrectable": {"correctable"},
	"withPromise": {"async", "correctable"}, "isOneway": {"multicast", "unicast"},
	"customOut":             {"custom_return_type"},
	"mapInternalOutType":    {"async", "correctable", "quorumcall"},
	"mapAsyncOutType":       {"async", "custom_return_type", "quorumcall"},
	"mapCorrectableOutType": {"correctable", "custom_return_type"},
	"qspecMethods":          {"async", "correctable", "multicast", "quorumcall", "unicast"},
	"qspecServices":         {"async", "correctable", "multicast", "quorumcall", "unicast"},
}

func c17FuncMapAgreement(l *core.Ledger, g *gen.Generator) {
	ref := referenceFuncMap(g, map[string]string{})
	var missing, extra []string
	for k := range g.FuncMap {
		if _, ok := ref[k]; !ok {
			extra = append(extra, k)
		}
	}
	for k := range ref {
		if _, ok := g.FuncMap[k]; !ok {
			missing = append(missing, k)
		}
	}
	sort.Strings(missing)
	sort.Strings(extra)
	if len(extra) > 0 {
		l.Unknown("C17-U1b", "gengorums.funcMap/keys", g.StrPos["funcMap"], fmt.Sprintf("the generator's funcMap has functions the reference model does not know: %v", extra))
	}
	l.Check(len(missing) == 0, "C17-U1b", "gengorums.funcMap/keys", g.StrPos["funcMap"], fmt.Sprintf("%d template functions, all modelled", len(g.FuncMap)), fmt.Sprintf("template functions removed from the funcMap: %v", missing))
	var keys []string
	for k := range g.FuncMap {
		keys = append(keys, k)
	}
	sort.Strings(keys)
	for _, k := range keys {
		got := optionsMentioned(g, g.FuncMap[k])
		// docName/outType go through callType(): all call types
		if k == "docName" || k == "outType" {
			continue
		}
		want := referenceFuncOpts[k]
		l.Check(strings.Join(got, ",") == strings.Join(want, ","), "C17-U1b", "gengorums.funcMap/"+k, g.FuncMap[k].Pos(), fmt.Sprintf("depends on options %v", want), fmt.Sprintf("template function %s depends on options %v in the generator but %v in the reference model: committed code generated with the former behaviour is no longer what the generator produces", k, got, want))
	}
	// option helper shapes
	for _, name := range []string{"hasMethodOption", "hasAllMethodOption", "countMethodOptions"} {
		ok, why := optionHelperShape(g, name)
		l.Check(ok, "C17-U1b", "gengorums."+name, token.NoPos, "defining loop shape", "option helper "+name+" does not have its defining shape: "+why)
	}
}

func optionHelperShape(g *gen.Generator, name string) (bool, string) {
	var fd *ast.FuncDecl
	for _, f := range g.Pkg.Syntax {
		for _, d := range f.Decls {
			if x, ok := d.(*ast.FuncDecl); ok && x.Name.Name == name && x.Recv == nil {
				fd = x
			}
		}
	}
	if fd == nil {
		return false, "not found"
	}
	// defined through the counting helper: any = count(...) > 0, all = count(...) == len(options)
	if name != "countMethodOptions" && len(fd.Body.List) == 1 && len(fd.Type.Params.List) >= 2 {
		if ret, ok := fd.Body.List[0].(*ast.ReturnStmt); ok && len(ret.Results) == 1 {
			if be, ok := ast.Unparen(ret.Results[0]).(*ast.BinaryExpr); ok {
				opts := fd.Type.Params.List[len(fd.Type.Params.List)-1].Names[0].Name
				first := fd.Type.Params.List[0].Names[0].Name
				isCount := func(e ast.Expr) bool {
					ce, ok := ast.Unparen(e).(*ast.CallExpr)
					return ok && types.ExprString(ce.Fun) == "countMethodOptions" && len(ce.Args) == 2 && ce.Ellipsis.IsValid() &&
						types.ExprString(ce.Args[0]) == first && types.ExprString(ce.Args[1]) == opts
				}
				x, y, op := be.X, be.Y, be.Op
				if !isCount(x) && isCount(y) {
					x, y = y, x
					op = map[token.Token]token.Token{token.LSS: token.GTR, token.GTR: token.LSS, token.LEQ: token.GEQ, token.GEQ: token.LEQ, token.EQL: token.EQL, token.NEQ: token.NEQ}[op]
				}
				if isCount(x) {
					ys := types.ExprString(y)
					switch name {
					case "hasMethodOption":
						if (op == token.GTR && ys == "0") || (op == token.GEQ && ys == "1") || (op == token.NEQ && ys == "0") {
							return optionHelperShape(g, "countMethodOptions")
						}
					case "hasAllMethodOption":
						if (op == token.EQL || op == token.GEQ) && ys == "len("+opts+")" {
							return optionHelperShape(g, "countMethodOptions")
						}
					}
					return false, "defined through countMethodOptions, but not as 'at least one' / 'all of them'"
				}
			}
		}
	}
	var rng *ast.RangeStmt
	var final *ast.ReturnStmt
	for _, st := range fd.Body.List {
		switch x := st.(type) {
		case *ast.RangeStmt:
			rng = x
		case *ast.ReturnStmt:
			final = x
		}
	}
	if rng == nil || final == nil || len(final.Results) != 1 || len(rng.Body.List) != 1 {
		return false, "expected one range loop followed by a return"
	}
	// ranges over the variadic parameter
	if len(fd.Type.Params.List) < 2 || types.ExprString(rng.X) != fd.Type.Params.List[len(fd.Type.Params.List)-1].Names[0].Name {
		return false, "does not range over its option list"
	}
	ifs, ok := rng.Body.List[0].(*ast.IfStmt)
	if !ok || ifs.Else != nil {
		return false, "loop body is not a single if"
	}
	cond := ifs.Cond
	neg := false
	if u, ok := cond.(*ast.UnaryExpr); ok && u.Op == token.NOT {
		neg, cond = true, u.X
	}
	ce, ok := cond.(*ast.CallExpr)
	// the per-element test: proto.HasExtension(ext, e), or a helper "is the option in effect" that is
	// HasExtension(ext, e) refined by the option's own value (GetExtension)
	isElemTest := func(ce *ast.CallExpr) bool {
		if len(ce.Args) != 2 || types.ExprString(ce.Args[1]) != types.ExprString(rng.Value) {
			return false
		}
		if strings.HasSuffix(types.ExprString(ce.Fun), "HasExtension") {
			return true
		}
		id, isID := ce.Fun.(*ast.Ident)
		if !isID {
			return false
		}
		h := g.FuncDecl(id.Name)
		if h == nil || h.Body == nil || h.Type.Params.NumFields() != 2 {
			return false
		}
		has, other := false, false
		ast.Inspect(h.Body, func(n ast.Node) bool {
			if c2, isC := n.(*ast.CallExpr); isC {
				switch fn := types.ExprString(c2.Fun); {
				case strings.HasSuffix(fn, "HasExtension"):
					has = true
				case strings.HasSuffix(fn, "GetExtension"):
				default:
					if _, isConv := c2.Fun.(*ast.ParenExpr); !isConv {
						other = true
					}
				}
			}
			return true
		})
		return has && !other
	}
	if !ok || !isElemTest(ce) {
		return false, "condition is not proto.HasExtension(ext, <element>)"
	}
	if len(ifs.Body.List) != 1 {
		return false, "if body"
	}
	switch name {
	case "hasMethodOption":
		r, ok := ifs.Body.List[0].(*ast.ReturnStmt)
		if neg || !ok || types.ExprString(r.Results[0]) != "true" || types.ExprString(final.Results[0]) != "false" {
			return false, "not 'return true on the first present option, false otherwise'"
		}
	case "hasAllMethodOption":
		r, ok := ifs.Body.List[0].(*ast.ReturnStmt)
		if !neg || !ok || types.ExprString(r.Results[0]) != "false" || types.ExprString(final.Results[0]) != "true" {
			return false, "not 'return false on the first absent option, true otherwise'"
		}
	case "countMethodOptions":
		inc, ok := ifs.Body.List[0].(*ast.IncDecStmt)
		if neg || !ok || inc.Tok != token.INC || types.ExprString(inc.X) != types.ExprString(final.Results[0]) {
			return false, "not 'count the present options'"
		}
	}
	return true, ""
}

// ---------------------------------------------------------------------------
// U1 expansion and comparison

func generatorImportMap(g *gen.Generator) map[string]string {
	importMap := map[string]string{}
	for _, f := range g.Pkg.Syntax {
		ast.Inspect(f, func(nd ast.Node) bool {
			vs, ok := nd.(*ast.ValueSpec)
			if !ok || len(vs.Names) != 1 || vs.Names[0].Name != "importMap" || len(vs.Values) != 1 {
				return true
			}
			if cl, ok := vs.Values[0].(*ast.CompositeLit); ok {
				for _, el := range cl.Elts {
					kv := el.(*ast.KeyValueExpr)
					k := strings.Trim(kv.Key.(*ast.BasicLit).Value, "\"")
					if ce, ok := kv.Value.(*ast.CallExpr); ok && len(ce.Args) == 1 {
						if bl, ok := ce.Args[0].(*ast.BasicLit); ok {
							importMap[k] = strings.Trim(bl.Value, "\"")
						}
					}
				}
			}
			return true
		})
	}
	return importMap
}

// normTokens scans Go source and returns one token string per top-level
// declaration (imports and the package clause excluded, comments dropped).
// pkgAt maps identifier offsets that denote imported packages to their path.
func declTokens(fset *token.FileSet, file *ast.File, src []byte, pkgAt map[token.Pos]string) ([]string, []string) {
	var out, names []string
	tf := fset.File(file.Pos())
	for _, d := range file.Decls {
		if gd, ok := d.(*ast.GenDecl); ok && gd.Tok == token.IMPORT {
			continue
		}
		start, end := d.Pos(), d.End()
		var s scanner.Scanner
		sub := src[tf.Offset(start):tf.Offset(end)]
		fs := token.NewFileSet()
		sf := fs.AddFile("", fs.Base(), len(sub))
		s.Init(sf, sub, nil, 0)
		var toks []string
		for {
			pos, tok, lit := s.Scan()
			if tok == token.EOF {
				break
			}
			if tok == token.SEMICOLON && lit == "\n" {
				continue
			}
			if tok == token.IDENT {
				orig := start + token.Pos(sf.Offset(pos))
				if p, ok := pkgAt[orig]; ok {
					lit = pkgToken(p)
				}
			}
			if lit == "" {
				lit = tok.String()
			}
			toks = append(toks, lit)
		}
		// trailing commas before closing brackets and semicolons differ with formatting: drop them
		var norm []string
		for i, t := range toks {
			if t == ";" {
				continue
			}
			if t == "," {
				j := i + 1
				for j < len(toks) && toks[j] == ";" {
					j++
				}
				if j < len(toks) && (toks[j] == ")" || toks[j] == "}") {
					continue
				}
			}
			norm = append(norm, t)
		}
		out = append(out, strings.Join(norm, " "))
		names = append(names, declName(d))
	}
	return out, names
}

func declName(d ast.Decl) string {
	switch x := d.(type) {
	case *ast.FuncDecl:
		if r := core.RecvName(x); r != "" {
			return "func (" + r + ") " + x.Name.Name
		}
		return "func " + x.Name.Name
	case *ast.GenDecl:
		if len(x.Specs) > 0 {
			switch s := x.Specs[0].(type) {
			case *ast.TypeSpec:
				return "type " + s.Name.Name
			case *ast.ValueSpec:
				return x.Tok.String() + " " + s.Names[0].Name
			}
		}
		return x.Tok.String()
	}
	return "?"
}

func expandFor(g *gen.Generator, gm *genModel, gp *genPkg, importMap map[string]string, genVersion string, types_ []string, withStatic bool) (string, error) {
	gf := &tGenFile{gp: gp}
	fm := referenceFuncMap(g, importMap)
	var svcs []*tService
	for _, s := range gp.proto.Services {
		ts := &tService{GoName: s.GoName}
		for _, m := range s.Methods {
			ts.Methods = append(ts.Methods, &tMethod{GoName: m.GoName, Desc: tDesc{m.FullName}, Output: tMsg{tIdent{m.Out.GoName}}, m: m})
		}
		svcs = append(svcs, ts)
	}
	var b bytes.Buffer
	b.WriteString("package " + gp.pkg.Name + "\n\n")
	b.WriteString("const (\n_ = " + pkgToken(core.RootModule) + ".EnforceVersion(" + genVersion + " - " + pkgToken(core.RootModule) + ".MinVersion)\n")
	b.WriteString("_ = " + pkgToken(core.RootModule) + ".EnforceVersion(" + pkgToken(core.RootModule) + ".MaxVersion - " + genVersion + ")\n)\n\n")
	if withStatic {
		b.WriteString(g.Strings["staticCode"])
		b.WriteString("\n\n")
	}
	exec := func(name, text string, data any) error {
		t, err := template.New(name).Funcs(fm).Parse(text)
		if err != nil {
			return fmt.Errorf("template %s: %v", name, err)
		}
		if err := t.Execute(&b, data); err != nil {
			return fmt.Errorf("template %s: %v", name, err)
		}
		b.WriteString("\n\n")
		return nil
	}
	byKey := map[string]*gen.CallTypeEntry{}
	for _, e := range g.CallTypes {
		byKey[e.Key] = e
	}
	for _, key := range types_ {
		e := byKey[key]
		if e == nil {
			return "", fmt.Errorf("no call type entry %q", key)
		}
		if e.ExtVar == "" {
			text, ok := g.Strings[e.Template]
			if !ok {
				return "", fmt.Errorf("template %s is not a constant", e.Template)
			}
			if err := exec(key, text, tServicesData{gf, svcs}); err != nil {
				return "", err
			}
			continue
		}
		for _, s := range svcs {
			for _, m := range s.Methods {
				v := gen.Valuation{Opts: m.m.Opts, StreamServer: m.m.ServerStreaming, StreamClient: m.m.ClientStreaming}
				ct := e
				for _, n := range e.Nested {
					if n.Chk != nil && n.Chk.Eval(v) {
						ct = n
						break
					}
				}
				if ct.Chk == nil || !ct.Chk.Eval(v) {
					continue
				}
				text, ok := g.Strings[ct.Template]
				if !ok {
					return "", fmt.Errorf("template %s is not a constant", ct.Template)
				}
				if err := exec(key, text, tMethodData{gf, m}); err != nil {
					return "", err
				}
			}
		}
	}
	return b.String(), nil
}

func c17U1(l *core.Ledger, g *gen.Generator, gm *genModel) {
	if !genFloor(l, gm, "C17-U1") {
		return
	}
	importMap := generatorImportMap(g)
	rtPkg := l.Prog.Pkg("")
	gv, _ := rtPkg.Types.Scope().Lookup("GenVersion").(*types.Const)
	if gv == nil {
		l.Unknown("C17-U3", "anchor/GenVersion", token.NoPos, "GenVersion constant not found")
		return
	}
	genVersion := gv.Val().ExactString()
	var allKeys []string
	for _, e := range g.CallTypes {
		allKeys = append(allKeys, e.Key)
	}
	sort.Strings(allKeys)
	n := 0
	for _, gp := range gm.pkgs {
		// package-name positions in the committed files
		pkgAt := map[token.Pos]string{}
		for id, obj := range gp.pkg.TypesInfo.Uses {
			if pn, ok := obj.(*types.PkgName); ok {
				pkgAt[id.Pos()] = pn.Imported().Path()
			}
		}
		for _, f := range gp.genFiles {
			n++
			fname := l.Prog.Fset.File(f.Pos()).Name()
			base := filepath.Base(fname)
			key := gp.rel + "/" + base
			keys := allKeys
			withStatic := true
			if gp.rel == "cmd/protoc-gen-gorums/dev" {
				// zorums_<type>_gorums.pb.go
				t := strings.TrimSuffix(strings.TrimPrefix(base, "zorums_"), "_gorums.pb.go")
				keys, withStatic = []string{t}, false
			}
			want, err := expandFor(g, gm, gp, importMap, genVersion, keys, withStatic)
			if err != nil {
				l.Bad("C17-U1", key, f.Pos(), "the current templates cannot be expanded for this file's descriptor: "+err.Error())
				continue
			}
			wfset := token.NewFileSet()
			wfile, err := parser.ParseFile(wfset, "expected.go", want, parser.SkipObjectResolution)
			if err != nil {
				l.Bad("C17-U1", key, f.Pos(), "the expansion of the current templates is not valid Go: "+firstLine(err.Error()))
				continue
			}
			src, ok := readSource(l, fname)
			if !ok {
				l.Unknown("C17-U1", key, f.Pos(), "cannot read the committed file")
				continue
			}
			got, gotNames := declTokens(l.Prog.Fset, f, src, pkgAt)
			// the static code spells package qualifiers by the base names of pkgIdentMap's keys
			wantPkgAt := map[token.Pos]string{}
			bases := map[string]string{}
			for p := range g.PkgIdent {
				bases[p[strings.LastIndex(p, "/")+1:]] = p
			}
			ast.Inspect(wfile, func(nd ast.Node) bool {
				if se, ok := nd.(*ast.SelectorExpr); ok {
					if id, ok := se.X.(*ast.Ident); ok {
						if p, ok := bases[id.Name]; ok {
							wantPkgAt[id.Pos()] = p
						}
					}
				}
				return true
			})
			exp, expNames := declTokens(wfset, wfile, []byte(want), wantPkgAt)
			diff := ""
			for i := 0; i < len(got) || i < len(exp); i++ {
				switch {
				case i >= len(exp):
					diff = fmt.Sprintf("committed file has an extra declaration %q that the templates do not produce", gotNames[i])
				case i >= len(got):
					diff = fmt.Sprintf("the templates produce declaration %q that the committed file lacks", expNames[i])
				case got[i] != exp[i]:
					diff = fmt.Sprintf("declaration #%d (%s) differs: %s", i, expNames[i], tokenDiff(exp[i], got[i]))
				}
				if diff != "" {
					break
				}
			}
			// version marker (U3) is part of the first declaration; report it under its own rule when that is the difference
			if diff != "" && strings.Contains(diff, "declaration #0") {
				l.Bad("C17-U3", key, f.Pos(), "version marker differs from the runtime's GenVersion "+genVersion+": "+diff)
				continue
			}
			l.Check(diff == "", "C17-U1", key, f.Pos(), fmt.Sprintf("%d declarations equal the template expansion", len(got)), "committed generated code is not what the current templates produce (stale file or edited template): "+diff)
			if diff == "" {
				l.OK("C17-U3", key, f.Pos(), "version marker "+genVersion)
			}
		}
	}
	l.Floor("C17-U1", n, 19, "committed generated files compared")
}

func firstLine(s string) string {
	if i := strings.Index(s, "\n"); i >= 0 {
		return s[:i]
	}
	return s
}

func tokenDiff(exp, got string) string {
	e, g := strings.Split(exp, " "), strings.Split(got, " ")
	i := 0
	for i < len(e) && i < len(g) && e[i] == g[i] {
		i++
	}
	ctx := func(t []string) string {
		lo, hi := i-4, i+6
		if lo < 0 {
			lo = 0
		}
		if hi > len(t) {
			hi = len(t)
		}
		return strings.Join(t[lo:hi], " ")
	}
	return fmt.Sprintf("templates give `… %s …`, committed file has `… %s …`", ctx(e), ctx(g))
}

func readSource(l *core.Ledger, fname string) ([]byte, bool) {
	b, err := readFileWithOverlay(l, fname)
	return b, err == nil
}

// ---------------------------------------------------------------------------
// U2 static bundle

func c17U2(l *core.Ledger, g *gen.Generator) {
	dev := l.Prog.Pkg("cmd/protoc-gen-gorums/dev")
	if dev == nil {
		l.Unknown("C17-U2", "anchor/dev", token.NoPos, "dev package not loaded")
		return
	}
	static, ok := g.Strings["staticCode"]
	if !ok {
		l.Unknown("C17-U2", "gengorums.staticCode", token.NoPos, "staticCode is not a constant string")
		return
	}
	sfset := token.NewFileSet()
	src := "package dev\n" + static
	sfile, err := parser.ParseFile(sfset, "static.go", src, parser.SkipObjectResolution)
	if err != nil {
		l.Bad("C17-U2", "gengorums.staticCode", g.StrPos["staticCode"], "the bundled static code does not parse: "+firstLine(err.Error()))
		return
	}
	// selectors with package qualifiers: compare by spelled name on both sides (the bundle keeps the dev files' import names)
	got, gotNames := declTokens(sfset, sfile, []byte(src), map[token.Pos]string{})
	var exp, expNames []string
	var files []*ast.File
	for _, f := range dev.Syntax {
		base := filepath.Base(l.Prog.Fset.File(f.Pos()).Name())
		if strings.HasPrefix(base, "zorums") || strings.HasSuffix(base, "_test.go") {
			continue
		}
		files = append(files, f)
	}
	sort.Slice(files, func(i, j int) bool {
		return l.Prog.Fset.File(files[i].Pos()).Name() < l.Prog.Fset.File(files[j].Pos()).Name()
	})
	for _, f := range files {
		fname := l.Prog.Fset.File(f.Pos()).Name()
		b, ok := readSource(l, fname)
		if !ok {
			l.Unknown("C17-U2", "dev/"+filepath.Base(fname), f.Pos(), "cannot read source")
			return
		}
		t, n := declTokens(l.Prog.Fset, f, b, map[token.Pos]string{})
		exp = append(exp, t...)
		expNames = append(expNames, n...)
	}
	diff := ""
	for i := 0; i < len(got) || i < len(exp); i++ {
		switch {
		case i >= len(exp):
			diff = fmt.Sprintf("the bundle has an extra declaration %q", gotNames[i])
		case i >= len(got):
			diff = fmt.Sprintf("the bundle lacks declaration %q of the dev sources", expNames[i])
		case got[i] != exp[i]:
			diff = fmt.Sprintf("declaration %q differs: %s", expNames[i], tokenDiff(exp[i], got[i]))
		}
		if diff != "" {
			break
		}
	}
	l.Check(diff == "", "C17-U2", "gengorums.staticCode", g.StrPos["staticCode"], fmt.Sprintf("%d declarations equal the dev package's static sources", len(got)), "the bundled static template is not what the dev sources produce: "+diff)
	// pkgIdentMap
	var bad []string
	var paths []string
	for p := range g.PkgIdent {
		paths = append(paths, p)
	}
	sort.Strings(paths)
	for _, p := range paths {
		id := g.PkgIdent[p]
		var scope *types.Scope
		if p == core.RootModule {
			scope = l.Prog.Pkg("").Types.Scope()
		} else if imp, ok := dev.Imports[p]; ok && imp.Types != nil {
			scope = imp.Types.Scope()
		}
		if scope == nil {
			bad = append(bad, p+" (not imported by the static sources)")
			continue
		}
		if obj := scope.Lookup(id); obj == nil || !obj.Exported() {
			bad = append(bad, p+"."+id)
		}
	}
	// every package qualifier used by the static sources is a key
	for _, f := range files {
		for _, imp := range f.Imports {
			p := strings.Trim(imp.Path.Value, "\"")
			if _, ok := g.PkgIdent[p]; !ok {
				bad = append(bad, p+" (imported by the static sources but missing from pkgIdentMap: its import is not emitted)")
			}
		}
	}
	bad = dedupStrings(bad)
	l.Check(len(bad) == 0, "C17-U2", "gengorums.pkgIdentMap", g.StrPos["pkgIdentMap"], fmt.Sprintf("%d packages, each with an exported member", len(paths)), fmt.Sprintf("pkgIdentMap entries that do not name an exported identifier of an imported package: %v", bad))
}
