package rules

import (
	"fmt"
	"go/token"
	"go/types"
	"strings"

	"golang.org/x/tools/go/ssa"

	"verif/checker/internal/core"
	"verif/checker/internal/sx"
)

// blockOp is one potentially blocking operation (DESIGN.md 2.2).
type blockOp struct {
	fn    *ssa.Function
	at    ssa.Instruction
	kind  string // send, recv, select, lock, stream-send, stream-recv, stream-create, dial, conn-close, sleep, wait, serve
	desc  string
	lock  string      // for kind lock: the mutex field name
	read  bool        // RLock
	chanT types.Type  // for send/recv
	sel   *ssa.Select // for select
	chain []string    // call chain from the root (function keys)
	frame *frame
}

// frame is one activation on the interprocedural walk: the callee's
// parameters are bound to the caller's argument values.
type frame struct {
	fn     *ssa.Function
	args   []ssa.Value // aligned with fn.Params (nil for the root)
	parent *frame
	site   ssa.Instruction
}

func (f *frame) chain() []string {
	var out []string
	for x := f; x != nil; x = x.parent {
		out = append([]string{fnKey(x.fn)}, out...)
	}
	return out
}

func (f *frame) depth() int {
	n := 0
	for x := f; x != nil; x = x.parent {
		n++
	}
	return n
}

func (f *frame) onStack(fn *ssa.Function) bool {
	for x := f; x != nil; x = x.parent {
		if x.fn == fn {
			return true
		}
	}
	return false
}

func inRepo(f *ssa.Function) bool {
	if f == nil {
		return false
	}
	for f.Parent() != nil {
		f = f.Parent()
	}
	var p *types.Package
	if f.Pkg != nil {
		p = f.Pkg.Pkg
	} else if f.Object() != nil {
		p = f.Object().Pkg()
	}
	return p != nil && strings.HasPrefix(p.Path(), core.RootModule) && len(f.Blocks) > 0
}

// classifyBlocking recognises the blocking operations of one instruction.
func classifyBlocking(in ssa.Instruction) (blockOp, bool) {
	switch x := in.(type) {
	case *ssa.Send:
		return blockOp{at: x, kind: "send", desc: "send on " + types.TypeString(x.Chan.Type(), shortQual), chanT: x.Chan.Type()}, true
	case *ssa.UnOp:
		if x.Op == token.ARROW {
			return blockOp{at: x, kind: "recv", desc: "receive from " + types.TypeString(x.X.Type(), shortQual), chanT: x.X.Type()}, true
		}
	case *ssa.Select:
		if x.Blocking {
			if _, _, ok := deliverSelect(x); ok {
				// a delivery to a call that may be slower than the node: waits for the call's loop to take the
				// reply, but not beyond the call's completion (router.done)
				return blockOp{at: x, kind: "deliver", desc: "delivery to a router, bounded by the router's done channel", sel: x, chanT: x.States[0].Chan.Type()}, true
			}
			return blockOp{at: x, kind: "select", desc: fmt.Sprintf("select with %d cases", len(x.States)), sel: x}, true
		}
	case *ssa.Call:
		return classifyBlockingCall(x, &x.Call)
	case *ssa.Defer:
		// evaluated at exit; reported at the defer site
		return classifyBlockingCall(x, &x.Call)
	}
	return blockOp{}, false
}

func shortQual(p *types.Package) string { return p.Name() }

func classifyBlockingCall(in ssa.Instruction, c *ssa.CallCommon) (blockOp, bool) {
	if op, ok := sx.ClassifyLockOp(c); ok {
		if op.Acquire {
			return blockOp{at: in, kind: "lock", desc: "acquire " + op.Field, lock: op.Field, read: op.Read}, true
		}
		return blockOp{}, false
	}
	name := sx.StaticCalleeName(c)
	if c.IsInvoke() {
		switch c.Method.Name() {
		case "SendMsg":
			return blockOp{at: in, kind: "stream-send", desc: "stream SendMsg"}, true
		case "RecvMsg":
			return blockOp{at: in, kind: "stream-recv", desc: "stream RecvMsg"}, true
		case "NodeStream":
			return blockOp{at: in, kind: "stream-create", desc: "open NodeStream"}, true
		}
		return blockOp{}, false
	}
	switch name {
	case "google.golang.org/grpc.DialContext", "google.golang.org/grpc.Dial":
		return blockOp{at: in, kind: "dial", desc: name}, true
	case "google.golang.org/grpc.ClientConn.Close":
		return blockOp{at: in, kind: "conn-close", desc: "ClientConn.Close"}, true
	case "google.golang.org/grpc.Server.Serve", "google.golang.org/grpc.Server.GracefulStop":
		return blockOp{at: in, kind: "serve", desc: name}, true
	case "time.Sleep":
		return blockOp{at: in, kind: "sleep", desc: "time.Sleep"}, true
	case "sync.WaitGroup.Wait":
		return blockOp{at: in, kind: "wait", desc: "WaitGroup.Wait"}, true
	case "sync.Cond.Wait":
		// waits for another goroutine's Signal/Broadcast; knows nothing about any context
		return blockOp{at: in, kind: "wait", desc: "sync.Cond.Wait"}, true
	}
	return blockOp{}, false
}

// walkBlocking enumerates the blocking operations reachable on the goroutine
// that runs root (through static calls into repository functions, including
// deferred calls; `go` statements start other goroutines and are skipped).
func walkBlocking(root *ssa.Function, visit func(op blockOp)) {
	var walk func(fr *frame)
	walk = func(fr *frame) {
		if fr.depth() > 12 {
			return
		}
		sx.AllInstrs(fr.fn, func(_ sx.Node, in ssa.Instruction) {
			if op, ok := classifyBlocking(in); ok {
				op.fn = fr.fn
				op.frame = fr
				op.chain = fr.chain()
				visit(op)
			}
			var cc *ssa.CallCommon
			switch x := in.(type) {
			case *ssa.Call:
				cc = &x.Call
			case *ssa.Defer:
				cc = &x.Call
			}
			if cc == nil {
				return
			}
			callee := cc.StaticCallee()
			var args []ssa.Value
			if callee == nil {
				// immediately invoked / deferred closure
				if mc, ok := cc.Value.(*ssa.MakeClosure); ok {
					callee = mc.Fn.(*ssa.Function)
				}
			}
			if callee == nil || !inRepo(callee) || fr.onStack(callee) {
				return
			}
			args = cc.Args
			walk(&frame{fn: callee, args: args, parent: fr, site: in})
		})
	}
	walk(&frame{fn: root})
}

// derivesFromCtx decides whether value v (in frame fr) is the given context
// parameter of the root frame, following parameter bindings up the stack and
// field projections of locally built struct arguments.
func derivesFromCtx(v ssa.Value, fr *frame, rootCtx ssa.Value, depth int) bool {
	if depth > 10 {
		return false
	}
	os := sx.Origins(v)
	return sx.All(os, func(o sx.Origin) bool { return originIsCtx(o, fr, rootCtx, depth) })
}

func originIsCtx(o sx.Origin, fr *frame, rootCtx ssa.Value, depth int) bool {
	switch o.Kind {
	case sx.KParam:
		if fr.parent == nil {
			return o.V == rootCtx
		}
		idx := paramIndex(fr.fn, o.V)
		if idx < 0 || idx >= len(fr.args) {
			return false
		}
		return derivesFromCtx(fr.args[idx], fr.parent, rootCtx, depth+1)
	case sx.KField:
		// field F of a struct parameter: look the field up in the caller's argument
		if len(o.Base) == 1 && o.Base[0].Kind == sx.KParam && o.Field != nil {
			if fr.parent == nil {
				// a struct parameter of the root (e.g. state.ctx): not the call's ctx parameter
				return false
			}
			idx := paramIndex(fr.fn, o.Base[0].V)
			if idx < 0 || idx >= len(fr.args) {
				return false
			}
			fi := sx.FieldIndex(fr.args[idx].Type(), o.Field.Name())
			if fi < 0 {
				return false
			}
			return sx.All(sx.FieldOrigins(fr.args[idx], fi), func(o2 sx.Origin) bool { return originIsCtx(o2, fr.parent, rootCtx, depth+1) })
		}
		// embedded/spilled receiver value: KField over a KField of param etc.
		return false
	case sx.KCall:
		// context.WithCancel/WithTimeout(parent): result #0 derives from parent (handled as KExtract)
		return false
	case sx.KExtract:
		if c, ok := o.V.(*ssa.Call); ok && o.Index == 0 && calleeIs(&c.Call, "context.WithCancel", "context.WithTimeout", "context.WithDeadline") {
			return derivesFromCtx(c.Call.Args[0], fr, rootCtx, depth+1)
		}
	}
	return false
}

func paramIndex(fn *ssa.Function, p ssa.Value) int {
	for i, x := range fn.Params {
		if x == p {
			return i
		}
	}
	return -1
}

// selectBoundedBy reports whether a blocking select has a case receiving
// from Done() of the root context.
func selectBoundedBy(op blockOp, rootCtx ssa.Value) bool {
	for _, st := range op.sel.States {
		if st.Dir != types.RecvOnly {
			continue
		}
		if cv, ok := isDoneOf(st.Chan); ok && derivesFromCtx(cv, op.frame, rootCtx, 0) {
			return true
		}
	}
	return false
}

// selectCasesDesc renders the cases of a select for reports.
func selectCasesDesc(sel *ssa.Select) string {
	var cs []string
	for _, st := range sel.States {
		d := "recv "
		if st.Dir == types.SendOnly {
			d = "send "
		}
		if cv, ok := isDoneOf(st.Chan); ok {
			cs = append(cs, "<-"+sx.OriginsString(sx.Origins(cv))+".Done()")
			continue
		}
		cs = append(cs, d+sx.OriginsString(sx.Origins(st.Chan)))
	}
	return strings.Join(cs, " | ")
}

// deliverSelect recognises `select { case router.c <- resp: ; case <-router.done: }`:
// exactly two states, a send on the reply channel field of a responseRouter
// value and a receive from another channel field of the same router value.
// It returns the indices of the send and of the done state.
func deliverSelect(sel *ssa.Select) (send, done int, ok bool) {
	if !sel.Blocking || len(sel.States) != 2 {
		return 0, 0, false
	}
	send, done = -1, -1
	for i, st := range sel.States {
		switch {
		case st.Dir == types.SendOnly && isResponseChan(st.Chan.Type()):
			send = i
		case st.Dir == types.RecvOnly:
			done = i
		}
	}
	if send < 0 || done < 0 {
		return 0, 0, false
	}
	routerField := func(v ssa.Value) (string, bool) {
		base := ""
		okAll := sx.All(sx.Origins(v), func(o sx.Origin) bool {
			if o.Kind != sx.KField || o.Field == nil || o.Field.Pkg() == nil || o.Field.Pkg().Path() != core.RootModule {
				return false
			}
			b := sx.OriginsString(o.Base)
			if base != "" && base != b {
				return false
			}
			base = b
			return true
		})
		return base, okAll && base != ""
	}
	b1, ok1 := routerField(sel.States[send].Chan)
	b2, ok2 := routerField(sel.States[done].Chan)
	if !ok1 || !ok2 || b1 != b2 {
		return 0, 0, false
	}
	return send, done, true
}
