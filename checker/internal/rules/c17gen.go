package rules

import (
	"fmt"
	"go/ast"
	"go/printer"
	"go/token"
	"strings"

	"verif/checker/internal/core"
	"verif/checker/internal/gen"
)

// c17GenFuncs: rules about the template functions that decide which Go types
// and which options a generated stub uses - for every input proto, not only
// for the committed ones (which U1 ties to the templates).
func c17GenFuncs(l *core.Ledger, g *gen.Generator) {
	info := g.Pkg.TypesInfo
	// ---- B7 customOut: a custom return type is a message of the package being generated
	if fd := g.FuncDecl("customOut"); fd != nil && fd.Body != nil {
		// the defect shape: a copy of method.Output.GoIdent whose GoName is overwritten and which is then qualified
		var overwritten *ast.Ident
		ast.Inspect(fd.Body, func(n ast.Node) bool {
			as, ok := n.(*ast.AssignStmt)
			if !ok || len(as.Lhs) != 1 {
				return true
			}
			sel, ok := as.Lhs[0].(*ast.SelectorExpr)
			if !ok || sel.Sel.Name != "GoName" {
				return true
			}
			if id, ok := sel.X.(*ast.Ident); ok {
				overwritten = id
			}
			return true
		})
		inherits := false
		if overwritten != nil {
			obj := objOf(info, overwritten)
			// initialised from the reply type's identifier?
			ast.Inspect(fd.Body, func(n ast.Node) bool {
				as, ok := n.(*ast.AssignStmt)
				if !ok || len(as.Lhs) != 1 || len(as.Rhs) != 1 || objOf(info, as.Lhs[0]) != obj {
					return true
				}
				if sel, ok := as.Rhs[0].(*ast.SelectorExpr); ok && sel.Sel.Name == "GoIdent" {
					if in, ok := sel.X.(*ast.SelectorExpr); ok && in.Sel.Name == "Output" {
						inherits = true
					}
				}
				return true
			})
		}
		l.Check(!inherits, "C17-B7", "gengorums.customOut/package", fd.Pos(), "the custom return type does not take over the reply type's import path", "customOut copies the reply type's Go identifier and replaces only its name: the custom return type inherits the import path of the reply type. With a reply type from another package (rpc Write(State) returns (google.protobuf.Empty) with custom_return_type \"WriteResult\") every generated use reads *emptypb.WriteResult, a type that does not exist - the plugin exits 0 and the file does not compile")
	} else {
		l.Unknown("C17-B7", "anchor/customOut", token.NoPos, "template function customOut not found")
	}
	// ---- B8: an option is in effect when it is set to true, not when it is merely present
	var presenceOnly []string
	var pos token.Pos
	for _, name := range []string{"hasMethodOption", "hasAllMethodOption", "countMethodOptions", "callTypeOptions"} {
		fd := g.FuncDecl(name)
		if fd == nil || fd.Body == nil {
			continue
		}
		has, get := false, false
		var visit func(b *ast.BlockStmt, depth int)
		visit = func(b *ast.BlockStmt, depth int) {
			ast.Inspect(b, func(n ast.Node) bool {
				ce, ok := n.(*ast.CallExpr)
				if !ok {
					return true
				}
				if f := resolvedCall(info, ce); f != nil {
					if f.Pkg() != nil && f.Pkg().Path() == "google.golang.org/protobuf/proto" {
						switch f.Name() {
						case "HasExtension":
							has = true
						case "GetExtension":
							get = true
						}
					} else if depth < 2 {
						if id, ok := ce.Fun.(*ast.Ident); ok {
							if h := g.FuncDecl(id.Name); h != nil && h.Body != nil && h != fd {
								visit(h.Body, depth+1)
							}
						}
					}
				}
				return true
			})
		}
		visit(fd.Body, 0)
		if has && !get {
			presenceOnly = append(presenceOnly, name)
			if !pos.IsValid() {
				pos = fd.Pos()
			}
		}
	}
	l.Check(len(presenceOnly) == 0, "C17-B8", "gengorums.hasMethodOption/value", pos, "option helpers consult the option's value", "the option helpers decide by proto.HasExtension, which reports presence, not the value: option (gorums.async) = false and (gorums.per_node_arg) = false on a quorum call yield an asynchronous stub with a per-node function, and (gorums.multicast) = false turns a plain rpc into a one-way multicast - the generated stub does not use the options declared for the method")
	// ---- B9: wrapper type names
	if fd := g.FuncDecl("outType"); fd != nil && fd.Body != nil {
		strips := false
		ast.Inspect(fd.Body, func(n ast.Node) bool {
			if ce, ok := n.(*ast.CallExpr); ok {
				if id, ok := ce.Fun.(*ast.Ident); ok && id.Name == "field" {
					strips = true
				}
			}
			return true
		})
		l.Check(!strips, "C17-B9", "gengorums.outType/package-qualifier", fd.Pos(), "wrapper type names keep same-named types of different packages apart", "the promise/correctable wrapper type of a method is named prefix + the bare name of its (custom) return type (outType strips the package qualifier), and the wrapper types are generated once per such name: two methods whose return types have the same name in different Go packages (a local message Empty and google.protobuf.Empty) share one AsyncEmpty / CorrectableEmpty, made for one of them; for the other the typed Get asserts the wrong type - nil for ever (correctable) or a panic (async)")
	}
	// ---- B10: field() only strips the qualifier. The names derived through it (wrapper
	// types, embedded fields, the internal reply type) are then distinct for distinct Go
	// type names of one package; a function that also rewrites the name (drops or replaces
	// characters, changes case) maps two messages to one derived name
	if fd := g.FuncDecl("field"); fd != nil && fd.Body != nil {
		allowed := map[string]bool{"LastIndex": true, "Index": true, "LastIndexByte": true, "IndexByte": true, "Cut": true, "HasPrefix": true, "Contains": true, "ContainsRune": true, "IndexRune": true, "Split": true, "SplitN": true, "SplitAfter": true, "TrimPrefix": true}
		var rewrites []string
		ast.Inspect(fd.Body, func(n ast.Node) bool {
			ce, ok := n.(*ast.CallExpr)
			if !ok {
				return true
			}
			f := resolvedCall(info, ce)
			if f == nil {
				if id, ok := ce.Fun.(*ast.Ident); ok && (id.Name == "len" || id.Name == "string") {
					return true
				}
				rewrites = append(rewrites, exprText(ce.Fun))
				return true
			}
			if f.Pkg() != nil && f.Pkg().Path() == "strings" && allowed[f.Name()] {
				return true
			}
			rewrites = append(rewrites, f.FullName())
			return true
		})
		l.Check(len(rewrites) == 0, "C17-B10", "gengorums.field/strips-qualifier-only", fd.Pos(), "field() selects a part of the type name and does not rewrite it", fmt.Sprintf("field() rewrites the type name (%v): two messages of one package whose Go names differ only in what is rewritten (Outer_Inner and OuterInner) get one wrapper type name, one internal reply type and one embedded field - the generated file declares them twice, or the later method is bound to the earlier one's types", rewrites))
	} else {
		l.Unknown("C17-B10", "anchor/field", token.NoPos, "template function field not found")
	}
}

func exprText(e ast.Expr) string {
	var b strings.Builder
	_ = printer.Fprint(&b, token.NewFileSet(), e)
	return b.String()
}

// c16Y10: names the guard does not look at.
func c16Y10(l *core.Ledger, g *gen.Generator) {
	guard := g.FuncDecl("gorumsGuard")
	if guard == nil || guard.Body == nil {
		return
	}
	bodies := []*ast.BlockStmt{guard.Body}
	ast.Inspect(guard.Body, func(n ast.Node) bool {
		if ce, ok := n.(*ast.CallExpr); ok {
			if id, ok := ce.Fun.(*ast.Ident); ok {
				if fd := g.FuncDecl(id.Name); fd != nil && fd.Body != nil && fd != guard && id.Name != "hasGorumsMethods" && id.Name != "validateOptions" {
					bodies = append(bodies, fd.Body)
				}
			}
		}
		return true
	})
	derived, svcOrMethodNames := false, false
	for _, b := range bodies {
		ast.Inspect(b, func(n ast.Node) bool {
			switch x := n.(type) {
			case *ast.SelectorExpr:
				if x.Sel.Name == "outPrefix" {
					derived = true
				}
			case *ast.CallExpr:
				if id, ok := x.Fun.(*ast.Ident); ok && (id.Name == "outType" || id.Name == "internalOut") {
					derived = true
				}
			case *ast.RangeStmt:
				// a loop over services or methods whose body looks at a Go name
				if sel, ok := x.X.(*ast.SelectorExpr); ok && (sel.Sel.Name == "Services" || sel.Sel.Name == "Methods") {
					ast.Inspect(x.Body, func(m ast.Node) bool {
						if s2, ok := m.(*ast.SelectorExpr); ok && s2.Sel.Name == "GoName" {
							svcOrMethodNames = true
						}
						return true
					})
				}
			}
			return true
		})
	}
	l.Check(derived, "C16-Y10", "gengorums.gorumsGuard/derived-type-names", guard.Pos(), "the guard compares the derived wrapper type names with the message names", "the generator declares wrapper types whose names are derived from return types (Async<T>, Correctable<T>, CorrectableStream<T>, internal<T>), but the guard compares only the fixed reserved identifiers with the message names: a message named AsyncState next to an async method returning State is accepted, and the emitted file declares AsyncState twice - exit 0, output that does not compile")
	l.Check(svcOrMethodNames, "C16-Y10", "gengorums.gorumsGuard/service-and-method-names", guard.Pos(), "the guard also looks at service and method names", "the guard compares only message names with the reserved identifiers: a service named Manager, Node, Configuration or QuorumSpec, or a quorum-call method named Nodes, And or Except (methods the static Configuration type already has) is accepted, and the emitted file does not compile")
}
