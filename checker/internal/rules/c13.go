package rules

import (
	"fmt"
	"go/constant"
	"go/token"
	"go/types"
	"sort"
	"strings"

	"golang.org/x/tools/go/ssa"

	"verif/checker/internal/core"
	"verif/checker/internal/sx"
)

func init() {
	register("C13", Entry{
		Title: "The wire codec round-trips every message and never panics on any input",
		Run:   runC13,
		Meta: core.PropertyMeta{
			Explanation: "Decides (i) that no construct that can panic on attacker-controlled data exists unguarded in the decode path inside gorums and (ii) that encoder and decoder agree on the frame table; equality of decoded and encoded *values* is delegated to the protobuf library. D1: for every function reachable from Codec.Unmarshal inside the repository plus the two receive loops, every panicking construct (single-result type assertion, slice/index expression with non-constant bounds, explicit panic) is a comma-ok form, dominated by a test of the faulting condition, or in the reasoned table with machine-checked side conditions (b[mdLen:]: mdLen and the sliced buffer come from the same ConsumeBytes(b), the metadata was decoded from that call's bytes first, and the slice is dominated by the success edge of the registry lookup of the decoded method name - a negative length yields nil bytes, hence an empty method name, hence a failed lookup). D2: gorumsMarshal emits, for Metadata then Message, AppendVarint(Size(X)) and MarshalAppend(X); gorumsUnmarshal consumes ConsumeBytes then Unmarshal into the same fields in the same order; both option literals agree on AllowPartial. D3: requestType selects methodDesc.Input(), responseType Output(), anything else an error; the server allocates newMessage(requestType) for RecvMsg and the client newMessage(responseType); nobody else builds a Message with a message type. D4: status transport (C07-E5 re-run). D5: Codec.Marshal/Unmarshal type switches end in an error default. D6: the Go type of a decoded reply is chosen by the wire-supplied method name, and generated stubs assert the reply's type unchecked; therefore delivery of a message-carrying response must be control-dependent on the reply's method being equal to the method recorded for the pending call when its router was registered.",
			NotDecided:  "Round-trip equality for every value; panics inside protobuf or gRPC; nil dereferences of decode targets that were not built by newMessage (D3 shows all are).",
			Trusted:     append([]string{"protowire.ConsumeBytes returns (nil, n<0) on malformed input and 0 <= n <= len(b) otherwise", "proto.Unmarshal of zero bytes leaves a fresh message empty", "protoregistry lookup of the empty name fails"}, commonTrust...),
		},
	})
}

func runC13(l *core.Ledger) {
	r := runtimePkg(l)
	if r == nil {
		return
	}
	l.Rule("C13-D1", "decode path: every single-result type assertion, non-constant slice/index expression and explicit panic is comma-ok, guarded by a dominating test, or in the reasoned table with verified side conditions")
	l.Rule("C13-D2", "frame table: marshal emits [varint(Size(Metadata)), Metadata, varint(Size(Message)), Message]; unmarshal consumes [ConsumeBytes→Metadata, ConsumeBytes→Message] in that order; AllowPartial agrees")
	l.Rule("C13-D3", "direction table: requestType ↦ Input(), responseType ↦ Output(), default ↦ error; server decodes into newMessage(requestType), client into newMessage(responseType); who-may-set Message.msgType = newMessage")
	l.Rule("C13-D4", "handler status transport (C07-E5 re-run)")
	l.Rule("C13-D5", "Codec.Marshal and Codec.Unmarshal return an error for unsupported argument types")
	l.Rule("C13-D9", "the text of a handler's status arrives as it was sent: it travels in a proto3 string, so either both sides apply an unconditional encode/decode pair that can carry arbitrary bytes, or nobody rewrites it (then text that is not valid UTF-8 cannot be marshalled: known finding); a rewrite on one side only, or under a content test on one side only, changes some texts")
	l.Rule("C13-D8", "a decode that can report success has stored a freshly created message of the method's type into msg.Message (never nil on a success return)")
	l.Rule("C13-D10", "the type of the decoded message is selected by the method name and the direction: every registry call, map lookup or memo consulted for the type that is instantiated into msg.Message is keyed by values that depend on both")
	l.Rule("C13-D11", "every decode yields a message object of its own: what is stored into msg.Message is created by this decode (New() of the selected type), not an object kept in a table or a package-level variable from an earlier decode")
	l.Rule("C13-D7", "decoding overwrites: the codec's unmarshal options do not set Merge, or every RecvMsg target is a newMessage result built between two receives")
	l.Rule("C13-D6", "delivery of a message-carrying response is dominated by the match edge of a comparison of the reply's method with the method recorded in the router at registration")

	um := r.mustFn("C13-D1", "Codec.Unmarshal")
	gum := r.mustFn("C13-D1", "Codec.gorumsUnmarshal")
	gm := r.mustFn("C13-D2", "Codec.gorumsMarshal")
	if um == nil || gum == nil || gm == nil {
		return
	}
	// ---- D1
	fns := map[*ssa.Function]bool{}
	var collect func(f *ssa.Function)
	collect = func(f *ssa.Function) {
		if fns[f] {
			return
		}
		fns[f] = true
		sx.AllInstrs(f, func(_ sx.Node, in ssa.Instruction) {
			if c, ok := in.(*ssa.Call); ok {
				if callee := c.Call.StaticCallee(); callee != nil && inRepo(callee) && callee.Pkg != nil && callee.Pkg.Pkg.Path() == core.RootModule {
					collect(callee)
				}
			}
		})
	}
	collect(um)
	if sl := findServerLoop(l, r, "C13-D1"); sl != nil {
		fns[sl.fn] = true
	}
	for _, f := range allFuncs(l.Prog, r.pkg) {
		if f.Signature.Recv() != nil && isNamed(f.Signature.Recv().Type(), core.RootModule, "channel") && len(recvMsgCalls(f)) > 0 {
			fns[f] = true
		}
	}
	var list []*ssa.Function
	for f := range fns {
		list = append(list, f)
	}
	sort.Slice(list, func(i, j int) bool { return fnKey(list[i]) < fnKey(list[j]) })
	n := 0
	for _, f := range list {
		cnt := map[string]int{}
		sx.AllInstrs(f, func(nd sx.Node, in ssa.Instruction) {
			mk := func(kind string) string {
				cnt[kind]++
				return fmt.Sprintf("%s/%s#%d", fnKey(f), kind, cnt[kind])
			}
			switch x := in.(type) {
			case *ssa.TypeAssert:
				n++
				if x.CommaOk {
					l.OK("C13-D1", mk("type-assert"), x.Pos(), "comma-ok form")
					return
				}
				if why, ok := c13HomogeneousMemo(l, r, x); ok {
					l.OK("C13-D1", mk("type-assert"), x.Pos(), why)
					return
				}
				l.Bad("C13-D1", mk("type-assert"), x.Pos(), "single-result type assertion "+types.TypeString(x.AssertedType, shortQual)+" on a value chosen by wire data ("+sx.OriginsString(sx.Origins(x.X))+"): a name that resolves to another kind of entity (e.g. a message name in the method field) panics the receiving process")
			case *ssa.Panic:
				if c, ok := x.X.(*ssa.MakeInterface); ok {
					if k, isC := c.X.(*ssa.Const); isC && k.Value != nil && strings.Contains(k.Value.String(), "blocking select matched no case") {
						return
					}
				}
				n++
				l.Bad("C13-D1", mk("panic"), x.Pos(), "explicit panic on the decode path")
			case *ssa.Slice:
				nonConst := func(v ssa.Value) bool {
					if v == nil {
						return false
					}
					_, isC := v.(*ssa.Const)
					return !isC
				}
				if !nonConst(x.Low) && !nonConst(x.High) {
					return
				}
				if _, isAl := x.X.(*ssa.Alloc); isAl {
					return
				}
				n++
				k := mk("slice")
				if ok, why := c13SliceTable(f, x, nd); ok {
					l.OK("C13-D1", k, x.Pos(), "table entry with verified side conditions: "+why)
				} else {
					l.Bad("C13-D1", k, x.Pos(), "slice expression with a bound computed from wire data and no verified guard: "+why)
				}
			case *ssa.IndexAddr:
				if _, isC := x.Index.(*ssa.Const); isC {
					return
				}
				if _, isArr := x.X.Type().Underlying().(*types.Pointer); isArr {
					return
				}
				n++
				l.Bad("C13-D1", mk("index"), x.Pos(), "index expression with a non-constant index on the decode path")
			}
		})
	}
	l.Floor("C13-D1", n, 2, "panicking constructs on the decode path")

	c13D2(l, r, gm, gum)
	c13D3(l, r, gum)
	l.With(map[string]string{"C07-E5": "C13-D4"}, func() { c07E5(l, r) })
	c13D5(l, r)
	c13D6(l, r)
	c13D7(l, r)
	c13D8(l, r, gum)
	c13D9(l, r)
	c13D10(l, r, gum)
	c13D11(l, r, gum)
	l.Rule("C13-D12", "what is encoded for a node is the message made for that node (C06-P1 re-run: each node's queue gets a Message of its own whose payload is the caller's request or the per-node result) - an encoding kept in, or reachable from, an envelope that is copied per node makes Marshal return another node's frame")
	l.With(map[string]string{"C06-P1": "C13-D12"}, func() {
		for _, ep := range findEntryPoints(l, r, "C13-D12") {
			c06P1(l, ep)
		}
	})
}

// c13SliceTable verifies the side conditions of the b[mdLen:] entry.
func c13SliceTable(f *ssa.Function, s *ssa.Slice, nd sx.Node) (bool, string) {
	if s.High != nil || s.Low == nil {
		return false, "not of the form b[n:]"
	}
	// (1) low = result #1 of ConsumeBytes(X) with X the sliced buffer
	lo, ok := sx.Single(sx.Origins(s.Low))
	if !ok || lo.Kind != sx.KExtract || lo.Index != 1 {
		return false, "bound is not the length returned by ConsumeBytes"
	}
	cb, ok := lo.V.(*ssa.Call)
	if !ok || !calleeIs(&cb.Call, "google.golang.org/protobuf/encoding/protowire.ConsumeBytes") || cb.Call.Args[0] != s.X {
		return false, "bound does not come from ConsumeBytes of the same buffer"
	}
	// (2) metadata decoded from result #0 of that call, before
	var mdUnm *ssa.Call
	sx.AllInstrs(f, func(_ sx.Node, in ssa.Instruction) {
		c, isCall := in.(*ssa.Call)
		if !isCall || c.Call.StaticCallee() == nil || c.Call.StaticCallee().Name() != "Unmarshal" || len(c.Call.Args) != 3 {
			return
		}
		if sx.All(sx.Origins(c.Call.Args[1]), sx.IsExtractOf(cb, 0)) && sx.All(sx.Origins(c.Call.Args[2]), sx.IsFieldNamed("Metadata", sx.AnyOrigin)) {
			mdUnm = c
		}
	})
	if mdUnm == nil || !sx.InstrDominates(f, mdUnm, nd) {
		return false, "the metadata is not decoded from the bytes of that ConsumeBytes call before the slice"
	}
	// (3) dominated by the success edge of a registry lookup of the decoded method name
	okLookup := false
	sx.AllInstrs(f, func(_ sx.Node, in ssa.Instruction) {
		c, isCall := in.(*ssa.Call)
		if !isCall || c.Call.StaticCallee() == nil || c.Call.StaticCallee().Name() != "FindDescriptorByName" {
			return
		}
		if !sx.All(sx.Origins(c.Call.Args[1]), sx.IsFieldNamed("Method", sx.IsFieldNamed("Metadata", sx.AnyOrigin))) {
			return
		}
		if !sx.InstrDominates(f, mdUnm, sx.NodeOf(c)) {
			return
		}
		m := sx.IsExtractOf(c, 1)
		var okEdges []sx.Edge
		sx.AllInstrs(f, func(_ sx.Node, in2 ssa.Instruction) {
			if ifi, isIf := in2.(*ssa.If); isIf && isErrNonNil(ifi, m) != 0 {
				okEdges = append(okEdges, errEdge(ifi, m, false))
			}
		})
		if edgesDominate(f, okEdges, nd) {
			okLookup = true
		}
	})
	if !okLookup {
		return false, "the slice is not dominated by the success edge of the registry lookup of the decoded method name"
	}
	return true, "n from ConsumeBytes(b); metadata decoded from its bytes; lookup of the decoded method name succeeded ⇒ n >= 0"
}

func c13D2(l *core.Ledger, r *rt, gm, gum *ssa.Function) {
	// marshal: ordered events
	type ev struct {
		kind, field string
	}
	fieldOfMsg := func(v ssa.Value, msg ssa.Value) string {
		for _, o := range sx.Origins(v) {
			if o.Kind == sx.KField && o.Field != nil && sx.All(o.Base, sx.IsParam(msg)) {
				return o.Field.Name()
			}
		}
		return "?"
	}
	var mev []ev
	okVarint := true
	for _, b := range gm.DomPreorder() {
		for _, in := range b.Instrs {
			c, ok := in.(*ssa.Call)
			if !ok || c.Call.StaticCallee() == nil {
				continue
			}
			switch c.Call.StaticCallee().Name() {
			case "Size":
				mev = append(mev, ev{"size", fieldOfMsg(c.Call.Args[1], gm.Params[1])})
			case "AppendVarint":
				// value = the most recent Size
				fld := "?"
				for _, o := range sx.Origins(c.Call.Args[1]) {
					if sc, isCall := o.V.(*ssa.Call); isCall && sc.Call.StaticCallee() != nil && sc.Call.StaticCallee().Name() == "Size" {
						fld = fieldOfMsg(sc.Call.Args[1], gm.Params[1])
					}
				}
				if cv, isConv := c.Call.Args[1].(*ssa.Convert); isConv {
					if sc, isCall := cv.X.(*ssa.Call); isCall && sc.Call.StaticCallee() != nil && sc.Call.StaticCallee().Name() == "Size" {
						fld = fieldOfMsg(sc.Call.Args[1], gm.Params[1])
					}
				}
				if fld == "?" {
					okVarint = false
				}
				mev = append(mev, ev{"varint", fld})
			case "MarshalAppend":
				mev = append(mev, ev{"body", fieldOfMsg(c.Call.Args[2], gm.Params[1])})
			}
		}
	}
	var frames []string
	for _, e := range mev {
		if e.kind != "size" {
			frames = append(frames, e.kind+":"+e.field)
		}
	}
	wantM := []string{"varint:Metadata", "body:Metadata", "varint:Message", "body:Message"}
	okM := okVarint && strings.Join(frames, ",") == strings.Join(wantM, ",")
	// unmarshal
	var uev []string
	for _, b := range gum.DomPreorder() {
		for _, in := range b.Instrs {
			c, ok := in.(*ssa.Call)
			if !ok || c.Call.StaticCallee() == nil {
				continue
			}
			switch c.Call.StaticCallee().Name() {
			case "ConsumeBytes":
				uev = append(uev, "consume")
			case "Unmarshal":
				if len(c.Call.Args) == 3 {
					// source bytes must be result #0 of the preceding ConsumeBytes
					src := "?"
					if o, ok := sx.Single(sx.Origins(c.Call.Args[1])); ok && o.Kind == sx.KExtract && o.Index == 0 {
						if cc, isCall := o.V.(*ssa.Call); isCall && cc.Call.StaticCallee() != nil && cc.Call.StaticCallee().Name() == "ConsumeBytes" {
							src = "consumed"
						}
					}
					uev = append(uev, "decode:"+fieldOfMsg(c.Call.Args[2], gum.Params[2])+":"+src)
				}
			}
		}
	}
	wantU := []string{"consume", "decode:Metadata:consumed", "consume", "decode:Message:consumed"}
	okU := strings.Join(uev, ",") == strings.Join(wantU, ",")
	// the second ConsumeBytes reads b[n1:] (checked by D1's table) — and the first reads b
	l.Check(okM && okU, "C13-D2", "gorums.(Codec).gorumsMarshal|gorumsUnmarshal", gm.Pos(), "frames agree: "+strings.Join(wantM, " "),
		fmt.Sprintf("encoder and decoder disagree on the frame table: marshal emits %v (want %v), unmarshal consumes %v (want %v)", frames, wantM, uev, wantU))
	// AllowPartial agreement in NewCodec
	if nc := r.mustFn("C13-D2", "NewCodec"); nc != nil {
		vals := map[string]string{}
		sx.AllInstrs(nc, func(_ sx.Node, in ssa.Instruction) {
			st, ok := in.(*ssa.Store)
			if !ok {
				return
			}
			fa, ok := st.Addr.(*ssa.FieldAddr)
			if !ok {
				return
			}
			f := fieldOf(fa.X.Type(), fa.Field)
			if f == nil || f.Name() != "AllowPartial" {
				return
			}
			outer := "?"
			if ofa, ok := fa.X.(*ssa.FieldAddr); ok {
				outer = fieldOf(ofa.X.Type(), ofa.Field).Name()
			} else if al, ok := fa.X.(*ssa.Alloc); ok {
				// literal stored into the outer field later
				for _, ref := range *al.Referrers() {
					if ld, ok := ref.(*ssa.UnOp); ok {
						for _, r2 := range *ld.Referrers() {
							if st2, ok := r2.(*ssa.Store); ok {
								if ofa, ok := st2.Addr.(*ssa.FieldAddr); ok {
									outer = fieldOf(ofa.X.Type(), ofa.Field).Name()
								}
							}
						}
					}
				}
			}
			if c, ok := st.Val.(*ssa.Const); ok && c.Value != nil {
				vals[outer] = c.Value.String()
			}
		})
		// the decoder must accept everything the encoder can emit: no limit or filter on one side only
		for _, f := range allFuncs(l.Prog, r.pkg) {
			sx.AllInstrs(f, func(_ sx.Node, in ssa.Instruction) {
				st, ok := in.(*ssa.Store)
				if !ok {
					return
				}
				fa, ok := st.Addr.(*ssa.FieldAddr)
				if !ok || !isNamed(fa.X.Type(), "google.golang.org/protobuf/proto", "UnmarshalOptions") {
					return
				}
				fl := fieldOf(fa.X.Type(), fa.Field)
				if fl == nil {
					return
				}
				switch fl.Name() {
				case "RecursionLimit", "DiscardUnknown":
					if c, isC := st.Val.(*ssa.Const); isC && c.Value != nil && (c.Value.String() == "0" || c.Value.String() == "false") {
						return
					}
					l.Bad("C13-D2", fnKey(f)+"/UnmarshalOptions."+fl.Name(), st.Pos(), "the decoder is given "+fl.Name()+", which the encoder has no counterpart for: a message that Marshal emits (deeply nested, or carrying fields this binary does not know) is rejected or altered by Unmarshal - it does not round-trip, and a rejected frame ends the stream")
				}
			})
		}
		l.Check(vals["marshaler"] == vals["unmarshaler"], "C13-D2", "gorums.NewCodec/AllowPartial", nc.Pos(), fmt.Sprintf("AllowPartial agrees (%v)", vals), fmt.Sprintf("marshaler and unmarshaler disagree on AllowPartial: %v — a message one side emits is rejected by the other", vals))
	}
}

func c13D3(l *core.Ledger, r *rt, gum *ssa.Function) {
	// the switch on msg.msgType
	reqT, _ := r.pkg.Types.Scope().Lookup("requestType").(*types.Const)
	respT, _ := r.pkg.Types.Scope().Lookup("responseType").(*types.Const)
	if reqT == nil || respT == nil {
		l.Unknown("C13-D3", "anchor/msgType-consts", token.NoPos, "requestType/responseType not found")
		return
	}
	dir := map[string]string{}
	var tests []*ssa.If
	sx.AllInstrs(gum, func(_ sx.Node, in ssa.Instruction) {
		ifi, ok := in.(*ssa.If)
		if !ok {
			return
		}
		b, ok := ifi.Cond.(*ssa.BinOp)
		if !ok || b.Op != token.EQL {
			return
		}
		k, isC := b.Y.(*ssa.Const)
		if !isC || k.Value == nil || !sx.All(sx.Origins(b.X), sx.IsFieldNamed("msgType", sx.AnyOrigin)) {
			return
		}
		tests = append(tests, ifi)
		name := "?"
		switch {
		case constant.Compare(k.Value, token.EQL, reqT.Val()):
			name = "requestType"
		case constant.Compare(k.Value, token.EQL, respT.Val()):
			name = "responseType"
		}
		// which descriptor accessor is invoked on the true edge
		te, _ := sx.CondEdges(ifi)
		for _, in2 := range te.To.Instrs {
			if c, isCall := in2.(*ssa.Call); isCall && c.Call.IsInvoke() && (c.Call.Method.Name() == "Input" || c.Call.Method.Name() == "Output") {
				dir[name] = c.Call.Method.Name()
			}
		}
	})
	okDir := dir["requestType"] == "Input" && dir["responseType"] == "Output" && len(dir) == 2
	// default: the all-false path returns a non-nil error
	okDefault := false
	if len(tests) > 0 {
		falseOnly := map[sx.Edge]bool{}
		for _, t := range tests {
			te, _ := sx.CondEdges(t)
			falseOnly[te] = true
		}
		first := tests[0]
		w, reach := sx.Reach(sx.Node{B: first.Block(), I: len(first.Block().Instrs) - 2}, sx.IsReturn, sx.Query{BlockEdge: func(e sx.Edge) bool { return falseOnly[e] }})
		if reach {
			ret := w.Instr().(*ssa.Return)
			if nn, _ := errNonNilByConstruction(gum, ret.Results[0], w); nn {
				okDefault = true
			}
		}
	}
	l.Check(okDir && okDefault, "C13-D3", "gorums.(Codec).gorumsUnmarshal/direction", gum.Pos(), "requestType→Input, responseType→Output, default→error", fmt.Sprintf("direction table broken: %v, error default: %v", dir, okDefault))
	// who may set msgType, and with what
	var setters []string
	for _, a := range collectAccesses(l, r, "Message", "msgType") {
		if a.kind == "write" {
			setters = append(setters, fnKey(a.fn))
		}
	}
	setters = dedupStrings(setters)
	l.Check(len(setters) == 1 && setters[0] == "gorums.newMessage", "C13-D3", "who-may-set/Message.msgType", token.NoPos, "only newMessage", fmt.Sprintf("Message.msgType is set by %v", setters))
	// server decodes requests, client decodes responses
	check := func(fn *ssa.Function, rc *ssa.Call, want *types.Const, who string) {
		tgt, ok := sx.Single(sx.Origins(rc.Call.Args[0]))
		okT := false
		if ok && tgt.Kind == sx.KCall {
			c := tgt.V.(*ssa.Call)
			if c.Call.StaticCallee() != nil && c.Call.StaticCallee().Name() == "newMessage" {
				if k, isC := c.Call.Args[0].(*ssa.Const); isC && k.Value != nil && constant.Compare(k.Value, token.EQL, want.Val()) {
					okT = true
				}
			}
		}
		l.Check(okT, "C13-D3", fnKey(fn)+"/decode-target", rc.Pos(), who+" decodes into newMessage("+want.Name()+")", who+" does not decode into a Message of direction "+want.Name()+": requests would be decoded with the response type or vice versa")
	}
	if sl := findServerLoop(l, r, "C13-D3"); sl != nil {
		check(sl.fn, sl.recv, reqT, "the server")
	}
	for _, f := range allFuncs(l.Prog, r.pkg) {
		if f.Signature.Recv() != nil && isNamed(f.Signature.Recv().Type(), core.RootModule, "channel") && len(recvMsgCalls(f)) > 0 {
			check(f, recvMsgCalls(f)[0], respT, "the client")
		}
	}
}

func c13D5(l *core.Ledger, r *rt) {
	for _, name := range []string{"Marshal", "Unmarshal"} {
		fn := r.mustFn("C13-D5", "Codec."+name)
		if fn == nil {
			continue
		}
		// the path on which every type-switch test fails returns a non-nil error
		var oks []sx.Edge
		sx.AllInstrs(fn, func(_ sx.Node, in ssa.Instruction) {
			ifi, ok := in.(*ssa.If)
			if !ok {
				return
			}
			if e, isE := ifi.Cond.(*ssa.Extract); isE {
				if ta, isTA := e.Tuple.(*ssa.TypeAssert); isTA && ta.CommaOk && e.Index == 1 {
					te, _ := sx.CondEdges(ifi)
					oks = append(oks, te)
				}
			}
		})
		okDef := false
		w, reach := sx.Reach(sx.Entry(fn), sx.IsReturn, sx.Query{BlockEdge: func(e sx.Edge) bool { return edgeIn(e, oks) }})
		if reach && len(oks) >= 2 {
			ret := w.Instr().(*ssa.Return)
			last := ret.Results[len(ret.Results)-1]
			if nn, _ := errNonNilByConstruction(fn, last, w); nn {
				okDef = true
			}
		}
		l.Check(okDef, "C13-D5", "gorums.(Codec)."+name, fn.Pos(), "unsupported types yield an error", name+" has no error default for unsupported argument types")
	}
}

func c13D6(l *core.Ledger, r *rt) {
	rm := buildRouterModel(l, r, "C13-D6")
	if rm == nil {
		return
	}
	n := 0
	for _, d := range rm.deliveries {
		// only deliveries that can carry a message: forwards of a response parameter
		if _, isLit := structLiteral(d.val); isLit && len(spillAlternatives(d.val)) <= 1 {
			continue
		}
		n++
		fn := d.fn
		key := d.name + "/deliver"
		// comparisons router.<F1> ==/!= resp.<F2> on strings
		isRouterField := func(v ssa.Value) bool {
			return sx.All(sx.Origins(v), func(o sx.Origin) bool {
				if o.Kind != sx.KField || o.Field == nil {
					return false
				}
				return sx.All(o.Base, func(b sx.Origin) bool {
					lk, ok := b.V.(*ssa.Lookup)
					return b.Kind == sx.KExtract && ok && sx.All(sx.Origins(lk.X), func(m sx.Origin) bool { return m.Kind == sx.KField && m.Field == rm.field })
				})
			})
		}
		isRespField := func(v ssa.Value) bool {
			// any string field of the response parameter (through its spill slot)
			st, ok := d.fn.Params[len(d.fn.Params)-1].Type().Underlying().(*types.Struct)
			if !ok {
				return false
			}
			for i := 0; i < st.NumFields(); i++ {
				if bt, isB := st.Field(i).Type().Underlying().(*types.Basic); isB && bt.Kind() == types.String && loadsFieldOfParam(v, st.Field(i).Name()) {
					return true
				}
			}
			return false
		}
		var match []sx.Edge
		sx.AllInstrs(fn, func(_ sx.Node, in ssa.Instruction) {
			ifi, ok := in.(*ssa.If)
			if !ok {
				return
			}
			v, pos := condOf(ifi)
			b, ok := v.(*ssa.BinOp)
			if !ok || (b.Op != token.EQL && b.Op != token.NEQ) {
				return
			}
			if bt, isB := b.X.Type().Underlying().(*types.Basic); !isB || bt.Kind() != types.String {
				return
			}
			if !((isRouterField(b.X) && isRespField(b.Y)) || (isRouterField(b.Y) && isRespField(b.X))) {
				return
			}
			t, f := sx.CondEdges(ifi)
			if (b.Op == token.EQL) == pos {
				match = append(match, t)
			} else {
				match = append(match, f)
			}
		})
		// the value sent: where it is (derived from) the response parameter, the path must come through a match edge,
		// or through an edge on which the response carries no message
		noMsg := nilTestEdgesOn(fn, func(v ssa.Value) bool { return loadsFieldOfParam(v, "msg") }, false)
		allowed := append(append([]sx.Edge{}, match...), noMsg...)
		ok := len(match) > 0
		if ok {
			sendNode := sx.NodeOf(d.send)
			switch v := d.val.(type) {
			case *ssa.Phi:
				for j, e := range v.Edges {
					if sx.Any(sx.Origins(e), func(o sx.Origin) bool { return o.Kind == sx.KParam }) {
						pred := v.Block().Preds[j]
						edge := sx.Edge{From: pred, To: v.Block()}
						if !edgeIn(edge, allowed) && !edgesDominate(fn, allowed, sx.Node{B: pred, I: 0}) {
							ok = false
						}
					}
				}
			default:
				// the parameter itself (possibly re-assigned through its spill slot)
				if !edgesDominate(fn, allowed, sendNode) {
					// a re-assignment on the mismatch path is fine if the stored value is a message-free literal
					okStore := false
					if ld, isLd := d.val.(*ssa.UnOp); isLd {
						if al, isAl := ld.X.(*ssa.Alloc); isAl {
							// every path to the send that avoids the allowed edges passes a store of a literal without msg
							isSafeStore := func(nd sx.Node) bool {
								st, isSt := nd.Instr().(*ssa.Store)
								if !isSt || st.Addr != ssa.Value(al) {
									return false
								}
								lit, isLit := structLiteral(st.Val)
								if !isLit {
									lit, isLit = inPlaceLiteral(st)
								}
								return isLit && lit["msg"] == nil && lit["err"] != nil
							}
							if _, reach := sx.Reach(sx.Entry(fn), func(x sx.Node) bool { return x == sendNode }, sx.Query{BlockNode: isSafeStore, BlockEdge: func(e sx.Edge) bool { return edgeIn(e, allowed) }}); !reach {
								okStore = true
							}
						}
					}
					ok = okStore
				}
			}
		}
		l.Check(ok, "C13-D6", key, d.send.Pos(), "message-carrying replies are delivered only when their method matches the pending call's",
			"a reply is delivered to the pending call whatever method name it carries: the codec chose its Go type from that wire-supplied name, and the generated stub's unchecked res.(*T) / v.(*Out) assertion then panics the calling process (on a library goroutine for async and correctable calls) when a server answers under another registered method")
	}
	l.Floor("C13-D6", n, 1, "deliveries that forward a received response")
	// the router records the request's method, the reader passes the reply's
	if len(c13RouterMethodField(l, r, rm)) == 0 {
		l.Bad("C13-D6", "router/method-recorded", token.NoPos, "routers do not record the method of the request they were registered for")
	} else {
		l.OK("C13-D6", "router/method-recorded", token.NoPos, "enqueue stores req.msg.Metadata.Method in the router")
	}
}

func c13RouterMethodField(l *core.Ledger, r *rt, rm *routerModel) []string {
	var out []string
	for _, a := range rm.accesses {
		if a.kind != "insert" {
			continue
		}
		mu := a.at.(*ssa.MapUpdate)
		lit, ok := structLiteral(mu.Value)
		if !ok {
			continue
		}
		for name, v := range lit {
			if sx.All(sx.Origins(v), sx.IsFieldNamed("Method", sx.IsFieldNamed("Metadata", sx.IsFieldNamed("msg", sx.AnyOrigin)))) {
				out = append(out, name)
			}
		}
	}
	return out
}

// c13D7: a decode must overwrite, not accumulate. proto.UnmarshalOptions.Merge
// makes Unmarshal keep whatever the target already holds; that is harmless
// only while every decode target is fresh. The rule is the disjunction: the
// codec's unmarshal options do not set Merge, or every RecvMsg target of the
// runtime is built by a newMessage call executed between two receives.
func c13D7(l *core.Ledger, r *rt) {
	var mergeSites []ssa.Instruction
	for _, f := range allFuncs(l.Prog, r.pkg) {
		sx.AllInstrs(f, func(_ sx.Node, in ssa.Instruction) {
			st, ok := in.(*ssa.Store)
			if !ok {
				return
			}
			fa, ok := st.Addr.(*ssa.FieldAddr)
			if !ok {
				return
			}
			fl := fieldOf(fa.X.Type(), fa.Field)
			if fl == nil || fl.Name() != "Merge" || !isNamed(fa.X.Type(), "google.golang.org/protobuf/proto", "UnmarshalOptions") {
				return
			}
			if k, isC := st.Val.(*ssa.Const); isC && k.Value != nil && k.Value.String() == "false" {
				return
			}
			mergeSites = append(mergeSites, in)
		})
	}
	var stale []string
	nrecv := 0
	for _, f := range allFuncs(l.Prog, r.pkg) {
		for _, rc := range recvMsgCalls(f) {
			if len(rc.Call.Args) != 1 {
				continue
			}
			nrecv++
			os := sx.Origins(rc.Call.Args[0])
			fresh := len(os) > 0
			for _, o := range os {
				c, isCall := o.V.(*ssa.Call)
				if o.Kind != sx.KCall || !isCall || c.Call.StaticCallee() == nil || c.Call.StaticCallee().Name() != "newMessage" || c.Parent() != f {
					fresh = false
					continue
				}
				if sx.InLoop(sx.NodeOf(rc)) {
					if _, must := sx.MustPassThrough(sx.NodeOf(rc), sx.IsInstr(c), sx.IsInstr(rc)); !must {
						fresh = false
					}
				}
			}
			if !fresh {
				stale = append(stale, fnKey(f)+" at "+l.Prog.Pos(rc.Pos()))
			}
		}
	}
	l.Floor("C13-D7", nrecv, 2, "RecvMsg sites in the runtime")
	pos := token.NoPos
	if len(mergeSites) > 0 {
		pos = mergeSites[0].Pos()
	}
	l.Check(len(mergeSites) == 0 || len(stale) == 0, "C13-D7", "decode-overwrites", pos, fmt.Sprintf("Merge set at %d site(s); reused decode targets: %d", len(mergeSites), len(stale)),
		fmt.Sprintf("the codec's unmarshal options set Merge and a decode target is reused across receives (%v): metadata of an earlier frame (e.g. a handler's error status) survives into later frames, so the decoded message is not equal to the encoded one", stale))
}

// c13D8: a decode that reports success has produced a message. The stubs and
// the server loop use Message without a nil test (the type of a successfully
// decoded frame is the method's message type by D3), so every return of
// gorumsUnmarshal whose error can be nil must be dominated by a store of a
// freshly created message into msg.Message, with no store of nil in between.
func c13D8(l *core.Ledger, r *rt, gum *ssa.Function) {
	if len(gum.Params) < 3 {
		return
	}
	msg := gum.Params[2]
	var nonNil, nilStores []*ssa.Store
	sx.AllInstrs(gum, func(_ sx.Node, in ssa.Instruction) {
		st, ok := in.(*ssa.Store)
		if !ok {
			return
		}
		base, ok := fieldAddrOf(st.Addr, "Message")
		if !ok || !sx.All(sx.Origins(base), sx.IsParam(msg)) {
			return
		}
		if k, isC := st.Val.(*ssa.Const); isC && k.IsNil() {
			nilStores = append(nilStores, st)
		} else {
			nonNil = append(nonNil, st)
		}
	})
	isNonNilStore := func(n sx.Node) bool {
		for _, s := range nonNil {
			if n.Instr() == ssa.Instruction(s) {
				return true
			}
		}
		return false
	}
	n := 0
	sx.AllInstrs(gum, func(nd sx.Node, in ssa.Instruction) {
		ret, ok := in.(*ssa.Return)
		if !ok || len(ret.Results) != 1 {
			return
		}
		if sx.KnownNonNil(ret.Results[0], nd.B) {
			return // an error return
		}
		if nn, _ := errNonNilByConstruction(gum, ret.Results[0], nd); nn {
			return
		}
		n++
		key := fmt.Sprintf("gorums.(Codec).gorumsUnmarshal/success-return#%d", n)
		dom := false
		for _, s := range nonNil {
			if sx.InstrDominates(gum, s, nd) {
				dom = true
			}
		}
		clean := true
		for _, ns := range nilStores {
			if _, must := sx.MustPassThrough(sx.NodeOf(ns), isNonNilStore, func(x sx.Node) bool { return x == nd }); !must {
				clean = false
			}
		}
		l.Check(dom && clean, "C13-D8", key, ret.Pos(), "a decode that can report success has stored a fresh message",
			fmt.Sprintf("gorumsUnmarshal can return without an error although msg.Message holds no message (set on every path: %v; not reset to nil afterwards: %v): the frame is delivered as a success with a nil message, and the first unchecked use of it - the generated stubs' type assertion, the handlers' request cast - panics the receiving process", dom, clean))
	})
	l.Floor("C13-D8", n, 1, "returns of gorumsUnmarshal that can report success")
}

// c13D9: sibling agreement on what happens to Status.Message between the
// handler's error and the caller's error.
func c13D9(l *core.Ledger, r *rt) {
	const spb = "google.golang.org/genproto/googleapis/rpc/status"
	type rewrite struct {
		fn          *ssa.Function
		st          *ssa.Store
		conditional bool
	}
	var server, client, other []rewrite
	for _, f := range allFuncs(l.Prog, r.pkg) {
		f := f
		sx.AllInstrs(f, func(n sx.Node, in ssa.Instruction) {
			st, ok := in.(*ssa.Store)
			if !ok {
				return
			}
			fa, ok := st.Addr.(*ssa.FieldAddr)
			if !ok || !isNamed(fa.X.Type(), spb, "Status") {
				return
			}
			if _, fresh := fa.X.(*ssa.Alloc); fresh {
				return // building a new status value
			}
			// content-dependent guard: a dominating branch on utf8.Valid*(…)
			cond := false
			sx.AllInstrs(f, func(_ sx.Node, in2 ssa.Instruction) {
				ifi, isIf := in2.(*ssa.If)
				if !isIf {
					return
				}
				v, _ := condOf(ifi)
				dep := false
				var walk func(v ssa.Value, d int)
				walk = func(v ssa.Value, d int) {
					if d > 6 || v == nil {
						return
					}
					switch x := v.(type) {
					case *ssa.Call:
						if nm := sx.StaticCalleeName(&x.Call); nm == "unicode/utf8.ValidString" || nm == "unicode/utf8.Valid" {
							dep = true
						}
					case *ssa.BinOp:
						walk(x.X, d+1)
						walk(x.Y, d+1)
					case *ssa.UnOp:
						walk(x.X, d+1)
					case *ssa.Phi:
						for _, e := range x.Edges {
							walk(e, d+1)
						}
					}
				}
				walk(v, 0)
				if !dep {
					return
				}
				t, fl := sx.CondEdges(ifi)
				if sx.EdgeDominates(f, t, n) || sx.EdgeDominates(f, fl, n) {
					cond = true
				}
			})
			// a sanitising rewrite - ToValidUTF8 of the field's own value - is the identity on every
			// text a proto3 string can carry; it changes nothing that could have arrived
			if fl := fieldOf(fa.X.Type(), fa.Field); fl != nil && fl.Name() == "Message" {
				if c, isCall := st.Val.(*ssa.Call); isCall && sx.StaticCalleeName(&c.Call) == "strings.ToValidUTF8" {
					if ld, isLd := c.Call.Args[0].(*ssa.UnOp); isLd {
						if fa2, isFA := ld.X.(*ssa.FieldAddr); isFA && fa2.Field == fa.Field && sameValue(fa2.X, fa.X) {
							return
						}
					}
				}
			}
			rw := rewrite{f, st, cond}
			top := f
			for top.Parent() != nil {
				top = top.Parent()
			}
			switch {
			case top.Name() == "WrapMessage" || calledOnlyBy(l, r, top, "WrapMessage"):
				server = append(server, rw)
			case len(recvMsgCalls(top)) > 0 && top.Signature.Recv() != nil && isNamed(top.Signature.Recv().Type(), core.RootModule, "channel"):
				client = append(client, rw)
			default:
				other = append(other, rw)
			}
		})
	}
	wm := r.fn("WrapMessage")
	pos := token.NoPos
	if wm != nil {
		pos = wm.Pos()
	}
	for _, o := range other {
		l.Bad("C13-D9", fnKey(o.fn)+"/status-rewrite", o.st.Pos(), "a field of a handler's status is rewritten outside WrapMessage and the stream reader: the status no longer arrives as the handler returned it")
	}
	uncond := func(rs []rewrite) bool {
		for _, x := range rs {
			if x.conditional {
				return false
			}
		}
		return len(rs) > 0
	}
	switch {
	case len(server) == 0 && len(client) == 0:
		// nobody rewrites: exact for valid UTF-8; invalid UTF-8 cannot travel at all
		valid := false
		if wm != nil {
			// WrapMessage itself or a helper of the package it hands the error to
			seenF := map[*ssa.Function]bool{}
			var scan func(f *ssa.Function, d int)
			scan = func(f *ssa.Function, d int) {
				if f == nil || seenF[f] || d > 2 || len(f.Blocks) == 0 {
					return
				}
				seenF[f] = true
				sx.AllInstrs(f, func(_ sx.Node, in ssa.Instruction) {
					if cc := sx.CallOf(in); cc != nil {
						if nm := sx.StaticCalleeName(cc); nm == "unicode/utf8.ValidString" || nm == "unicode/utf8.Valid" || nm == "strings.ToValidUTF8" {
							valid = true
						}
						if sc := cc.StaticCallee(); sc != nil && inRepo(sc) {
							scan(sc, d+1)
						}
					}
				})
			}
			scan(wm, 0)
		}
		l.Check(valid, "C13-D9", "gorums.WrapMessage/status-text", pos, "the status text is validated before it is put into the proto3 string",
			"the text of a handler's error goes into Metadata.Status.message (a proto3 string) as it is: when it is not valid UTF-8 the reply cannot be marshalled, the server's SendMsg fails and gRPC ends the whole NodeStream - the caller gets 'stream is down' instead of the handler's code and text, and so does every other call pending on that connection")
	case uncond(server) && uncond(client):
		l.OK("C13-D9", "gorums.WrapMessage/status-text", pos, "an unconditional encode/decode pair")
	default:
		where := pos
		if len(client) > 0 {
			where = client[0].st.Pos()
		} else if len(server) > 0 {
			where = server[0].st.Pos()
		}
		l.Bad("C13-D9", "gorums.WrapMessage|receiver/status-rewrite", where, fmt.Sprintf("the status text is rewritten asymmetrically (server: %d rewrite(s), all unconditional: %v; client: %d, all unconditional: %v): some texts come out different from what the handler returned (e.g. an escape applied only to invalid UTF-8 but undone for every reply turns 'a%%20b' into 'a b')", len(server), uncond(server), len(client), uncond(client)))
	}
}

// c13D10: the type that is instantiated into msg.Message is looked up under a
// key that depends on the method *and* the direction. Client and server of one
// process (every test, every node that is both) share the codec and whatever
// package-level memo it keeps: a memo keyed by the method name alone hands the
// request type to the reply decoder (or the other way round) from the second
// frame on.
func c13D10(l *core.Ledger, r *rt, gum *ssa.Function) {
	if len(gum.Params) < 3 {
		return
	}
	msg := gum.Params[2]
	// what a value depends on (transitively, over-approximated: flow-insensitive through locals)
	depends := func(roots []ssa.Value) (dir, meth bool) {
		seen := map[ssa.Value]bool{}
		var walk func(v ssa.Value, d int)
		walk = func(v ssa.Value, d int) {
			if v == nil || seen[v] || d > 60 {
				return
			}
			seen[v] = true
			switch x := v.(type) {
			case *ssa.Const, *ssa.Global, *ssa.Function, *ssa.Builtin, *ssa.Parameter, *ssa.FreeVar:
				return
			case *ssa.FieldAddr:
				if f := fieldOf(x.X.Type(), x.Field); f != nil {
					switch f.Name() {
					case "msgType":
						dir = true
					case "Method":
						meth = true
					}
				}
				walk(x.X, d+1)
				return
			case *ssa.Field:
				if f := fieldOf(x.X.Type(), x.Field); f != nil {
					switch f.Name() {
					case "msgType":
						dir = true
					case "Method":
						meth = true
					}
				}
				walk(x.X, d+1)
				return
			case *ssa.Call:
				cc := &x.Call
				if cc.IsInvoke() && (cc.Method.Name() == "Input" || cc.Method.Name() == "Output") {
					dir = true
				}
				if f := cc.StaticCallee(); f != nil && (f.Name() == "GetMethod") {
					meth = true
				}
				if cc.IsInvoke() || cc.StaticCallee() == nil {
					walk(cc.Value, d+1)
				}
				for _, a := range cc.Args {
					walk(a, d+1)
				}
				return
			case *ssa.Alloc:
				for _, ref := range *x.Referrers() {
					if st, ok := ref.(*ssa.Store); ok && st.Addr == ssa.Value(x) {
						walk(st.Val, d+1)
					}
					// a struct literal: what is stored into its fields
					if fa, ok := ref.(*ssa.FieldAddr); ok {
						for _, r2 := range *fa.Referrers() {
							if st, ok := r2.(*ssa.Store); ok && st.Addr == ssa.Value(fa) {
								walk(st.Val, d+1)
							}
						}
					}
				}
				return
			}
			if in, ok := v.(ssa.Instruction); ok {
				for _, op := range in.Operands(nil) {
					if op != nil && *op != nil {
						walk(*op, d+1)
					}
				}
			}
		}
		for _, v := range roots {
			walk(v, 0)
		}
		return
	}
	n := 0
	seen := map[ssa.Value]bool{}
	var back func(v ssa.Value, d int)
	lookup := func(v ssa.Value, what string, pos token.Pos, roots []ssa.Value) {
		n++
		dir, meth := depends(roots)
		key := fmt.Sprintf("gorums.(Codec).gorumsUnmarshal/type-lookup#%d", n)
		l.Check(dir && meth, "C13-D10", key, pos, what+" is keyed by the method and the direction",
			fmt.Sprintf("%s selects the type that is instantiated into msg.Message, and its key depends on the method name: %v, on the direction (msgType / Input() / Output()): %v - a process that is client and server of a method (every test, every replica that also calls its peers) decodes replies with the request type or requests with the reply type once the other direction has filled the entry; the frame is rejected or its fields are misread, and the typed stubs' assertions panic", what, meth, dir))
	}
	back = func(v ssa.Value, d int) {
		if v == nil || seen[v] || d > 40 {
			return
		}
		seen[v] = true
		switch x := v.(type) {
		case *ssa.Phi:
			for _, e := range x.Edges {
				back(e, d+1)
			}
		case *ssa.Extract:
			back(x.Tuple, d+1)
		case *ssa.TypeAssert:
			back(x.X, d+1)
		case *ssa.MakeInterface:
			back(x.X, d+1)
		case *ssa.ChangeInterface:
			back(x.X, d+1)
		case *ssa.ChangeType:
			back(x.X, d+1)
		case *ssa.Lookup:
			lookup(x, "a map lookup", x.Pos(), []ssa.Value{x.X, x.Index})
		case *ssa.UnOp:
			if x.Op != token.MUL {
				return
			}
			switch a := x.X.(type) {
			case *ssa.Alloc:
				for _, ref := range *a.Referrers() {
					if st, ok := ref.(*ssa.Store); ok && st.Addr == ssa.Value(a) {
						back(st.Val, d+1)
					}
				}
			case *ssa.IndexAddr:
				lookup(x, "an indexed table", x.Pos(), []ssa.Value{a.X, a.Index})
			}
		case *ssa.Call:
			cc := &x.Call
			if cc.IsInvoke() && len(cc.Args) == 0 {
				back(cc.Value, d+1) // New(), Interface(), Type() ...
				return
			}
			if f := cc.StaticCallee(); f != nil && len(cc.Args) == 1 && f.Signature.Recv() != nil {
				back(cc.Args[0], d+1) // a method without arguments on a concrete type
				return
			}
			roots := append([]ssa.Value{}, cc.Args...)
			if cc.IsInvoke() || cc.StaticCallee() == nil {
				roots = append(roots, cc.Value)
			}
			name := sx.StaticCalleeName(cc)
			if name == "" && cc.IsInvoke() {
				name = cc.Method.Name()
			}
			lookup(x, "the call of "+name, x.Pos(), roots)
		}
	}
	sx.AllInstrs(gum, func(_ sx.Node, in ssa.Instruction) {
		st, ok := in.(*ssa.Store)
		if !ok {
			return
		}
		base, ok := fieldAddrOf(st.Addr, "Message")
		if !ok || !sx.All(sx.Origins(base), sx.IsParam(msg)) {
			return
		}
		if k, isC := st.Val.(*ssa.Const); isC && k.IsNil() {
			return
		}
		back(st.Val, 0)
	})
	l.Floor("C13-D10", n, 1, "lookups that select the type of the decoded message")
}

// c13D11: the decoded message is a fresh object. Decoded messages are handed to
// handlers, quorum functions and callers, who own them from then on; an
// instance that is handed out twice (a memo of "empty" messages, a reused
// scratch message) makes a later decode yield whatever a holder of the earlier
// one has written - not equal to what was encoded.
func c13D11(l *core.Ledger, r *rt, gum *ssa.Function) {
	if len(gum.Params) < 3 {
		return
	}
	msg := gum.Params[2]
	n := 0
	sx.AllInstrs(gum, func(_ sx.Node, in ssa.Instruction) {
		st, ok := in.(*ssa.Store)
		if !ok {
			return
		}
		base, ok := fieldAddrOf(st.Addr, "Message")
		if !ok || !sx.All(sx.Origins(base), sx.IsParam(msg)) {
			return
		}
		if k, isC := st.Val.(*ssa.Const); isC && k.IsNil() {
			return
		}
		n++
		var stale []string
		seen := map[ssa.Value]bool{}
		var back func(v ssa.Value, d int)
		back = func(v ssa.Value, d int) {
			if v == nil || seen[v] || d > 40 {
				return
			}
			seen[v] = true
			switch x := v.(type) {
			case *ssa.Phi:
				for _, e := range x.Edges {
					back(e, d+1)
				}
			case *ssa.Extract:
				back(x.Tuple, d+1)
			case *ssa.TypeAssert:
				back(x.X, d+1)
			case *ssa.MakeInterface:
				back(x.X, d+1)
			case *ssa.ChangeInterface:
				back(x.X, d+1)
			case *ssa.ChangeType:
				back(x.X, d+1)
			case *ssa.Lookup:
				stale = append(stale, "a map entry ("+l.Prog.Pos(x.Pos())+")")
			case *ssa.UnOp:
				if x.Op != token.MUL {
					return
				}
				switch a := x.X.(type) {
				case *ssa.Alloc:
					for _, ref := range *a.Referrers() {
						if s2, ok := ref.(*ssa.Store); ok && s2.Addr == ssa.Value(a) {
							back(s2.Val, d+1)
						}
					}
				case *ssa.Global:
					stale = append(stale, "the package-level variable "+a.Name())
				case *ssa.IndexAddr:
					stale = append(stale, "a table element ("+l.Prog.Pos(x.Pos())+")")
				case *ssa.FieldAddr:
					if f := fieldOf(a.X.Type(), a.Field); f != nil && !sx.All(sx.Origins(a.X), sx.IsParam(msg)) {
						stale = append(stale, "the field "+f.Name())
					}
				}
			case *ssa.Call:
				cc := &x.Call
				name := sx.StaticCalleeName(cc)
				if strings.HasSuffix(name, "sync.Map.Load") || strings.HasSuffix(name, "sync.Map.LoadOrStore") || strings.HasSuffix(name, "sync.Map.Swap") || strings.HasSuffix(name, "sync.Pool.Get") {
					stale = append(stale, "the result of "+name)
				}
			}
		}
		back(st.Val, 0)
		key := fmt.Sprintf("gorums.(Codec).gorumsUnmarshal/decoded-object#%d", n)
		l.Check(len(stale) == 0, "C13-D11", key, st.Pos(), "the decoded message is created by this decode",
			"msg.Message can be "+strings.Join(dedupStrings(stale), ", ")+": an object that an earlier decode has already handed out. Its holder (a handler, a quorum function filling in an aggregate, the application annotating a result) writes to it, and every later frame that decodes to the shared object yields that content instead of what was encoded")
	})
	l.Floor("C13-D11", n, 1, "stores of the decoded message")
}

// calledOnlyBy: f is an unexported function of the runtime whose only static callers are functions named caller.
func calledOnlyBy(l *core.Ledger, r *rt, f *ssa.Function, caller string) bool {
	if f == nil || f.Object() == nil || f.Object().Exported() {
		return false
	}
	n := 0
	ok := true
	for _, g := range allFuncs(l.Prog, r.pkg) {
		sx.AllInstrs(g, func(_ sx.Node, in ssa.Instruction) {
			if cc := sx.CallOf(in); cc != nil && cc.StaticCallee() == f {
				n++
				top := g
				for top.Parent() != nil {
					top = top.Parent()
				}
				if top.Name() != caller {
					ok = false
				}
			}
		})
	}
	return ok && n > 0
}

// c13HomogeneousMemo: a single-result assertion v.(T) on what a package-level sync.Map hands out
// cannot fail when every value the package ever puts into that map has the static type T (or one
// that implements it): the peer chooses the key, not the value.
func c13HomogeneousMemo(l *core.Ledger, r *rt, ta *ssa.TypeAssert) (string, bool) {
	var g *ssa.Global
	for _, o := range sx.Origins(ta.X) {
		c, ok := o.V.(*ssa.Call)
		if !ok || o.Kind != sx.KExtract || o.Index != 0 {
			return "", false
		}
		name := sx.StaticCalleeName(&c.Call)
		if !strings.HasSuffix(name, "sync.Map.Load") || len(c.Call.Args) < 1 {
			return "", false
		}
		gg, ok := c.Call.Args[0].(*ssa.Global)
		if !ok || (g != nil && g != gg) {
			return "", false
		}
		g = gg
	}
	if g == nil {
		return "", false
	}
	nstores := 0
	okAll := true
	for _, f := range allFuncs(l.Prog, r.pkg) {
		sx.AllInstrs(f, func(_ sx.Node, in ssa.Instruction) {
			c, ok := in.(*ssa.Call)
			if !ok || len(c.Call.Args) < 1 || c.Call.Args[0] != ssa.Value(g) {
				if ok {
					// the map handed to anything else: not decided here
					for _, a := range c.Call.Args[min(1, len(c.Call.Args)):] {
						if a == ssa.Value(g) {
							okAll = false
						}
					}
				}
				return
			}
			name := sx.StaticCalleeName(&c.Call)
			var val ssa.Value
			switch {
			case strings.HasSuffix(name, "sync.Map.Store"), strings.HasSuffix(name, "sync.Map.LoadOrStore"), strings.HasSuffix(name, "sync.Map.Swap"):
				val = c.Call.Args[2]
			case strings.HasSuffix(name, "sync.Map.CompareAndSwap"):
				val = c.Call.Args[3]
			default:
				return
			}
			nstores++
			var inner types.Type
			switch v := val.(type) {
			case *ssa.MakeInterface:
				inner = v.X.Type()
			case *ssa.ChangeInterface:
				inner = v.X.Type()
			}
			if inner == nil || !types.AssignableTo(inner, ta.AssertedType) {
				okAll = false
			}
		})
	}
	if okAll && nstores > 0 {
		return fmt.Sprintf("the value comes from the package-level memo %s, and all %d stores into it put a %s", g.Name(), nstores, types.TypeString(ta.AssertedType, shortQual)), true
	}
	return "", false
}
