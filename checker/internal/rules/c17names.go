package rules

import (
	"fmt"
	"go/ast"
	"go/token"
	"regexp"
	"sort"
	"strings"
	"text/template/parse"

	"verif/checker/internal/core"
	"verif/checker/internal/gen"
)

// C17-B6: the templates derive the name a client stub sends under and the
// name the server registration listens on by the same expression over the
// method, for every input (not only for the protos committed here).

// tmplNameExpr finds the action that follows text matching anchor and returns
// its canonical form: a path over the method "M" (field chain), with $variables
// resolved and simple funcMap functions inlined.
func tmplNameExprs(g *gen.Generator, name string, anchor *regexp.Regexp) ([]string, error) {
	tree, err := g.ParseTemplate(name)
	if err != nil {
		return nil, err
	}
	var out []string
	vars := map[string]string{"$": "data"}
	lastText := ""
	var canonArg func(n parse.Node, dot string) string
	var canonPipe func(p *parse.PipeNode, dot string) string
	canonArg = func(n parse.Node, dot string) string {
		switch x := n.(type) {
		case *parse.DotNode:
			return dot
		case *parse.FieldNode:
			return dot + "." + strings.Join(x.Ident, ".")
		case *parse.VariableNode:
			v, ok := vars[x.Ident[0]]
			if !ok {
				v = x.Ident[0]
			}
			if len(x.Ident) > 1 {
				v += "." + strings.Join(x.Ident[1:], ".")
			}
			return v
		case *parse.StringNode:
			return x.Quoted
		case *parse.PipeNode:
			return canonPipe(x, dot)
		case *parse.ChainNode:
			return canonArg(x.Node, dot) + "." + strings.Join(x.Field, ".")
		}
		return "?" + n.String()
	}
	canonPipe = func(p *parse.PipeNode, dot string) string {
		cur := ""
		for i, c := range p.Cmds {
			var args []string
			for _, a := range c.Args[1:] {
				args = append(args, canonArg(a, dot))
			}
			if i > 0 {
				args = append(args, cur)
			}
			if id, ok := c.Args[0].(*parse.IdentifierNode); ok {
				cur = inlineFuncMap(g, id.Ident, args)
			} else if len(args) == 0 {
				cur = canonArg(c.Args[0], dot)
			} else {
				cur = canonArg(c.Args[0], dot) + "(" + strings.Join(args, ";") + ")"
			}
		}
		return cur
	}
	var walk func(n parse.Node, dot string)
	walk = func(n parse.Node, dot string) {
		switch x := n.(type) {
		case *parse.ListNode:
			if x == nil {
				return
			}
			for _, c := range x.Nodes {
				walk(c, dot)
			}
		case *parse.TextNode:
			lastText = string(x.Text)
		case *parse.ActionNode:
			c := canonPipe(x.Pipe, dot)
			if len(x.Pipe.Decl) > 0 {
				for _, d := range x.Pipe.Decl {
					vars[d.Ident[0]] = c
				}
				return
			}
			if anchor.MatchString(lastText) {
				out = append(out, c)
			}
			lastText = ""
		case *parse.RangeNode:
			inner := canonPipe(x.Pipe, dot) + "[]"
			walk(x.List, inner)
			walk(x.ElseList, dot)
		case *parse.IfNode:
			walk(x.List, dot)
			walk(x.ElseList, dot)
		case *parse.WithNode:
			walk(x.List, canonPipe(x.Pipe, dot))
			walk(x.ElseList, dot)
		}
	}
	walk(tree.Root, "data")
	for i, c := range out {
		c = strings.ReplaceAll(c, "data.Services[].Methods[]", "M")
		c = strings.ReplaceAll(c, "data.Method", "M")
		out[i] = c
	}
	return out, nil
}

// inlineFuncMap renders fn(args) through the generator's own definition when
// that is a single return of selector chains / conversions / fmt.Sprintf over
// its parameters; otherwise the call stays opaque.
func inlineFuncMap(g *gen.Generator, fn string, args []string) string {
	opaque := fn + "(" + strings.Join(args, ";") + ")"
	e, ok := g.FuncMap[fn]
	if !ok {
		return opaque
	}
	var ftype *ast.FuncType
	var body *ast.BlockStmt
	switch x := e.(type) {
	case *ast.FuncLit:
		ftype, body = x.Type, x.Body
	case *ast.Ident:
		if fd := core.FuncDecl(g.Pkg, "", x.Name); fd != nil {
			ftype, body = fd.Type, fd.Body
		}
	}
	if body == nil || len(body.List) != 1 {
		return opaque
	}
	ret, ok := body.List[0].(*ast.ReturnStmt)
	if !ok || len(ret.Results) != 1 {
		return opaque
	}
	params := map[string]string{}
	i := 0
	for _, f := range ftype.Params.List {
		for _, n := range f.Names {
			if i < len(args) {
				params[n.Name] = args[i]
			}
			i++
		}
	}
	if i != len(args) {
		return opaque
	}
	okAll := true
	var render func(e ast.Expr) string
	render = func(e ast.Expr) string {
		switch x := e.(type) {
		case *ast.ParenExpr:
			return render(x.X)
		case *ast.Ident:
			if v, ok := params[x.Name]; ok {
				return v
			}
		case *ast.SelectorExpr:
			return render(x.X) + "." + x.Sel.Name
		case *ast.BasicLit:
			if x.Kind == token.STRING {
				return x.Value
			}
		case *ast.CallExpr:
			if id, ok := x.Fun.(*ast.Ident); ok && id.Name == "string" && len(x.Args) == 1 {
				return render(x.Args[0])
			}
			if se, ok := x.Fun.(*ast.SelectorExpr); ok {
				if p, ok := se.X.(*ast.Ident); ok && p.Name == "fmt" && (se.Sel.Name == "Sprintf" || se.Sel.Name == "Sprint") {
					var as []string
					for _, a := range x.Args {
						as = append(as, render(a))
					}
					return "sprintf(" + strings.Join(as, ";") + ")"
				}
				if len(x.Args) == 0 {
					return render(se) // niladic method: same spelling as the template's field chain
				}
			}
		}
		okAll = false
		return "?"
	}
	s := render(ret.Results[0])
	if !okAll {
		return opaque
	}
	return s
}

var (
	reClientMethod = regexp.MustCompile(`Method:\s*"$`)
	reServerReg    = regexp.MustCompile(`RegisterHandler\("$`)
)

func c17B6(l *core.Ledger, g *gen.Generator) {
	serverT := ""
	var clients []*gen.CallTypeEntry
	var collect func(es []*gen.CallTypeEntry)
	collect = func(es []*gen.CallTypeEntry) {
		for _, e := range es {
			if e.Key == "server" {
				serverT = e.Template
			}
			if e.ExtVar != "" && e.Template != "" {
				clients = append(clients, e)
			}
			collect(e.Nested)
		}
	}
	collect(g.CallTypes)
	if serverT == "" {
		l.Unknown("C17-B6", "template/server", token.NoPos, "no server entry in gorumsCallTypesInfo")
		return
	}
	srv, err := tmplNameExprs(g, serverT, reServerReg)
	if err != nil || len(srv) != 1 {
		l.Unknown("C17-B6", "template/"+serverT, g.StrPos[serverT], fmt.Sprintf("cannot find the single RegisterHandler name expression in the server template (%d found, err %v)", len(srv), err))
		return
	}
	sort.Slice(clients, func(i, j int) bool { return clients[i].Key < clients[j].Key })
	n := 0
	seen := map[string]bool{}
	for _, e := range clients {
		if seen[e.Template] {
			continue
		}
		seen[e.Template] = true
		cl, err := tmplNameExprs(g, e.Template, reClientMethod)
		if err != nil {
			l.Unknown("C17-B6", "template/"+e.Template, g.StrPos[e.Template], "template does not parse: "+err.Error())
			continue
		}
		if len(cl) == 0 {
			l.Unknown("C17-B6", "template/"+e.Template, g.StrPos[e.Template], "no `Method: \"…\"` field found in the client template")
			continue
		}
		for _, c := range cl {
			n++
			l.Check(c == srv[0], "C17-B6", "template/"+e.Template, g.StrPos[e.Template], "client and server name = "+c,
				fmt.Sprintf("the client stub sends under %s but the server registration listens on %s: the two coincide only for some method names, so a freshly generated service can be bound to a name nobody listens on", c, srv[0]))
		}
	}
	l.Floor("C17-B6", n, 6, "client templates with a Method field")
}
