// Package rules holds one file per property; each decides the structural
// clauses listed in /verif/DESIGN.md section 3.
package rules

import (
	"sort"

	"verif/checker/internal/core"
)

// Entry describes one property's check.
type Entry struct {
	Title    string
	Run      func(*core.Ledger)
	Thorough func(*core.Ledger) // extra obligations for the thorough tier
	Examples bool               // thorough tier also loads the examples module's generated package
	Meta     core.PropertyMeta
}

// Registry maps property ids to checks.
var Registry = map[string]Entry{}

func register(id string, e Entry) { Registry[id] = e }

// IDs returns the registered property ids in order.
func IDs() []string {
	var ids []string
	for id := range Registry {
		ids = append(ids, id)
	}
	sort.Strings(ids)
	return ids
}

var commonTrust = []string{
	"Go type checker (go/types) and go/ssa construction from golang.org/x/tools v0.29.0",
	"the source files parsed are the ones the Go build of /repo uses (go/packages with the default build tags)",
}
