package rules

import (
	"golang.org/x/tools/go/packages"
	"golang.org/x/tools/go/ssa"

	"verif/checker/internal/core"
	"verif/checker/internal/sx"
)

// ambientOnlyGatesDiagnostics: every value derived from a call of the named
// ambient function in pk is used for nothing but branch conditions whose
// governed block only writes diagnostics (package log, fmt.Fprint* to
// os.Stderr). Values may travel through package-level variables. Such a read
// cannot influence the generated files.
func ambientOnlyGatesDiagnostics(l *core.Ledger, pk *packages.Package, full string) bool {
	sp := l.Prog.SSAPkg(pk)
	if sp == nil {
		return false
	}
	fns := ssaPkgFuncs(sp)
	isStderr := func(v ssa.Value) bool {
		return sx.All(sx.Origins(v), func(o sx.Origin) bool {
			g, ok := o.V.(*ssa.Global)
			return o.Kind == sx.KGlobal && ok && g.Pkg != nil && g.Pkg.Pkg.Path() == "os" && g.Name() == "Stderr"
		})
	}
	localAddr := func(v ssa.Value) bool {
		for depth := 0; depth < 6; depth++ {
			switch x := v.(type) {
			case *ssa.Alloc:
				return true
			case *ssa.IndexAddr:
				v = x.X
			case *ssa.FieldAddr:
				v = x.X
			default:
				return false
			}
		}
		return false
	}
	logOnly := func(b *ssa.BasicBlock) bool {
		for _, in := range b.Instrs {
			switch x := in.(type) {
			case *ssa.Call:
				name := sx.StaticCalleeName(&x.Call)
				f := x.Call.StaticCallee()
				switch {
				case f != nil && f.Pkg != nil && f.Pkg.Pkg.Path() == "log":
				case f != nil && f.Signature.Recv() != nil && isNamed(f.Signature.Recv().Type(), "log", "Logger"):
				case name == "fmt.Sprintf" || name == "fmt.Sprint" || name == "fmt.Sprintln":
				case (name == "fmt.Fprintf" || name == "fmt.Fprintln" || name == "fmt.Fprint") && len(x.Call.Args) > 0 && isStderr(x.Call.Args[0]):
				default:
					if _, isB := x.Call.Value.(*ssa.Builtin); isB {
						continue
					}
					return false
				}
			case *ssa.Store:
				if !localAddr(x.Addr) {
					return false
				}
			case *ssa.Alloc, *ssa.IndexAddr, *ssa.FieldAddr, *ssa.MakeInterface, *ssa.ChangeInterface, *ssa.Slice, *ssa.BinOp, *ssa.UnOp,
				*ssa.Convert, *ssa.ChangeType, *ssa.Jump, *ssa.Return, *ssa.DebugRef, *ssa.Phi, *ssa.MakeSlice, *ssa.Field, *ssa.Index, *ssa.Extract, *ssa.Lookup:
			default:
				return false
			}
		}
		return true
	}
	gateOK := func(ifi *ssa.If) bool {
		b := ifi.Block()
		t, f := b.Succs[0], b.Succs[1]
		one := func(x, other *ssa.BasicBlock) bool {
			return logOnly(x) && (len(x.Succs) == 0 || (len(x.Succs) == 1 && x.Succs[0] == other)) && len(x.Preds) == 1
		}
		if one(t, f) || one(f, t) {
			return true
		}
		return logOnly(t) && logOnly(f) && len(t.Succs) == 1 && len(f.Succs) == 1 && t.Succs[0] == f.Succs[0] && len(t.Preds) == 1 && len(f.Preds) == 1
	}
	seen := map[ssa.Value]bool{}
	seenG := map[*ssa.Global]bool{}
	var harmless func(v ssa.Value) bool
	harmless = func(v ssa.Value) bool {
		if seen[v] {
			return true
		}
		seen[v] = true
		refs := v.Referrers()
		if refs == nil {
			return false
		}
		for _, ref := range *refs {
			switch x := ref.(type) {
			case *ssa.DebugRef:
			case *ssa.BinOp:
				if !harmless(x) {
					return false
				}
			case *ssa.UnOp:
				if !harmless(x) {
					return false
				}
			case *ssa.Phi:
				if !harmless(x) {
					return false
				}
			case *ssa.Convert:
				if !harmless(x) {
					return false
				}
			case *ssa.ChangeType:
				if !harmless(x) {
					return false
				}
			case *ssa.If:
				if !gateOK(x) {
					return false
				}
			case *ssa.Store:
				g, isG := x.Addr.(*ssa.Global)
				if !isG || x.Val != v {
					return false
				}
				if seenG[g] {
					continue
				}
				seenG[g] = true
				for _, f := range fns {
					ok := true
					sx.AllInstrs(f, func(_ sx.Node, in ssa.Instruction) {
						for _, op := range in.Operands(nil) {
							if op == nil || *op != ssa.Value(g) {
								continue
							}
							switch y := in.(type) {
							case *ssa.UnOp:
								if !harmless(y) {
									ok = false
								}
							case *ssa.Store:
								if y.Addr != ssa.Value(g) {
									ok = false
								}
							default:
								ok = false
							}
						}
					})
					if !ok {
						return false
					}
				}
			default:
				return false
			}
		}
		return true
	}
	found := false
	for _, f := range fns {
		ok := true
		sx.AllInstrs(f, func(_ sx.Node, in ssa.Instruction) {
			c, isCall := in.(*ssa.Call)
			if !isCall {
				if cc := sx.CallOf(in); cc != nil && sx.StaticCalleeName(cc) == full {
					ok = false // go/defer of an ambient function
				}
				return
			}
			if sx.StaticCalleeName(&c.Call) != full {
				return
			}
			found = true
			if !harmless(c) {
				ok = false
			}
		})
		if !ok {
			return false
		}
	}
	return found
}
