package rules

import (
	"fmt"
	"go/token"
	"sort"
	"strings"

	"golang.org/x/tools/go/ssa"

	"verif/checker/internal/core"
	"verif/checker/internal/sx"
)

func init() {
	register("C18", Entry{
		Title: "Completed calls leave no residue",
		Run:   runC18,
		Meta: core.PropertyMeta{
			Explanation: "Z1 router pairing: routers are inserted at one site (enqueue); for non-streaming routers every delivery deletes in the same critical section and every queued request is delivered-to or answered (successful send + reply/stream-failure, sender error routes, enqueue's closed/context routes, the send confirmation of one-way calls), so once each targeted node has answered or failed every entry of the call is gone; streaming routers are deleted by the deferred deleteRouter of the call goroutine and on any error delivery (C05-M2/M4, C07-E3/E4/E6, C06-P5, C09-W4 re-run under this property). Z2 goroutine pairing: every go statement of the client runtime is in the frozen lifetime table - per node (sender, receiver: end with the node, C12-X2), per request (sendMsg's watcher: close(done) on every path after the go statement, no loop in its body), per call (handleAsyncCall, handleCorrectableCall: every return is preceded by a completion, the exhaustion test is evaluated before every wait, so the goroutine ends once all targeted nodes have answered); a go statement that is not in the table is a violation until classified. Z3: the per-call reply channel and reply map are referenced only from the call's frame, its goroutine's state literal and the router entries - never stored into channel/manager/package-level state.",
			NotDecided:  "Actual goroutine counts and memory; contexts leaked per *reconnect* (cancelStream is overwritten without being called on two paths - an observation outside this property's per-call wording).",
			Trusted:     commonTrust,
		},
	})
}

func runC18(l *core.Ledger) {
	r := runtimePkg(l)
	if r == nil {
		return
	}
	l.Rule("C18-Z1", "router insertion/deletion pairing: single insertion site; deliver-then-delete; every request answered or delivered-to; streaming routers removed by the deferred deleteRouter and on error delivery")
	l.Rule("C18-Z2", "every go statement of the client runtime is in the lifetime table and satisfies its class's termination rule")
	l.Rule("C18-Z3", "per-call reply channels and reply maps are not stored outside the call frame, the call goroutine's state and the router map")

	// ---- Z1
	if rm := buildRouterModel(l, r, "C18-Z1"); rm != nil {
		l.With(map[string]string{"C05-M2": "C18-Z1"}, func() { c05M2(l, r, rm) })
		l.With(map[string]string{"C05-M4": "C18-Z1"}, func() { checkDeliverDelete(l, r, rm, "C05-M4", false) })
		l.With(map[string]string{"C07-E6": "C18-Z1"}, func() { checkDeliverDelete(l, r, rm, "C07-E6", true) })
	}
	l.With(map[string]string{"C07-E3": "C18-Z1"}, func() { c07E3(l, r) })
	l.With(map[string]string{"C07-E4": "C18-Z1"}, func() { c07E4(l, r) })
	l.With(map[string]string{"C06-P5": "C18-Z1"}, func() { c06P5(l, r) })
	l.Rule("C18-Z5", "a dequeued request is written or answered (C06-P14 re-run: the only way round the stream write is the ended edge of the request's own context, where the caller is answered) - a request dropped silently because 'its call has completed' leaves the router it registered for ever")
	l.With(map[string]string{"C06-P14": "C18-Z5"}, func() { c06P14(l, r) })
	// a one-way call that does not wait for the send registers no router: nothing would ever remove it
	l.With(map[string]string{"C06-P3": "C18-Z1"}, func() { c06P3(l, findEntryPoints(l, r, "C06-P3")) })
	l.With(map[string]string{"C09-W4": "C18-Z1"}, func() { c09W4(l, r) })
	// "every request answered" includes the request that gets into the queue behind the sender's back
	// at Close: drained by the sender, or answered by enqueue's re-check after the hand-off (C12-X4 re-run)
	l.With(map[string]string{"C12-X4": "C18-Z1"}, func() { c12X4(l, r) })
	c18Z4(l, r)

	// ---- Z2
	table := map[string]string{
		"gorums.(channel).sender":                         "per-node",
		"gorums.(channel).receiver":                       "per-node",
		"gorums.(RawConfiguration).handleAsyncCall":       "per-call",
		"gorums.(RawConfiguration).handleCorrectableCall": "per-call",
	}
	var sites []string
	n := 0
	for _, f := range allFuncs(l.Prog, r.pkg) {
		file := l.Prog.RelFile(f.Pos())
		if strings.HasSuffix(file, "testing_gorums.go") || strings.HasSuffix(file, "server.go") {
			continue // test helper; the server side has its own lifetime (per connection / per request)
		}
		sx.AllInstrs(f, func(_ sx.Node, in ssa.Instruction) {
			g, ok := in.(*ssa.Go)
			if !ok {
				return
			}
			n++
			callee := g.Call.StaticCallee()
			if callee == nil {
				if mc, ok := g.Call.Value.(*ssa.MakeClosure); ok {
					callee = mc.Fn.(*ssa.Function)
				}
			}
			if callee == nil {
				l.Bad("C18-Z2", fnKey(f)+"/go-dynamic", g.Pos(), "a goroutine is started through a function value: its lifetime cannot be classified")
				return
			}
			key := fnKey(callee)
			sites = append(sites, key)
			class, known := table[key]
			if !known && callee.Parent() != nil && isSendMsgLike(callee.Parent()) {
				class, known = "per-request", true
			}
			if !known {
				l.Bad("C18-Z2", "go/"+key, g.Pos(), "a go statement that is not in the lifetime table (per node / per request / per call): classify it and state what ends it")
				return
			}
			switch class {
			case "per-request":
				// body has no loop; close(done) after the go statement is C08-B3
				okNoLoop := len(sx.LoopHeads(callee)) == 0
				l.Check(okNoLoop, "C18-Z2", "go/"+key, g.Pos(), "per request: loop-free body", "the per-request watcher goroutine contains a loop")
			default:
				l.OK("C18-Z2", "go/"+key, g.Pos(), class)
			}
		})
	}
	sort.Strings(sites)
	l.Floor("C18-Z2", n, 5, "go statements in the client runtime")
	l.With(map[string]string{"C12-X2": "C18-Z2"}, func() { c12X2(l, r) })
	l.With(map[string]string{"C08-B3": "C18-Z2"}, func() { c08B3x(l, r, false) })
	loops := findReplyLoops(l, r, "C18-Z2")
	l.With(map[string]string{"C02-T1": "C18-Z2", "C02-T3": "C18-Z2", "C02-T5": "C18-Z2"}, func() {
		for _, rl := range loops {
			if rl.fn.Object() != nil && !rl.fn.Object().Exported() {
				c02Loop(l, r, rl)
			}
		}
	})

	// ---- Z3
	nz := 0
	for _, ep := range findEntryPoints(l, r, "C18-Z3") {
		sx.AllInstrs(ep.fn, func(_ sx.Node, in ssa.Instruction) {
			mc, ok := in.(*ssa.MakeChan)
			if !ok || !isResponseChan(mc.Type()) {
				return
			}
			nz++
			c18Retained(l, ep.key+"/replyChan", mc, mc.Pos())
		})
	}
	for _, rl := range loops {
		if mm, ok := rl.replies.(*ssa.MakeMap); ok {
			nz++
			c18Retained(l, rl.key+"/replies", mm, mm.Pos())
		}
	}
	l.Floor("C18-Z3", nz, 6, "per-call allocations (reply channels and reply maps)")
}

func isSendMsgLike(f *ssa.Function) bool {
	if f.Signature.Recv() == nil || !isNamed(f.Signature.Recv().Type(), core.RootModule, "channel") {
		return false
	}
	p, rs := f.Signature.Params(), f.Signature.Results()
	return p.Len() == 1 && isNamed(p.At(0).Type(), core.RootModule, "request") && rs.Len() == 1
}

// c18Retained follows the value through conversions and phis and reports a
// store into anything but a local literal.
func c18Retained(l *core.Ledger, key string, v ssa.Value, pos token.Pos) {
	seen := map[ssa.Value]bool{}
	bad := ""
	var walk func(x ssa.Value)
	walk = func(x ssa.Value) {
		if seen[x] || x.Referrers() == nil {
			return
		}
		seen[x] = true
		for _, ref := range *x.Referrers() {
			switch u := ref.(type) {
			case *ssa.ChangeType:
				walk(u)
			case *ssa.Phi:
				walk(u)
			case *ssa.MakeInterface:
				bad = "converted to an interface"
			case *ssa.Store:
				if u.Val != x {
					continue
				}
				switch a := u.Addr.(type) {
				case *ssa.FieldAddr:
					if _, isAl := a.X.(*ssa.Alloc); !isAl {
						bad = fmt.Sprintf("stored into field %s of a shared object", fieldOf(a.X.Type(), a.Field).Name())
					}
				case *ssa.Alloc:
				case *ssa.Global:
					bad = "stored into package-level variable " + a.Name()
				default:
					bad = fmt.Sprintf("stored through %T", u.Addr)
				}
			case *ssa.MapUpdate:
				if u.Value == x {
					bad = "stored into a map"
				}
			case *ssa.Send:
				if u.X == x {
					bad = "sent on a channel"
				}
			}
		}
	}
	walk(v)
	l.Check(bad == "", "C18-Z3", key, pos, "referenced only from the call frame, the call goroutine's state and router entries", "per-call allocation is retained beyond the call: "+bad)
}

// c18Z4: a context derived for a stream is released when the stream is not
// created. context.WithCancel registers the child with its parent (the node's
// context, which lives until Close); a creation path that returns the NodeStream
// error without calling the cancel function leaves one registration behind per
// attempt - per call, on a node that cannot be reached.
func c18Z4(l *core.Ledger, r *rt) {
	l.Rule("C18-Z4", "every function that opens a NodeStream on a context it has just derived with context.WithCancel calls that cancel function on every path from the error edge of the creation to its return")
	n := 0
	for _, f := range allFuncs(l.Prog, r.pkg) {
		f := f
		sx.AllInstrs(f, func(nd sx.Node, in ssa.Instruction) {
			c, ok := in.(*ssa.Call)
			if !ok || !c.Call.IsInvoke() || c.Call.Method.Name() != "NodeStream" || len(c.Call.Args) == 0 {
				return
			}
			// the context argument: result #0 of a context.WithCancel in this function (directly or through the field it was stored in)
			var wc *ssa.Call
			sx.AllInstrs(f, func(_ sx.Node, in2 ssa.Instruction) {
				if c2, isCall := in2.(*ssa.Call); isCall && calleeIs(&c2.Call, "context.WithCancel") && sx.InstrDominates(f, c2, nd) {
					wc = c2
				}
			})
			if wc == nil {
				return
			}
			n++
			key := fmt.Sprintf("%s/stream-context-released#%d", fnKey(f), n)
			m := func(o sx.Origin) bool { return o.Kind == sx.KExtract && o.V == ssa.Value(c) && o.Index == 1 }
			var errEdges []sx.Edge
			sx.AllInstrs(f, func(_ sx.Node, in2 ssa.Instruction) {
				if ifi, isIf := in2.(*ssa.If); isIf && isErrNonNil(ifi, m) != 0 {
					errEdges = append(errEdges, errEdge(ifi, m, true))
				}
			})
			if len(errEdges) == 0 {
				l.Bad("C18-Z4", key, c.Pos(), "the error of the stream creation is not tested")
				return
			}
			isCancel := func(x sx.Node) bool {
				cc, isCall := x.Instr().(*ssa.Call)
				if !isCall || cc.Call.IsInvoke() || cc.Call.StaticCallee() != nil {
					return false
				}
				return sx.All(sx.Origins(cc.Call.Value), func(o sx.Origin) bool {
					if o.Kind == sx.KExtract && o.V == ssa.Value(wc) && o.Index == 1 {
						return true
					}
					return o.Kind == sx.KField && o.Field != nil && o.Field.Name() == "cancelStream"
				})
			}
			ok2 := true
			var at token.Pos
			for _, e := range errEdges {
				// the first error test may sit before the unlock and a second one after it: start from each
				if w, must := sx.MustPassThrough(sx.Node{B: e.To, I: -1}, isCancel, sx.IsReturn); !must {
					// a cancel executed before this edge on the same error condition also counts
					if !edgeAfterCancel(f, errEdges, isCancel, e) {
						ok2 = false
						at = sx.PosOf(w.Instr())
					}
				}
			}
			if ok2 {
				l.OK("C18-Z4", key, c.Pos(), "the derived context is cancelled when the stream is not created")
			} else {
				l.Bad("C18-Z4", key, at, "the function returns the NodeStream error without cancelling the context it derived for the stream: the child context stays registered with the node's context until the manager is closed - one per attempt, i.e. per call on a node that cannot be reached")
			}
		})
	}
	l.Floor("C18-Z4", n, 2, "stream creations on a freshly derived context")
}

// edgeAfterCancel: edge e (an error edge of the creation) is only reached after a cancel
// that itself lies behind another error edge of the same creation (two tests of one error,
// e.g. one inside and one outside a critical section).
func edgeAfterCancel(f *ssa.Function, errEdges []sx.Edge, isCancel func(sx.Node) bool, e sx.Edge) bool {
	found := false
	sx.AllInstrs(f, func(nd sx.Node, _ ssa.Instruction) {
		if !isCancel(nd) {
			return
		}
		if !edgesDominate(f, errEdges, nd) {
			return
		}
		// every way to e passes... approximation: the cancel reaches e, and e's If is not reachable from the creation on a path that takes no error edge
		if _, reach := sx.Reach(nd, func(x sx.Node) bool { return x.B == e.From && x.I == len(x.B.Instrs)-1 }, sx.Query{}); reach {
			found = true
		}
	})
	return found
}
