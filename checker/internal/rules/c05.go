package rules

import (
	"fmt"
	"go/constant"
	"go/token"
	"go/types"
	"os"
	"sort"
	"strings"

	"golang.org/x/tools/go/ssa"

	"verif/checker/internal/core"
	"verif/checker/internal/sx"
)

const orderingPkg = core.RootModule + "/ordering"

func init() {
	register("C05", Entry{
		Title:    "Replies reach only the call that asked, under the right node, at most once",
		Run:      runC05,
		Examples: true,
		Meta: core.PropertyMeta{
			Explanation: "M1: every call entry point takes one fresh id from getMsgID (an atomic increment that nothing else touches) per invocation, outside the send loop, and all messages of the invocation share that one metadata. M2: enqueue registers the router under the request's id before the request can reach the queue or the error route. M3: every access to the router map holds responseMut. M4: each delivery through a router and the deletion of that router (for non-streaming routers) happen in one critical section, the deletion being skipped only on the streaming edge, so a second message with the same id on the same node finds no router. M5: the reader routes under the id of the message it just received; WrapMessage writes only the status into the echoed metadata and nothing on the server writes MessageID/Method; every generated two-way handler echoes in.Metadata (or a clone). M6: a non-streaming reply channel has capacity >= the number of enqueues that can register it, so deliveries never block and late replies die in the buffer. M7: every response names the node of the producing channel. M10: no node twice in a configuration (C14-G2 re-run). M11: sender-side answers are routed in the sender's own iteration under the dequeued request's id (C07-E3 re-run).",
			NotDecided:  "Cross-talk caused by the transport; collisions of the 64-bit counter; that a call observes the *content* of its own reply (run time).",
			Trusted:     append([]string{"sync/atomic.AddUint64 returns distinct values", "gRPC keeps messages of one stream separate from other streams"}, commonTrust...),
		},
	})
}

func runC05(l *core.Ledger) {
	r := runtimePkg(l)
	if r == nil {
		return
	}
	l.Rule("C05-M1", "one Metadata literal per entry-point invocation, MessageID from getMsgID outside loops, shared by all messages of the invocation; nextMsgID accessed only by atomic.AddUint64 in getMsgID")
	l.Rule("C05-M2", "in enqueue, when a reply channel is given, the router is stored under req.msg.Metadata.MessageID with that channel before the queue hand-off and before the error route")
	l.Rule("C05-M3", "every access to the router map is made with responseMut held")
	l.Rule("C05-M4", "delivery through a router and deletion of that router happen under one hold of responseMut; deletion is skipped only on the streaming edge; the deleted key is the key the router was found under")
	l.Rule("C05-M5", "WrapMessage writes only Status into the metadata it is given; no server-side code writes MessageID or Method; generated two-way handlers echo in.Metadata or a proto.Clone of it")
	l.Rule("C05-M6", "every non-streaming reply channel has capacity >= number of enqueues registering it (len(c) with one enqueue per element of c; >= 1 with a single enqueue)")
	l.Rule("C05-M7", "every response carries c.node.ID() of the producing channel (see C01-R6)")
	l.Rule("C05-M8", "who may remove a router: the delivery that answered it (same key, same function), or the owning call itself through a helper that deletes exactly the id it is given, called with the call's own message id; the map is never replaced")
	l.Rule("C05-M9", "a router is registered as streaming only for a call whose servers may answer more than once: the flag handed to enqueue is false or the call data's ServerStream field")

	eps := findEntryPoints(l, r, "C05-M1")
	if !l.Floor("C05-M1", len(eps), 6, "context-taking entry points") {
		return
	}
	c05M1(l, r, eps)
	rm := buildRouterModel(l, r, "C05-M3")
	if rm != nil {
		c05M2(l, r, rm)
		checkRouterLocks(l, r, rm, "C05-M3")
		checkDeliverDelete(l, r, rm, "C05-M4", false)
		c05M8(l, r, rm, "C05-M8")
	}
	c05M9(l, eps, "C05-M9")
	l.Rule("C05-M10", "a configuration lists each node once (C14-G2 re-run): the router map of a node has one entry per message id, so a node listed twice is handed the request twice, registers one router and answers it twice - the second answer is taken for another node's or dropped while the call counts the node twice")
	l.With(map[string]string{"C14-G2": "C05-M10"}, func() {
		for _, c := range findCtors(l, r) {
			c14Ctor(l, r, c)
		}
	})
	l.Rule("C05-M11", "the sender answers a request it does not send in its own iteration, under the id of the request it has just dequeued (C07-E3 re-run): an answer routed later (another goroutine, a shared variable) is routed under the id of whatever request was dequeued meanwhile")
	l.With(map[string]string{"C07-E3": "C05-M11"}, func() { c07E3(l, r) })
	l.Rule("C05-M12", "only the stream reader, on its own read error, answers calls it has no request in hand for (C10-N6 re-run): any other site that fails every pending call of a node hands made-up errors to calls whose requests are on a healthy stream, removes their routers, and their real replies are dropped")
	l.With(map[string]string{"C10-N6": "C05-M12"}, func() { c10N6(l, r) })
	c05M14(l, r)
	l.Rule("C05-M13", "a reply to a call that is still running is delivered, and a reply to one that has completed is discarded at once (C09-W3 D1-D3 re-run): a delivery waits for the receiving call for as long as that call runs and no longer - given up earlier, replies of a live call are lost (and an error is lost with its router); not given up when the call completes, the node's reader stays parked under the router lock and no reply of that node reaches anyone")
	if bd := boundedDelivery(l, r); true {
		l.Check(bd.ok, "C05-M13", "gorums.(responseRouter).deliver/bounded-by-completion", token.NoPos, "deliveries wait exactly as long as the owning call runs", "deliveries to routers that can get several replies are not bounded by the completion of the owning call: "+bd.why)
	}
	c05M5(l, r)
	// the id a reply echoes is read from the handler's own request envelope: one fresh envelope per
	// handler start (C03-F5 re-run) - with metadata of its own in the reply, a reused envelope is the
	// only thing a released handler's late reply can take the id from, and it holds the next request's
	{
		var sl *serverLoop
		l.With(map[string]string{}, func() { sl = findServerLoop(l, r, "C03-F4") })
		if sl != nil {
			l.With(map[string]string{"C03-F5": "C05-M5"}, func() { c03F5(l, sl) })
		}
	}
	c05M6(l, r, eps)
	checkResponseProvenance(l, r, "C05-M7")
}

func isGetMsgID(c *ssa.CallCommon) bool {
	f := c.StaticCallee()
	return f != nil && f.Name() == "getMsgID" && f.Pkg != nil && f.Pkg.Pkg.Path() == core.RootModule
}

func c05M1(l *core.Ledger, r *rt, eps []*entryPoint) {
	for _, ep := range eps {
		key := ep.key
		var mds []*ssa.Alloc
		var msgs []*ssa.Alloc
		sx.AllInstrs(ep.fn, func(_ sx.Node, in ssa.Instruction) {
			al, ok := in.(*ssa.Alloc)
			if !ok {
				return
			}
			if isNamed(al.Type(), orderingPkg, "Metadata") {
				mds = append(mds, al)
			}
			if isNamed(al.Type(), core.RootModule, "Message") {
				msgs = append(msgs, al)
			}
		})
		if len(mds) != 1 {
			l.Bad("C05-M1", key+"/metadata", ep.fn.Pos(), fmt.Sprintf("%d Metadata literals in one entry point; exactly one per invocation is required (all targeted nodes must see the same id)", len(mds)))
			continue
		}
		md := mds[0]
		fields := allocFieldStores(md)
		idv := fields["MessageID"]
		okID := idv != nil && !sx.InLoop(sx.NodeOf(md)) && sx.All(sx.Origins(idv), func(o sx.Origin) bool {
			c, ok := o.V.(*ssa.Call)
			return o.Kind == sx.KCall && ok && isGetMsgID(&c.Call) && !sx.InLoop(sx.NodeOf(c))
		})
		if !okID {
			d := "not set"
			if idv != nil {
				d = sx.OriginsString(sx.Origins(idv))
			}
			l.Bad("C05-M1", key+"/metadata", md.Pos(), "MessageID is not a fresh getMsgID() result taken once per invocation: "+d)
			continue
		}
		okShare := len(msgs) > 0
		for _, m := range msgs {
			mf := allocFieldStores(m)
			if mf["Metadata"] != md {
				okShare = false
			}
		}
		l.Check(okShare, "C05-M1", key+"/metadata", md.Pos(), "one id per invocation, shared by every message sent", "a Message literal of this entry point does not carry the invocation's metadata")
	}
	// the counter
	var touch []string
	okAtomic := true
	for _, f := range allFuncs(l.Prog, r.pkg) {
		sx.AllInstrs(f, func(_ sx.Node, in ssa.Instruction) {
			fa, ok := in.(*ssa.FieldAddr)
			if !ok {
				return
			}
			fld := fieldOf(fa.X.Type(), fa.Field)
			if fld == nil || fld.Name() != "nextMsgID" {
				return
			}
			touch = append(touch, fnKey(f))
			for _, ref := range *fa.Referrers() {
				c, isCall := ref.(*ssa.Call)
				typedAdd := false
				if isCall {
					if sc := c.Call.StaticCallee(); sc != nil && sc.Name() == "Add" && sc.Signature.Recv() != nil && (isNamed(sc.Signature.Recv().Type(), "sync/atomic", "Uint64") || isNamed(sc.Signature.Recv().Type(), "sync/atomic", "Int64")) {
						typedAdd = true // the counter as a typed atomic: nextMsgID.Add(1)
					}
				}
				if !isCall || (!typedAdd && !calleeIs(&c.Call, "sync/atomic.AddUint64")) || len(c.Call.Args) < 2 {
					okAtomic = false
					continue
				}
				if k, isC := c.Call.Args[1].(*ssa.Const); !isC || k.Value == nil || !constant.Compare(k.Value, token.EQL, constant.MakeInt64(1)) {
					okAtomic = false
				}
				// the result must be what the function returns
				for _, r2 := range *c.Referrers() {
					if _, isRet := r2.(*ssa.Return); !isRet {
						okAtomic = false
					}
				}
			}
		})
	}
	sort.Strings(touch)
	l.Check(len(touch) == 1 && touch[0] == "gorums.(RawManager).getMsgID" && okAtomic, "C05-M1", "who-may-access/RawManager.nextMsgID", token.NoPos,
		"only getMsgID, via atomic.AddUint64(&nextMsgID, 1), returning the result", fmt.Sprintf("message-id counter accessed by %v (atomic add of 1 returned directly: %v): ids may repeat", touch, okAtomic))
	// the configuration-level helper delegates to a member's manager
	if f := r.fn("RawConfiguration.getMsgID"); f != nil {
		ok := true
		n := 0
		sx.AllInstrs(f, func(_ sx.Node, in ssa.Instruction) {
			ret, isRet := in.(*ssa.Return)
			if !isRet {
				return
			}
			n++
			c, isCall := ret.Results[0].(*ssa.Call)
			if !isCall || !isGetMsgID(&c.Call) || c.Call.StaticCallee() == f {
				ok = false
				return
			}
			// receiver: .mgr of an element of the configuration
			if !sx.All(sx.Origins(c.Call.Args[0]), sx.IsFieldNamed("mgr", func(o sx.Origin) bool { return o.Kind == sx.KElem })) {
				ok = false
			}
		})
		l.Check(ok && n > 0, "C05-M1", "gorums.(RawConfiguration).getMsgID", f.Pos(), "delegates to the manager of a member node", "configuration-level id source does not delegate to the shared manager counter")
	}
}

func allocFieldStores(al *ssa.Alloc) map[string]ssa.Value {
	fields := map[string]ssa.Value{}
	for _, ref := range *al.Referrers() {
		if fa, ok := ref.(*ssa.FieldAddr); ok {
			for _, r2 := range *fa.Referrers() {
				if st, ok := r2.(*ssa.Store); ok && st.Addr == fa {
					fields[fieldOf(al.Type(), fa.Field).Name()] = st.Val
				}
			}
		}
	}
	return fields
}

// findEnqueueFn locates the enqueue method itself.
func findEnqueueFn(l *core.Ledger, r *rt) *ssa.Function {
	for _, f := range allFuncs(l.Prog, r.pkg) {
		if f.Parent() != nil || f.Signature.Recv() == nil || !isNamed(f.Signature.Recv().Type(), core.RootModule, "channel") {
			continue
		}
		p := f.Signature.Params()
		if p.Len() == 3 && isNamed(p.At(0).Type(), core.RootModule, "request") && isResponseChan(p.At(1).Type()) {
			return f
		}
	}
	return nil
}

// isReqMsgID matches req.msg.Metadata.MessageID of a request value matching base.
func isReqMsgID(base func(sx.Origin) bool) func(sx.Origin) bool {
	return sx.IsFieldNamed("MessageID", sx.IsFieldNamed("Metadata", sx.IsFieldNamed("msg", base)))
}

func c05M2(l *core.Ledger, r *rt, rm *routerModel) {
	fn := findEnqueueFn(l, r)
	if fn == nil {
		l.Unknown("C05-M2", "anchor/enqueue", token.NoPos, "no method of *channel with parameters (request, chan<- response, bool) found")
		return
	}
	key := fnKey(fn)
	req, ch, streaming := fn.Params[1], fn.Params[2], fn.Params[3]
	// who inserts
	var inserters []string
	var ins *ssa.MapUpdate
	for _, a := range rm.accesses {
		if a.kind == "insert" {
			inserters = append(inserters, fnKey(a.fn))
			if a.fn == fn {
				ins = a.at.(*ssa.MapUpdate)
			}
		}
		if a.kind == "replace" || a.kind == "other" {
			l.Bad("C05-M2", "who-may-write/router-map", sx.PosOf(a.at), "the router map is replaced or handed to other code in "+fnKey(a.fn))
		}
	}
	if len(inserters) != 1 || ins == nil {
		l.Bad("C05-M2", "who-may-insert/router-map", fn.Pos(), fmt.Sprintf("routers must be registered by enqueue only (one site); found %v", inserters))
		return
	}
	l.OK("C05-M2", "who-may-insert/router-map", ins.Pos(), "single registration site in enqueue")
	// key and value
	okKey := sx.All(sx.Origins(ins.Key), isReqMsgID(sx.IsParam(req)))
	vf, okLit := structLiteral(ins.Value)
	okVal := okLit && vf["c"] == ssa.Value(ch) && vf["streaming"] == ssa.Value(streaming)
	l.Check(okKey && okVal, "C05-M2", key+"/router", ins.Pos(), "responseRouters[req id] = {caller's channel, streaming}", fmt.Sprintf("router registered under the request's own id: %v; with the caller's channel and streaming flag: %v", okKey, okVal))
	// before hand-off: assume responseChan != nil (close the nil edges)
	var nilEdges []sx.Edge
	sx.AllInstrs(fn, func(_ sx.Node, in ssa.Instruction) {
		if ifi, ok := in.(*ssa.If); ok {
			if s := isErrNonNil(ifi, sx.IsParam(ch)); s != 0 {
				nilEdges = append(nilEdges, errEdge(ifi, sx.IsParam(ch), false))
			}
		}
	})
	isHandOff := func(n sx.Node) bool {
		switch x := n.Instr().(type) {
		case *ssa.Send:
			return isRequestChan(x.Chan.Type())
		case *ssa.Select:
			for _, st := range x.States {
				if st.Dir == types.SendOnly && isRequestChan(st.Chan.Type()) {
					return true
				}
			}
		case *ssa.Call:
			return isRouteCall(&x.Call)
		}
		return false
	}
	w, reach := sx.Reach(sx.Entry(fn), isHandOff, sx.Query{BlockNode: sx.IsInstr(ins), BlockEdge: func(e sx.Edge) bool { return edgeIn(e, nilEdges) }})
	if reach {
		l.Bad("C05-M2", key+"/register-before-queue", sx.PosOf(w.Instr()), "the request can reach the queue (or the error route) before its router is registered: a fast reply finds no router and is dropped")
	} else {
		l.OK("C05-M2", key+"/register-before-queue", ins.Pos(), "registration dominates the hand-off when a reply channel is given")
	}
}

func isRequestChan(t types.Type) bool {
	ch, ok := t.Underlying().(*types.Chan)
	return ok && isNamed(ch.Elem(), core.RootModule, "request")
}

// checkRouterLocks: L1 guarded-by(responseRouters, responseMut).
func checkRouterLocks(l *core.Ledger, r *rt, rm *routerModel, rule string) {
	states := map[*ssa.Function]*sx.LockState{}
	n := 0
	for _, a := range rm.accesses {
		if a.kind == "replace" {
			continue
		}
		ls := states[a.fn]
		if ls == nil {
			ls = sx.AnalyzeLocks(a.fn)
			states[a.fn] = ls
			if len(ls.Conflicts) > 0 {
				l.Unknown(rule, fnKey(a.fn)+"/lock-state", a.fn.Pos(), "inconsistent lock state: "+ls.Conflicts[0])
			}
		}
		n++
		held := ls.HeldAt(sx.NodeOf(a.at))
		k := fmt.Sprintf("%s/%s", fnKey(a.fn), a.kind)
		l.Check(sx.Holds(held, rm.lock, true), rule, k, sx.PosOf(a.at), "router map "+a.kind+" under "+rm.lock, "router map "+a.kind+" without holding "+rm.lock+" (held: "+sx.HeldString(held)+"): concurrent map access / lost registration")
	}
	l.Floor(rule, n, 6, "router map accesses")
}

// checkDeliverDelete: M4 (and, with errorsTerminal, C07-E6).
func checkDeliverDelete(l *core.Ledger, r *rt, rm *routerModel, rule string, errorsTerminal bool) {
	if !l.Floor(rule, len(rm.deliveries), 1, "delivery sites through a router (routeResponse, cancelPendingMsgs)") {
		return
	}
	for _, d := range rm.deliveries {
		key := d.name + "/deliver"
		if d.key == nil {
			l.Bad(rule, key, d.send.Pos(), "cannot determine the id under which the delivering router was found")
			continue
		}
		isDel := func(n sx.Node) bool {
			for _, x := range d.deletes {
				if x == n.Instr() {
					return true
				}
			}
			return false
		}
		if os.Getenv("VERIF_DEBUG") != "" {
			fmt.Printf("DEBUG delivery %s bounded=%v key=%v deletes=%d viaLoop=%v pos=%s\n", d.name, d.bounded, d.key, len(d.deletes), d.viaLoop, l.Prog.Pos(d.send.Pos()))
		}
		stream := streamingTrueEdges(d.fn)
		end := loopHeadOrExit(d.fn)
		q := sx.Query{BlockNode: isDel, BlockEdge: func(e sx.Edge) bool { return edgeIn(e, stream) }}
		if errorsTerminal {
			// the streaming exemption only applies when the delivered response has no error
			if lit, ok := structLiteral(d.val); ok && lit["err"] != nil {
				// a literal with an error: no exemption at all
				q.BlockEdge = nil
			} else {
				// forwarded response: the exemption needs an err == nil edge as well
				nilEdges := nilTestEdgesOn(d.fn, func(v ssa.Value) bool { return loadsFieldOfParam(v, "err") }, false)
				q.BlockEdge = func(e sx.Edge) bool { return edgeIn(e, nilEdges) }
			}
		}
		if w, reach := sx.Reach(sx.NodeOf(d.send), end, q); reach {
			if errorsTerminal {
				l.Bad(rule, key, d.send.Pos(), "a response that may carry an error is delivered through a streaming router without deleting the router: the same node can report again for the same call (a node failing twice is counted twice)")
			} else {
				l.Bad(rule, key, d.send.Pos(), "after delivering through a non-streaming router a path reaches "+l.Prog.Pos(sx.PosOf(w.Instr()))+" without deleting it: a second message with the same id is delivered to the call again")
			}
			continue
		}
		// same critical section: no release of the lock between send and delete
		ls := sx.AnalyzeLocks(d.fn)
		okHold := sx.Holds(ls.HeldAt(sx.NodeOf(d.send)), rm.lock, true)
		for _, x := range d.deletes {
			if !sx.Holds(ls.HeldAt(sx.NodeOf(x)), rm.lock, true) {
				okHold = false
			}
		}
		// an unlock that lies between the send and a later delete
		unlockBetween := false
		sx.AllInstrs(d.fn, func(un sx.Node, in ssa.Instruction) {
			c, ok := in.(*ssa.Call)
			if !ok {
				return
			}
			op, isOp := sx.ClassifyLockOp(&c.Call)
			if !isOp || op.Acquire || op.Field != rm.lock {
				return
			}
			if _, fromSend := sx.Reach(sx.NodeOf(d.send), func(n sx.Node) bool { return n == un }, sx.Query{BlockNode: isDel}); !fromSend {
				return
			}
			if _, toDel := sx.Reach(un, isDel, sx.Query{BlockNode: func(n sx.Node) bool { return n.Instr() == ssa.Instruction(d.send) }}); toDel {
				unlockBetween = true
			}
		})
		l.Check(okHold && !unlockBetween, rule, key, d.send.Pos(), "deliver-then-delete under one hold of "+rm.lock, "delivery and deletion are not in one critical section: two messages with the same id can both find the router")
	}
}

func c05M5(l *core.Ledger, r *rt) {
	// WrapMessage: writes through its metadata parameter touch only Status
	if fn := r.mustFn("C05-M5", "WrapMessage"); fn != nil {
		md := fn.Params[0]
		ok := true
		n := 0
		sx.AllInstrs(fn, func(_ sx.Node, in ssa.Instruction) {
			st, isSt := in.(*ssa.Store)
			if !isSt {
				return
			}
			fa, isFA := st.Addr.(*ssa.FieldAddr)
			if !isFA || !sx.All(sx.Origins(fa.X), sx.IsParam(md)) {
				return
			}
			n++
			if fieldOf(fa.X.Type(), fa.Field).Name() != "Status" {
				ok = false
			}
		})
		// and the returned message carries that same metadata
		okRet := false
		sx.AllInstrs(fn, func(_ sx.Node, in ssa.Instruction) {
			if ret, isRet := in.(*ssa.Return); isRet {
				if al, isAl := ret.Results[0].(*ssa.Alloc); isAl {
					if f := allocFieldStores(al); f["Metadata"] == ssa.Value(md) {
						okRet = true
					}
				}
			}
		})
		// second form: the reply gets metadata of its own, a fresh literal whose MessageID and Method are
		// read from the given metadata, which is not written at all
		okFresh := false
		if n == 0 {
			if fm := wrapFreshMetadata(fn); fm != nil {
				fs := allocFieldStores(fm)
				fromMd := func(v ssa.Value, field, getter string) bool {
					return v != nil && sx.All(sx.Origins(v), func(o sx.Origin) bool {
						if o.Kind == sx.KField && o.Field != nil && o.Field.Name() == field {
							return sx.All(o.Base, sx.IsParam(md))
						}
						if c, isCall := o.V.(*ssa.Call); o.Kind == sx.KCall && isCall && c.Call.StaticCallee() != nil && c.Call.StaticCallee().Name() == getter && len(c.Call.Args) == 1 {
							return sx.All(sx.Origins(c.Call.Args[0]), sx.IsParam(md))
						}
						return false
					})
				}
				okFresh = fromMd(fs["MessageID"], "MessageID", "GetMessageID") && fromMd(fs["Method"], "Method", "GetMethod")
			}
		}
		l.Check((ok && n >= 1 && okRet) || okFresh, "C05-M5", "gorums.WrapMessage", fn.Pos(), "writes only Status and returns the given metadata, or returns fresh metadata with the given MessageID and Method", "WrapMessage alters the echoed metadata beyond its status, or does not return it: the reply is routed to another call")
	}
	// nobody else writes MessageID / Method of a Metadata that is not a fresh literal
	var writers []string
	for _, f := range allFuncs(l.Prog, r.pkg) {
		sx.AllInstrs(f, func(_ sx.Node, in ssa.Instruction) {
			st, ok := in.(*ssa.Store)
			if !ok {
				return
			}
			fa, ok := st.Addr.(*ssa.FieldAddr)
			if !ok || !isNamed(fa.X.Type(), orderingPkg, "Metadata") {
				return
			}
			name := fieldOf(fa.X.Type(), fa.Field).Name()
			if name != "MessageID" && name != "Method" {
				return
			}
			if _, isAl := fa.X.(*ssa.Alloc); isAl {
				return // initialising a fresh literal
			}
			writers = append(writers, fnKey(f)+"."+name)
		})
	}
	l.Check(len(writers) == 0, "C05-M5", "who-may-write/Metadata.MessageID,Method", token.NoPos, "ids and method names are only set when a fresh metadata is built", fmt.Sprintf("existing metadata is re-labelled by %v", writers))
	c05M5gen(l)
}

func c05M6(l *core.Ledger, r *rt, eps []*entryPoint) {
	n := 0
	// every channel registered with a node is allocated by this invocation:
	// a channel taken from shared storage (a pool, a field) can still be
	// referenced by the router of an earlier, abandoned call
	for _, ep := range eps {
		for i, e := range ep.enqueues {
			os := sx.Origins(e.Call.Args[2])
			fresh := sx.All(os, func(o sx.Origin) bool {
				if o.Kind == sx.KMake {
					mc, ok := o.V.(*ssa.MakeChan)
					return ok && mc.Parent() == ep.fn
				}
				return sx.IsZeroOrNil(o)
			})
			l.Check(fresh, "C05-M6", fmt.Sprintf("%s/enqueue%d/fresh-channel", ep.key, i), e.Pos(), "reply channel allocated by this invocation (or nil)",
				"the reply channel registered for this call is not allocated by this invocation ("+sx.OriginsString(os)+"): a router left behind by an earlier call that returned early still points at it, so that call's late reply is delivered to this call")
		}
	}
	for _, ep := range eps {
		var chans []*ssa.MakeChan
		sx.AllInstrs(ep.fn, func(_ sx.Node, in ssa.Instruction) {
			if mc, ok := in.(*ssa.MakeChan); ok && isResponseChan(mc.Type()) {
				chans = append(chans, mc)
			}
		})
		for i, mc := range chans {
			n++
			key := fmt.Sprintf("%s/replyChan%d", ep.key, i)
			var users []*ssa.Call
			for _, e := range ep.enqueues {
				if sx.Any(sx.Origins(e.Call.Args[2]), func(o sx.Origin) bool { return o.Kind == sx.KMake && o.V == mc }) {
					users = append(users, e)
				}
			}
			if len(users) == 0 {
				l.Bad("C05-M6", key, mc.Pos(), "a reply channel is created but never registered with a node")
				continue
			}
			streamingPossible := false
			for _, u := range users {
				if b, ok := constBool(u.Call.Args[3]); !ok || b {
					streamingPossible = true
				}
			}
			inLoop := false
			for _, u := range users {
				if sx.InLoop(sx.NodeOf(u)) {
					inLoop = true
				}
			}
			var okCap bool
			var capDesc string
			if inLoop {
				// capacity must be len of the ranged configuration
				okCap = len(users) == 1 && ep.loop != nil && lenOf(mc.Size, func(a ssa.Value) bool {
					return sx.All(sx.Origins(a), sx.IsParam(ep.fn.Params[0]))
				}) && ep.loop.rangeOver != nil && sx.All(sx.Origins(ep.loop.rangeOver), sx.IsParam(ep.fn.Params[0]))
				capDesc = "len(c) for one enqueue per element of c"
			} else {
				c, isC := mc.Size.(*ssa.Const)
				if isC && c.Value != nil {
					v, _ := constant.Int64Val(c.Value)
					okCap = int(v) >= len(users)
				}
				capDesc = fmt.Sprintf("constant >= %d enqueue site(s) outside loops", len(users))
			}
			note := ""
			if streamingPossible {
				note = " (may be registered as streaming: unbounded deliveries are C09-W3's concern)"
			}
			l.Check(okCap, "C05-M6", key, mc.Pos(), "capacity "+capDesc+note, "reply channel capacity is smaller than the number of nodes that can deliver to it ("+capDesc+" required): a late reply blocks the node's reader while holding the router lock")
		}
	}
	l.Floor("C05-M6", n, 6, "reply channel allocations")
}

// c05M8: who may delete from the router map. A router that disappears
// without having been answered turns a late reply (a released handler, a slow
// node) into silence: the call waits until its context ends.
func c05M8(l *core.Ledger, r *rt, rm *routerModel, rule string) {
	n := 0
	for _, a := range rm.accesses {
		if a.kind == "replace" {
			l.Bad(rule, fnKey(a.fn)+"/replace", sx.PosOf(a.at), "the router map is replaced as a whole: every pending call on this node loses its router")
			continue
		}
		if a.kind != "delete" {
			continue
		}
		n++
		key := fmt.Sprintf("%s/delete%d", fnKey(a.fn), n)
		// (a) the router deleted here is the one a delivery in this function just answered
		answered := false
		for _, d := range rm.deliveries {
			if d.fn == a.fn && d.key != nil && sameValue(a.key, d.key) {
				answered = true
			}
		}
		if answered {
			l.OK(rule, key, sx.PosOf(a.at), "deletes the router it delivered through")
			continue
		}
		// (b) a helper deleting exactly the id it is given, called by the owning call with its own id
		okParam := sx.All(sx.Origins(a.key), func(o sx.Origin) bool { return o.Kind == sx.KParam })
		if okParam && !sx.InLoop(sx.NodeOf(a.at)) {
			var prm *ssa.Parameter
			for _, o := range sx.Origins(a.key) {
				prm, _ = o.V.(*ssa.Parameter)
			}
			idx := -1
			for i, p := range a.fn.Params {
				if p == prm {
					idx = i
				}
			}
			bad := ""
			sites := 0
			for _, f := range allFuncs(l.Prog, r.pkg) {
				sx.AllInstrs(f, func(_ sx.Node, in ssa.Instruction) {
					cc := sx.CallOf(in)
					if cc == nil || cc.StaticCallee() != a.fn || idx < 0 || idx >= len(cc.Args) {
						return
					}
					sites++
					own := sx.All(sx.Origins(cc.Args[idx]), func(o sx.Origin) bool {
						switch o.Kind {
						case sx.KField:
							return o.Field != nil && o.Field.Name() == "MessageID" && o.Field.Pkg() != nil && o.Field.Pkg().Path() == orderingPkg
						case sx.KCall:
							// the id this invocation just drew for its own metadata
							c, isCall := o.V.(*ssa.Call)
							return isCall && isGetMsgID(&c.Call)
						case sx.KEscaped:
							// the call's own metadata literal, shared with the queued requests (nobody writes it: C15)
							return o.V != nil && isNamed(o.V.Type(), orderingPkg, "Metadata")
						}
						return false
					})
					if !own {
						bad = fnKey(f) + " passes " + sx.OriginsString(sx.Origins(cc.Args[idx]))
					}
				})
			}
			if bad == "" && sites > 0 {
				l.OK(rule, key, sx.PosOf(a.at), "helper deleting the id it is given; every caller passes its call's own message id")
				continue
			}
			if sites == 0 {
				l.OK(rule, key, sx.PosOf(a.at), "helper deleting the id it is given; not called")
				continue
			}
			l.Bad(rule, key, sx.PosOf(a.at), "a router is removed under an id that is not the removing call's own message id ("+bad+"): another call's reply is discarded")
			continue
		}
		l.Bad(rule, key, sx.PosOf(a.at), "a router is removed although its call has not been answered here and the id is not the removing call's own ("+sx.OriginsString(sx.Origins(a.key))+"): the late reply of a released handler or a slow node finds no router and its call waits until its context ends")
	}
}

// c05M9: the streaming flag handed to enqueue.
func c05M9(l *core.Ledger, eps []*entryPoint, rule string) {
	for _, ep := range eps {
		for i, c := range ep.enqueues {
			if len(c.Call.Args) < 4 {
				continue
			}
			flag := c.Call.Args[3]
			key := fmt.Sprintf("%s/enqueue%d/streaming", ep.key, i)
			ok := sx.All(sx.Origins(flag), func(o sx.Origin) bool {
				if o.Kind == sx.KConst {
					k, isC := o.V.(*ssa.Const)
					return isC && k.Value != nil && k.Value.Kind() == constant.Bool && !constant.BoolVal(k.Value)
				}
				return o.Kind == sx.KField && o.Field != nil && o.Field.Name() == "ServerStream" && sx.All(o.Base, sx.IsParam(ep.data))
			})
			l.Check(ok, rule, key, c.Pos(), "false, or the call data's ServerStream", "the router is registered as streaming ("+sx.OriginsString(sx.Origins(flag))+") for a call whose nodes answer once: it survives the reply, and a later stream failure reports the same node a second time (reply and error for one node)")
		}
	}
}

// c05M14: bookkeeping next to the router map. A counter that is meant to equal
// the number of routers (so that a reply can be dropped without the lock when
// "nobody is waiting") must change exactly when the map changes: delete() of a
// key that is not there is a no-op, a decrement next to it is not. Once the
// counter has drifted below the number of routers, the reply to the only
// outstanding call is dropped although its router is registered.
func c05M14(l *core.Ledger, r *rt) {
	l.Rule("C05-M14", "a counter kept next to the router map changes only when the map does: a removal that is accompanied by a counter update is known to remove an entry (it lies on the found edge of a lookup of the same id under the same hold of the lock, or its id comes from a range over the map)")
	n := 0
	for _, f := range allFuncs(l.Prog, r.pkg) {
		f := f
		sx.AllInstrs(f, func(nd sx.Node, in ssa.Instruction) {
			c, ok := in.(*ssa.Call)
			if !ok {
				return
			}
			b, isB := c.Call.Value.(*ssa.Builtin)
			if !isB || b.Name() != "delete" || len(c.Call.Args) != 2 {
				return
			}
			if !sx.Any(sx.Origins(c.Call.Args[0]), sx.IsFieldNamed("responseRouters", sx.AnyOrigin)) {
				return
			}
			// a counter update in the same block
			counted := false
			for _, in2 := range nd.B.Instrs {
				if c2, ok := in2.(*ssa.Call); ok {
					name := sx.StaticCalleeName(&c2.Call)
					if strings.HasPrefix(name, "sync/atomic.Add") || (strings.Contains(name, "sync/atomic.") && strings.HasSuffix(name, ".Add")) {
						counted = true
					}
				}
				if st, ok := in2.(*ssa.Store); ok {
					if fa, isFA := st.Addr.(*ssa.FieldAddr); isFA {
						if fl := fieldOf(fa.X.Type(), fa.Field); fl != nil {
							if bt, isBasic := fl.Type().Underlying().(*types.Basic); isBasic && bt.Info()&types.IsInteger != 0 {
								if _, isBin := st.Val.(*ssa.BinOp); isBin {
									counted = true
								}
							}
						}
					}
				}
			}
			if !counted {
				return
			}
			n++
			key := c.Call.Args[1]
			effective := sx.Any(sx.Origins(key), func(o sx.Origin) bool {
				_, isNext := o.V.(*ssa.Next)
				return isNext
			})
			if !effective {
				sx.AllInstrs(f, func(_ sx.Node, in3 ssa.Instruction) {
					ifi, ok := in3.(*ssa.If)
					if !ok {
						return
					}
					cv, _ := condOf(ifi)
					ex, ok := cv.(*ssa.Extract)
					if !ok || ex.Index != 1 {
						return
					}
					lk, ok := ex.Tuple.(*ssa.Lookup)
					if !ok || lk.Index != key && sx.OriginsString(sx.Origins(lk.Index)) != sx.OriginsString(sx.Origins(key)) {
						return
					}
					if !sx.Any(sx.Origins(lk.X), sx.IsFieldNamed("responseRouters", sx.AnyOrigin)) {
						return
					}
					if sx.EdgeDominates(f, edgeWhere(ifi, true), nd) {
						effective = true
					}
				})
			}
			l.Check(effective, "C05-M14", fnKey(f)+"/counted-removal", c.Pos(), "the counted removal removes an entry",
				"a router count is decremented next to a delete that may find nothing (the router was already removed by the delivery of an error, a late reply or a broken stream): the count drifts below the number of registered routers, and whatever is decided from it - a lock-free 'nobody is waiting' test in front of the lookup - drops the reply of a call whose router is registered")
		})
	}
	if n == 0 {
		l.OK("C05-M14", "no-router-counter", token.NoPos, "no counter is kept next to the router map")
	}
}

// wrapFreshMetadata: the Metadata literal that WrapMessage puts into the Message it returns (nil if
// it returns the metadata it was given).
func wrapFreshMetadata(fn *ssa.Function) *ssa.Alloc {
	var out *ssa.Alloc
	sx.AllInstrs(fn, func(_ sx.Node, in ssa.Instruction) {
		ret, isRet := in.(*ssa.Return)
		if !isRet || len(ret.Results) == 0 {
			return
		}
		if al, isAl := ret.Results[0].(*ssa.Alloc); isAl {
			if m, ok := allocFieldStores(al)["Metadata"].(*ssa.Alloc); ok && isNamed(m.Type(), orderingPkg, "Metadata") {
				out = m
			}
		}
	})
	return out
}
