package rules

import (
	"fmt"
	"go/constant"
	"go/token"
	"go/types"
	"os"

	"golang.org/x/tools/go/ssa"

	"verif/checker/internal/core"
	"verif/checker/internal/sx"
)

func init() {
	register("C02", Entry{
		Title: "A quorum call ends exactly on quorum, exhaustion (Incomplete) or context end",
		Run:   runC02,
		Meta: core.PropertyMeta{
			Explanation: "Decides the exit structure of the three reply loops and the future's completion protocol. T1: every completion (return / future store / final set) is exactly one of success, exhausted (QuorumCallError{cause: Incomplete} under the exhaustion test's true edge) or context (QuorumCallError{cause: ctx.Err()} inside the ctx.Done() case); nothing else. T2: the error's accounting fields are the loop's own error slice (appended only with nodeError{r.nid, r.err} on the error edge) and len(reply map). T3: every iteration re-evaluates the exhaustion test before waiting again. T4: in every send loop, on every path through one iteration, (#enqueue) + (#decrements of the expected count) = 1, the skip path is the '!IsValid()' edge of the per-node function's result, and the count starts at len(c) and reaches the loop that uses it. T5: the exhaustion test is evaluated before the first wait too (no wait when nothing is outstanding). T6: Async.c is closed only by a defer that is registered before anything else in handleAsyncCall, reply/err are written only there, directly before returning, and read only after a receive on c. T7: QuorumCallError.Is answers true whenever the cause equals the target (evaluated symbolically under that assumption), or Unwrap hands out the cause.",
			NotDecided:  "Wall-clock 'never keeps waiting' (decided only as: no path waits while the exhaustion condition already holds); 'at the first reply for which the function reports a quorum' is R4+R5 of C01 given this loop shape.",
			Trusted:     append([]string{"select/channel semantics of Go", "errors.Is calls the Is method"}, commonTrust...),
		},
	})
}

func runC02(l *core.Ledger) {
	r := runtimePkg(l)
	if r == nil {
		return
	}
	l.Rule("C02-T1", "every completion of a reply loop is exactly one of: success; QuorumCallError{cause: Incomplete} dominated by the exhaustion test's true edge; QuorumCallError{cause: ctx.Err()} inside the ctx.Done() case of the call's own context")
	l.Rule("C02-T2", "QuorumCallError.errors is the loop's error slice (appended only with nodeError{nodeID: r.nid, cause: r.err} on the error edge) and .replies is len(reply map)")
	l.Rule("C02-T3", "every path from the select back to the select passes the exhaustion test")
	l.Rule("C02-T4", "send loops: per iteration #enqueue + #decrement(expected) = 1 on every path, skip only on the !IsValid edge of the per-node result, expected initialised from len(c) and handed to the reply loop")
	l.Rule("C02-T5", "every path from function entry to the first blocking select passes the exhaustion test (no wait when no node is targeted)")
	l.Rule("C02-T6", "Async.c closed only by a defer registered first in handleAsyncCall; Async.reply/err written only there, immediately before return; Get reads them only after receiving on c; Done only polls c")
	l.Rule("C02-T7", "errors.Is(err, cause) holds for a call error: QuorumCallError.Is answers true on every path whenever the cause equals the target (== or errors.Is on the cause), or Unwrap returns the cause")
	l.Rule("C02-T8", "each targeted node answers a call at most once and at least once: deliver-then-delete under one hold of the router lock, error deliveries delete the router, a dequeued request is sent or answered, a stream error fails every pending call (C05-M3/M4, C07-E3/E4/E6 re-run)")

	loops := findReplyLoops(l, r, "C02-T1")
	if !l.Floor("C02-T1", len(loops), 3, "reply loops (QuorumCall, handleAsyncCall, handleCorrectableCall)") {
		return
	}
	for _, rl := range loops {
		c02Loop(l, r, rl)
	}
	c02T4(l, r)
	c02T6(l, r)
	c02T7(l, r)
	// T8: "every targeted node has answered" and "the numbers add up" presuppose
	// that each (node, call) answers at most once and that every request is
	// answered: the routing rules of C05/C07 are necessary conditions here too
	if rm := buildRouterModel(l, r, "C02-T8"); rm != nil {
		l.With(map[string]string{"C05-M4": "C02-T8"}, func() { checkDeliverDelete(l, r, rm, "C05-M4", false) })
		l.With(map[string]string{"C07-E6": "C02-T8"}, func() { checkDeliverDelete(l, r, rm, "C07-E6", true) })
		l.With(map[string]string{"C05-M3": "C02-T8"}, func() { checkRouterLocks(l, r, rm, "C05-M3") })
	}
	l.With(map[string]string{"C07-E3": "C02-T8"}, func() { c07E3(l, r) })
	l.With(map[string]string{"C07-E4": "C02-T8"}, func() { c07E4(l, r) })
	// ... and that no other call takes the reply away: one id source for every call on a node
	// (a second counter numbers node-level calls like configuration-level ones: the later
	// registration replaces the router of the call that is still waiting, its reply is dropped
	// and the call waits out its deadline although the quorum had answered)
	{
		var eps []*entryPoint
		l.With(map[string]string{}, func() { eps = findEntryPoints(l, r, "C02-T8") })
		l.With(map[string]string{"C05-M1": "C02-T8"}, func() { c05M1(l, r, eps) })
	}
	l.Rule("C02-T9", "a successful reply is counted as a reply: decoding overwrites (C13-D7 re-run) - with a merging decoder and a reused reply envelope the status of an earlier error reply of the node stays in every later reply, which is then counted as a node error, and a call that every node answers ends Incomplete")
	l.With(map[string]string{"C13-D7": "C02-T9"}, func() { c13D7(l, r) })
	l.Rule("C02-T10", "the number of targeted nodes is the number of distinct nodes (C14-G2 re-run): a node listed twice is expected to answer twice and answers once, the call can only end with its context")
	l.With(map[string]string{"C14-G2": "C02-T10"}, func() {
		for _, c := range findCtors(l, r) {
			c14Ctor(l, r, c)
		}
	})
}

// completion is a place where a reply loop fixes the call's outcome. When
// the outcome values are merged from several exits (`break` to one common
// assignment, phi nodes), there is one completion per incoming edge: via is
// the predecessor the values came through, and all path conditions are
// evaluated at the end of that block.
type completion struct {
	at    ssa.Instruction
	err   ssa.Value
	reply ssa.Value
	via   *ssa.BasicBlock
	to    *ssa.BasicBlock // the merge block entered from via
}

// under reports whether this outcome only happens on paths through one of
// the edges es: the edge it arrives on is one of them, or they dominate the
// point it is decided at.
func (c completion) under(fn *ssa.Function, es []sx.Edge) bool {
	if c.via != nil {
		for _, e := range es {
			if e.From == c.via && e.To == c.to {
				return true
			}
		}
	}
	return edgesDominate(fn, es, c.node())
}

// node is the program point whose path conditions characterise this outcome.
func (c completion) node() sx.Node {
	if c.via != nil {
		return sx.Node{B: c.via, I: len(c.via.Instrs) - 1}
	}
	return sx.NodeOf(c.at)
}

// splitMerged expands a completion whose error (or reply) is a phi of the
// block it executes in - or of a block that is left only towards it - into
// one completion per incoming edge.
func splitMerged(c completion, depth int) []completion {
	ph, ok := c.err.(*ssa.Phi)
	if !ok || depth > 3 {
		if rp, isPhi := c.reply.(*ssa.Phi); !isPhi || depth > 3 || !mergeBlockOf(rp, c) {
			return []completion{c}
		}
		ph = nil
	}
	var b *ssa.BasicBlock
	if ph != nil {
		if !mergeBlockOf(ph, c) {
			return []completion{c}
		}
		b = ph.Block()
	} else {
		b = c.reply.(*ssa.Phi).Block()
	}
	var out []completion
	for i, pred := range b.Preds {
		n := completion{at: c.at, err: c.err, reply: c.reply, via: pred, to: b}
		if ph != nil {
			n.err = ph.Edges[i]
		}
		if rp, isPhi := c.reply.(*ssa.Phi); isPhi && rp.Block() == b {
			n.reply = rp.Edges[i]
		}
		out = append(out, splitMerged(n, depth+1)...)
	}
	return out
}

// mergeBlockOf: the phi's block is where the completion's path conditions can
// be read off its predecessors: the block of the completion itself (first
// split) or of the predecessor we came through (nested merges), and it is not
// a loop head (a loop-carried variable is not an exit merge).
func mergeBlockOf(ph *ssa.Phi, c completion) bool {
	b := ph.Block()
	for _, p := range b.Preds {
		if b.Dominates(p) {
			return false
		}
	}
	if c.via != nil {
		return b == c.via
	}
	return b == c.at.Block() || b.Dominates(c.at.Block())
}

func completions(rl *replyLoop) []completion {
	var out []completion
	add := func(c completion) { out = append(out, splitMerged(c, 0)...) }
	sx.AllInstrs(rl.fn, func(_ sx.Node, in ssa.Instruction) {
		switch x := in.(type) {
		case *ssa.Return:
			n := len(x.Results)
			if n >= 1 && isErrorType(x.Results[n-1].Type()) {
				c := completion{at: x, err: x.Results[n-1]}
				if n >= 2 {
					c.reply = x.Results[0]
				}
				add(c)
			}
		case *ssa.Store:
			if base, ok := fieldAddrOf(x.Addr, "err"); ok && isNamed(base.Type(), core.RootModule, "Async") {
				c := completion{at: x, err: x.Val}
				// the reply stored with it: the store to .reply of the same base in this block
				for _, y := range x.Block().Instrs {
					if st, ok := y.(*ssa.Store); ok {
						if b2, ok := fieldAddrOf(st.Addr, "reply"); ok && b2 == base {
							c.reply = st.Val
						}
					}
				}
				add(c)
			}
		case *ssa.Call:
			if f := x.Call.StaticCallee(); f != nil && f.Name() == "set" && f.Signature.Recv() != nil && isNamed(f.Signature.Recv().Type(), core.RootModule, "Correctable") && len(x.Call.Args) == 5 {
				if c, ok := x.Call.Args[4].(*ssa.Const); ok && c.Value != nil && c.Value.String() == "true" {
					add(completion{at: x, err: x.Call.Args[3], reply: x.Call.Args[1]})
				} else if !ok {
					// non-constant done flag: treat as completion so that it is classified
					add(completion{at: x, err: x.Call.Args[3], reply: x.Call.Args[1]})
				}
			}
		}
	})
	return out
}

// qcErrorLiteral resolves an error value to the QuorumCallError composite
// literal it wraps and returns its field stores.
func qcErrorLiteral(v ssa.Value) (map[string]ssa.Value, bool) {
	mi, ok := v.(*ssa.MakeInterface)
	if !ok || !isNamed(mi.X.Type(), core.RootModule, "QuorumCallError") {
		return nil, false
	}
	ld, ok := mi.X.(*ssa.UnOp)
	if !ok || ld.Op != token.MUL {
		return nil, false
	}
	al, ok := ld.X.(*ssa.Alloc)
	if !ok {
		return nil, false
	}
	fields := map[string]ssa.Value{}
	var zero *ssa.Store
	var fieldStores []*ssa.Store
	for _, ref := range *al.Referrers() {
		switch u := ref.(type) {
		case *ssa.FieldAddr:
			fld := fieldOf(al.Type(), u.Field)
			for _, r2 := range *u.Referrers() {
				if st, ok := r2.(*ssa.Store); ok && st.Addr == u {
					if _, dup := fields[fld.Name()]; dup {
						return nil, false
					}
					fields[fld.Name()] = st.Val
					fieldStores = append(fieldStores, st)
				}
			}
		case *ssa.Store:
			if u.Addr == al {
				// a literal that names only some of the fields is compiled as a store of the zero
				// value followed by the field stores
				c, isC := u.Val.(*ssa.Const)
				if !isC || c.Value != nil || zero != nil {
					if os.Getenv("VERIF_DEBUG") != "" {
						fmt.Printf("DEBUG structLiteral zero-store rejected: isC=%v val=%v zero=%v\n", isC, u.Val, zero)
					}
					return nil, false
				}
				zero = u
			}
		}
	}
	if zero != nil {
		idx := func(in ssa.Instruction) int {
			for i, x := range in.Block().Instrs {
				if x == in {
					return i
				}
			}
			return -1
		}
		for _, st := range fieldStores {
			if st.Block() != zero.Block() || idx(st) < idx(zero) {
				if os.Getenv("VERIF_DEBUG") != "" {
					fmt.Printf("DEBUG structLiteral order rejected: %v (%d) vs zero (%d) blocks %v %v\n", st, idx(st), idx(zero), st.Block(), zero.Block())
				}
				return nil, false
			}
		}
	}
	return fields, true
}

func c02Loop(l *core.Ledger, r *rt, rl *replyLoop) {
	key := rl.key
	selNode := sx.NodeOf(rl.sel)
	exIfs, exEdges, exFull := rl.exhaustionTests()
	if len(exIfs) == 0 {
		l.Bad("C02-T3", key, rl.fn.Pos(), "no exhaustion test (answers so far compared with the expected number) found in the loop: the call can only end by quorum or context")
	}
	isEx := func(n sx.Node) bool {
		ifi, ok := n.Instr().(*ssa.If)
		if !ok {
			return false
		}
		for _, e := range exIfs {
			if e == ifi {
				return true
			}
		}
		return false
	}
	// non-stream calls must count replies as well as errors
	if !rl.correct {
		for _, e := range exIfs {
			if !exFull[e] {
				l.Bad("C02-T1", key+"/exhaustion-count", e.Pos(), "exhaustion compares only the number of errors with the expected count; replies must be counted too")
			}
		}
	}

	// ---- T1 / T2
	comps := completions(rl)
	nSucc, nEx, nCtx := 0, 0, 0
	// where the call's context is known to have ended: the ctx.Done() case of the loop's
	// select, and the non-nil edge of every test of that context's Err()
	ctxEndedEdges := []sx.Edge{rl.ctxEdge}
	var ctxAliveEdges []sx.Edge
	if rl.hasCtx {
		mErr := func(o sx.Origin) bool {
			cc, ok := o.V.(*ssa.Call)
			return o.Kind == sx.KCall && ok && cc.Call.IsInvoke() && cc.Call.Method.Name() == "Err" && cc.Call.Value == rl.ctxVal
		}
		sx.AllInstrs(rl.fn, func(_ sx.Node, in ssa.Instruction) {
			if ifi, ok := in.(*ssa.If); ok && isErrNonNil(ifi, mErr) != 0 {
				ctxEndedEdges = append(ctxEndedEdges, errEdge(ifi, mErr, true))
				ctxAliveEdges = append(ctxAliveEdges, errEdge(ifi, mErr, false))
			}
		})
		// the same test written as a non-blocking select on ctx.Done()
		pe, pa := ctxPollEdges(rl.fn, func(v ssa.Value) bool { return v == rl.ctxVal || sameCtx(v, rl.ctxVal) })
		ctxEndedEdges = append(ctxEndedEdges, pe...)
		ctxAliveEdges = append(ctxAliveEdges, pa...)
	}
	for i, c := range comps {
		k := fmt.Sprintf("%s/completion%d", key, i)
		pos := sx.PosOf(c.at)
		if cst, ok := c.err.(*ssa.Const); ok && cst.IsNil() {
			nSucc++
			// success: content is C01-R1 / C11-K3; here: it must be under a quorum verdict
			okDom := false
			for _, qf := range rl.qfCalls {
				var es []sx.Edge
				for _, qt := range rl.quorumTests(qf) {
					es = append(es, edgeWhere(qt, true))
				}
				if c.under(rl.fn, es) {
					okDom = true
				}
			}
			l.Check(okDom, "C02-T1", k, pos, "success under the quorum function's verdict", "a nil-error completion is reachable without a quorum verdict")
			continue
		}
		isCtxErr := func(o sx.Origin) bool {
			cc, ok := o.V.(*ssa.Call)
			return o.Kind == sx.KCall && ok && cc.Call.IsInvoke() && cc.Call.Method.Name() == "Err" && cc.Call.Value == rl.ctxVal
		}
		fields, ok := qcErrorLiteral(c.err)
		if !ok && rl.hasCtx && sx.All(sx.Origins(c.err), isCtxErr) {
			// the context's own error, not wrapped: "returns the context's error" holds literally
			nCtx++
			l.Check(c.under(rl.fn, ctxEndedEdges), "C02-T1", k, pos, "context error (unwrapped) only where the context was observed to have ended", "the context's error is reported outside the case that observed ctx.Done()")
			continue
		}
		if !ok {
			l.Bad("C02-T1", k, pos, "completion with an error that is not a QuorumCallError literal: "+sx.OriginsString(sx.Origins(c.err))+" (no other outcome than success / Incomplete / context error is allowed)")
			continue
		}
		// the cause may be chosen before the literal is built (cause := Incomplete; if err := ctx.Err();
		// err != nil { cause = err }): one outcome per incoming edge of that choice
		classify := func(c completion, causeVal ssa.Value, k string, i int) {
			cause := sx.Origins(causeVal)
			switch {
			case causeVal != nil && sx.All(cause, sx.IsGlobalNamed("Incomplete")):
				nEx++
				l.Check(c.under(rl.fn, exEdges), "C02-T1", k, pos, "Incomplete only under the exhaustion test", "Incomplete is reported on a path where the exhaustion test did not hold (some targeted node may still answer)")
				if rl.hasCtx {
					// requests of an ended context are answered locally, one error per node (enqueue, sendMsg):
					// those answers exhaust the call, and the select may see them before ctx.Done()
					l.Check(c.under(rl.fn, ctxAliveEdges), "C02-T1", k+"/ctx-alive", pos, "Incomplete only where the context was seen not to have ended", "Incomplete is reported without looking at the call's context: when the context ends before or while the requests are queued every node is answered locally with the context's error, the loop counts them and reports 'incomplete call' although the context ended first - and errors.Is(err, ctx.Err()) is false")
				}
			case causeVal != nil && rl.hasCtx && sx.All(cause, func(o sx.Origin) bool {
				cc, ok := o.V.(*ssa.Call)
				return o.Kind == sx.KCall && ok && cc.Call.IsInvoke() && cc.Call.Method.Name() == "Err" && cc.Call.Value == rl.ctxVal
			}):
				nCtx++
				l.Check(c.under(rl.fn, ctxEndedEdges), "C02-T1", k, pos, "context error only where the context was observed to have ended (ctx.Done() case, or a ctx.Err() tested non-nil)", "the context's error is reported outside the case that observed ctx.Done()")
				if fields["errors"] == nil && fields["replies"] == nil {
					// the property fixes the numbers only for Incomplete; a context report without them is complete
					return
				}
			default:
				l.Bad("C02-T1", k, pos, "QuorumCallError with cause "+sx.OriginsString(cause)+": neither Incomplete nor the Err() of the context selected on")
				return
			}
			// T2 accounting
			k2 := fmt.Sprintf("%s/accounting%d", key, i)
			okErrs := fields["errors"] != nil && rl.errsFamily(fields["errors"], map[ssa.Value]bool{})
			okReps := fields["replies"] != nil && lenOf(fields["replies"], func(a ssa.Value) bool { return a == rl.replies })
			l.Check(okErrs && okReps, "C02-T2", k2, pos, "errors = the loop's error slice, replies = len(reply map)", fmt.Sprintf("reported numbers do not add up: errors from the error slice: %v, replies = len(reply map): %v", okErrs, okReps))
		}
		if ph, isPhi := fields["cause"].(*ssa.Phi); isPhi && mergeBlockOf(ph, c) {
			for j, pred := range ph.Block().Preds {
				classify(completion{at: c.at, err: c.err, reply: c.reply, via: pred, to: ph.Block()}, ph.Edges[j], fmt.Sprintf("%s.%d", k, j), i)
			}
		} else {
			classify(c, fields["cause"], k, i)
		}
	}
	ctxCaseCompletes(l, rl, "C02-T1")
	if nEx == 0 {
		l.Bad("C02-T1", key+"/no-incomplete", rl.fn.Pos(), "no completion reports Incomplete: exhaustion is never reported")
	}
	if nCtx == 0 {
		l.Bad("C02-T1", key+"/no-context", rl.fn.Pos(), "no completion reports the context's error")
	}
	if nSucc == 0 {
		l.Bad("C02-T1", key+"/no-success", rl.fn.Pos(), "no successful completion")
	}
	// every return is preceded by a completion (void loop functions)
	isComp := func(n sx.Node) bool {
		for _, c := range comps {
			if c.at == n.Instr() {
				return true
			}
		}
		return false
	}
	if w, must := sx.MustPassThrough(sx.Entry(rl.fn), isComp, func(n sx.Node) bool { return sx.IsReturn(n) && !isComp(n) }); !must {
		l.Bad("C02-T1", key+"/return-without-outcome", sx.PosOf(w.Instr()), "the loop function can return without fixing an outcome")
	} else {
		l.OK("C02-T1", key+"/return-without-outcome", rl.fn.Pos(), "every return is preceded by a completion")
	}

	// ---- T2: appends to the error slice
	errTests := rl.errTests()
	var errEdges []sx.Edge
	for _, t := range errTests {
		errEdges = append(errEdges, errEdge(t, rl.isR("err"), true))
	}
	apps := rl.errAppends()
	if len(apps) == 0 {
		l.Bad("C02-T2", key+"/err-append", rl.fn.Pos(), "node errors are never recorded")
	}
	for i, a := range apps {
		k := fmt.Sprintf("%s/err-append%d", key, i)
		ok := rl.errsFamily(a.Call.Args[0], map[ssa.Value]bool{})
		// the appended element
		elemOK := false
		if sl, isSl := a.Call.Args[1].(*ssa.Slice); isSl {
			if arr, isAl := sl.X.(*ssa.Alloc); isAl {
				for _, ref := range *arr.Referrers() {
					ia, isIA := ref.(*ssa.IndexAddr)
					if !isIA {
						continue
					}
					for _, r2 := range *ia.Referrers() {
						if st, isSt := r2.(*ssa.Store); isSt && st.Addr == ia {
							f, okLit := structLiteral(st.Val)
							if okLit && f["nodeID"] != nil && f["cause"] != nil &&
								sx.All(sx.Origins(f["nodeID"]), rl.isR("nid")) && sx.All(sx.Origins(f["cause"]), rl.isR("err")) {
								elemOK = true
							}
						}
					}
				}
			}
		}
		dom := edgesDominate(rl.fn, errEdges, sx.NodeOf(a))
		l.Check(ok && elemOK && dom, "C02-T2", k, a.Pos(), "errs = append(errs, nodeError{r.nid, r.err}) on the error edge",
			fmt.Sprintf("error accounting broken: extends the loop's slice: %v, element is nodeError{nodeID: r.nid, cause: r.err}: %v, only on the r.err != nil edge: %v", ok, elemOK, dom))
	}
	// at most one record per received response
	for i, a := range apps {
		if _, again := sx.Reach(sx.NodeOf(a), func(n sx.Node) bool {
			for _, b := range apps {
				if b == n.Instr() {
					return true
				}
			}
			return false
		}, sx.Query{BlockNode: rl.isRecvSelect}); again {
			l.Bad("C02-T2", fmt.Sprintf("%s/err-append%d/once", key, i), a.Pos(), "one received error can be appended to the error slice more than once: a failing node contributes several errors and exhaustion is declared too early")
		}
	}
	// every error must be recorded: from the error edge, the next wait/exit is preceded by an append
	for _, e := range errEdges {
		isApp := func(n sx.Node) bool {
			for _, a := range apps {
				if a == n.Instr() {
					return true
				}
			}
			return false
		}
		if _, must := sx.MustPassThrough(sx.Node{B: e.To, I: -1}, isApp, func(n sx.Node) bool { return rl.isRecvSelect(n) || sx.IsExit(n) }); !must {
			l.Bad("C02-T2", key+"/err-dropped", e.From.Instrs[len(e.From.Instrs)-1].Pos(), "a node error can be dropped without being counted: the call then waits for an answer that already arrived")
		}
	}
	if len(errTests) == 0 {
		l.Bad("C02-T2", key+"/err-test", rl.fn.Pos(), "the received response's error is never tested")
	}

	// ---- T3: re-evaluation before the next wait
	q := sx.Query{BlockNode: isEx, CondClass: condClass}
	if w, reach := sx.Reach(selNode, func(n sx.Node) bool { return n == selNode }, q); reach {
		_ = w
		l.Bad("C02-T3", key, rl.sel.Pos(), "a path leads from one wait to the next without evaluating the exhaustion test: the call keeps waiting although every targeted node has answered")
	} else if len(exIfs) > 0 {
		l.OK("C02-T3", key, rl.sel.Pos(), "exhaustion test on every path select→select")
	}

	// ---- T5: before the first wait
	if _, reach := sx.Reach(sx.Entry(rl.fn), func(n sx.Node) bool { return n == selNode }, q); reach {
		l.Bad("C02-T5", key, rl.sel.Pos(), "the first blocking select is reachable from function entry without evaluating the exhaustion test: a call that targets no node (per-node function skipped every node) waits until its context ends")
	} else if len(exIfs) > 0 {
		l.OK("C02-T5", key, rl.sel.Pos(), "exhaustion test precedes the first wait")
	}
}

// structLiteral resolves a struct value built by a composite literal (local
// alloc + field stores + load) to its field stores.
func structLiteral(v ssa.Value) (map[string]ssa.Value, bool) {
	ld, ok := v.(*ssa.UnOp)
	if !ok || ld.Op != token.MUL {
		return nil, false
	}
	al, ok := ld.X.(*ssa.Alloc)
	if !ok {
		return nil, false
	}
	return allocLiteralFields(al)
}

// allocLiteralFields: the field stores of a struct built in a local slot by a
// composite literal. A literal that names only some of the fields is compiled
// as a store of the zero value followed by the field stores.
func allocLiteralFields(al *ssa.Alloc) (map[string]ssa.Value, bool) {
	fields := map[string]ssa.Value{}
	var zero *ssa.Store
	var fieldStores []*ssa.Store
	for _, ref := range *al.Referrers() {
		switch u := ref.(type) {
		case *ssa.FieldAddr:
			fld := fieldOf(al.Type(), u.Field)
			for _, r2 := range *u.Referrers() {
				if st, ok := r2.(*ssa.Store); ok && st.Addr == u {
					if _, dup := fields[fld.Name()]; dup {
						return nil, false
					}
					fields[fld.Name()] = st.Val
					fieldStores = append(fieldStores, st)
				}
			}
		case *ssa.Store:
			if u.Addr == al {
				c, isC := u.Val.(*ssa.Const)
				if !isC || c.Value != nil || zero != nil {
					return nil, false
				}
				zero = u
			}
		}
	}
	if zero != nil {
		idx := func(in ssa.Instruction) int {
			for i, x := range in.Block().Instrs {
				if x == in {
					return i
				}
			}
			return -1
		}
		for _, st := range fieldStores {
			if st.Block() != zero.Block() || idx(st) < idx(zero) {
				return nil, false
			}
		}
	}
	return fields, true
}

// ---------------------------------------------------------------- T4

func c02T4(l *core.Ledger, r *rt) {
	eps := findEntryPoints(l, r, "C02-T4")
	n := 0
	for _, ep := range eps {
		if !ep.onConfig {
			continue
		}
		n++
		key := ep.key
		if ep.loop == nil {
			l.Bad("C02-T4", key, ep.fn.Pos(), "configuration-wide entry point without a send loop over the configuration")
			continue
		}
		li := ep.loop
		if li.nested || len(li.paths) == 0 {
			l.Unknown("C02-T4", key, ep.fn.Pos(), "send loop body contains a nested loop: iteration-shape counting not applicable")
			continue
		}
		// ranged over the receiver
		if li.rangeOver == nil || !sx.All(sx.Origins(li.rangeOver), sx.IsParam(ep.fn.Params[0])) {
			l.Bad("C02-T4", key+"/range", ep.fn.Pos(), "the send loop does not range over the configuration the call was made on")
			continue
		}
		skips, _ := skipEdges(ep)
		valids, perNodeBlocks := validEdges(ep)
		var exp, sent *ssa.Phi
		for _, ph := range counterPhis(li) {
			entry := phiEntryEdge(li, ph)
			if entry == nil {
				continue
			}
			if c, ok := entry.(*ssa.Const); ok && c.Value != nil && c.Value.String() == "0" {
				sent = ph
			} else if expectedLike(entry, map[ssa.Value]bool{}) {
				exp = ph
			}
		}
		multicast := ep.fn.Signature.Results().Len() == 0
		countUp := false
		if !multicast && exp == nil && sent != nil {
			// the expected number counted up from 0, once per request handed to a node
			countUp = true
		}
		switch {
		case !multicast && exp == nil && !countUp:
			l.Bad("C02-T4", key+"/expected", ep.fn.Pos(), "no expected-replies counter initialised from len(c) is maintained across the send loop")
			continue
		case multicast && sent == nil && exp == nil:
			l.Bad("C02-T4", key+"/expected", ep.fn.Pos(), "no sent-message counter is maintained across the send loop")
			continue
		}
		bad := false
		for pi, path := range li.paths {
			enq := countEnqueues(ep, path)
			if enq > 1 {
				bad = true
				l.Bad("C02-T4", fmt.Sprintf("%s/path%d", key, pi), ep.enqueues[0].Pos(), fmt.Sprintf("a node can be sent the request %d times in one iteration", enq))
				continue
			}
			if exp != nil {
				d, ok := pathDelta(li, exp, path)
				if !ok {
					l.Unknown("C02-T4", fmt.Sprintf("%s/path%d", key, pi), ep.fn.Pos(), "cannot evaluate the expected-replies counter along this path")
					bad = true
					continue
				}
				if enq-d != 1 {
					bad = true
					l.Bad("C02-T4", fmt.Sprintf("%s/path%d", key, pi), ep.fn.Pos(), fmt.Sprintf("on a path through one iteration: %d enqueue(s), expected count changes by %+d; (#enqueue + #decrement) must be 1 — a skipped node is still waited for, or a contacted node is not counted", enq, d))
					continue
				}
			}
			if sent != nil {
				d, ok := pathDelta(li, sent, path)
				if !ok || d != enq {
					bad = true
					l.Bad("C02-T4", fmt.Sprintf("%s/path%d", key, pi), ep.fn.Pos(), fmt.Sprintf("sent-message counter changes by %+d on a path with %d enqueue(s)", d, enq))
					continue
				}
			}
			if enq == 1 {
				// a per-node result is sent only after it was seen to be a valid message (a typed nil
				// from the generated wrapper is not the untyped nil)
				usesPerNode := false
				for _, b := range path {
					if perNodeBlocks[b] {
						usesPerNode = true
					}
				}
				if usesPerNode && !pathUsesEdge(path, li.head, valids) {
					bad = true
					l.Bad("C02-T4", fmt.Sprintf("%s/path%d", key, pi), ep.fn.Pos(), "a node is skipped on a path other than the '!msg.ProtoReflect().IsValid()' edge of the per-node function's result: the result of the per-node function is sent without having been seen valid (a typed nil is sent as an empty request)")
				}
			}
			if enq == 0 && !pathUsesEdge(path, li.head, skips) {
				bad = true
				l.Bad("C02-T4", fmt.Sprintf("%s/path%d", key, pi), ep.fn.Pos(), "a node is skipped on a path other than the '!msg.ProtoReflect().IsValid()' edge of the per-node function's result")
			}
		}
		if !bad {
			l.OK("C02-T4", key, ep.fn.Pos(), fmt.Sprintf("%d paths through the send loop body: #enqueue + #decrement = 1 on each; skip only on !IsValid", len(li.paths)))
		}
		// the counter reaches the reply loop
		if countUp {
			exp = sent
		}
		if exp != nil && !multicast {
			reaches := false
			// (a) used directly by an exhaustion test in this function, or (b) stored in the state literal's expectedReplies field
			for _, ref := range *exp.Referrers() {
				switch u := ref.(type) {
				case *ssa.Store:
					if _, ok := fieldAddrOf(u.Addr, "expectedReplies"); ok && u.Val == exp {
						reaches = true
					}
				case *ssa.BinOp:
					if u.Op == token.EQL || u.Op == token.GEQ || u.Op == token.NEQ || u.Op == token.LSS {
						reaches = true
					}
				case *ssa.Go, *ssa.Call:
					// (c) passed as a plain argument to the function holding the reply loop, which compares it
					cc := sx.CallOf(u.(ssa.Instruction))
					if callee := cc.StaticCallee(); callee != nil {
						for i, a := range cc.Args {
							if a != exp || i >= len(callee.Params) {
								continue
							}
							for _, r2 := range *callee.Params[i].Referrers() {
								if b, ok := r2.(*ssa.BinOp); ok && (b.Op == token.EQL || b.Op == token.GEQ || b.Op == token.NEQ || b.Op == token.LSS) {
									reaches = true
								}
							}
						}
					}
				}
			}
			l.Check(reaches, "C02-T4", key+"/handoff", ep.fn.Pos(), "the adjusted count is the one the reply loop compares against", "the expected count adjusted by the send loop is not the value used by the reply loop")
		}
	}
	l.Floor("C02-T4", n, 4, "configuration-wide entry points (QuorumCall, AsyncCall, CorrectableCall, Multicast)")
}

// ---------------------------------------------------------------- T6

func c02T6(l *core.Ledger, r *rt) {
	isAsyncField := func(addr ssa.Value, name string) bool {
		base, ok := fieldAddrOf(addr, name)
		return ok && isNamed(base.Type(), core.RootModule, "Async")
	}
	h := r.mustFn("C02-T6", "RawConfiguration.handleAsyncCall")
	var writers, closers []string
	var closeSites []ssa.Instruction
	for _, f := range allFuncs(l.Prog, r.pkg) {
		sx.AllInstrs(f, func(_ sx.Node, in ssa.Instruction) {
			switch x := in.(type) {
			case *ssa.Store:
				if isAsyncField(x.Addr, "reply") || isAsyncField(x.Addr, "err") {
					writers = append(writers, fnKey(f))
				}
			}
			if cc := sx.CallOf(in); cc != nil {
				if b, ok := cc.Value.(*ssa.Builtin); ok && b.Name() == "close" {
					if sx.All(sx.Origins(cc.Args[0]), sx.IsFieldNamed("c", func(o sx.Origin) bool { return isNamed(o.V.Type(), core.RootModule, "Async") })) {
						closers = append(closers, fnKey(f))
						closeSites = append(closeSites, in)
					}
				}
			}
		})
	}
	if h == nil {
		return
	}
	hk := fnKey(h)
	okW := len(writers) > 0
	for _, w := range writers {
		if w != hk {
			okW = false
		}
	}
	l.Check(okW, "C02-T6", "who-may-write/Async.reply,err", h.Pos(), "written only by the call's own goroutine", fmt.Sprintf("Async.reply/err are written by %v; only %s may", writers, hk))
	if len(closeSites) != 1 || closers[0] != hk {
		l.Bad("C02-T6", "who-may-close/Async.c", h.Pos(), fmt.Sprintf("Async.c must be closed by exactly one site in %s; found %v", hk, closers))
	} else {
		d, isDefer := closeSites[0].(*ssa.Defer)
		ok := isDefer && d.Block() == h.Blocks[0]
		if ok {
			// nothing that can block or return precedes it
			for _, in := range h.Blocks[0].Instrs {
				if in == d {
					break
				}
				switch in.(type) {
				case *ssa.Select, *ssa.Call, *ssa.Send, *ssa.Go:
					ok = false
				}
			}
		}
		l.Check(ok, "C02-T6", "who-may-close/Async.c", closeSites[0].Pos(), "closed by a defer registered before anything else: runs on every exit, once", "Async.c is not closed by a defer registered at the top of the call goroutine: some exit leaves Get blocked forever, or the close precedes the result")
	}
	// every write is followed by return with no intervening call or wait
	okSeq := true
	sx.AllInstrs(h, func(n sx.Node, in ssa.Instruction) {
		st, ok := in.(*ssa.Store)
		if !ok || !(isAsyncField(st.Addr, "reply") || isAsyncField(st.Addr, "err")) {
			return
		}
		if _, reach := sx.Reach(n, func(x sx.Node) bool {
			switch y := x.Instr().(type) {
			case *ssa.Select, *ssa.Send, *ssa.Go:
				return true
			case *ssa.Call:
				if _, isB := y.Call.Value.(*ssa.Builtin); !isB {
					return true
				}
			}
			return false
		}, sx.Query{BlockNode: sx.IsReturn}); reach {
			okSeq = false
			l.Bad("C02-T6", hk+"/write-then-return", st.Pos(), "after the outcome is stored the goroutine can still wait or call out before returning: Get may observe a later, different outcome")
		}
	})
	if okSeq {
		l.OK("C02-T6", hk+"/write-then-return", h.Pos(), "each outcome store is followed directly by return")
	}
	// Get: reads dominated by a receive on c
	if g := r.mustFn("C02-T6", "Async.Get"); g != nil {
		var recv ssa.Instruction
		sx.AllInstrs(g, func(_ sx.Node, in ssa.Instruction) {
			if u, ok := in.(*ssa.UnOp); ok && u.Op == token.ARROW {
				if sx.All(sx.Origins(u.X), sx.IsFieldNamed("c", sx.IsParam(g.Params[0]))) {
					recv = u
				}
			}
		})
		ok := recv != nil
		reads := 0
		sx.AllInstrs(g, func(n sx.Node, in ssa.Instruction) {
			u, isU := in.(*ssa.UnOp)
			if !isU || u.Op != token.MUL {
				return
			}
			if isAsyncField(u.X, "reply") || isAsyncField(u.X, "err") {
				reads++
				if recv == nil || !sx.InstrDominates(g, recv, n) {
					ok = false
				}
			}
		})
		l.Check(ok && reads >= 2, "C02-T6", "gorums.(Async).Get", g.Pos(), "reads reply and err only after <-f.c", "Get reads the outcome without first receiving on the completion channel (data race / premature result)")
	}
	if d := r.mustFn("C02-T6", "Async.Done"); d != nil {
		reads := 0
		polls := false
		sx.AllInstrs(d, func(_ sx.Node, in ssa.Instruction) {
			if u, ok := in.(*ssa.UnOp); ok && u.Op == token.MUL && (isAsyncField(u.X, "reply") || isAsyncField(u.X, "err")) {
				reads++
			}
			if s, ok := in.(*ssa.Select); ok && !s.Blocking {
				for _, st := range s.States {
					if sx.All(sx.Origins(st.Chan), sx.IsFieldNamed("c", sx.IsParam(d.Params[0]))) {
						polls = true
					}
				}
			}
		})
		l.Check(reads == 0 && polls, "C02-T6", "gorums.(Async).Done", d.Pos(), "non-blocking poll of the completion channel", "Done does not decide by polling the completion channel only")
	}
}

// ---------------------------------------------------------------- T7

func c02T7(l *core.Ledger, r *rt) {
	// What errors.Is(err, X) needs when X is the cause (Incomplete, ctx.Err()): either an
	// Unwrap method that hands out the cause (errors.Is then compares it itself), or an Is
	// method that answers true whenever cause == target. The Is method is decided by
	// evaluating its branches under that assumption (and "target is not a gorums type":
	// the causes in question are Incomplete and the context package's errors).
	isFn, unFn := r.fn("QuorumCallError.Is"), r.fn("QuorumCallError.Unwrap")
	// an Unwrap that hands out the node errors makes errors.Is(err, X) true for whatever a node
	// reported: an Incomplete outcome then also matches context.DeadlineExceeded when a node's dial
	// timed out - the three outcomes can no longer be told apart
	if unFn != nil && len(unFn.Blocks) > 0 && len(unFn.Params) == 1 {
		e := unFn.Params[0]
		leaks := false
		var walk func(v ssa.Value, d int)
		seenV := map[ssa.Value]bool{}
		walk = func(v ssa.Value, d int) {
			if v == nil || d > 8 || seenV[v] {
				return
			}
			seenV[v] = true
			if sx.Any(sx.Origins(v), sx.IsFieldNamed("errors", sx.IsParam(e))) {
				leaks = true
				return
			}
			switch x := v.(type) {
			case *ssa.Call:
				for _, a := range x.Call.Args {
					walk(a, d+1)
				}
			case *ssa.Phi:
				for _, ed := range x.Edges {
					walk(ed, d+1)
				}
			case *ssa.MakeInterface:
				walk(x.X, d+1)
			case *ssa.Slice:
				walk(x.X, d+1)
			case *ssa.UnOp:
				walk(x.X, d+1)
			case *ssa.Alloc:
				for _, ref := range *x.Referrers() {
					if ia, ok := ref.(*ssa.IndexAddr); ok {
						for _, r2 := range *ia.Referrers() {
							if st, ok := r2.(*ssa.Store); ok {
								walk(st.Val, d+1)
							}
						}
					}
					if st, ok := ref.(*ssa.Store); ok && st.Addr == ssa.Value(x) {
						walk(st.Val, d+1)
					}
				}
			}
		}
		sx.AllInstrs(unFn, func(_ sx.Node, in ssa.Instruction) {
			switch x := in.(type) {
			case *ssa.Return:
				for _, res := range x.Results {
					walk(res, 0)
				}
			case *ssa.Range:
				if sx.Any(sx.Origins(x.X), sx.IsFieldNamed("errors", sx.IsParam(e))) {
					leaks = true
				}
			case *ssa.Index:
				walk(x.X, 0)
			case *ssa.IndexAddr:
				walk(x.X, 0)
			}
		})
		if leaks {
			l.Check(false, "C02-T7", "gorums.(QuorumCallError).Is", unFn.Pos(), "", "QuorumCallError.Unwrap hands out the node errors: errors.Is(err, X) is true for whatever any node reported (a dial that timed out: context.DeadlineExceeded), so an Incomplete outcome with a live context also matches the context errors - the outcomes can no longer be told apart")
			return
		}
	}
	if (isFn == nil || len(isFn.Blocks) == 0) && (unFn == nil || len(unFn.Blocks) == 0) {
		tn := r.pkg.Types.Scope().Lookup("QuorumCallError")
		if tn == nil {
			r.l.Unknown("C02-T7", "anchor/QuorumCallError", token.NoPos, "type QuorumCallError not found in package gorums: the rule's subject cannot be located")
			return
		}
		l.Check(false, "C02-T7", "gorums.(QuorumCallError).Is", tn.Pos(), "", "QuorumCallError has neither an Is method that compares the cause nor an Unwrap method that returns it: errors.Is(err, Incomplete) / errors.Is(err, ctx.Err()) are false for every call error")
		return
	}
	if unFn != nil && len(unFn.Blocks) > 0 && len(unFn.Params) == 1 {
		e := unFn.Params[0]
		good, n := true, 0
		sx.AllInstrs(unFn, func(_ sx.Node, in ssa.Instruction) {
			if ret, isRet := in.(*ssa.Return); isRet && len(ret.Results) == 1 {
				n++
				if !sx.All(sx.Origins(ret.Results[0]), sx.IsFieldNamed("cause", sx.IsParam(e))) {
					good = false
				}
			}
		})
		if good && n > 0 {
			l.Check(true, "C02-T7", "gorums.(QuorumCallError).Is", unFn.Pos(), "Unwrap returns the cause on every path: errors.Is compares the cause itself", "")
			return
		}
	}
	fn := isFn
	if fn == nil || len(fn.Blocks) == 0 || len(fn.Params) != 2 {
		pos := token.NoPos
		if unFn != nil {
			pos = unFn.Pos()
		}
		l.Check(false, "C02-T7", "gorums.(QuorumCallError).Is", pos, "", "QuorumCallError.Unwrap does not return the cause on every path and there is no Is method: errors.Is(err, Incomplete) / errors.Is(err, ctx.Err()) no longer follow from the cause")
		return
	}
	e, target := fn.Params[0], fn.Params[1]
	isCause := func(v ssa.Value) bool { return sx.All(sx.Origins(v), sx.IsFieldNamed("cause", sx.IsParam(e))) }
	isTarget := func(v ssa.Value) bool {
		return sx.All(sx.Origins(v), func(o sx.Origin) bool { return o.Kind == sx.KParam && o.V == target })
	}
	const (
		unk = iota
		tru
		fls
	)
	assumeEqual := true
	var eval func(v ssa.Value, pred *ssa.BasicBlock, depth int) int
	eval = func(v ssa.Value, pred *ssa.BasicBlock, depth int) int {
		if depth > 8 {
			return unk
		}
		switch x := v.(type) {
		case *ssa.Const:
			if x.Value != nil && x.Value.Kind() == constant.Bool {
				if constant.BoolVal(x.Value) {
					return tru
				}
				return fls
			}
		case *ssa.BinOp:
			if x.Op == token.EQL || x.Op == token.NEQ {
				if (isCause(x.X) && isTarget(x.Y)) || (isCause(x.Y) && isTarget(x.X)) {
					if (x.Op == token.EQL) == assumeEqual {
						return tru
					}
					return fls
				}
			}
		case *ssa.UnOp:
			if x.Op == token.NOT {
				switch eval(x.X, pred, depth+1) {
				case tru:
					return fls
				case fls:
					return tru
				}
			}
		case *ssa.Call:
			if sx.StaticCalleeName(&x.Call) == "errors.Is" && len(x.Call.Args) == 2 && isCause(x.Call.Args[0]) && isTarget(x.Call.Args[1]) {
				if assumeEqual {
					return tru
				}
				return fls
			}
		case *ssa.Extract:
			// "target.(T)" with T declared in this package: the causes this rule is about are not gorums types
			if ta, isTA := x.Tuple.(*ssa.TypeAssert); isTA && x.Index == 1 && isTarget(ta.X) {
				t := ta.AssertedType
				if pt, isPtr := t.(*types.Pointer); isPtr {
					t = pt.Elem()
				}
				if nt, isNamed := t.(*types.Named); isNamed && nt.Obj().Pkg() == r.pkg.Types {
					return fls
				}
			}
		case *ssa.Phi:
			if pred != nil {
				for i, p := range x.Block().Preds {
					if p == pred {
						return eval(x.Edges[i], nil, depth+1)
					}
				}
			}
			res := -1
			for _, ed := range x.Edges {
				r := eval(ed, nil, depth+1)
				if res == -1 {
					res = r
				} else if res != r {
					return unk
				}
			}
			if res >= 0 {
				return res
			}
		}
		return unk
	}
	type st struct{ b, pred *ssa.BasicBlock }
	seen := map[st]bool{}
	work := []st{{fn.Blocks[0], nil}}
	ok, n := true, 0
	var badPos token.Pos
	for len(work) > 0 {
		s := work[len(work)-1]
		work = work[:len(work)-1]
		if seen[s] {
			continue
		}
		seen[s] = true
		last := s.b.Instrs[len(s.b.Instrs)-1]
		switch t := last.(type) {
		case *ssa.Return:
			n++
			v := t.Results[0]
			pred := s.pred
			if ph, isPhi := v.(*ssa.Phi); isPhi && ph.Block() != s.b {
				pred = nil
			}
			if eval(v, pred, 0) != tru {
				ok = false
				badPos = sx.PosOf(t)
			}
		case *ssa.If:
			switch eval(t.Cond, s.pred, 0) {
			case tru:
				work = append(work, st{s.b.Succs[0], s.b})
			case fls:
				work = append(work, st{s.b.Succs[1], s.b})
			default:
				work = append(work, st{s.b.Succs[0], s.b}, st{s.b.Succs[1], s.b})
			}
		default:
			for _, su := range s.b.Succs {
				work = append(work, st{su, s.b})
			}
		}
	}
	// the other direction: a target that the cause neither is nor wraps is not matched (an Is
	// that answers true for everything makes a context error pass for Incomplete and vice versa)
	if ok && n > 0 {
		assumeEqual = false
		seen = map[st]bool{}
		work = []st{{fn.Blocks[0], nil}}
		for len(work) > 0 {
			s := work[len(work)-1]
			work = work[:len(work)-1]
			if seen[s] {
				continue
			}
			seen[s] = true
			last := s.b.Instrs[len(s.b.Instrs)-1]
			switch t := last.(type) {
			case *ssa.Return:
				v := t.Results[0]
				pred := s.pred
				if ph, isPhi := v.(*ssa.Phi); isPhi && ph.Block() != s.b {
					pred = nil
				}
				if eval(v, pred, 0) != fls {
					l.Check(false, "C02-T7", "gorums.(QuorumCallError).Is", sx.PosOf(t), "", "QuorumCallError.Is can answer true for a target that is not the cause: errors.Is no longer tells Incomplete, a context error and other errors apart")
					return
				}
			case *ssa.If:
				switch eval(t.Cond, s.pred, 0) {
				case tru:
					work = append(work, st{s.b.Succs[0], s.b})
				case fls:
					work = append(work, st{s.b.Succs[1], s.b})
				default:
					work = append(work, st{s.b.Succs[0], s.b}, st{s.b.Succs[1], s.b})
				}
			default:
				for _, su := range s.b.Succs {
					work = append(work, st{su, s.b})
				}
			}
		}
	}
	pos := fn.Pos()
	if !ok && badPos.IsValid() {
		pos = badPos
	}
	l.Check(ok && n > 0, "C02-T7", "gorums.(QuorumCallError).Is", pos, "Is answers true whenever the cause equals the target (evaluated under that assumption on every path)", "QuorumCallError.Is can answer something other than true although the cause equals the target (and no Unwrap hands the cause out): errors.Is(err, Incomplete) / errors.Is(err, ctx.Err()) no longer follow from the cause")
}

// ctxCaseCompletes: the context's end completes the call - from the ctx.Done()
// case of the reply loop no path leads back to the wait.
func ctxCaseCompletes(l *core.Ledger, rl *replyLoop, rule string) {
	if !rl.hasCtx {
		return
	}
	key := rl.key
	comps := completions(rl)
	selNode := sx.NodeOf(rl.sel)
	isComp := func(n sx.Node) bool {
		for _, c := range comps {
			if c.at == n.Instr() {
				return true
			}
		}
		return false
	}
	if _, back := sx.Reach(sx.Node{B: rl.ctxEdge.To, I: -1}, func(n sx.Node) bool { return n == selNode }, sx.Query{BlockNode: func(n sx.Node) bool { return isComp(n) || sx.IsReturn(n) }}); back {
		l.Bad(rule, key+"/ctx-completes", rl.sel.Pos(), "the case that observed the end of the call's context can go back to waiting without completing the call (a condition such as 'replies are still queued' in front of the completion): while that condition holds - a server stream refills the reply channel as fast as it is drained - the context's end is never acted upon")
	} else {
		l.OK(rule, key+"/ctx-completes", rl.sel.Pos(), "the ctx.Done() case always completes the call")
	}
}
