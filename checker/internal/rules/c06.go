package rules

import (
	"fmt"
	"os"
	"go/constant"
	"go/token"
	"go/types"
	"strings"

	"golang.org/x/tools/go/ssa"

	"verif/checker/internal/core"
	"verif/checker/internal/sx"
)

func init() {
	register("C06", Entry{
		Title:    "Each node gets exactly its own message; one-way calls never wait for handlers",
		Run:      runC06,
		Examples: true,
		Meta: core.PropertyMeta{
			Explanation: "P1: in the four entry points that accept a per-node function, the message handed to node n's queue is d.Message on the 'no function' edge and exactly d.PerNodeArgFn(d.Message, n.id) (n = this iteration's node) on the other; a node is skipped only on the '!IsValid()' edge of that result and is then neither enqueued nor counted (C02-T4 re-run); Unicast/RPCCall pass d.Message unchanged. P2: at most one enqueue per node and iteration, at most one sendMsg per dequeued request, one SendMsg per sendMsg. P3: Multicast performs at most as many confirmation receives as it enqueued and none on the no-send-waiting edge; Unicast performs at most one, none on that edge, where it registers no router. P4: handlers registered for one-way methods ignore their reply channel and never call SendMessage (generated files + template). P5: the send confirmation is a deferred call registered before any return of sendMsg, guarded only by waitForSend, which is exactly 'callType != nil && !noSendWaiting'; callType is written only by getCallOptions. P6: generated one-way stubs forward in, opts... and the per-node function faithfully. P11: the stream is reset only for a write in progress (C08-B3 re-run). P12: the server's receive loop returns only on its read error. P13 (known finding): the per-write watcher resets the stream all calls share.",
			NotDecided:  "'Exactly once when reachable' (liveness, transport); message *equality* at the receiving node (codec, C13).",
			Trusted:     commonTrust,
		},
	})
}

func runC06(l *core.Ledger) {
	r := runtimePkg(l)
	if r == nil {
		return
	}
	l.Rule("C06-P1", "per-node argument dataflow: message = d.Message when PerNodeArgFn is nil, else PerNodeArgFn(d.Message, n.id) of this iteration's node; skip exactly on !IsValid; single-node calls pass d.Message")
	l.Rule("C06-P2", "at most one enqueue per node and iteration (C02-T4), at most one sendMsg per dequeued request (C03-F3), exactly one SendMsg site per sendMsg")
	l.Rule("C06-P3", "one-way calls wait only for send confirmations: one receive per loop iteration bounded by the sent counter (Multicast) / one receive (Unicast); none reachable on the noSendWaiting edge; Unicast registers no router there")
	l.Rule("C06-P4", "handlers of one-way methods ignore the reply channel and contain no SendMessage (generated + template)")
	l.Rule("C06-P5", "send confirmation: a deferred closure registered in sendMsg's entry block, guarded only by waitForSend = callType != nil && !noSendWaiting; who-may-write callOptions.callType = getCallOptions")
	l.Rule("C06-P9", "the per-node function is handed proto.Clone of the caller's request, never the request itself (the generated documentation promises a copy; the request is shared by all nodes' messages until the senders marshal it)")
	l.Rule("C06-P10", "with WithNoSendWaiting a one-way call returns without waiting for the connection: the hand-off to the node's sender does not wait for the sender while the sender can be inside a connection attempt (a queue with guaranteed room, or a hand-off that does not block)")
	l.Rule("C06-P7", "a reachable node gets the message: the sender tries to (re)connect for every request while the node is not connected, and that attempt is real (C10-N1 re-run)")
	l.Rule("C06-P8", "gRPC does not replay the node stream: the dial options the library itself adds configure no service config with a retry or hedging policy (a transparently retried stream re-sends the buffered one-way messages)")
	l.Rule("C06-P6", "generated one-way stubs forward in, opts... and wrap the per-node function as f(req.(*In), nid)")

	eps := findEntryPoints(l, r, "C06-P1")
	if !l.Floor("C06-P1", len(eps), 6, "context-taking entry points") {
		return
	}
	for _, ep := range eps {
		c06P1(l, ep)
	}
	l.With(map[string]string{"C02-T4": "C06-P2"}, func() { c02T4(l, r) })
	l.With(map[string]string{"C10-N1": "C06-P7"}, func() { c10N1(l, r) })
	c06P12(l, r, "C06-P12")
	c06P14(l, r)
	l.Rule("C06-P15", "what a node receives is the message that was sent: the decoder is given no limit or filter the encoder has no counterpart for (C13-D2 re-run) - DiscardUnknown drops the unknown fields of a relayed request, which are part of its value")
	if gm, gum := r.fn("Codec.gorumsMarshal"), r.fn("Codec.gorumsUnmarshal"); gm != nil && gum != nil {
		l.With(map[string]string{"C13-D2": "C06-P15"}, func() { c13D2(l, r, gm, gum) })
	}
	l.Rule("C06-P13", "ending one call does not cost other calls their messages: no event of a single call (the end of its context) resets the stream that carries the one-way messages of all calls on the node")
	l.With(map[string]string{"C06-P13": "C06-P13"}, func() { c09W9(l, r) })
	l.Rule("C06-P11", "a request whose context has ended is not written, and the stream is reset only for a write that is in progress when the context ends (C08-B3 re-run): a reset discards the one-way messages of other calls that the server has received and not yet read - calls that have returned, with contexts that never ended")
	l.With(map[string]string{"C08-B3": "C06-P11"}, func() { c08B3(l, r) })
	c06P8(l, r)
	c06P10(l, r)
	l.With(map[string]string{"C03-F3": "C06-P2"}, func() { c03F2F3(l, r) })
	c06P3(l, eps)
	c06P4(l)
	c06P5(l, r)
	// the confirmation is delivered by a send under the router lock: the channel it goes to
	// must have room for every confirmation of the call, made by that call (C05-M6 re-run) -
	// an abandoned send-waiting call must not block the node's sender for later one-way calls
	l.With(map[string]string{"C05-M6": "C06-P5"}, func() { c05M6(l, r, eps) })
	c06P6(l)
	l.Rule("C06-P16", "at most once per targeted node presupposes that a configuration lists a node once (C14-G2 re-run)")
	l.With(map[string]string{"C14-G2": "C06-P16"}, func() {
		for _, c := range findCtors(l, r) {
			c14Ctor(l, r, c)
		}
	})
	l.Rule("C06-P17", "a send-waiting one-way call is confirmed by the write of its own message: one id source for every call on a node (C05-M1 re-run) - with a second counter the confirmation router of a unicast is replaced by a concurrent call with the same number, and the unicast never returns although its message was sent")
	l.With(map[string]string{"C05-M1": "C06-P17"}, func() { c05M1(l, r, eps) })
}

func isDataMessage(ep *entryPoint) func(sx.Origin) bool {
	return sx.IsFieldNamed("Message", sx.IsParam(ep.data))
}

func c06P1(l *core.Ledger, ep *entryPoint) {
	key := ep.key
	for i, e := range ep.enqueues {
		k := fmt.Sprintf("%s/enqueue%d", key, i)
		// the request literal
		reqLit, ok := structLiteral(e.Call.Args[1])
		if !ok || reqLit["msg"] == nil {
			if os.Getenv("VERIF_DEBUG") != "" {
				fmt.Printf("DEBUG P1 %s arg=%T %v ok=%v\n", k, e.Call.Args[1], e.Call.Args[1], ok)
				if ld, isLd := e.Call.Args[1].(*ssa.UnOp); isLd {
					if al, isAl := ld.X.(*ssa.Alloc); isAl {
						for _, ref := range *al.Referrers() {
							fmt.Printf("DEBUG   ref %T %v\n", ref, ref)
						}
					}
				}
			}
			l.Bad("C06-P1", k, e.Pos(), "the request handed to the queue is not a literal built here")
			continue
		}
		msgAl, ok := reqLit["msg"].(*ssa.Alloc)
		if !ok {
			l.Bad("C06-P1", k, e.Pos(), "request.msg is not a fresh Message literal")
			continue
		}
		mv := allocFieldStores(msgAl)["Message"]
		if mv == nil {
			l.Bad("C06-P1", k, e.Pos(), "the Message literal has no payload")
			continue
		}
		if reqLit["ctx"] != ssa.Value(ep.ctx) {
			l.Bad("C06-P1", k+"/ctx", e.Pos(), "the request does not carry the call's own context")
		}
		_, perNode := skipEdges(ep)
		hasSlot := sx.FieldIndex(ep.data.Type(), "PerNodeArgFn") >= 0
		if !ep.onConfig || !hasSlot {
			l.Check(sx.All(sx.Origins(mv), isDataMessage(ep)), "C06-P1", k, e.Pos(), "payload = d.Message", "single-node call does not send the caller's message unchanged: "+sx.OriginsString(sx.Origins(mv)))
			continue
		}
		if len(perNode) != 1 {
			l.Bad("C06-P1", k, e.Pos(), fmt.Sprintf("%d calls through the PerNodeArgFn slot; exactly one per iteration is required", len(perNode)))
			continue
		}
		pc := perNode[0]
		// arguments of the per-node call
		// the per-node function gets a copy of the caller's request (the generated documentation
		// promises one): proto.Clone(d.Message). The request itself is what every node's message
		// refers to until the senders marshal it; a function that fills it in would change them all.
		isCopyOfRequest := func(v ssa.Value) bool {
			return sx.All(sx.Origins(v), func(o sx.Origin) bool {
				c, isCall := o.V.(*ssa.Call)
				if o.Kind != sx.KCall || !isCall || sx.StaticCalleeName(&c.Call) != "google.golang.org/protobuf/proto.Clone" {
					return false
				}
				return sx.All(sx.Origins(c.Call.Args[0]), isDataMessage(ep))
			})
		}
		if len(pc.Call.Args) == 2 && sx.All(sx.Origins(pc.Call.Args[0]), isDataMessage(ep)) {
			l.Bad("C06-P9", k+"/per-node-copy", pc.Pos(), "the per-node function is handed the caller's request itself, not a copy: a function that fills in its argument and returns it (which the generated documentation allows: 'receives a copy') changes the one message all nodes' requests refer to, and since the messages are marshalled later most nodes receive the argument made for the last node")
			continue
		}
		if len(pc.Call.Args) == 2 && isCopyOfRequest(pc.Call.Args[0]) {
			l.OK("C06-P9", k+"/per-node-copy", pc.Pos(), "proto.Clone(d.Message)")
		}
		okArgs := len(pc.Call.Args) == 2 && isCopyOfRequest(pc.Call.Args[0]) &&
			ep.loop != nil && ep.loop.nodeVal != nil && sx.All(sx.Origins(pc.Call.Args[1]), sx.IsFieldNamed("id", func(o sx.Origin) bool {
			return o.Kind == sx.KElem && o.V == ep.loop.nodeVal.(*ssa.UnOp).X
		}))
		if !okArgs {
			l.Bad("C06-P1", k+"/per-node-args", pc.Pos(), "the per-node function is not called with (a copy of d.Message, id of this iteration's node)")
			continue
		}
		// nil test
		isSlot := func(o sx.Origin) bool {
			return o.Kind == sx.KField && o.Field != nil && o.Field.Name() == "PerNodeArgFn"
		}
		var nonNil []sx.Edge
		sx.AllInstrs(ep.fn, func(_ sx.Node, in ssa.Instruction) {
			if ifi, ok := in.(*ssa.If); ok && isErrNonNil(ifi, isSlot) != 0 {
				nonNil = append(nonNil, errEdge(ifi, isSlot, true))
			}
		})
		if !edgesDominate(ep.fn, nonNil, sx.NodeOf(pc)) {
			l.Bad("C06-P1", k+"/nil-test", pc.Pos(), "the per-node function is called without a preceding nil test")
			continue
		}
		// payload: phi of {d.Message from the nil edge, call result}
		okPayload := true
		detail := ""
		switch v := mv.(type) {
		case *ssa.Phi:
			for j, edge := range v.Edges {
				pred := v.Block().Preds[j]
				last := sx.Node{B: pred, I: len(pred.Instrs) - 1}
				fromFnEdge := edgesDominate(ep.fn, nonNil, last)
				switch {
				case edge == ssa.Value(pc):
					if !fromFnEdge {
						okPayload, detail = false, "per-node result used on the nil-function edge"
					}
				case sx.All(sx.Origins(edge), isDataMessage(ep)):
					if fromFnEdge {
						okPayload, detail = false, "with a per-node function set, the caller's original message is sent instead of the function's result"
					}
				default:
					okPayload, detail = false, "payload from "+sx.OriginsString(sx.Origins(edge))
				}
			}
		default:
			okPayload, detail = false, "payload is not selected between d.Message and the per-node result: "+sx.OriginsString(sx.Origins(mv))
		}
		l.Check(okPayload, "C06-P1", k, e.Pos(), "payload = d.Message | PerNodeArgFn(d.Message, n.id) on the right edges", "per-node payload broken: "+detail)
		// receiver of enqueue: channel of this iteration's node
		okNode := sx.All(sx.Origins(e.Call.Args[0]), sx.IsFieldNamed("channel", func(o sx.Origin) bool {
			return o.Kind == sx.KElem && o.V == ep.loop.nodeVal.(*ssa.UnOp).X
		}))
		l.Check(okNode, "C06-P1", k+"/target", e.Pos(), "enqueued on this iteration's node", "the message computed for node n is enqueued on another node's channel")
	}
}

func c06P3(l *core.Ledger, eps []*entryPoint) {
	for _, ep := range eps {
		if ep.fn.Signature.Results().Len() != 0 {
			continue // two-way calls
		}
		key := ep.key
		// the noSendWaiting edges
		var nsw []sx.Edge
		sx.AllInstrs(ep.fn, func(_ sx.Node, in ssa.Instruction) {
			ifi, ok := in.(*ssa.If)
			if !ok {
				return
			}
			v, _ := condOf(ifi)
			if sx.All(sx.Origins(v), func(o sx.Origin) bool {
				return o.Kind == sx.KField && o.Field != nil && o.Field.Name() == "noSendWaiting"
			}) {
				nsw = append(nsw, edgeWhere(ifi, true))
			}
		})
		if len(nsw) == 0 {
			l.Bad("C06-P3", key, ep.fn.Pos(), "one-way call never tests the no-send-waiting option")
			continue
		}
		isRecv := func(n sx.Node) bool {
			switch x := n.Instr().(type) {
			case *ssa.UnOp:
				return x.Op == token.ARROW
			case *ssa.Select:
				if !x.Blocking {
					return false
				}
				for _, st := range x.States {
					if st.Dir == types.RecvOnly && isResponseChan(st.Chan.Type()) {
						return true
					}
				}
			}
			return false
		}
		// no receive on a path that is consistent with noSendWaiting == true
		_, reach := sx.Reach(sx.Entry(ep.fn), isRecv, sx.Query{CondClass: func(ifi *ssa.If) (string, bool) {
			v, pos := condOf(ifi)
			if sx.All(sx.Origins(v), func(o sx.Origin) bool {
				return o.Kind == sx.KField && o.Field != nil && o.Field.Name() == "noSendWaiting"
			}) {
				return "nsw", pos
			}
			return "", false
		}, InitAssign: "nsw=1"})
		l.Check(!reach, "C06-P3", key+"/no-wait", ep.fn.Pos(), "no confirmation wait with the no-send-waiting option", "with WithNoSendWaiting the call still waits for a confirmation")
		// waits are bounded by what was enqueued
		var recvs []sx.Node
		sx.AllInstrs(ep.fn, func(n sx.Node, in ssa.Instruction) {
			if isRecv(n) {
				recvs = append(recvs, n)
			}
		})
		if ep.onConfig {
			okCount := len(recvs) == 1 && sx.InLoop(recvs[0])
			if okCount {
				// the loop is controlled by the sent counter: a phi decremented once per iteration and compared > 0
				okCount = false
				for _, h := range sx.LoopHeads(ep.fn) {
					if !h.Dominates(recvs[0].B) || h == ep.loop.head {
						continue
					}
					for _, in := range h.Instrs {
						ph, ok := in.(*ssa.Phi)
						if !ok {
							continue
						}
						// the send loop's sent counter: a phi of the send loop's head that starts at 0
						isSentCounter := func(v ssa.Value) bool {
							sp, ok := v.(*ssa.Phi)
							if !ok || sp.Block() != ep.loop.head {
								return false
							}
							c, isC := phiEntryEdge(ep.loop, sp).(*ssa.Const)
							return isC && c.Value != nil && constant.Sign(c.Value) == 0
						}
						isOne := func(v ssa.Value) bool {
							c, ok := v.(*ssa.Const)
							return ok && c.Value != nil && constant.Compare(c.Value, token.EQL, constant.MakeInt64(1))
						}
						isZero := func(v ssa.Value) bool {
							c, ok := v.(*ssa.Const)
							return ok && c.Value != nil && constant.Sign(c.Value) == 0
						}
						var cx, cy ssa.Value
						var cop token.Token
						hasCond := false
						if ifi, ok := h.Instrs[len(h.Instrs)-1].(*ssa.If); ok {
							cx, cop, cy, hasCond = sx.LoopCondition(ifi, ph)
						}
						// (i) count down from the sent counter while > 0 (or != 0)
						isSent, dec, cmp := false, false, false
						for _, e := range ph.Edges {
							if isSentCounter(e) {
								isSent = true
							}
							if b, ok := e.(*ssa.BinOp); ok && b.Op == token.SUB && b.X == ssa.Value(ph) && isOne(b.Y) {
								dec = true
							}
						}
						if hasCond && cx == ssa.Value(ph) && (cop == token.GTR || cop == token.NEQ) && isZero(cy) {
							cmp = true
						}
						// (ii) count up from 0 while < the sent counter (or != it)
						if !(isSent && dec && cmp) {
							from0, inc, lt := false, false, false
							for _, e := range ph.Edges {
								if isZero(e) {
									from0 = true
								}
								if b, ok := e.(*ssa.BinOp); ok && b.Op == token.ADD && b.X == ssa.Value(ph) && isOne(b.Y) {
									inc = true
								}
							}
							if hasCond && cx == ssa.Value(ph) && (cop == token.LSS || cop == token.NEQ) && isSentCounter(cy) {
								lt = true
							}
							if from0 && inc && lt {
								isSent, dec, cmp = true, true, true
							}
						}
						if isSent && dec && cmp {
							okCount = true
						}
					}
				}
			}
			l.Check(okCount, "C06-P3", key+"/wait-count", ep.fn.Pos(), "one confirmation per enqueued message", "the number of confirmations waited for is not the number of messages enqueued: waits for a skipped node (hangs) or returns before all sends completed")
		} else {
			l.Check(len(recvs) == 1 && !sx.InLoop(recvs[0]), "C06-P3", key+"/wait-count", ep.fn.Pos(), "exactly one confirmation wait", fmt.Sprintf("unicast waits %d times", len(recvs)))
			// no router without send-waiting: enqueue registers a router exactly for a
			// non-nil channel, every channel handed to enqueue is nil or made here,
			// and no channel is made on a path consistent with noSendWaiting
			okNil := len(ep.enqueues) > 0
			for _, e := range ep.enqueues {
				for _, o := range sx.Origins(e.Call.Args[2]) {
					_, isMake := o.V.(*ssa.MakeChan)
					if !sx.IsZeroOrNil(o) && !(isMake && o.V.(*ssa.MakeChan).Parent() == ep.fn) {
						okNil = false
					}
				}
			}
			isMakeResp := func(n sx.Node) bool {
				mc, ok := n.Instr().(*ssa.MakeChan)
				return ok && isResponseChan(mc.Type())
			}
			if _, made := sx.Reach(sx.Entry(ep.fn), isMakeResp, sx.Query{CondClass: func(ifi *ssa.If) (string, bool) {
				v, pos := condOf(ifi)
				if sx.All(sx.Origins(v), func(o sx.Origin) bool {
					return o.Kind == sx.KField && o.Field != nil && o.Field.Name() == "noSendWaiting"
				}) {
					return "nsw", pos
				}
				return "", false
			}, InitAssign: "nsw=1"}); made {
				okNil = false
			}
			l.Check(okNil, "C06-P3", key+"/no-router", ep.fn.Pos(), "no router registered without send-waiting", "without send-waiting a router is still registered for a unicast: it is never removed")
		}
	}
}

func c06P5(l *core.Ledger, r *rt) {
	// sendMsg
	var fn *ssa.Function
	for _, f := range allFuncs(l.Prog, r.pkg) {
		if f.Parent() == nil && f.Signature.Recv() != nil && isNamed(f.Signature.Recv().Type(), core.RootModule, "channel") {
			p, rs := f.Signature.Params(), f.Signature.Results()
			if p.Len() == 1 && isNamed(p.At(0).Type(), core.RootModule, "request") && rs.Len() == 1 && isErrorType(rs.At(0).Type()) {
				fn = f
			}
		}
	}
	if fn == nil {
		l.Unknown("C06-P5", "anchor/sendMsg", token.NoPos, "sendMsg not found")
		return
	}
	key := fnKey(fn)
	var conf *ssa.Defer
	var confSite *respSite
	for _, s := range responseSites(l, r) {
		if s.kind == "zero" && s.fn.Parent() == fn {
			confSite = s
		}
	}
	if confSite != nil {
		sx.AllInstrs(fn, func(_ sx.Node, in ssa.Instruction) {
			if d, ok := in.(*ssa.Defer); ok {
				if d.Call.StaticCallee() == confSite.fn {
					conf = d
				}
			}
		})
	}
	if conf == nil {
		l.Bad("C06-P5", key+"/confirmation", fn.Pos(), "no deferred send confirmation in sendMsg: a send-waiting one-way call never returns")
	} else {
		// registered before any exit: the defer dominates every return
		first := true
		sx.AllInstrs(fn, func(n sx.Node, in ssa.Instruction) {
			if _, isRet := in.(*ssa.Return); isRet && !sx.InstrDominates(fn, conf, n) {
				first = false
			}
		})
		// the id it confirms is the request's own
		okID := confSite.msgID != nil && sx.All(sx.Origins(confSite.msgID), isReqMsgID(sx.IsParam(fn.Params[1])))
		// runs exactly for one-way calls that wait for their send
		exact := confirmationExact(confSite.fn, confSite.at)
		l.Check(first && okID && exact, "C06-P5", key+"/confirmation", conf.Pos(), "deferred before every return; confirms the request's own id; runs exactly when callType != nil && !noSendWaiting",
			fmt.Sprintf("send confirmation: registered before any return: %v; under the request's own id: %v; delivered exactly when the request is a one-way call that waits for its send: %v (otherwise two-way calls are confirmed with an empty reply, or waiting one-way calls never return)", first, okID, exact))
	}
	if wf := r.fn("request.waitForSend"); wf != nil {
		// evaluate the body as a boolean function of (callType != nil, noSendWaiting)
		ok := true
		for _, ct := range []bool{false, true} {
			for _, nsw := range []bool{false, true} {
				got, decided := evalWaitForSend(wf, ct, nsw)
				if !decided || got != (ct && !nsw) {
					ok = false
				}
			}
		}
		l.Check(ok, "C06-P5", "gorums.(request).waitForSend", wf.Pos(), "callType != nil && !noSendWaiting", "waitForSend is not exactly 'one-way call type set and no-send-waiting not set': two-way calls would be confirmed with an empty reply, or one-way calls never confirmed")
	}
	// who may write callType
	var writers []string
	for _, f := range allFuncs(l.Prog, r.pkg) {
		sx.AllInstrs(f, func(_ sx.Node, in ssa.Instruction) {
			if st, ok := in.(*ssa.Store); ok {
				if base, ok := fieldAddrOf(st.Addr, "callType"); ok && isNamed(base.Type(), core.RootModule, "callOptions") {
					writers = append(writers, fnKey(f))
				}
			}
		})
	}
	l.Check(len(writers) == 1 && writers[0] == "gorums.getCallOptions", "C06-P5", "who-may-write/callOptions.callType", token.NoPos, "only getCallOptions", fmt.Sprintf("callType written by %v", writers))
	// entry points: one-way entry points pass a non-nil extension, two-way requests leave opts zero
	for _, f := range allFuncs(l.Prog, r.pkg) {
		sx.AllInstrs(f, func(_ sx.Node, in ssa.Instruction) {
			c, ok := in.(*ssa.Call)
			if !ok || c.Call.StaticCallee() == nil || c.Call.StaticCallee().Name() != "getCallOptions" {
				return
			}
			want := map[string]string{"Unicast": "E_Unicast", "Multicast": "E_Multicast"}[f.Name()]
			okExt := sx.All(sx.Origins(c.Call.Args[0]), func(o sx.Origin) bool { return o.Kind == sx.KGlobal && (want == "" || o.V.Name() == want) })
			l.Check(okExt && want != "", "C06-P5", fnKey(f)+"/call-type", c.Pos(), "call type = the entry point's own extension", "getCallOptions is not given the entry point's own call-type extension")
		})
	}
}

// evalWaitForSend interprets the (loop-free) body of waitForSend under an
// assignment of its two atoms.
func evalWaitForSend(fn *ssa.Function, callTypeSet, noSendWaiting bool) (bool, bool) {
	w := &boolWalker{ct: callTypeSet, nsw: noSendWaiting}
	_, ret, ok := w.run(fn, nil, 0)
	return ret, ok
}

// confirmationReached decides, for one valuation of (callType != nil,
// noSendWaiting), whether the instruction `target` of the loop-free function
// fn is executed. Conditions may be calls of loop-free boolean helpers.
func confirmationReached(fn *ssa.Function, target ssa.Instruction, callTypeSet, noSendWaiting bool) (bool, bool) {
	w := &boolWalker{ct: callTypeSet, nsw: noSendWaiting}
	reached, _, ok := w.run(fn, target, 0)
	return reached, ok
}

// confirmationExact: target runs exactly when the request is a one-way call
// that waits for its send.
func confirmationExact(fn *ssa.Function, target ssa.Instruction) bool {
	for _, ct := range []bool{false, true} {
		for _, nsw := range []bool{false, true} {
			got, decided := confirmationReached(fn, target, ct, nsw)
			if !decided || got != (ct && !nsw) {
				return false
			}
		}
	}
	return true
}

type boolWalker struct{ ct, nsw bool }

func (w *boolWalker) value(v ssa.Value, from map[*ssa.BasicBlock]*ssa.BasicBlock, depth int) (bool, bool) {
	if depth > 12 {
		return false, false
	}
	switch x := v.(type) {
	case *ssa.Const:
		if x.Value != nil && x.Value.Kind() == constant.Bool {
			return constant.BoolVal(x.Value), true
		}
	case *ssa.UnOp:
		if x.Op == token.NOT {
			b, ok := w.value(x.X, from, depth+1)
			return !b, ok
		}
	case *ssa.Phi:
		for i, p := range x.Block().Preds {
			if p == from[x.Block()] {
				return w.value(x.Edges[i], from, depth+1)
			}
		}
		return false, false
	case *ssa.BinOp:
		c, isC := x.Y.(*ssa.Const)
		if isC && c.IsNil() && sx.All(sx.Origins(x.X), func(o sx.Origin) bool { return o.Kind == sx.KField && o.Field != nil && o.Field.Name() == "callType" }) {
			if x.Op == token.NEQ {
				return w.ct, true
			}
			if x.Op == token.EQL {
				return !w.ct, true
			}
		}
	case *ssa.Call:
		callee := x.Call.StaticCallee()
		if callee != nil && inRepo(callee) && len(callee.Blocks) > 0 && callee.Signature.Results().Len() == 1 {
			_, ret, ok := w.run(callee, nil, depth+1)
			return ret, ok
		}
	}
	if sx.All(sx.Origins(v), func(o sx.Origin) bool {
		return o.Kind == sx.KField && o.Field != nil && o.Field.Name() == "noSendWaiting"
	}) {
		return w.nsw, true
	}
	return false, false
}

// run walks the single path the valuation selects through fn.
func (w *boolWalker) run(fn *ssa.Function, target ssa.Instruction, depth int) (reached, ret, ok bool) {
	if len(fn.Blocks) == 0 || depth > 4 {
		return false, false, false
	}
	from := map[*ssa.BasicBlock]*ssa.BasicBlock{}
	b := fn.Blocks[0]
	for steps := 0; steps < 40; steps++ {
		for _, in := range b.Instrs {
			if target != nil && in == target {
				return true, false, true
			}
		}
		var next *ssa.BasicBlock
		switch x := b.Instrs[len(b.Instrs)-1].(type) {
		case *ssa.If:
			c, ok := w.value(x.Cond, from, depth)
			if !ok {
				return false, false, false
			}
			if c {
				next = b.Succs[0]
			} else {
				next = b.Succs[1]
			}
		case *ssa.Jump:
			next = b.Succs[0]
		case *ssa.Return:
			if len(x.Results) == 1 {
				v, ok := w.value(x.Results[0], from, depth)
				return false, v, ok
			}
			return false, false, true
		default:
			return false, false, false
		}
		if _, seen := from[next]; seen {
			return false, false, false // a loop: not a guard this walker understands
		}
		from[next] = b
		b = next
	}
	return false, false, false
}

// c06P8: no transparent retry of the node stream. Every constant string that
// the runtime package hands to grpc.WithDefaultServiceConfig is inspected.
func c06P8(l *core.Ledger, r *rt) {
	n := 0
	for _, f := range allFuncs(l.Prog, r.pkg) {
		f := f
		sx.AllInstrs(f, func(_ sx.Node, in ssa.Instruction) {
			cc := sx.CallOf(in)
			if cc == nil {
				return
			}
			name := sx.StaticCalleeName(cc)
			switch name {
			case "google.golang.org/grpc.WithDefaultServiceConfig":
				n++
				key := fmt.Sprintf("%s/service-config%d", fnKey(f), n)
				txt, known := "", true
				for _, o := range sx.Origins(cc.Args[0]) {
					k, isC := o.V.(*ssa.Const)
					if o.Kind != sx.KConst || !isC || k.Value == nil || k.Value.Kind() != constant.String {
						known = false
						continue
					}
					txt += constant.StringVal(k.Value)
				}
				switch {
				case !known:
					l.Unknown("C06-P8", key, sx.PosOf(in), "the default service config is not a constant string")
				case strings.Contains(txt, "retryPolicy") || strings.Contains(txt, "hedgingPolicy"):
					l.Bad("C06-P8", key, sx.PosOf(in), "the library configures a gRPC retry/hedging policy: a NodeStream that has received no response headers yet (only one-way traffic so far) is replayed on another attempt, and every buffered unicast/multicast message is delivered twice")
				default:
					l.OK("C06-P8", key, sx.PosOf(in), "no retry or hedging policy")
				}
			case "google.golang.org/grpc.WithMaxCallAttempts":
				n++
				l.Bad("C06-P8", fmt.Sprintf("%s/max-attempts%d", fnKey(f), n), sx.PosOf(in), "the library raises gRPC's call attempts: streams may be replayed")
			}
		})
	}
	if n == 0 {
		l.OK("C06-P8", "gorums/dial-options", token.NoPos, "the library adds no service config to its dial options")
	}
}

// c06P10: the no-send-waiting path still hands the request to the sender
// through enqueue's blocking select. The queue has the capacity of the
// send-buffer option, 0 by default, and the sender (re)dials synchronously
// between two dequeues: with a blocking dial (grpc.WithBlock) the caller waits
// for the previous message's connection attempt.
// c06P12: the server's receive loop ends only when reading from the stream
// fails. Returning from NodeStream ends the whole stream: gRPC discards every
// message of the client that has arrived and not been read yet - one-way
// messages of calls that have long returned - and every call pending on the
// node fails. A request the server cannot serve (unknown method) is therefore
// skipped (or answered), never turned into the stream's status.
func c06P12(l *core.Ledger, r *rt, rule string) {
	l.Rule(rule, "the server's receive loop returns only on the error edge of its RecvMsg: no return inside the loop is reachable from the read without passing the error-non-nil edge of the read's result")
	var sl *serverLoop
	l.With(map[string]string{}, func() { sl = findServerLoop(l, r, "C03-F4") })
	if sl == nil || sl.recv == nil {
		l.Unknown(rule, "anchor/server-loop", token.NoPos, "the server's receive loop was not found")
		return
	}
	m := func(o sx.Origin) bool { return (o.Kind == sx.KCall || o.Kind == sx.KExtract) && o.V == ssa.Value(sl.recv) }
	var errEdges []sx.Edge
	sx.AllInstrs(sl.fn, func(_ sx.Node, in ssa.Instruction) {
		if ifi, ok := in.(*ssa.If); ok && isErrNonNil(ifi, m) != 0 {
			errEdges = append(errEdges, errEdge(ifi, m, true))
		}
	})
	// err == io.EOF / errors.Is(err, X): the matching edge implies a read error as well
	sx.AllInstrs(sl.fn, func(_ sx.Node, in ssa.Instruction) {
		ifi, ok := in.(*ssa.If)
		if !ok {
			return
		}
		v, pos := condOf(ifi)
		t, f := sx.CondEdges(ifi)
		if !pos {
			t, f = f, t
		}
		switch x := v.(type) {
		case *ssa.BinOp:
			if x.Op != token.EQL && x.Op != token.NEQ {
				return
			}
			a, b := x.X, x.Y
			if !sx.All(sx.Origins(a), m) {
				a, b = b, a
			}
			if !sx.All(sx.Origins(a), m) {
				return
			}
			if c, isC := b.(*ssa.Const); isC && c.IsNil() {
				return // the plain nil test, handled above
			}
			if x.Op == token.EQL {
				errEdges = append(errEdges, t)
			} else {
				errEdges = append(errEdges, f)
			}
		case *ssa.Call:
			if calleeIs(&x.Call, "errors.Is", "errors.As") && len(x.Call.Args) > 0 && sx.All(sx.Origins(x.Call.Args[0]), m) {
				errEdges = append(errEdges, t)
			}
		}
	})
	key := fnKey(sl.fn) + "/returns-only-on-read-error"
	if len(errEdges) == 0 {
		l.Bad(rule, key, sl.recv.Pos(), "the result of the server's RecvMsg is never tested")
		return
	}
	w, reaches := sx.Reach(sx.NodeOf(sl.recv), func(n sx.Node) bool {
		_, isRet := n.Instr().(*ssa.Return)
		return isRet
	}, sx.Query{BlockEdge: func(e sx.Edge) bool {
		for _, x := range errEdges {
			if x == e {
				return true
			}
		}
		return false
	}, BlockNode: sx.IsInstr(sl.recv)})
	if reaches {
		l.Bad(rule, key, sx.PosOf(w.Instr()), "NodeStream can return although reading from the stream succeeded: the return ends the stream, gRPC discards the client's messages that have arrived and are not read yet (one-way messages of calls that have returned are never delivered) and every call pending on the node is failed")
	} else {
		l.OK(rule, key, sl.recv.Pos(), "between two reads the loop returns only on the read's error edge")
	}
}

// handoffWaitsForDial derives the facts behind C06-P10 and C07-E8: enqueue hands
// the request over in a blocking select, the queue can be unbuffered, and the
// sender dials synchronously between two dequeues.
func handoffWaitsForDial(l *core.Ledger, r *rt) (eq *ssa.Function, handoff *ssa.Select, canBeUnbuffered bool, dials string) {
	eq = findEnqueueFn(l, r)
	sfn, _, _ := findSenderFn(l, r)
	if eq == nil || sfn == nil {
		return nil, nil, false, ""
	}
	// (1) a blocking hand-off
	sx.AllInstrs(eq, func(_ sx.Node, in ssa.Instruction) {
		if s2, ok := in.(*ssa.Select); ok && s2.Blocking {
			for _, st := range s2.States {
				if st.Dir == types.SendOnly && isRequestChan(st.Chan.Type()) {
					handoff = s2
				}
			}
		}
	})
	// (2) the queue can be unbuffered
	for _, f := range allFuncs(l.Prog, r.pkg) {
		sx.AllInstrs(f, func(_ sx.Node, in ssa.Instruction) {
			mc, ok := in.(*ssa.MakeChan)
			if !ok || !isRequestChan(mc.Type()) {
				return
			}
			if c, isC := mc.Size.(*ssa.Const); isC && c.Value != nil && constant.Sign(c.Value) > 0 {
				return
			}
			canBeUnbuffered = true
		})
	}
	// (3) the sender dials between two dequeues
	walkBlocking(sfn, func(op blockOp) {
		if op.kind == "dial" && dials == "" {
			dials = strings.Join(op.chain, " → ")
		}
	})
	return
}

func c06P10(l *core.Ledger, r *rt) {
	eq, handoff, canBeUnbuffered, dials := handoffWaitsForDial(l, r)
	if eq == nil {
		l.Unknown("C06-P10", "anchor/enqueue", token.NoPos, "enqueue or sender not found")
		return
	}
	key := fnKey(eq) + "/no-send-waiting-hand-off"
	if handoff == nil || !canBeUnbuffered || dials == "" {
		l.OK("C06-P10", key, eq.Pos(), "the hand-off does not wait for a sender that may be dialling")
		return
	}
	l.Bad("C06-P10", key, handoff.Pos(), "with WithNoSendWaiting the caller still hands its request to the node's sender through a blocking select on a queue that is unbuffered by default (WithSendBufferSize), and the sender (re)dials synchronously between two dequeues ("+dials+"): with a blocking dial (grpc.WithBlock) to a silent node every no-send-waiting call waits for the previous message's connection attempt - up to the dial timeout - although the option promises a return without waiting for the connection")
}

// c06P14: who may decide that a request is not written. sendMsg writes the
// request it is handed unless the request's own context has ended; any other
// early return (the call has "completed", the node "looks busy") withholds the
// request from a node that is reachable, for a caller whose context is alive.
func c06P14(l *core.Ledger, r *rt) {
	l.Rule("C06-P14", "sendMsg returns without a stream write only on the ended edge of a test of the request's own ctx.Err(): every other path from its entry to a return passes SendMsg")
	var fn *ssa.Function
	for _, f := range allFuncs(l.Prog, r.pkg) {
		if f.Parent() == nil && f.Signature.Recv() != nil && isNamed(f.Signature.Recv().Type(), core.RootModule, "channel") {
			p, rs := f.Signature.Params(), f.Signature.Results()
			if p.Len() == 1 && isNamed(p.At(0).Type(), core.RootModule, "request") && rs.Len() == 1 && isErrorType(rs.At(0).Type()) {
				fn = f
			}
		}
	}
	if fn == nil {
		l.Unknown("C06-P14", "anchor/sendMsg", token.NoPos, "no method of *channel with signature (request) error found")
		return
	}
	key := fnKey(fn) + "/skips-write-only-for-ended-context"
	req := fn.Params[1]
	isReqCtx := sx.IsFieldNamed("ctx", sx.IsParam(req))
	m := func(o sx.Origin) bool {
		c, ok := o.V.(*ssa.Call)
		return o.Kind == sx.KCall && ok && c.Call.IsInvoke() && c.Call.Method.Name() == "Err" && sx.All(sx.Origins(c.Call.Value), isReqCtx)
	}
	var ended []sx.Edge
	sx.AllInstrs(fn, func(_ sx.Node, in ssa.Instruction) {
		if ifi, ok := in.(*ssa.If); ok && isErrNonNil(ifi, m) != 0 {
			ended = append(ended, errEdge(ifi, m, true))
		}
		// the same test written as a select on the context's Done()
		if sel, ok := in.(*ssa.Select); ok {
			for i, st := range sel.States {
				if st.Dir != types.RecvOnly {
					continue
				}
				if cv, isDone := isDoneOf(st.Chan); isDone && sx.All(sx.Origins(cv), isReqCtx) {
					if e, found := selectCaseEdge(sel, i); found {
						ended = append(ended, e)
					}
				}
			}
		}
	})
	isSend := func(n sx.Node) bool {
		c, ok := n.Instr().(*ssa.Call)
		return ok && c.Call.IsInvoke() && c.Call.Method.Name() == "SendMsg"
	}
	w, reach := sx.Reach(sx.Entry(fn), sx.IsReturn, sx.Query{BlockNode: isSend, BlockEdge: func(e sx.Edge) bool {
		for _, x := range ended {
			if x == e {
				return true
			}
		}
		return false
	}})
	if reach {
		l.Bad("C06-P14", key, sx.PosOf(w.Instr()), "sendMsg can return without writing the request although the request's context has not ended: the node is reachable, the caller's context is alive, and the node never receives the message (for a call that has completed early this withholds the request from the nodes that were slower than the quorum)")
	} else {
		l.OK("C06-P14", key, fn.Pos(), "the only way round the stream write is the ended edge of the request's ctx.Err()")
	}
}
