package rules

import (
	"fmt"
	"go/token"
	"go/types"

	"golang.org/x/tools/go/ssa"

	"verif/checker/internal/core"
	"verif/checker/internal/sx"
)

func init() {
	register("C04", Entry{
		Title:    "A server runs one handler at a time per client connection until Release",
		Run:      runC04,
		Examples: true,
		Meta: core.PropertyMeta{
			Explanation: "H1: in NodeStream every path from starting a handler to the next RecvMsg acquires the per-connection mutex, which is held when the first handler starts. H2: that mutex is a local of NodeStream (one per connection, never shared between clients), its address flows only into the ServerCtx literal of the handler start and into Lock/Unlock calls; the only releases are the deferred unlock at NodeStream's exit and ServerCtx.Release, whose body is exactly once.Do(mut.Unlock) on the context's own fields; the Once stored in each literal is freshly allocated per iteration. H3: every registered handler closure in every committed generated file (and the server template) executes 'defer ctx.Release()' before it calls the implementation. H4: the server stream is written only by the single reply-pump goroutine of NodeStream (started once, outside the loop); handlers reach it only through SendMessage, whose body is a select bounded by the stream context. H5: replies are routed by the echoed id (C05-M5).",
			NotDecided:  "Actual overlap/non-overlap at run time; behaviour of user handlers that block forever (only that the mutex they hold is per connection).",
			Trusted:     append([]string{"sync.Once.Do runs its argument at most once", "sync.Mutex may be unlocked by another goroutine"}, commonTrust...),
		},
	})
}

func runC04(l *core.Ledger) {
	r := runtimePkg(l)
	if r == nil {
		return
	}
	l.Rule("C04-H1", "NodeStream: every path from a handler start to the next RecvMsg acquires the per-connection mutex; the mutex is held before the first start")
	l.Rule("C04-H2", "the per-connection mutex is a local of NodeStream whose address flows only into ServerCtx.mut and Lock/Unlock; releases = {deferred unlock at exit, once.Do(mut.Unlock) in Release}; a fresh sync.Once per handler start")
	l.Rule("C04-H3", "every registered handler closure (generated files and server template) defers ctx.Release() before calling the implementation")
	l.Rule("C04-H4", "server SendMsg is called only by the reply-pump goroutine started once in NodeStream; SendMessage is a select on {send, ctx.Done()}")
	l.Rule("C04-H5", "replies are routed by the echoed message id (C05-M5 re-run), read from a request envelope that is the handler's own (C03-F5 re-run: a fresh Message per handler start)")

	sl := findServerLoop(l, r, "C04-H1")
	if sl == nil {
		return
	}
	key := fnKey(sl.fn)
	c03F4(l, sl, "C04-H1")

	// ---- H2
	if sl.mut == nil {
		l.Bad("C04-H2", key+"/mutex", sl.fn.Pos(), "no sync.Mutex local to NodeStream: handlers of different clients would share a lock (or none)")
	} else {
		okFlow := true
		var bad string
		unlocks := 0
		for _, ref := range *sl.mut.Referrers() {
			switch u := ref.(type) {
			case *ssa.Call:
				f := u.Call.StaticCallee()
				if f == nil || (f.Name() != "Lock" && f.Name() != "Unlock") {
					okFlow, bad = false, "passed to "+sx.StaticCalleeName(&u.Call)
				}
			case *ssa.Defer:
				f := u.Call.StaticCallee()
				if f == nil || f.Name() != "Unlock" {
					okFlow, bad = false, "deferred "+sx.StaticCalleeName(&u.Call)
				} else {
					unlocks++
				}
			case *ssa.Store:
				// only into the mut field of the ServerCtx literal
				base, ok := fieldAddrOf(u.Addr, "mut")
				if !ok || u.Val != ssa.Value(sl.mut) || !isNamed(base.Type(), core.RootModule, "ServerCtx") {
					okFlow, bad = false, "stored somewhere else than ServerCtx.mut"
				}
			case *ssa.DebugRef:
			default:
				okFlow, bad = false, fmt.Sprintf("used by %T", ref)
			}
		}
		l.Check(okFlow, "C04-H2", key+"/mutex-flow", sl.mut.Pos(), "per-connection mutex: only Lock/Unlock here and ServerCtx.mut", "the per-connection mutex escapes: "+bad)
		// a fresh Once per start
		okOnce := false
		if sl.ctxLit != nil {
			f := allocFieldStores(sl.ctxLit)
			if al, ok := f["once"].(*ssa.Alloc); ok && al.Heap && sx.InLoop(sx.NodeOf(al)) && isNamed(al.Type(), "sync", "Once") {
				okOnce = true
				// allocated between two handler starts
				for _, g := range sl.goH {
					if _, must := sx.MustPassThrough(sx.NodeOf(g), sx.IsInstr(al), sx.IsInstr(g)); !must {
						okOnce = false
					}
				}
			}
			okMut := f["mut"] == ssa.Value(sl.mut)
			// the handler's context must live as long as the stream: the stream's own
			// context (possibly decorated with values), never one the loop cancels -
			// a released handler still has to hand its reply to SendMessage, which
			// selects on this context
			var isStreamCtx func(v ssa.Value, depth int) bool
			isStreamCtx = func(v ssa.Value, depth int) bool {
				if v == nil || depth > 4 {
					return false
				}
				return sx.All(sx.Origins(v), func(o sx.Origin) bool {
					c, ok := o.V.(*ssa.Call)
					if o.Kind != sx.KCall || !ok {
						return false
					}
					if c.Call.IsInvoke() && c.Call.Method.Name() == "Context" {
						return true
					}
					if calleeIs(&c.Call, "context.WithValue", "context.WithoutCancel") {
						return isStreamCtx(c.Call.Args[0], depth+1)
					}
					return false
				})
			}
			okCtx := isStreamCtx(f["Context"], 0)
			l.Check(okOnce && okMut && okCtx, "C04-H2", key+"/ServerCtx-literal", sl.ctxLit.Pos(), "ServerCtx{stream ctx, fresh Once, &mut}", fmt.Sprintf("handler context: fresh sync.Once per start: %v (a shared Once makes every Release after the first a no-op: the connection stalls); carries this connection's mutex: %v; carries the stream's own context (not one that ends before the stream does: a released handler's reply would be dropped by SendMessage): %v", okOnce, okMut, okCtx))
		} else {
			l.Bad("C04-H2", key+"/ServerCtx-literal", sl.fn.Pos(), "no ServerCtx literal at the handler start")
		}
	}
	// Release body
	if rel := r.mustFn("C04-H2", "ServerCtx.Release"); rel != nil {
		recv := rel.Params[0]
		calls := 0
		ok := false
		sx.AllInstrs(rel, func(_ sx.Node, in ssa.Instruction) {
			c, isCall := in.(*ssa.Call)
			if !isCall {
				if _, isGo := in.(*ssa.Go); isGo {
					calls += 2
				}
				return
			}
			calls++
			if !calleeIs(&c.Call, "sync.Once.Do") {
				return
			}
			onceOK := sx.All(sx.Origins(c.Call.Args[0]), sx.IsFieldNamed("once", sx.IsParam(recv)))
			mc, isMC := c.Call.Args[1].(*ssa.MakeClosure)
			boundOK := false
			if isMC {
				fn := mc.Fn.(*ssa.Function)
				if fn.Name() == "Unlock$bound" && len(mc.Bindings) == 1 && sx.All(sx.Origins(mc.Bindings[0]), sx.IsFieldNamed("mut", sx.IsParam(recv))) {
					boundOK = true
				}
			}
			ok = onceOK && boundOK
		})
		l.Check(ok && calls == 1, "C04-H2", "gorums.(ServerCtx).Release", rel.Pos(), "exactly ctx.once.Do(ctx.mut.Unlock)", "Release is not exactly once.Do(mut.Unlock) on the context's own fields: a second Release (or the implicit one at handler return) unlocks twice, or unlocks another connection's mutex")
	}
	// who unlocks a *sync.Mutex reached through ServerCtx.mut anywhere else
	var others []string
	for _, f := range allFuncs(l.Prog, r.pkg) {
		sx.AllInstrs(f, func(_ sx.Node, in ssa.Instruction) {
			cc := sx.CallOf(in)
			if cc == nil || cc.StaticCallee() == nil || cc.StaticCallee().Name() != "Unlock" || len(cc.Args) != 1 {
				return
			}
			if sx.Any(sx.Origins(cc.Args[0]), sx.IsFieldNamed("mut", sx.AnyOrigin)) {
				others = append(others, fnKey(f))
			}
		})
	}
	l.Check(len(others) == 0, "C04-H2", "who-may-unlock/ServerCtx.mut", token.NoPos, "only through Release's once.Do", fmt.Sprintf("the per-connection mutex is unlocked directly (bypassing the Once) in %v", others))

	c04H3(l)

	// ---- H4
	okPump := sl.pump != nil && sl.pumpGo != nil && !sx.InLoop(sx.NodeOf(sl.pumpGo))
	for _, c := range sl.srvSend {
		if c.Parent() != sl.pump {
			okPump = false
		}
	}
	l.Check(okPump && len(sl.srvSend) >= 1, "C04-H4", key+"/reply-pump", sl.fn.Pos(), "one reply pump per connection is the only writer of the server stream", fmt.Sprintf("the server stream must be written only by the single reply-pump goroutine started once per connection (writers: %d site(s))", len(sl.srvSend)))
	if sm := r.mustFn("C04-H4", "SendMessage"); sm != nil {
		ctx, ch := sm.Params[0], sm.Params[1]
		ok := false
		nblock := 0
		sx.AllInstrs(sm, func(_ sx.Node, in ssa.Instruction) {
			if _, isB := classifyBlocking(in); isB {
				nblock++
			}
			s, isSel := in.(*ssa.Select)
			if !isSel || !s.Blocking {
				return
			}
			hasSend, hasDone := false, false
			for _, st := range s.States {
				if st.Dir == types.SendOnly && st.Chan == ssa.Value(ch) {
					hasSend = true
				}
				if cv, isDone := isDoneOf(st.Chan); isDone && cv == ssa.Value(ctx) {
					hasDone = true
				}
			}
			ok = hasSend && hasDone
		})
		l.Check(ok && nblock == 1, "C04-H4", "gorums.SendMessage", sm.Pos(), "select {c <- msg | ctx.Done()}", "SendMessage can block a handler beyond the life of its stream (not a select on the reply queue and ctx.Done())")
	}
	// H5
	l.With(map[string]string{"C05-M5": "C04-H5"}, func() { c05M5(l, r) })
	// a released handler's late reply must still find its router: nobody removes unanswered routers
	if rm := buildRouterModel(l, r, "C04-H5"); rm != nil {
		c05M8(l, r, rm, "C04-H5")
	}
	// the id is echoed from the handler's own request envelope: one fresh Message per
	// handler start, also for a handler that released early and replies later
	l.With(map[string]string{"C03-F5": "C04-H5"}, func() { c03F5(l, sl) })
	c03F9(l, sl, "C04-H3")
	// who may release: the handler (generated: defer ctx.Release(); a library handler: C03-F9) and user
	// code. Library code on the reply path (SendMessage, WrapMessage, the reply pump) must not: a
	// streaming handler that sends its first update would let the next handler start while it runs
	for _, f := range allFuncs(l.Prog, r.pkg) {
		f := f
		isLibHandler := false
		for _, g := range sl.goH {
			for _, o := range sx.Origins(g.Call.Value) {
				if o.V == ssa.Value(f) {
					isLibHandler = true
				}
			}
		}
		if isLibHandler {
			continue
		}
		sx.AllInstrs(f, func(_ sx.Node, in ssa.Instruction) {
			cc := sx.CallOf(in)
			if cc == nil {
				return
			}
			cs := cc.StaticCallee()
			if cs == nil || cs.Name() != "Release" || cs.Signature.Recv() == nil || !isNamed(cs.Signature.Recv().Type(), core.RootModule, "ServerCtx") {
				return
			}
			l.Bad("C04-H2", fnKey(f)+"/releases", sx.PosOf(in), "library code calls ServerCtx.Release on the handler's behalf ("+fnKey(f)+"): the connection is released at a point the handler did not choose - a server-stream handler that has sent its first update no longer holds it, and the next request's handler starts while it is still running and has not released")
		})
	}
}
