package rules

import (
	"fmt"
	"go/constant"
	"go/token"
	"go/types"
	"sort"
	"strings"

	"golang.org/x/tools/go/ssa"

	"verif/checker/internal/core"
	"verif/checker/internal/sx"
)

func init() {
	register("C14", Entry{
		Title: "Configurations are sets of distinct pooled nodes; sound algebra, no aliasing",
		Run:   runC14,
		Meta: core.PropertyMeta{
			Explanation: "Instances: the newConfig implementations, the option constructors on RawConfiguration, AddNode and the accessors. G1: every non-delegating success return is dominated by OrderedBy(ID).Sort on the slice it returns. G2: every append of a node into the returned slice is dominated by the 'not seen' edge of a membership test of that node's id in a set local to the call, which is updated on that edge (or the constructor delegates). G3: where a node found in the pool by id is used for a requested address, the append is dominated by the match edge of a comparison of the found node's address with the requested node's resolved address whose mismatch edge only leads to error returns. G4: no constructor appends to, or sorts in place, a slice that is (a field of) its receiver or argument - only locally made slices (the pool itself is C15's business). G5: in AddNode the insertion into the pool is dominated by the not-found edge of a lookup made in the same critical section. G6: every non-delegating success return is dominated by a non-emptiness test of the input or of the result. G7: And/WithNewNodes hand (receiver, argument) to the union builder; Except/WithoutNodes keep exactly the receiver's ids not in a set built from the argument and hand them to the id-lookup constructor, which fails on an unknown id. G8: NodeIDs, Nodes, Size, Equal read nothing but their operands. G9: a node reaches a returned slice only from mgr.Node on the found edge, from a constructor result after AddNode returned nil, or from an operand configuration; RawNode values are built only by NewRawNode/NewRawNodeWithID and inserted only by AddNode.",
			NotDecided:  "Hash-collision freedom (impossible with 32-bit ids): G3 decides that a collision is reported, which is what the property asks.",
			Trusted:     append([]string{"net.ResolveTCPAddr canonicalises addresses"}, commonTrust...),
		},
	})
}

type cfgCtor struct {
	fn       *ssa.Function
	key      string
	appends  []*ssa.Call
	delegate map[*ssa.Return]bool
	succ     []*ssa.Return
	takesAdr bool
}

func isNewConfigCall(cc *ssa.CallCommon) bool {
	if cc.IsInvoke() {
		return cc.Method.Name() == "newConfig"
	}
	f := cc.StaticCallee()
	return f != nil && f.Name() == "newConfig" && inRepo(f)
}

func findCtors(l *core.Ledger, r *rt) []*cfgCtor {
	var out []*cfgCtor
	for _, f := range allFuncs(l.Prog, r.pkg) {
		if f.Parent() != nil || f.Name() != "newConfig" || f.Signature.Recv() == nil {
			continue
		}
		res := f.Signature.Results()
		if res.Len() != 2 || !isNamed(res.At(0).Type(), core.RootModule, "RawConfiguration") {
			continue
		}
		c := &cfgCtor{fn: f, key: fnKey(f), delegate: map[*ssa.Return]bool{}}
		sx.AllInstrs(f, func(_ sx.Node, in ssa.Instruction) {
			switch x := in.(type) {
			case *ssa.Call:
				if b, ok := x.Call.Value.(*ssa.Builtin); ok && b.Name() == "append" && isNamed(x.Type(), core.RootModule, "RawConfiguration") {
					c.appends = append(c.appends, x)
				}
				if calleeIs(&x.Call, core.RootModule+".NewRawNode", core.RootModule+".NewRawNodeWithID") {
					c.takesAdr = true
				}
			case *ssa.Return:
				// delegation: result 0 is result#0 of another newConfig
				if sx.All(sx.Origins(x.Results[0]), func(o sx.Origin) bool {
					cc, ok := o.V.(*ssa.Call)
					return o.Kind == sx.KExtract && ok && o.Index == 0 && isNewConfigCall(&cc.Call)
				}) {
					c.delegate[x] = true
					return
				}
				if k, ok := x.Results[1].(*ssa.Const); ok && k.IsNil() {
					if k0, isC := x.Results[0].(*ssa.Const); isC && k0.IsNil() {
						return // (nil, nil) is not a configuration
					}
					c.succ = append(c.succ, x)
				}
			}
		})
		// keep only the appends that build the returned slice
		fam := map[ssa.Value]bool{}
		var grow func(v ssa.Value)
		grow = func(v ssa.Value) {
			if fam[v] {
				return
			}
			fam[v] = true
			switch x := v.(type) {
			case *ssa.Phi:
				for _, e := range x.Edges {
					grow(e)
				}
			case *ssa.ChangeType:
				grow(x.X)
			case *ssa.Call:
				if b, ok := x.Call.Value.(*ssa.Builtin); ok && b.Name() == "append" {
					grow(x.Call.Args[0])
				}
			}
		}
		for _, ret := range c.succ {
			grow(ret.Results[0])
		}
		var keep []*ssa.Call
		for _, a := range c.appends {
			if fam[a] {
				keep = append(keep, a)
			}
		}
		c.appends = keep
		out = append(out, c)
	}
	sort.Slice(out, func(i, j int) bool { return out[i].key < out[j].key })
	return out
}

// appendedNode returns the single value appended by `append(s, x)`.
func appendedNode(a *ssa.Call) ssa.Value {
	sl, ok := a.Call.Args[1].(*ssa.Slice)
	if !ok {
		return nil
	}
	arr, ok := sl.X.(*ssa.Alloc)
	if !ok {
		return nil
	}
	var v ssa.Value
	for _, ref := range *arr.Referrers() {
		if ia, ok := ref.(*ssa.IndexAddr); ok {
			for _, r2 := range *ia.Referrers() {
				if st, ok := r2.(*ssa.Store); ok && st.Addr == ssa.Value(ia) {
					v = st.Val
				}
			}
		}
	}
	return v
}

// emptyDest: the destination of an append holds nothing yet (nil, make(T, 0, n), x[:0] of a local array).
func emptyDest(v ssa.Value) bool {
	switch x := v.(type) {
	case *ssa.Const:
		return x.IsNil()
	case *ssa.ChangeType:
		return emptyDest(x.X)
	case *ssa.MakeSlice:
		k, ok := x.Len.(*ssa.Const)
		return ok && k.Value != nil && constant.Sign(k.Value) == 0
	}
	return false
}

// localSlice: nil, make(...), or append/phi/changetype of such.
func localSlice(v ssa.Value, seen map[ssa.Value]bool) bool {
	if seen[v] {
		return true
	}
	seen[v] = true
	switch x := v.(type) {
	case *ssa.Const:
		return x.IsNil()
	case *ssa.MakeSlice:
		return true
	case *ssa.Phi:
		for _, e := range x.Edges {
			if !localSlice(e, seen) {
				return false
			}
		}
		return true
	case *ssa.ChangeType:
		return localSlice(x.X, seen)
	case *ssa.Slice:
		if al, ok := x.X.(*ssa.Alloc); ok {
			_ = al
			return true // slice of a local array
		}
		return localSlice(x.X, seen)
	case *ssa.Call:
		if b, ok := x.Call.Value.(*ssa.Builtin); ok && b.Name() == "append" {
			return localSlice(x.Call.Args[0], seen)
		}
	}
	return false
}

func sameFamily(a, b ssa.Value) bool {
	strip := func(v ssa.Value) ssa.Value {
		for {
			if ct, ok := v.(*ssa.ChangeType); ok {
				v = ct.X
				continue
			}
			return v
		}
	}
	return strip(a) == strip(b)
}

func isSortByID(c *ssa.Call) bool {
	f := c.Call.StaticCallee()
	if f == nil || f.Name() != "Sort" || f.Signature.Recv() == nil || !isNamed(f.Signature.Recv().Type(), core.RootModule, "MultiSorter") {
		return false
	}
	if ld, ok := c.Call.Args[0].(*ssa.UnOp); ok {
		// a package-level sorter assigned once, in the package initialiser, from OrderedBy(ID)
		g, ok := ld.X.(*ssa.Global)
		if !ok || g.Pkg == nil {
			return false
		}
		var inits []*ssa.Call
		other := false
		for _, m := range g.Pkg.Members {
			fn, ok := m.(*ssa.Function)
			if !ok {
				continue
			}
			sx.WithAnon(fn, func(f *ssa.Function) {
				sx.AllInstrs(f, func(_ sx.Node, in ssa.Instruction) {
					if st, ok := in.(*ssa.Store); ok && st.Addr == ssa.Value(g) {
						if ob, isCall := st.Val.(*ssa.Call); isCall && f.Name() == "init" && f.Parent() == nil {
							inits = append(inits, ob)
						} else {
							other = true
						}
					}
				})
			})
		}
		return !other && len(inits) == 1 && isOrderedByID(inits[0])
	}
	ob, ok := c.Call.Args[0].(*ssa.Call)
	return ok && isOrderedByID(ob)
}

func isOrderedByID(ob *ssa.Call) bool {
	if ob.Call.StaticCallee() == nil || ob.Call.StaticCallee().Name() != "OrderedBy" {
		return false
	}
	sl, ok := ob.Call.Args[0].(*ssa.Slice)
	if !ok {
		return false
	}
	arr, ok := sl.X.(*ssa.Alloc)
	if !ok {
		return false
	}
	n, okID := 0, false
	for _, ref := range *arr.Referrers() {
		if ia, ok := ref.(*ssa.IndexAddr); ok {
			for _, r2 := range *ia.Referrers() {
				if st, ok := r2.(*ssa.Store); ok {
					n++
					okID = sx.All(sx.Origins(st.Val), sx.IsGlobalNamed("ID"))
				}
			}
		}
	}
	return n == 1 && okID
}

func runC14(l *core.Ledger) {
	r := runtimePkg(l)
	if r == nil {
		return
	}
	l.Rule("C14-G1", "every non-delegating success return of a newConfig is dominated by OrderedBy(ID).Sort on the slice it returns")
	l.Rule("C14-G2", "every append of a node into the returned slice is dominated by the not-seen edge of a membership test of that node's id in a call-local set that is updated on that edge")
	l.Rule("C14-G3", "where a pooled node found by id serves a requested address, the append is dominated by the match edge of an address comparison whose mismatch edge leads only to error returns")
	l.Rule("C14-G4", "no constructor appends to or sorts in place a slice that is (a field of) its receiver or argument")
	l.Rule("C14-G5", "AddNode: the pool insertion is dominated by the not-found edge of a lookup in the same critical section")
	l.Rule("C14-G6", "every non-delegating success return is dominated by a non-emptiness test of the input or the result")
	l.Rule("C14-G7", "And/WithNewNodes → union builder with (receiver, argument); Except/WithoutNodes keep the receiver's ids not in the argument's id set and hand them to the id-lookup constructor; the id-lookup constructor fails on an unknown id")
	l.Rule("C14-G8", "NodeIDs, Nodes, Size, Equal read nothing but their operands")
	l.Rule("C14-G9", "pooled identity: nodes reach a result only from mgr.Node (found), a constructor result after AddNode returned nil, or an operand; who-may-construct RawNode = constructors; who-may-insert = AddNode")

	l.Rule("C14-G11", "no constructor sorts through state shared between calls: package-level variables of the runtime are not modified after initialisation (C15 rule on globals, re-run)")
	l.Rule("C14-G10", "a node carries its whole resolved address: every value stored in RawNode.addr depends on (*net.TCPAddr).String() of the resolved address, on the caller's address text itself, or on all of the resolved address's components (IP, Port, Zone) - an address rebuilt from some of its parts maps distinct addresses to one")

	ctors := findCtors(l, r)
	if !l.Floor("C14-G1", len(ctors), 5, "newConfig implementations") {
		return
	}
	for _, c := range ctors {
		c14Ctor(l, r, c)
	}
	c14G4(l, r)
	c14G5(l, r)
	c14G7(l, r)
	c14G8(l, r)
	c14G9who(l, r)
	c14G10(l, r)
	c14G12(l)
	// G11: the sorter the constructors use keeps the slice it sorts (MultiSorter.nodes): a sorter shared
	// through a package-level variable is written by every constructor call (C15's rule on globals, re-run
	// - a configuration built while another goroutine sorts comes back unsorted or with a node twice)
	{
		states := map[*ssa.Function]*sx.LockState{}
		lockState := func(f *ssa.Function) *sx.LockState {
			if st, ok := states[f]; ok {
				return st
			}
			st := sx.AnalyzeLocks(f)
			states[f] = st
			return st
		}
		l.With(map[string]string{"C15-L1": "C14-G11"}, func() { c15Globals(l, r, goRoots(l, r), lockState) })
	}
}

func c14Ctor(l *core.Ledger, r *rt, c *cfgCtor) {
	fn, key := c.fn, c.key
	if len(c.succ) == 0 && len(c.delegate) > 0 {
		l.OK("C14-G1", key, fn.Pos(), "delegates to another newConfig")
		return
	}
	// ---- G1
	var sorts []*ssa.Call
	sx.AllInstrs(fn, func(_ sx.Node, in ssa.Instruction) {
		if cc, ok := in.(*ssa.Call); ok && isSortByID(cc) {
			sorts = append(sorts, cc)
		}
	})
	for i, ret := range c.succ {
		ok := false
		for _, s := range sorts {
			if sameFamily(s.Call.Args[1], ret.Results[0]) && sx.InstrDominates(fn, s, sx.NodeOf(ret)) {
				ok = true
			}
		}
		l.Check(ok, "C14-G1", fmt.Sprintf("%s/return%d", key, i), ret.Pos(), "sorted by ID before returning", "a configuration is returned without OrderedBy(ID).Sort on the returned slice: NodeIDs/Equal/iteration order depend on input order")
	}
	// ---- G6
	var nonEmpty []sx.Edge
	sx.AllInstrs(fn, func(_ sx.Node, in ssa.Instruction) {
		ifi, ok := in.(*ssa.If)
		if !ok {
			return
		}
		v, pos := condOf(ifi)
		b, ok := v.(*ssa.BinOp)
		if !ok {
			return
		}
		k, isC := b.Y.(*ssa.Const)
		if !isC || k.Value == nil || constant.Sign(k.Value) != 0 {
			return
		}
		lc, isCall := b.X.(*ssa.Call)
		if !isCall {
			return
		}
		if bi, ok := lc.Call.Value.(*ssa.Builtin); !ok || bi.Name() != "len" {
			return
		}
		t, f := sx.CondEdges(ifi)
		var e sx.Edge
		switch b.Op {
		case token.EQL, token.LEQ:
			e = f
			if !pos {
				e = t
			}
		case token.NEQ, token.GTR:
			e = t
			if !pos {
				e = f
			}
		default:
			return
		}
		nonEmpty = append(nonEmpty, e)
	})
	for i, ret := range c.succ {
		l.Check(edgesDominate(fn, nonEmpty, sx.NodeOf(ret)), "C14-G6", fmt.Sprintf("%s/return%d", key, i), ret.Pos(), "success only after a non-emptiness test", "a configuration can be returned without any non-emptiness test of input or result: an empty configuration is accepted (its calls divide by zero nodes / index c[0])")
	}
	// ---- G2 / G3 / G9 per append
	for i, a := range c.appends {
		k := fmt.Sprintf("%s/append%d", key, i)
		v := appendedNode(a)
		if v == nil {
			// a whole slice appended at once: a copy if the destination is still empty;
			// on top of nodes that are already there it is a union without a membership
			// test, unless a sort followed by a Compact by id runs before every return
			if emptyDest(a.Call.Args[0]) {
				l.OK("C14-G2", k, a.Pos(), "copy of one operand into an empty slice")
				continue
			}
			compacted := false
			sx.AllInstrs(fn, func(_ sx.Node, in ssa.Instruction) {
				cc, ok := in.(*ssa.Call)
				if !ok {
					return
				}
				name := sx.StaticCalleeName(&cc.Call)
				if !strings.HasPrefix(name, "slices.Compact") {
					return
				}
				sortedBefore := false
				for _, srt := range sorts {
					if sx.InstrDominates(fn, srt, sx.NodeOf(cc)) {
						sortedBefore = true
					}
				}
				all := true
				for _, ret := range c.succ {
					if !sx.InstrDominates(fn, cc, sx.NodeOf(ret)) {
						all = false
					}
				}
				if sortedBefore && all && sx.InstrDominates(fn, a, sx.NodeOf(cc)) {
					compacted = true
				}
			})
			l.Check(compacted, "C14-G2", k, a.Pos(), "duplicates are removed from the sorted slice before it is returned",
				"a whole slice of nodes is appended to a slice that can already hold nodes, with no membership test and no removal of duplicates from the sorted result: a node that is in both is listed twice (size and NodeIDs disagree with the set of nodes; a quorum call on it can never collect all replies, a multicast reaches it twice)")
			continue
		}
		an := sx.NodeOf(a)
		// membership tests on call-local maps
		var notSeen []sx.Edge
		var testedMaps []ssa.Value
		sx.AllInstrs(fn, func(_ sx.Node, in ssa.Instruction) {
			ifi, ok := in.(*ssa.If)
			if !ok {
				return
			}
			cv, _ := condOf(ifi)
			var lk *ssa.Lookup
			switch x := cv.(type) {
			case *ssa.Lookup:
				lk = x
			case *ssa.Extract:
				if l2, ok := x.Tuple.(*ssa.Lookup); ok && x.Index == 1 {
					lk = l2
				}
			}
			if lk == nil {
				return
			}
			if _, isMake := lk.X.(*ssa.MakeMap); !isMake {
				return
			}
			if !idOfNode(lk.Index, v) {
				return
			}
			notSeen = append(notSeen, edgeWhere(ifi, false))
			testedMaps = append(testedMaps, lk.X)
		})
		okSeen := edgesDominate(fn, notSeen, an)
		okMark := false
		if okSeen {
			sx.AllInstrs(fn, func(n sx.Node, in ssa.Instruction) {
				mu, ok := in.(*ssa.MapUpdate)
				if !ok {
					return
				}
				for _, m := range testedMaps {
					if mu.Map == m && idOfNode(mu.Key, v) && edgesDominate(fn, notSeen, n) {
						okMark = true
					}
				}
			})
		}
		// G3b: where addresses are requested, an input may only be dropped as a
		// duplicate after the pool lookup (and its address comparison) ran for it:
		// a membership test that comes first silently folds a different address
		// with a colliding id into the node already listed
		if c.takesAdr && okSeen {
			var nodeLookups []ssa.Instruction
			var ctorCalls []ssa.Instruction
			sx.AllInstrs(fn, func(_ sx.Node, in ssa.Instruction) {
				if cc, ok := in.(*ssa.Call); ok {
					if cs := cc.Call.StaticCallee(); cs != nil && cs.Name() == "Node" && cs.Signature.Recv() != nil && isNamed(cs.Signature.Recv().Type(), core.RootModule, "RawManager") {
						nodeLookups = append(nodeLookups, cc)
					}
					if calleeIs(&cc.Call, core.RootModule+".NewRawNode", core.RootModule+".NewRawNodeWithID") {
						ctorCalls = append(ctorCalls, cc)
					}
				}
			})
			okOrder := len(nodeLookups) > 0
			sx.AllInstrs(fn, func(n sx.Node, in ssa.Instruction) {
				ifi, ok := in.(*ssa.If)
				if !ok {
					return
				}
				isSeenTest := false
				for _, e := range notSeen {
					t, f := sx.CondEdges(ifi)
					if e == t || e == f {
						isSeenTest = true
					}
				}
				if !isSeenTest {
					return
				}
				for _, cc := range ctorCalls {
					if _, must := sx.MustPassThrough(sx.NodeOf(cc), isInstrIn(nodeLookups), func(x sx.Node) bool { return x == n }); !must {
						okOrder = false
					}
				}
			})
			l.Check(okOrder, "C14-G3", k+"/dedupe-after-lookup", a.Pos(), "duplicates are dropped only after the pool lookup and address comparison",
				"an input address can be skipped as a duplicate (same id already seen in this call) before the pool lookup and its address comparison ran: two distinct addresses with colliding ids given in one list are silently folded into one node")
		}
		l.Check(okSeen && okMark, "C14-G2", k, a.Pos(), "appended only if its id was not seen before in this call", "a node is appended without a membership test of its id in a set local to the call: the same node can be listed twice (size and NodeIDs disagree with the set of nodes; a quorum call on it can never collect all replies)")

		// G9 + G3
		okProv := true
		var nodeCalls []*ssa.Call
		for _, o := range sx.Origins(v) {
			switch {
			case o.Kind == sx.KExtract && o.Index == 0:
				cc, isCall := o.V.(*ssa.Call)
				if !isCall {
					okProv = false
					break
				}
				switch {
				case cc.Call.StaticCallee() != nil && cc.Call.StaticCallee().Name() == "Node" && isNamed(cc.Call.StaticCallee().Signature.Recv().Type(), core.RootModule, "RawManager"):
					nodeCalls = append(nodeCalls, cc)
				case calleeIs(&cc.Call, core.RootModule+".NewRawNode", core.RootModule+".NewRawNodeWithID"):
					// must have been added successfully on this path, or be replaced by the pooled one
				default:
					okProv = false
				}
			case o.Kind == sx.KElem:
				// element of an operand configuration
				if !sx.All(o.Base, func(b sx.Origin) bool { return b.Kind == sx.KField || b.Kind == sx.KParam || b.Kind == sx.KCall }) {
					okProv = false
				}
			case o.Kind == sx.KRange || o.Kind == sx.KCall:
				// range value over an operand / append(o.old, o.add...) — checked by G4
			default:
				okProv = false
			}
		}
		// a freshly constructed node is appended only after AddNode returned nil
		if phi, isPhi := v.(*ssa.Phi); isPhi {
			for j, e := range phi.Edges {
				if sx.All(sx.Origins(e), func(o sx.Origin) bool {
					cc, isCall := o.V.(*ssa.Call)
					return o.Kind == sx.KExtract && isCall && calleeIs(&cc.Call, core.RootModule+".NewRawNode", core.RootModule+".NewRawNodeWithID")
				}) {
					pred := phi.Block().Preds[j]
					if !addNodeOKOnEdge(fn, e, sx.Edge{From: pred, To: phi.Block()}) {
						okProv = false
					}
				}
			}
		} else if sx.All(sx.Origins(v), func(o sx.Origin) bool {
			cc, isCall := o.V.(*ssa.Call)
			return o.Kind == sx.KExtract && isCall && calleeIs(&cc.Call, core.RootModule+".NewRawNode", core.RootModule+".NewRawNodeWithID")
		}) {
			if !addNodeOKDominates(fn, v, an) {
				okProv = false
			}
		}
		l.Check(okProv, "C14-G9", k, a.Pos(), "node comes from the pool, a successful AddNode, or an operand", "a node that is not the pooled one reaches a configuration: "+sx.OriginsString(sx.Origins(v)))

		if c.takesAdr && len(nodeCalls) > 0 {
			okAddr := true
			for _, nc := range nodeCalls {
				if !addrMatchGuards(fn, nc, a) {
					okAddr = false
				}
			}
			l.Check(okAddr, "C14-G3", k, a.Pos(), "pooled node used for a requested address only after comparing addresses", "a node found in the pool under the requested id is used without comparing its address with the requested one: two distinct addresses (same explicit id, or an fnv-32 collision) are silently mapped to the same node")
		}
	}
	if len(c.appends) == 0 && len(c.succ) > 0 {
		l.Bad("C14-G2", key, fn.Pos(), "constructor returns a configuration it never appends to")
	}
}

// idOfNode decides that key is "the id of node v": v.id, v.ID(), or the id
// value used to look v up in the pool / the id the node was constructed with.
func idOfNode(key, v ssa.Value) bool {
	vo := sx.OriginsString(sx.Origins(v))
	for _, o := range sx.Origins(key) {
		switch o.Kind {
		case sx.KField:
			if o.Field != nil && o.Field.Name() == "id" && sx.OriginsString(o.Base) == vo {
				continue
			}
			// id of one of v's possible sources
			if o.Field != nil && o.Field.Name() == "id" && subsetOrigins(o.Base, sx.Origins(v)) {
				continue
			}
			return false
		case sx.KCall:
			c := o.V.(*ssa.Call)
			if recv, ok := methodCallOn(&c.Call, core.RootModule, "RawNode", "ID"); ok && subsetOrigins(sx.Origins(recv), sx.Origins(v)) {
				continue
			}
			return false
		default:
			// the id value used to find v: an argument of mgr.Node(...) / NewRawNodeWithID among v's sources.
			// It must be an id: the address text as written does not identify a node (one server can be
			// spelled in several ways).
			if b, isB := key.Type().Underlying().(*types.Basic); !isB || b.Kind() != types.Uint32 {
				return false
			}
			ok := false
			for _, vo := range sx.Origins(v) {
				if cc, isCall := vo.V.(*ssa.Call); isCall && vo.Kind == sx.KExtract {
					for _, a := range cc.Call.Args {
						if a == key {
							ok = true
						}
					}
				}
			}
			if !ok {
				return false
			}
		}
	}
	return true
}

func subsetOrigins(a, b []sx.Origin) bool {
	if len(a) == 0 {
		return false
	}
	bs := map[string]bool{}
	for _, o := range b {
		bs[o.String()] = true
	}
	for _, o := range a {
		if !bs[o.String()] {
			return false
		}
	}
	return true
}

// addNodeOKOnEdge: like addNodeOKDominates for a CFG edge: the edge is itself
// the nil edge of the AddNode test, or its source block is dominated by it.
func addNodeOKOnEdge(fn *ssa.Function, fresh ssa.Value, e sx.Edge) bool {
	if addNodeOKDominates(fn, fresh, sx.Node{B: e.From, I: 0}) {
		return true
	}
	ok := false
	sx.AllInstrs(fn, func(_ sx.Node, in ssa.Instruction) {
		c, isCall := in.(*ssa.Call)
		if !isCall || c.Call.StaticCallee() == nil || c.Call.StaticCallee().Name() != "AddNode" || len(c.Call.Args) != 2 {
			return
		}
		if !subsetOrigins(sx.Origins(c.Call.Args[1]), sx.Origins(fresh)) && !subsetOrigins(sx.Origins(fresh), sx.Origins(c.Call.Args[1])) {
			return
		}
		m := func(o sx.Origin) bool { return (o.Kind == sx.KCall || o.Kind == sx.KExtract) && o.V == ssa.Value(c) }
		sx.AllInstrs(fn, func(_ sx.Node, in2 ssa.Instruction) {
			if ifi, isIf := in2.(*ssa.If); isIf && isErrNonNil(ifi, m) != 0 && errEdge(ifi, m, false) == e {
				ok = true
			}
		})
	})
	return ok
}

// addNodeOKDominates: node value `fresh` was passed to AddNode and the nil
// edge of the test on AddNode's result dominates n.
func addNodeOKDominates(fn *ssa.Function, fresh ssa.Value, n sx.Node) bool {
	ok := false
	sx.AllInstrs(fn, func(_ sx.Node, in ssa.Instruction) {
		c, isCall := in.(*ssa.Call)
		if !isCall || c.Call.StaticCallee() == nil || c.Call.StaticCallee().Name() != "AddNode" || len(c.Call.Args) != 2 {
			return
		}
		if !subsetOrigins(sx.Origins(c.Call.Args[1]), sx.Origins(fresh)) && !subsetOrigins(sx.Origins(fresh), sx.Origins(c.Call.Args[1])) {
			return
		}
		m := func(o sx.Origin) bool { return (o.Kind == sx.KCall || o.Kind == sx.KExtract) && o.V == ssa.Value(c) }
		var nilEdges []sx.Edge
		sx.AllInstrs(fn, func(_ sx.Node, in2 ssa.Instruction) {
			if ifi, isIf := in2.(*ssa.If); isIf && isErrNonNil(ifi, m) != 0 {
				nilEdges = append(nilEdges, errEdge(ifi, m, false))
			}
		})
		if edgesDominate(fn, nilEdges, n) {
			ok = true
		}
	})
	return ok
}

// addrMatchGuards: on the found edge of nodeCall, the append is dominated by
// the match edge of a string comparison between the found node's address and
// another node's address, and the mismatch edge cannot reach the append.
func addrMatchGuards(fn *ssa.Function, nodeCall *ssa.Call, app *ssa.Call) bool {
	isFoundAddr := func(v ssa.Value) bool {
		return sx.All(sx.Origins(v), func(o sx.Origin) bool {
			isFound := func(b sx.Origin) bool { return b.Kind == sx.KExtract && b.V == ssa.Value(nodeCall) && b.Index == 0 }
			if o.Kind == sx.KField && o.Field != nil && o.Field.Name() == "addr" {
				return sx.All(o.Base, isFound)
			}
			if c, ok := o.V.(*ssa.Call); ok && o.Kind == sx.KCall {
				if recv, ok := methodCallOn(&c.Call, core.RootModule, "RawNode", "Address"); ok {
					return sx.All(sx.Origins(recv), isFound)
				}
			}
			return false
		})
	}
	isOtherAddr := func(v ssa.Value) bool {
		return sx.All(sx.Origins(v), func(o sx.Origin) bool {
			if o.Kind == sx.KField && o.Field != nil && o.Field.Name() == "addr" {
				return true
			}
			if c, ok := o.V.(*ssa.Call); ok && o.Kind == sx.KCall {
				_, ok := methodCallOn(&c.Call, core.RootModule, "RawNode", "Address")
				return ok
			}
			return false
		})
	}
	var match []sx.Edge
	sx.AllInstrs(fn, func(_ sx.Node, in ssa.Instruction) {
		ifi, ok := in.(*ssa.If)
		if !ok {
			return
		}
		v, pos := condOf(ifi)
		b, ok := v.(*ssa.BinOp)
		if !ok || (b.Op != token.EQL && b.Op != token.NEQ) {
			return
		}
		if !((isFoundAddr(b.X) && isOtherAddr(b.Y)) || (isFoundAddr(b.Y) && isOtherAddr(b.X))) {
			return
		}
		t, f := sx.CondEdges(ifi)
		eq := b.Op == token.EQL
		me, mis := f, t
		if eq == pos {
			me, mis = t, f
		}
		// mismatch edge must not reach the append
		if _, reach := sx.Reach(sx.Node{B: mis.To, I: -1}, sx.IsInstr(app), sx.Query{BlockEdge: func(e sx.Edge) bool { return e == me }}); reach {
			// it may loop around to a later iteration's append: only count paths within this iteration
			if _, direct := sx.Reach(sx.Node{B: mis.To, I: -1}, sx.IsInstr(app), sx.Query{BlockEdge: func(e sx.Edge) bool { return e == me }, BlockNode: func(n sx.Node) bool {
				_, isRet := n.Instr().(*ssa.Return)
				return isRet
			}}); direct {
				// reaches the append without returning: check that it is via the loop head only
				heads := sx.LoopHeads(fn)
				if _, inIter := sx.Reach(sx.Node{B: mis.To, I: -1}, sx.IsInstr(app), sx.Query{BlockEdge: func(e sx.Edge) bool { return e == me }, BlockNode: func(n sx.Node) bool {
					for _, h := range heads {
						if n.B == h && n.I == 0 {
							return true
						}
					}
					return false
				}}); inIter {
					return
				}
			}
		}
		match = append(match, me)
	})
	// the append must be dominated, on the found edge, by a match edge
	var found []sx.Edge
	for _, ref := range *nodeCall.Referrers() {
		if e, ok := ref.(*ssa.Extract); ok && e.Index == 1 {
			for _, ifi := range ifsOn(fn, e) {
				found = append(found, edgeWhere(ifi, true))
			}
		}
	}
	if len(found) == 0 || len(match) == 0 {
		return false
	}
	// every path entry → append that uses a found edge also uses a match edge:
	// block match edges, then the append must be unreachable through found edges.
	for _, fe := range found {
		if _, reach := sx.Reach(sx.Node{B: fe.To, I: -1}, sx.IsInstr(app), sx.Query{
			BlockEdge: func(e sx.Edge) bool { return edgeIn(e, match) },
			BlockNode: func(n sx.Node) bool { return n.Instr() == ssa.Instruction(nodeCall) },
		}); reach {
			return false
		}
	}
	return true
}

// c14G4 is shared with C15.
func c14G4(l *core.Ledger, r *rt) {
	n := 0
	for _, f := range allFuncs(l.Prog, r.pkg) {
		if f.Parent() != nil {
			continue
		}
		isCtor := f.Name() == "newConfig"
		isOpt := f.Signature.Recv() != nil && isNamed(f.Signature.Recv().Type(), core.RootModule, "RawConfiguration") &&
			f.Signature.Results().Len() == 1 && strings.HasSuffix(types.TypeString(f.Signature.Results().At(0).Type(), nil), "NodeListOption")
		if !isCtor && !isOpt {
			continue
		}
		key := fnKey(f)
		sx.AllInstrs(f, func(_ sx.Node, in ssa.Instruction) {
			c, ok := in.(*ssa.Call)
			if !ok {
				return
			}
			if b, isB := c.Call.Value.(*ssa.Builtin); isB && b.Name() == "append" {
				n++
				if !localSlice(c.Call.Args[0], map[ssa.Value]bool{}) {
					l.Bad("C14-G4", key+"/append", c.Pos(), "append whose destination is (a field of) the receiver or an argument ("+sx.OriginsString(sx.Origins(c.Call.Args[0]))+"): with spare capacity it writes into the operand's backing array — operands are modified, and two concurrent calls race")
				} else {
					l.OK("C14-G4", key+"/append", c.Pos(), "appends to a locally made slice")
				}
				return
			}
			if cs := c.Call.StaticCallee(); cs != nil && cs.Name() == "Sort" && cs.Signature.Recv() != nil && isNamed(cs.Signature.Recv().Type(), core.RootModule, "MultiSorter") {
				n++
				arg := c.Call.Args[1]
				if localSlice(arg, map[ssa.Value]bool{}) {
					l.OK("C14-G4", key+"/sort", c.Pos(), "sorts a locally made slice")
					return
				}
				// the pool: C15's business
				if sx.All(sx.Origins(arg), sx.IsFieldNamed("nodes", func(o sx.Origin) bool { return isNamed(o.V.Type(), core.RootModule, "RawManager") })) {
					return
				}
				l.Bad("C14-G4", key+"/sort", c.Pos(), "in-place sort of a slice that belongs to the receiver or an argument")
			}
		})
	}
	l.Floor("C14-G4", n, 8, "append/sort sites in configuration constructors")
}

func c14G5(l *core.Ledger, r *rt) {
	fn := r.mustFn("C14-G5", "RawManager.AddNode")
	if fn == nil {
		return
	}
	const key = "gorums.(RawManager).AddNode"
	var ins *ssa.MapUpdate
	sx.AllInstrs(fn, func(_ sx.Node, in ssa.Instruction) {
		if mu, ok := in.(*ssa.MapUpdate); ok && sx.All(sx.Origins(mu.Map), sx.IsFieldNamed("lookup", sx.AnyOrigin)) {
			ins = mu
		}
	})
	if ins == nil {
		l.Bad("C14-G5", key, fn.Pos(), "AddNode does not insert into the pool index")
		return
	}
	ls := sx.AnalyzeLocks(fn)
	insN := sx.NodeOf(ins)
	ok := false
	sx.AllInstrs(fn, func(n sx.Node, in ssa.Instruction) {
		lk, isLk := in.(*ssa.Lookup)
		if !isLk || !lk.CommaOk || !sx.All(sx.Origins(lk.X), sx.IsFieldNamed("lookup", sx.AnyOrigin)) {
			return
		}
		if !sx.Holds(ls.HeldAt(n), "mu", true) || !sx.Holds(ls.HeldAt(insN), "mu", true) {
			return
		}
		// no unlock between
		if _, rel := sx.Reach(n, func(x sx.Node) bool {
			c, isCall := x.Instr().(*ssa.Call)
			if !isCall {
				return false
			}
			op, isOp := sx.ClassifyLockOp(&c.Call)
			return isOp && !op.Acquire
		}, sx.Query{BlockNode: sx.IsInstr(ins)}); rel {
			// an unlock is reachable before the insert on some path: acceptable only if that path does not reach the insert
		}
		var notFound []sx.Edge
		for _, ref := range *lk.Referrers() {
			if e, isE := ref.(*ssa.Extract); isE && e.Index == 1 {
				for _, ifi := range ifsOn(fn, e) {
					notFound = append(notFound, edgeWhere(ifi, false))
				}
			}
		}
		if edgesDominate(fn, notFound, insN) {
			ok = true
		}
	})
	l.Check(ok, "C14-G5", key, ins.Pos(), "membership test and insertion under one hold of mu", "the pool insertion is not dominated by a membership test made in the same critical section (check-then-act across two holds): two goroutines creating configurations with the same new node both insert it — two node objects and connections for one id")
}

func c14G7(l *core.Ledger, r *rt) {
	check := func(name string, want map[string]int, lit string) {
		fn := r.mustFn("C14-G7", "RawConfiguration."+name)
		if fn == nil {
			return
		}
		key := "gorums.(RawConfiguration)." + name
		ok := false
		sx.AllInstrs(fn, func(_ sx.Node, in ssa.Instruction) {
			ret, isRet := in.(*ssa.Return)
			if !isRet {
				return
			}
			mi, isMI := ret.Results[0].(*ssa.MakeInterface)
			if !isMI {
				return
			}
			al, isAl := mi.X.(*ssa.Alloc)
			if !isAl || !isNamed(al.Type(), core.RootModule, lit) {
				return
			}
			f := allocFieldStores(al)
			good := true
			for field, pi := range want {
				if f[field] == nil || !sx.All(sx.Origins(f[field]), sx.IsParam(fn.Params[pi])) {
					good = false
				}
			}
			ok = good
		})
		l.Check(ok, "C14-G7", key, fn.Pos(), "hands (receiver, argument) to "+lit, name+" does not hand its receiver and argument to the "+lit+" builder in that order")
	}
	check("And", map[string]int{"old": 0, "add": 1}, "addConfig")
	check("WithNewNodes", map[string]int{"old": 0, "new": 1}, "addNodes")
	for _, name := range []string{"Except", "WithoutNodes"} {
		fn := r.mustFn("C14-G7", "RawConfiguration."+name)
		if fn == nil {
			continue
		}
		key := "gorums.(RawConfiguration)." + name
		// keep-list appends: element = id of a receiver element, dominated by the not-in-set edge of a lookup in a local map keyed by that id
		okKeep, okSet, okRet := false, false, false
		var setMap ssa.Value
		sx.AllInstrs(fn, func(n sx.Node, in ssa.Instruction) {
			switch x := in.(type) {
			case *ssa.MapUpdate:
				if _, isMake := x.Map.(*ssa.MakeMap); isMake {
					// key derives from the argument (param 1)
					if sx.All(sx.Origins(x.Key), func(o sx.Origin) bool {
						return (o.Kind == sx.KField && sx.All(o.Base, func(b sx.Origin) bool { return b.Kind == sx.KElem && sx.All(b.Base, sx.IsParam(fn.Params[1])) })) ||
							(o.Kind == sx.KElem && sx.All(o.Base, sx.IsParam(fn.Params[1])))
					}) {
						okSet = true
						setMap = x.Map
					}
				}
			}
		})
		sx.AllInstrs(fn, func(n sx.Node, in ssa.Instruction) {
			c, isCall := in.(*ssa.Call)
			if !isCall {
				return
			}
			b, isB := c.Call.Value.(*ssa.Builtin)
			if !isB || b.Name() != "append" {
				return
			}
			v := appendedValue(c)
			if v == nil {
				return
			}
			fromRecv := sx.All(sx.Origins(v), sx.IsFieldNamed("id", func(o sx.Origin) bool { return o.Kind == sx.KElem && sx.All(o.Base, sx.IsParam(fn.Params[0])) }))
			var notIn []sx.Edge
			sx.AllInstrs(fn, func(_ sx.Node, in2 ssa.Instruction) {
				ifi, isIf := in2.(*ssa.If)
				if !isIf {
					return
				}
				cv, _ := condOf(ifi)
				if lk, isLk := cv.(*ssa.Lookup); isLk && lk.X == setMap && sx.OriginsString(sx.Origins(lk.Index)) == sx.OriginsString(sx.Origins(v)) {
					notIn = append(notIn, edgeWhere(ifi, false))
				}
			})
			if fromRecv && edgesDominate(fn, notIn, n) {
				okKeep = true
			}
		})
		sx.AllInstrs(fn, func(_ sx.Node, in ssa.Instruction) {
			ret, isRet := in.(*ssa.Return)
			if !isRet {
				return
			}
			if mi, isMI := ret.Results[0].(*ssa.MakeInterface); isMI {
				if al, isAl := mi.X.(*ssa.Alloc); isAl && isNamed(al.Type(), core.RootModule, "nodeIDs") {
					okRet = true
				}
			}
		})
		l.Check(okKeep && okSet && okRet, "C14-G7", key, fn.Pos(), "difference = receiver ids not in the argument's id set → id-lookup constructor",
			fmt.Sprintf("%s: removal set built from the argument: %v; kept ids are the receiver's ids not in that set: %v; handed to the id-lookup constructor: %v", name, okSet, okKeep, okRet))
	}
	// nodeIDs.newConfig fails on unknown id
	for _, f := range allFuncs(l.Prog, r.pkg) {
		if f.Name() != "newConfig" || f.Signature.Recv() == nil || !isNamed(f.Signature.Recv().Type(), core.RootModule, "nodeIDs") {
			continue
		}
		ok := false
		sx.AllInstrs(f, func(_ sx.Node, in ssa.Instruction) {
			c, isCall := in.(*ssa.Call)
			if !isCall || c.Call.StaticCallee() == nil || c.Call.StaticCallee().Name() != "Node" {
				return
			}
			for _, ref := range *c.Referrers() {
				if e, isE := ref.(*ssa.Extract); isE && e.Index == 1 {
					for _, ifi := range ifsOn(f, e) {
						ne := edgeWhere(ifi, false)
						// the not-found edge must lead to an error return without appending
						if _, reach := sx.Reach(sx.Node{B: ne.To, I: -1}, func(n sx.Node) bool {
							cc, isC := n.Instr().(*ssa.Call)
							if !isC {
								return false
							}
							b, isB := cc.Call.Value.(*ssa.Builtin)
							return isB && b.Name() == "append"
						}, sx.Query{BlockNode: func(n sx.Node) bool { return n.Instr() == ssa.Instruction(c) }}); !reach {
							// and it must not continue with the next id or return successfully
							if _, goesOn := sx.Reach(sx.Node{B: ne.To, I: -1}, func(n sx.Node) bool {
								if n.Instr() == ssa.Instruction(c) {
									return true
								}
								if ret, isRet := n.Instr().(*ssa.Return); isRet {
									k, isC := ret.Results[1].(*ssa.Const)
									return isC && k.IsNil()
								}
								return false
							}, sx.Query{}); !goesOn {
								ok = true
							}
						}
					}
				}
			}
		})
		l.Check(ok, "C14-G7", fnKey(f)+"/unknown-id", f.Pos(), "an unregistered id is an error", "WithNodeIDs accepts ids that are not registered")
	}
}

func appendedValue(a *ssa.Call) ssa.Value { return appendedNode(a) }

func c14G8(l *core.Ledger, r *rt) {
	for _, name := range []string{"NodeIDs", "Nodes", "Size", "Equal"} {
		fn := r.mustFn("C14-G8", "RawConfiguration."+name)
		if fn == nil {
			continue
		}
		ok := true
		sx.AllInstrs(fn, func(_ sx.Node, in ssa.Instruction) {
			switch x := in.(type) {
			case *ssa.UnOp:
				if _, isG := x.X.(*ssa.Global); isG {
					ok = false
				}
			case *ssa.Call:
				if _, isB := x.Call.Value.(*ssa.Builtin); isB {
					return
				}
				if _, isID := methodCallOn(&x.Call, core.RootModule, "RawNode", "ID"); isID {
					return
				}
				ok = false
			case *ssa.Store:
				// only into locally made slices
				if ia, isIA := x.Addr.(*ssa.IndexAddr); isIA {
					if !localSlice(ia.X, map[ssa.Value]bool{}) {
						ok = false
					}
				} else if _, isAl := x.Addr.(*ssa.Alloc); !isAl {
					ok = false
				}
			case *ssa.Go, *ssa.Defer:
				ok = false
			}
		})
		l.Check(ok, "C14-G8", "gorums.(RawConfiguration)."+name, fn.Pos(), "pure function of the configuration", name+" reads or writes state other than its operands")
	}
}

func c14G9who(l *core.Ledger, r *rt) {
	var makers, inserters []string
	for _, f := range allFuncs(l.Prog, r.pkg) {
		sx.AllInstrs(f, func(_ sx.Node, in ssa.Instruction) {
			switch x := in.(type) {
			case *ssa.Alloc:
				if isNamed(x.Type(), core.RootModule, "RawNode") {
					if _, isStruct := x.Type().(*types.Pointer).Elem().Underlying().(*types.Struct); isStruct {
						makers = append(makers, fnKey(f))
					}
				}
			case *ssa.MapUpdate:
				if sx.All(sx.Origins(x.Map), sx.IsFieldNamed("lookup", func(o sx.Origin) bool { return isNamed(o.V.Type(), core.RootModule, "RawManager") })) {
					inserters = append(inserters, fnKey(f))
				}
			case *ssa.Store:
				if base, ok := fieldAddrOf(x.Addr, "nodes"); ok && isNamed(base.Type(), core.RootModule, "RawManager") {
					if _, isAl := base.(*ssa.Alloc); !isAl {
						inserters = append(inserters, fnKey(f))
					}
				}
			}
		})
	}
	makers, inserters = dedupStrings(makers), dedupStrings(inserters)
	sort.Strings(makers)
	okM := len(makers) > 0
	for _, m := range makers {
		if m != "gorums.NewRawNode" && m != "gorums.NewRawNodeWithID" {
			okM = false
		}
	}
	l.Check(okM, "C14-G9", "who-may-construct/RawNode", token.NoPos, fmt.Sprintf("%v", makers), fmt.Sprintf("RawNode values are built by %v", makers))
	l.Check(len(inserters) == 1 && inserters[0] == "gorums.(RawManager).AddNode", "C14-G9", "who-may-insert/pool", token.NoPos, "only AddNode", fmt.Sprintf("the node pool is modified by %v", inserters))
}

// c14G10: address fidelity. Distinct addresses can only stay distinct nodes
// (or be reported by G3's comparison) if a node's addr field keeps every
// component of the resolved address. The rule follows the data dependences of
// every value stored into RawNode.addr back to their sources.
// addrDependence reports what a value stored as a node's address depends on:
// the resolved address as a whole (String()), the caller's raw text, which
// components of the resolved address, and what the walk could not see through.
func addrDependence(st *ssa.Store) (whole, raw bool, parts map[string]bool, opaque string) {
	whole, raw, opaque = false, false, ""
	parts = map[string]bool{}
	seen := map[ssa.Value]bool{}
	var walk func(v ssa.Value, depth int)
	walk = func(v ssa.Value, depth int) {
		if v == nil || seen[v] || depth > 40 {
			return
		}
		seen[v] = true
		switch x := v.(type) {
		case *ssa.Const, *ssa.Global, *ssa.Function, *ssa.Builtin:
		case *ssa.Parameter:
			if b, isB := x.Type().Underlying().(*types.Basic); isB && b.Kind() == types.String {
				raw = true
			} else if isNamed(x.Type(), "net", "TCPAddr") {
				whole = true // an address handed in as a whole
			}
		case *ssa.Call:
			cc := &x.Call
			if sx.StaticCalleeName(cc) == "(*net.TCPAddr).String" || sx.StaticCalleeName(cc) == "net.(*TCPAddr).String" {
				whole = true
				return
			}
			if f := cc.StaticCallee(); f != nil && f.Signature.Recv() != nil && f.Name() == "String" && isNamed(f.Signature.Recv().Type(), "net", "TCPAddr") {
				whole = true
				return
			}
			if cc.IsInvoke() {
				walk(cc.Value, depth+1)
			} else if _, isB := cc.Value.(*ssa.Builtin); !isB {
				if cc.StaticCallee() == nil {
					walk(cc.Value, depth+1)
				}
			}
			for _, a := range cc.Args {
				walk(a, depth+1)
			}
		case *ssa.Extract:
			walk(x.Tuple, depth+1)
		case *ssa.UnOp:
			if x.Op == token.MUL {
				if fa2, isFA := x.X.(*ssa.FieldAddr); isFA && isNamed(fa2.X.Type(), "net", "TCPAddr") {
					if fl := fieldOf(fa2.X.Type(), fa2.Field); fl != nil {
						parts[fl.Name()] = true
					}
					return
				}
				if al, isAl := x.X.(*ssa.Alloc); isAl {
					for _, ref := range *al.Referrers() {
						if s2, isSt := ref.(*ssa.Store); isSt && s2.Addr == ssa.Value(al) {
							walk(s2.Val, depth+1)
						}
					}
					return
				}
				if fa2, isFA := x.X.(*ssa.FieldAddr); isFA {
					// a field of some other struct (for instance the node under construction):
					// follow the stores into that field in this function
					fl := fieldOf(fa2.X.Type(), fa2.Field)
					found := false
					sx.AllInstrs(x.Parent(), func(_ sx.Node, in2 ssa.Instruction) {
						if s2, isSt := in2.(*ssa.Store); isSt {
							if fa3, isFA3 := s2.Addr.(*ssa.FieldAddr); isFA3 && fieldOf(fa3.X.Type(), fa3.Field) == fl {
								found = true
								walk(s2.Val, depth+1)
							}
						}
					})
					if !found {
						opaque = "load of " + fl.Name()
					}
					return
				}
			}
			walk(x.X, depth+1)
		case *ssa.Field:
			if isNamed(x.X.Type(), "net", "TCPAddr") {
				if fl := fieldOf(x.X.Type(), x.Field); fl != nil {
					parts[fl.Name()] = true
				}
				return
			}
			walk(x.X, depth+1)
		case *ssa.BinOp:
			walk(x.X, depth+1)
			walk(x.Y, depth+1)
		case *ssa.Phi:
			for _, e := range x.Edges {
				walk(e, depth+1)
			}
		case *ssa.Convert:
			walk(x.X, depth+1)
		case *ssa.ChangeType:
			walk(x.X, depth+1)
		case *ssa.MakeInterface:
			walk(x.X, depth+1)
		case *ssa.ChangeInterface:
			walk(x.X, depth+1)
		case *ssa.Slice:
			walk(x.X, depth+1)
		case *ssa.Alloc:
			for _, ref := range *x.Referrers() {
				switch u := ref.(type) {
				case *ssa.Store:
					if u.Addr == ssa.Value(x) {
						walk(u.Val, depth+1)
					}
				case *ssa.IndexAddr:
					for _, r2 := range *u.Referrers() {
						if s2, isSt := r2.(*ssa.Store); isSt && s2.Addr == ssa.Value(u) {
							walk(s2.Val, depth+1)
						}
					}
				}
			}
		case *ssa.IndexAddr:
			walk(x.X, depth+1)
		case *ssa.Index:
			walk(x.X, depth+1)
		case *ssa.Lookup:
			walk(x.X, depth+1)
		case *ssa.FieldAddr:
			walk(x.X, depth+1)
		default:
			opaque = fmt.Sprintf("%T", v)
		}
	}
	walk(st.Val, 0)
	return
}

func c14G10(l *core.Ledger, r *rt) {
	n := 0
	for _, f := range allFuncs(l.Prog, r.pkg) {
		f := f
		sx.AllInstrs(f, func(_ sx.Node, in ssa.Instruction) {
			st, ok := in.(*ssa.Store)
			if !ok {
				return
			}
			fa, ok := st.Addr.(*ssa.FieldAddr)
			if !ok || !isNamed(fa.X.Type(), core.RootModule, "RawNode") {
				return
			}
			fld := fieldOf(fa.X.Type(), fa.Field)
			if fld == nil || fld.Name() != "addr" {
				return
			}
			n++
			key := fmt.Sprintf("%s/addr-store%d", fnKey(f), n)
			whole, raw, parts, opaque := addrDependence(st)
			switch {
			case whole:
				l.OK("C14-G10", key, st.Pos(), "depends on the resolved address's String()")
			case parts["IP"] && parts["Port"] && parts["Zone"]:
				l.OK("C14-G10", key, st.Pos(), "depends on IP, Port and Zone of the resolved address")
			case len(parts) > 0:
				var missing []string
				for _, p := range []string{"IP", "Port", "Zone"} {
					if !parts[p] {
						missing = append(missing, p)
					}
				}
				l.Bad("C14-G10", key, st.Pos(), fmt.Sprintf("the node's address is rebuilt from parts of the resolved address without its %s: addresses that differ only there become one node (or two nodes carrying the same address), silently", strings.Join(missing, ", ")))
			case raw && opaque == "":
				l.OK("C14-G10", key, st.Pos(), "the caller's address text itself")
			default:
				l.Unknown("C14-G10", key, st.Pos(), "cannot tell what the stored address depends on ("+opaque+")")
			}
		})
	}
	l.Floor("C14-G10", n, 1, "stores into RawNode.addr")
}

// c14G12: the public configuration API is the generated wrapper around the raw
// one (static code, bundled into every generated file: C17-U2 ties the bundle
// to these sources, C17-U1 the committed files to the bundle). The algebra
// and identity clauses of the property hold for what users call only if the
// wrappers hand their operands on unchanged: And/Except with (receiver,
// argument) in that order to the raw method of the same name, the option of
// NewConfiguration itself to NewRawConfiguration with the wrapper's own
// manager, and a wrapper node for every raw node in the raw order.
func c14G12(l *core.Ledger) {
	l.Rule("C14-G13", "the generated constructors reject an empty configuration: every success return of Manager.NewConfiguration and ConfigurationFromRaw is dominated by the not-empty edge of a test of the configuration's size")
	l.Rule("C14-G12", "wrapper fidelity (static code of the generated API): Configuration.And/Except hand (receiver's raw configuration, argument's raw configuration) to the raw method of the same name; NewConfiguration hands its NodeListOption and its own RawManager to NewRawConfiguration and fails when that fails; the wrapper node list is element i = wrapper of raw element i for every i (NewConfiguration, ConfigurationFromRaw, Manager.Nodes)")
	dev := l.Prog.Pkg("cmd/protoc-gen-gorums/dev")
	if dev == nil {
		l.Unknown("C14-G12", "anchor/dev", token.NoPos, "static sources package not loaded")
		return
	}
	sp := l.Prog.SSAPkg(dev)
	if sp == nil {
		l.Unknown("C14-G12", "anchor/dev", token.NoPos, "no SSA for the static sources package")
		return
	}
	method := func(recv, name string) *ssa.Function {
		for _, f := range ssaPkgFuncs(sp) {
			if f.Name() != name || f.Parent() != nil {
				continue
			}
			if recv == "" && f.Signature.Recv() == nil {
				return f
			}
			if recv != "" && f.Signature.Recv() != nil {
				t := f.Signature.Recv().Type()
				if p, ok := t.(*types.Pointer); ok {
					t = p.Elem()
				}
				if n, ok := t.(*types.Named); ok && n.Obj().Name() == recv {
					return f
				}
			}
		}
		return nil
	}
	// the raw configuration embedded in v (a Configuration value or pointer parameter)
	rawOf := func(p *ssa.Parameter) func(sx.Origin) bool {
		return sx.IsFieldNamed("RawConfiguration", func(o sx.Origin) bool {
			if sx.IsParam(p)(o) {
				return true
			}
			// value receiver spilled / pointer deref
			return sx.All(o.Base, sx.IsParam(p)) && len(o.Base) > 0
		})
	}
	n := 0
	for _, name := range []string{"And", "Except"} {
		fn := method("Configuration", name)
		key := "dev.(Configuration)." + name
		if fn == nil {
			l.Unknown("C14-G12", key, token.NoPos, "wrapper method not found")
			continue
		}
		n++
		ok, why := false, "no call of RawConfiguration."+name+" found"
		sx.AllInstrs(fn, func(_ sx.Node, in ssa.Instruction) {
			c, isCall := in.(*ssa.Call)
			if !isCall || c.Call.StaticCallee() == nil || c.Call.StaticCallee().Signature.Recv() == nil {
				return
			}
			cs := c.Call.StaticCallee()
			if !isNamed(cs.Signature.Recv().Type(), core.RootModule, "RawConfiguration") {
				return
			}
			if cs.Name() != name {
				why = "calls RawConfiguration." + cs.Name()
				return
			}
			a0 := sx.All(sx.Origins(c.Call.Args[0]), rawOf(fn.Params[0]))
			a1 := len(c.Call.Args) > 1 && sx.All(sx.Origins(c.Call.Args[1]), rawOf(fn.Params[1]))
			// and its result is what is returned
			ret := false
			for _, ref := range *c.Referrers() {
				if r, isR := ref.(*ssa.Return); isR && len(r.Results) == 1 && r.Results[0] == ssa.Value(c) {
					ret = true
				}
			}
			if a0 && a1 && ret {
				ok = true
			} else {
				why = fmt.Sprintf("receiver's raw configuration as receiver: %v, argument's as argument: %v, result returned: %v", a0, a1, ret)
			}
		})
		l.Check(ok, "C14-G12", key, fn.Pos(), "hands (receiver, argument) to RawConfiguration."+name+" and returns its option", "the generated "+name+" does not hand its operands on unchanged ("+why+"): the union/difference users get is not the one the runtime computes for these operands")
	}
	// element-wise wrapping
	wraps := func(fn *ssa.Function, key string, isSrc func(sx.Origin) bool, what string) {
		n++
		// a store nodes[i] = &Node{raw[i]} inside a range loop over the source, same index
		ok, why := false, "no element-wise wrapping loop found"
		sx.AllInstrs(fn, func(nd sx.Node, in ssa.Instruction) {
			st, isSt := in.(*ssa.Store)
			if !isSt {
				return
			}
			ia, isIA := st.Addr.(*ssa.IndexAddr)
			if !isIA || !sx.InLoop(nd) {
				return
			}
			al, isAl := st.Val.(*ssa.Alloc)
			if !isAl {
				return
			}
			if n, isN := al.Type().(*types.Pointer).Elem().(*types.Named); !isN || n.Obj().Name() != "Node" {
				return
			}
			fs := allocFieldStores(al)
			rawNode := fs["RawNode"]
			if rawNode == nil {
				why = "the wrapper node is not given a raw node"
				return
			}
			// the raw node is element idx of the source, idx = the store's index
			good := sx.All(sx.Origins(rawNode), func(o sx.Origin) bool {
				if o.Kind != sx.KElem || !sx.All(o.Base, isSrc) {
					return false
				}
				src, isSrcIA := o.V.(*ssa.IndexAddr)
				return isSrcIA && src.Index == ia.Index
			})
			if good {
				ok = true
			} else {
				why = "element i of the wrapper list does not wrap element i of " + what + " (" + sx.OriginsString(sx.Origins(rawNode)) + ")"
			}
		})
		// the same built by appending in a range over the source (the order of a range over a slice
		// is the slice's order): append(list, &Node{element of the source})
		if !ok {
			sx.AllInstrs(fn, func(nd sx.Node, in ssa.Instruction) {
				c, isCall := in.(*ssa.Call)
				if !isCall || !sx.InLoop(nd) {
					return
				}
				if b, isB := c.Call.Value.(*ssa.Builtin); !isB || b.Name() != "append" || len(c.Call.Args) != 2 {
					return
				}
				v := appendedNode(c)
				al, isAl := v.(*ssa.Alloc)
				if !isAl {
					return
				}
				if n, isN := al.Type().(*types.Pointer).Elem().(*types.Named); !isN || n.Obj().Name() != "Node" {
					return
				}
				rawNode := allocFieldStores(al)["RawNode"]
				if rawNode != nil && sx.All(sx.Origins(rawNode), func(o sx.Origin) bool {
					return (o.Kind == sx.KElem || o.Kind == sx.KRange) && sx.All(o.Base, isSrc)
				}) {
					ok = true
				}
			})
		}
		l.Check(ok, "C14-G12", key, fn.Pos(), "wrapper node i wraps raw node i of "+what, "the generated node list does not mirror "+what+" ("+why+"): Nodes() of a configuration disagrees with the nodes its calls go to")
	}
	if fn := method("Manager", "NewConfiguration"); fn != nil {
		// NewRawConfiguration(m.RawManager, v)
		n++
		ok, why := false, "no call of NewRawConfiguration"
		var call *ssa.Call
		sx.AllInstrs(fn, func(_ sx.Node, in ssa.Instruction) {
			c, isCall := in.(*ssa.Call)
			if !isCall || !calleeIs(&c.Call, core.RootModule+".NewRawConfiguration") {
				return
			}
			call = c
			mgrOK := sx.All(sx.Origins(c.Call.Args[0]), sx.IsFieldNamed("RawManager", sx.AnyOrigin)) && sx.All(sx.Origins(c.Call.Args[0]), func(o sx.Origin) bool {
				return sx.All(o.Base, func(b sx.Origin) bool { return sx.IsParam(fn.Params[0])(b) })
			})
			// the option: an element of the variadic parameter (through the type switch)
			optOK := sx.All(sx.Origins(c.Call.Args[1]), func(o sx.Origin) bool {
				return rootedAtParam(o, fn.Params[1], 0)
			})
			if mgrOK && optOK {
				ok = true
			} else {
				why = fmt.Sprintf("own manager: %v, the caller's option: %v (%s)", mgrOK, optOK, sx.OriginsString(sx.Origins(c.Call.Args[1])))
			}
		})
		l.Check(ok, "C14-G12", "dev.(Manager).NewConfiguration/delegates", fn.Pos(), "NewRawConfiguration(m.RawManager, the caller's option)", "NewConfiguration does not hand its own manager and the caller's node option to NewRawConfiguration ("+why+")")
		if call != nil {
			// its error is returned
			n++
			errOK := false
			for _, ref := range *call.Referrers() {
				e, isE := ref.(*ssa.Extract)
				if !isE || e.Index != 1 {
					continue
				}
				for _, ifi := range ifsOn(fn, e) {
					_ = ifi
				}
				m := func(o sx.Origin) bool {
					return o.V == ssa.Value(e) || (o.Kind == sx.KExtract && o.V == ssa.Value(call))
				}
				sx.AllInstrs(fn, func(_ sx.Node, in ssa.Instruction) {
					if ifi, isIf := in.(*ssa.If); isIf && isErrNonNil(ifi, m) != 0 {
						ee := errEdge(ifi, m, true)
						// the error edge leads only to returns with a non-nil error
						if _, bad := sx.Reach(sx.Node{B: ee.To, I: -1}, func(x sx.Node) bool {
							r, isR := x.Instr().(*ssa.Return)
							if !isR {
								return false
							}
							k, isK := r.Results[len(r.Results)-1].(*ssa.Const)
							return isK && k.IsNil()
						}, sx.Query{}); !bad {
							errOK = true
						}
					}
				})
			}
			l.Check(errOK, "C14-G12", "dev.(Manager).NewConfiguration/error", call.Pos(), "a failing raw constructor fails NewConfiguration", "NewConfiguration can return success although NewRawConfiguration failed: the user gets a configuration the runtime rejected (empty, address mismatch, unknown id)")
			isRaw := func(o sx.Origin) bool {
				if (o.Kind == sx.KEscaped || o.Kind == sx.KAlloc) && o.V != nil {
					// the wrapper under construction, whose only slice is the raw configuration it was just given
					if pt, isP := o.V.Type().(*types.Pointer); isP {
						if nt, isN := pt.Elem().(*types.Named); isN && nt.Obj().Name() == "Configuration" {
							return true
						}
					}
				}
				return (o.Kind == sx.KExtract && o.V == ssa.Value(call)) || (o.Kind == sx.KField && o.Field != nil && o.Field.Name() == "RawConfiguration")
			}
			wraps(fn, "dev.(Manager).NewConfiguration/nodes", isRaw, "the raw configuration")
		}
	} else {
		l.Unknown("C14-G12", "dev.(Manager).NewConfiguration", token.NoPos, "not found")
	}
	if fn := method("", "ConfigurationFromRaw"); fn != nil {
		wraps(fn, "dev.ConfigurationFromRaw/nodes", func(o sx.Origin) bool {
			return sx.IsParam(fn.Params[0])(o) || (o.Kind == sx.KField && o.Field != nil && o.Field.Name() == "RawConfiguration")
		}, "the raw configuration")
	}
	if fn := method("Manager", "Nodes"); fn != nil {
		wraps(fn, "dev.(Manager).Nodes/nodes", func(o sx.Origin) bool {
			c, isC := o.V.(*ssa.Call)
			return o.Kind == sx.KCall && isC && c.Call.StaticCallee() != nil && c.Call.StaticCallee().Name() == "Nodes"
		}, "RawManager.Nodes()")
	}
	// G13: the wrapper constructors reject an empty configuration (a node list forgotten among
	// the options, an empty raw configuration): every return that reports success is dominated
	// by the not-empty edge of a test of the configuration's size
	for _, spec := range []struct{ recv, name string }{{"Manager", "NewConfiguration"}, {"", "ConfigurationFromRaw"}} {
		fn := method(spec.recv, spec.name)
		if fn == nil {
			continue
		}
		n++
		key := "dev." + spec.name + "/rejects-empty"
		var notEmpty []sx.Edge
		sx.AllInstrs(fn, func(_ sx.Node, in ssa.Instruction) {
			ifi, ok := in.(*ssa.If)
			if !ok {
				return
			}
			v, pos := condOf(ifi)
			b, ok := v.(*ssa.BinOp)
			if !ok {
				return
			}
			k, isK := b.Y.(*ssa.Const)
			call, isCall := b.X.(*ssa.Call)
			if !isK || !isCall || k.Value == nil {
				return
			}
			isCfg := func(t types.Type) bool {
				if p, isP := t.(*types.Pointer); isP {
					t = p.Elem()
				}
				nt, isN := t.(*types.Named)
				return isN && (nt.Obj().Name() == "RawConfiguration" || nt.Obj().Name() == "Configuration")
			}
			isSize := false
			if bi, isB := call.Call.Value.(*ssa.Builtin); isB && bi.Name() == "len" && len(call.Call.Args) == 1 && isCfg(call.Call.Args[0].Type()) {
				isSize = true
			}
			if cs := call.Call.StaticCallee(); cs != nil && cs.Name() == "Size" && cs.Signature.Recv() != nil && isCfg(cs.Signature.Recv().Type()) {
				isSize = true
			}
			kv, exact := constant.Int64Val(constant.ToInt(k.Value))
			if !isSize || !exact {
				return
			}
			t, f := sx.CondEdges(ifi)
			if !pos {
				t, f = f, t
			}
			switch {
			case b.Op == token.EQL && kv == 0, b.Op == token.LSS && kv == 1, b.Op == token.LEQ && kv == 0:
				notEmpty = append(notEmpty, f)
			case b.Op == token.NEQ && kv == 0, b.Op == token.GTR && kv == 0, b.Op == token.GEQ && kv == 1:
				notEmpty = append(notEmpty, t)
			}
		})
		ok := true
		var at token.Pos
		sx.AllInstrs(fn, func(nd sx.Node, in ssa.Instruction) {
			ret, isRet := in.(*ssa.Return)
			if !isRet || len(ret.Results) < 2 {
				return
			}
			if k, isK := ret.Results[len(ret.Results)-1].(*ssa.Const); isK && k.IsNil() {
				if !edgesDominate(fn, notEmpty, nd) {
					ok, at = false, ret.Pos()
				}
			}
		})
		l.Check(ok, "C14-G13", key, at, "success only for a configuration with at least one node", "the generated "+spec.name+" can return an empty configuration with a nil error (a node list forgotten among the options, an empty raw configuration): every other way of asking for a configuration without nodes is rejected, and the first quorum call on the empty one panics")
	}
	l.Floor("C14-G12", n, 6, "wrapper obligations in the static code")
}

func rootedAtParam(o sx.Origin, p *ssa.Parameter, depth int) bool {
	if depth > 5 {
		return false
	}
	if sx.IsParam(p)(o) {
		return true
	}
	if ta, isTA := o.V.(*ssa.TypeAssert); isTA && (o.Kind == sx.KExtract || o.Kind == sx.KUnOp || o.Kind == sx.KUnknown) {
		return sx.All(sx.Origins(ta.X), func(b sx.Origin) bool { return rootedAtParam(b, p, depth+1) })
	}
	if len(o.Base) == 0 {
		return false
	}
	for _, b := range o.Base {
		if !rootedAtParam(b, p, depth+1) {
			return false
		}
	}
	return true
}
