package rules

import (
	"fmt"
	"go/constant"
	"go/token"
	"go/types"

	"golang.org/x/tools/go/ssa"

	"verif/checker/internal/core"
	"verif/checker/internal/sx"
)

// replyLoop is the model of one of the three reply-collecting loops
// (QuorumCall, handleAsyncCall, handleCorrectableCall), located by role: a
// function of package gorums containing a blocking select one of whose cases
// receives from a channel of `response`.
type replyLoop struct {
	fn        *ssa.Function
	key       string
	sel       *ssa.Select
	recvState int
	ctxState  int // -1 if no case on a context's Done()
	recvEdge  sx.Edge
	ctxEdge   sx.Edge
	hasCtx    bool
	rVal      ssa.Value // the received response (Extract of the primary select)
	recvs     []recvPoint
	ctxVal    ssa.Value // the context whose Done() is selected on
	qfCalls   []*ssa.Call
	qfResults int
	replies   ssa.Value // the reply map handed to the quorum function
	correct   bool      // correctable flavour (QF has 3 results)
}

// recvPoint is one select state that receives from the reply channel (a
// blocking wait or a non-blocking poll).
type recvPoint struct {
	sel  *ssa.Select
	edge sx.Edge
	rVal ssa.Value
}

// isResponseChan reports whether t is a channel of gorums.response.
func isResponseChan(t types.Type) bool {
	ch, ok := t.Underlying().(*types.Chan)
	return ok && isNamed(ch.Elem(), core.RootModule, "response")
}

// isDoneOf matches v == X.Done() for a context.Context X and returns X.
func isDoneOf(v ssa.Value) (ssa.Value, bool) {
	for _, o := range sx.Origins(v) {
		c, ok := o.V.(*ssa.Call)
		if o.Kind != sx.KCall || !ok {
			return nil, false
		}
		if c.Call.IsInvoke() && c.Call.Method.Name() == "Done" && isContextType(c.Call.Value.Type()) {
			return c.Call.Value, true
		}
	}
	return nil, false
}

func isContextType(t types.Type) bool {
	if isNamed(t, "context", "Context") {
		return true
	}
	// types embedding context.Context (ServerCtx) expose Done too
	return false
}

// selectCaseEdge returns the edge taken when select state k fires.
func selectCaseEdge(sel *ssa.Select, k int) (sx.Edge, bool) {
	var idx ssa.Value
	for _, r := range *sel.Referrers() {
		if e, ok := r.(*ssa.Extract); ok && e.Index == 0 {
			idx = e
		}
	}
	if idx == nil {
		return sx.Edge{}, false
	}
	var out sx.Edge
	found := false
	sx.AllInstrs(sel.Parent(), func(_ sx.Node, in ssa.Instruction) {
		ifi, ok := in.(*ssa.If)
		if !ok {
			return
		}
		b, ok := ifi.Cond.(*ssa.BinOp)
		if !ok || b.Op != token.EQL || b.X != idx {
			return
		}
		c, ok := b.Y.(*ssa.Const)
		if !ok || c.Value == nil {
			return
		}
		if v, ok := constant.Int64Val(c.Value); ok && int(v) == k {
			out, _ = sx.CondEdges(ifi)
			found = true
		}
	})
	return out, found
}

// selectDefaultEdge returns the edge taken when a non-blocking select finds no
// case ready: the false edge of the test of its last state.
func selectDefaultEdge(sel *ssa.Select) (sx.Edge, bool) {
	if sel.Blocking || len(sel.States) == 0 {
		return sx.Edge{}, false
	}
	var idx ssa.Value
	for _, r := range *sel.Referrers() {
		if e, ok := r.(*ssa.Extract); ok && e.Index == 0 {
			idx = e
		}
	}
	if idx == nil {
		return sx.Edge{}, false
	}
	var out sx.Edge
	found := false
	last := len(sel.States) - 1
	sx.AllInstrs(sel.Parent(), func(_ sx.Node, in ssa.Instruction) {
		ifi, ok := in.(*ssa.If)
		if !ok {
			return
		}
		b, ok := ifi.Cond.(*ssa.BinOp)
		if !ok || b.Op != token.EQL || b.X != idx {
			return
		}
		c, ok := b.Y.(*ssa.Const)
		if !ok || c.Value == nil {
			return
		}
		if v, ok := constant.Int64Val(c.Value); ok && int(v) == last {
			_, out = sx.CondEdges(ifi)
			found = true
		}
	})
	return out, found
}

// ctxPollEdges: a non-blocking select whose only case is a receive from Done() of a context
// matching isCtx is a test of that context: (ended edge, alive edge).
func ctxPollEdges(fn *ssa.Function, isCtx func(ssa.Value) bool) (ended, alive []sx.Edge) {
	sx.AllInstrs(fn, func(_ sx.Node, in ssa.Instruction) {
		sel, ok := in.(*ssa.Select)
		if !ok || sel.Blocking || len(sel.States) != 1 || sel.States[0].Dir != types.RecvOnly {
			return
		}
		cv, isDone := isDoneOf(sel.States[0].Chan)
		if !isDone || !isCtx(cv) {
			return
		}
		if e, found := selectCaseEdge(sel, 0); found {
			ended = append(ended, e)
		}
		if e, found := selectDefaultEdge(sel); found {
			alive = append(alive, e)
		}
	})
	return
}

// selectRecvValue returns the Extract holding the value received by state k.
func selectRecvValue(sel *ssa.Select, k int) ssa.Value {
	pos := 2
	for i, s := range sel.States {
		if s.Dir == types.RecvOnly {
			if i == k {
				break
			}
			pos++
		}
	}
	for _, r := range *sel.Referrers() {
		if e, ok := r.(*ssa.Extract); ok && e.Index == pos {
			return e
		}
	}
	return nil
}

// isQuorumFunctionSlot matches a value loaded from a struct field named
// QuorumFunction (of QuorumCallData / CorrectableCallData).
func isQuorumFunctionSlot(v ssa.Value) bool {
	if sx.All(sx.Origins(v), func(o sx.Origin) bool {
		return o.Kind == sx.KField && o.Field != nil && o.Field.Name() == "QuorumFunction"
	}) {
		return true
	}
	// a copy of the slot kept under another name (call state with its own field, a parameter):
	// recognised by the quorum-function signature func(request, map[node id]reply) (value, [level,] bool)
	sig, ok := v.Type().Underlying().(*types.Signature)
	if !ok || sig.Params().Len() != 2 || sig.Results().Len() < 2 || sig.Results().Len() > 3 {
		return false
	}
	const pr = "google.golang.org/protobuf/reflect/protoreflect"
	if !isNamed(sig.Params().At(0).Type(), pr, "ProtoMessage") || !isNamed(sig.Results().At(0).Type(), pr, "ProtoMessage") {
		return false
	}
	m, ok := sig.Params().At(1).Type().Underlying().(*types.Map)
	if !ok || !isNamed(m.Elem(), pr, "ProtoMessage") {
		return false
	}
	if b, ok := sig.Results().At(sig.Results().Len() - 1).Type().Underlying().(*types.Basic); !ok || b.Kind() != types.Bool {
		return false
	}
	return sx.All(sx.Origins(v), func(o sx.Origin) bool { return o.Kind == sx.KField || o.Kind == sx.KParam || o.Kind == sx.KFreeVar })
}

// findReplyLoops locates the reply loops of the runtime package.
func findReplyLoops(l *core.Ledger, r *rt, rule string) []*replyLoop {
	var out []*replyLoop
	for _, f := range allFuncs(l.Prog, r.pkg) {
		var sels []*ssa.Select
		sx.AllInstrs(f, func(_ sx.Node, in ssa.Instruction) {
			if s, ok := in.(*ssa.Select); ok {
				for _, st := range s.States {
					if st.Dir == types.RecvOnly && isResponseChan(st.Chan.Type()) {
						sels = append(sels, s)
						break
					}
				}
			}
		})
		if len(sels) == 0 {
			continue
		}
		// reply loops call a quorum function; RPCCall's select does not
		var qf []*ssa.Call
		sx.WithAnon(f, func(g *ssa.Function) {
			sx.AllInstrs(g, func(_ sx.Node, in ssa.Instruction) {
				if c, ok := in.(*ssa.Call); ok && !c.Call.IsInvoke() && c.Call.StaticCallee() == nil {
					if _, isB := c.Call.Value.(*ssa.Builtin); !isB && isQuorumFunctionSlot(c.Call.Value) {
						qf = append(qf, c)
					}
				}
			})
		})
		if len(qf) == 0 {
			continue
		}
		// the primary select is the blocking one; non-blocking polls of the reply channel are further receive points
		var blocking []*ssa.Select
		for _, sl := range sels {
			if sl.Blocking {
				blocking = append(blocking, sl)
			}
		}
		if len(blocking) != 1 {
			l.Unknown(rule, fnKey(f)+"/select", f.Pos(), fmt.Sprintf("%d blocking selects on a response channel in a reply loop: shape not modelled", len(blocking)))
			continue
		}
		rl := &replyLoop{fn: f, key: fnKey(f), sel: blocking[0], qfCalls: qf, ctxState: -1}
		for i, st := range rl.sel.States {
			if st.Dir != types.RecvOnly {
				continue
			}
			if isResponseChan(st.Chan.Type()) {
				rl.recvState = i
			} else if cv, ok := isDoneOf(st.Chan); ok {
				rl.ctxState = i
				rl.ctxVal = cv
			}
		}
		var ok bool
		rl.recvEdge, ok = selectCaseEdge(rl.sel, rl.recvState)
		if !ok {
			l.Unknown(rule, rl.key+"/select", rl.sel.Pos(), "cannot locate the body of the reply case")
			continue
		}
		if rl.ctxState >= 0 {
			rl.ctxEdge, rl.hasCtx = selectCaseEdge(rl.sel, rl.ctxState)
		}
		rl.rVal = selectRecvValue(rl.sel, rl.recvState)
		if rl.rVal == nil {
			l.Unknown(rule, rl.key+"/select", rl.sel.Pos(), "the received response value is unused")
			continue
		}
		for _, sl := range sels {
			for i, st := range sl.States {
				if st.Dir == types.RecvOnly && isResponseChan(st.Chan.Type()) {
					e, okE := selectCaseEdge(sl, i)
					rv := selectRecvValue(sl, i)
					if okE && rv != nil {
						rl.recvs = append(rl.recvs, recvPoint{sl, e, rv})
					}
				}
			}
		}
		rl.qfResults = qf[0].Call.Signature().Results().Len()
		rl.correct = rl.qfResults == 3
		if len(qf[0].Call.Args) == 2 {
			rl.replies = qf[0].Call.Args[1]
		}
		out = append(out, rl)
	}
	return out
}

// isR matches "field <name> of the response received in this iteration"
// (at any of the loop's receive points).
func (rl *replyLoop) isR(field string) func(sx.Origin) bool {
	return sx.IsFieldNamed(field, func(o sx.Origin) bool {
		if o.Kind != sx.KExtract {
			return false
		}
		for _, rp := range rl.recvs {
			if o.V == ssa.Value(rp.sel) && o.Index == rp.rVal.(*ssa.Extract).Index {
				return true
			}
		}
		return false
	})
}

// recvEdges returns the case edges of all receive points.
func (rl *replyLoop) recvEdges() []sx.Edge {
	var out []sx.Edge
	for _, rp := range rl.recvs {
		out = append(out, rp.edge)
	}
	return out
}

// isRecvSelect matches any select of the loop that receives a reply.
func (rl *replyLoop) isRecvSelect(n sx.Node) bool {
	for _, rp := range rl.recvs {
		if n.Instr() == ssa.Instruction(rp.sel) {
			return true
		}
	}
	return false
}

// errTest returns the If instructions testing r.err != nil (normalised so
// that edgeWhere(ifi, true) is the "has error" edge).
func (rl *replyLoop) errTests() []*ssa.If {
	var out []*ssa.If
	sx.AllInstrs(rl.fn, func(_ sx.Node, in ssa.Instruction) {
		ifi, ok := in.(*ssa.If)
		if !ok {
			return
		}
		if isErrNonNil(ifi, rl.isR("err")) != 0 {
			out = append(out, ifi)
		}
	})
	return out
}

// isErrNonNil classifies an If whose condition compares a value matching m
// with nil: returns +1 if the true edge means "non-nil", -1 if it means
// "nil", 0 if the If is something else.
func isErrNonNil(ifi *ssa.If, m func(sx.Origin) bool) int {
	v, pos := condOf(ifi)
	b, ok := v.(*ssa.BinOp)
	if !ok || (b.Op != token.NEQ && b.Op != token.EQL) {
		return 0
	}
	x, y := b.X, b.Y
	if c, ok := x.(*ssa.Const); ok && c.IsNil() {
		x, y = y, x
	}
	c, ok := y.(*ssa.Const)
	if !ok || !c.IsNil() {
		return 0
	}
	if !sx.All(sx.Origins(x), m) {
		return 0
	}
	s := 1
	if b.Op == token.EQL {
		s = -1
	}
	if !pos {
		s = -s
	}
	return s
}

// errEdge returns the edge of ifi taken when the error is non-nil (has=true)
// or nil (has=false).
func errEdge(ifi *ssa.If, m func(sx.Origin) bool, has bool) sx.Edge {
	t, f := sx.CondEdges(ifi)
	s := isErrNonNil(ifi, m)
	if (s > 0) == has {
		return t
	}
	return f
}

// edgesDominate reports whether every path from entry to n uses one of the
// given edges.
func edgesDominate(fn *ssa.Function, es []sx.Edge, n sx.Node) bool {
	if len(es) == 0 {
		return false
	}
	_, ok := sx.Reach(sx.Entry(fn), func(x sx.Node) bool { return x == n }, sx.Query{BlockEdge: func(e sx.Edge) bool {
		for _, x := range es {
			if x == e {
				return true
			}
		}
		return false
	}})
	return !ok
}

// quorumTests returns the If instructions on the quorum verdict (last result)
// of QF call c.
func (rl *replyLoop) quorumTests(c *ssa.Call) []*ssa.If {
	var verdict ssa.Value
	for _, r := range *c.Referrers() {
		if e, ok := r.(*ssa.Extract); ok && e.Index == rl.qfResults-1 {
			verdict = e
		}
	}
	if verdict == nil {
		return nil
	}
	return ifsOn(rl.fn, verdict)
}

// lenOf matches a call len(x) with x matching m.
func lenOf(v ssa.Value, m func(ssa.Value) bool) bool {
	c, ok := v.(*ssa.Call)
	if !ok {
		return false
	}
	b, ok := c.Call.Value.(*ssa.Builtin)
	return ok && b.Name() == "len" && m(c.Call.Args[0])
}

// errsFamily decides whether v is the call's error slice: nil, or
// append(family, nodeError{nodeID: r.nid, cause: r.err}).
func (rl *replyLoop) errsFamily(v ssa.Value, seen map[ssa.Value]bool) bool {
	if seen[v] {
		return true
	}
	seen[v] = true
	switch x := v.(type) {
	case *ssa.Const:
		return x.IsNil()
	case *ssa.Phi:
		for _, e := range x.Edges {
			if !rl.errsFamily(e, seen) {
				return false
			}
		}
		return true
	case *ssa.Call:
		b, ok := x.Call.Value.(*ssa.Builtin)
		if !ok || b.Name() != "append" {
			return false
		}
		return rl.errsFamily(x.Call.Args[0], seen)
	case *ssa.MakeSlice:
		// make([]nodeError, 0, n): an empty slice with room; a non-zero length would be counted as errors
		c, ok := x.Len.(*ssa.Const)
		return ok && c.Value != nil && constant.Sign(c.Value) == 0
	case *ssa.Slice:
		// []nodeError{}: a slice of a zero-length array
		if al, ok := x.X.(*ssa.Alloc); ok && x.Low == nil && x.High == nil {
			if pt, ok := al.Type().Underlying().(*types.Pointer); ok {
				if arr, ok := pt.Elem().Underlying().(*types.Array); ok && arr.Len() == 0 {
					return true
				}
			}
		}
	}
	return false
}

// errAppends returns the append calls that extend the error slice.
func (rl *replyLoop) errAppends() []*ssa.Call {
	var out []*ssa.Call
	sx.AllInstrs(rl.fn, func(_ sx.Node, in ssa.Instruction) {
		c, ok := in.(*ssa.Call)
		if !ok {
			return
		}
		b, ok := c.Call.Value.(*ssa.Builtin)
		if !ok || b.Name() != "append" {
			return
		}
		if sl, ok := c.Type().Underlying().(*types.Slice); ok && isNamed(sl.Elem(), core.RootModule, "nodeError") {
			out = append(out, c)
		}
	})
	return out
}

// expectedLike decides whether v is the expected-replies counter: the field
// expectedReplies of the call state, len(c) of the configuration, or such a
// value minus one (skipped nodes).
func expectedLike(v ssa.Value, seen map[ssa.Value]bool) bool {
	if seen[v] {
		return true
	}
	seen[v] = true
	isOne := func(v ssa.Value) bool {
		c, ok := v.(*ssa.Const)
		return ok && c.Value != nil && constant.Compare(c.Value, token.EQL, constant.MakeInt64(1))
	}
	switch x := v.(type) {
	case *ssa.Phi:
		// a counter that starts at 0 and is incremented (once per request handed to a node: C02-T4
		// checks the counting) is the expected number just as len(c) minus the skipped nodes is
		countsUp := false
		for _, e := range x.Edges {
			if b, ok := e.(*ssa.BinOp); ok && b.Op == token.ADD && isOne(b.Y) {
				countsUp = true
			}
		}
		for _, e := range x.Edges {
			if c, ok := e.(*ssa.Const); ok && countsUp && c.Value != nil && constant.Sign(c.Value) == 0 {
				continue
			}
			if !expectedLike(e, seen) {
				return false
			}
		}
		return true
	case *ssa.BinOp:
		if (x.Op == token.SUB || x.Op == token.ADD) && isOne(x.Y) {
			return expectedLike(x.X, seen)
		}
		return false
	case *ssa.Call:
		return lenOf(x, func(a ssa.Value) bool {
			return sx.All(sx.Origins(a), func(o sx.Origin) bool {
				return o.Kind == sx.KParam && isNamed(o.V.Type(), core.RootModule, "RawConfiguration")
			})
		})
	}
	if par, ok := v.(*ssa.Parameter); ok {
		// handed over as a plain argument instead of a state field: the value at the only call site
		if a := sx.SingleCallArg(par); a != nil {
			return expectedLike(a, seen)
		}
		return false
	}
	return sx.All(sx.Origins(v), func(o sx.Origin) bool {
		return o.Kind == sx.KField && o.Field != nil && o.Field.Name() == "expectedReplies"
	})
}

// exhaustionTests returns the If instructions that compare the number of
// answers so far (len(errs)+len(replies); len(errs) alone is accepted for
// streams) with the expected number, with the edge taken when exhausted.
func (rl *replyLoop) exhaustionTests() (ifs []*ssa.If, edges []sx.Edge, full map[*ssa.If]bool) {
	full = map[*ssa.If]bool{}
	isErrLen := func(v ssa.Value) bool {
		return lenOf(v, func(a ssa.Value) bool { return rl.errsFamily(a, map[ssa.Value]bool{}) })
	}
	isRepLen := func(v ssa.Value) bool {
		return lenOf(v, func(a ssa.Value) bool { return a == rl.replies })
	}
	sx.AllInstrs(rl.fn, func(_ sx.Node, in ssa.Instruction) {
		ifi, ok := in.(*ssa.If)
		if !ok {
			return
		}
		v, pos := condOf(ifi)
		b, ok := v.(*ssa.BinOp)
		if !ok {
			return
		}
		x, y, op := b.X, b.Y, b.Op
		if expectedLike(x, map[ssa.Value]bool{}) && !expectedLike(y, map[ssa.Value]bool{}) {
			x, y = y, x
			switch op {
			case token.LSS:
				op = token.GTR
			case token.GTR:
				op = token.LSS
			case token.LEQ:
				op = token.GEQ
			case token.GEQ:
				op = token.LEQ
			}
		}
		if !expectedLike(y, map[ssa.Value]bool{}) {
			return
		}
		sumOf := func(v ssa.Value) bool {
			s, ok := v.(*ssa.BinOp)
			return ok && s.Op == token.ADD && ((isErrLen(s.X) && isRepLen(s.Y)) || (isErrLen(s.Y) && isRepLen(s.X)))
		}
		isSum := sumOf(x)
		if ph, isPhi := x.(*ssa.Phi); isPhi && !isSum && !isErrLen(x) {
			// the count chosen per flavour: every incoming value is len(errs) or len(errs)+len(replies)
			all, allSum := len(ph.Edges) > 0, true
			for _, e := range ph.Edges {
				switch {
				case sumOf(e):
				case isErrLen(e):
					allSum = false
				default:
					all = false
				}
			}
			if !all {
				return
			}
			isSum = allSum
		} else if !isSum && !isErrLen(x) {
			return
		}
		t, f := sx.CondEdges(ifi)
		var e sx.Edge
		switch op {
		case token.EQL, token.GEQ:
			e = t
			if !pos {
				e = f
			}
		case token.NEQ, token.LSS:
			e = f
			if !pos {
				e = t
			}
		default:
			return
		}
		ifs = append(ifs, ifi)
		edges = append(edges, e)
		full[ifi] = isSum
	})
	return
}
