package rules

import (
	"fmt"
	"go/ast"
	"go/token"
	"go/types"
	"sort"
	"strings"

	"verif/checker/internal/core"
	"verif/checker/internal/gen"
)

// ---------------------------------------------------------------------------
// AST helpers over the type-checked generated packages

// resolvedCall returns the function object a call expression resolves to.
func resolvedCall(info *types.Info, ce *ast.CallExpr) *types.Func {
	switch f := ce.Fun.(type) {
	case *ast.SelectorExpr:
		fn, _ := info.Uses[f.Sel].(*types.Func)
		return fn
	case *ast.Ident:
		fn, _ := info.Uses[f].(*types.Func)
		return fn
	}
	return nil
}

func isGorumsFunc(fn *types.Func, name string) bool {
	return fn != nil && fn.Name() == name && fn.Pkg() != nil && fn.Pkg().Path() == core.RootModule
}

// objOf returns the object an identifier expression denotes.
func objOf(info *types.Info, e ast.Expr) types.Object {
	if id, ok := ast.Unparen(e).(*ast.Ident); ok {
		if o := info.Uses[id]; o != nil {
			return o
		}
		return info.Defs[id]
	}
	return nil
}

// paramObj returns the object of the i-th parameter of a function literal
// (flattening grouped names); nil for blank parameters.
func paramObjs(info *types.Info, ft *ast.FuncType) []types.Object {
	var out []types.Object
	for _, f := range ft.Params.List {
		if len(f.Names) == 0 {
			out = append(out, nil)
			continue
		}
		for _, n := range f.Names {
			if n.Name == "_" {
				out = append(out, nil)
			} else {
				out = append(out, info.Defs[n])
			}
		}
	}
	return out
}

// selectorOn matches x.<sel> where x denotes obj.
func selectorOn(info *types.Info, e ast.Expr, obj types.Object, sel string) bool {
	s, ok := ast.Unparen(e).(*ast.SelectorExpr)
	return ok && s.Sel.Name == sel && obj != nil && objOf(info, s.X) == obj
}

// assertOf matches x.(T) (single-result use is decided by the caller) and
// returns x and the asserted type.
func assertOf(info *types.Info, e ast.Expr) (ast.Expr, types.Type, bool) {
	ta, ok := ast.Unparen(e).(*ast.TypeAssertExpr)
	if !ok || ta.Type == nil {
		return nil, nil, false
	}
	return ta.X, info.TypeOf(ta.Type), true
}

// ---------------------------------------------------------------------------
// B1 / F6: name binding

func checkNameBinding(l *core.Ledger, rule string) {
	gm := buildGenModel(l)
	if !genFloor(l, gm, rule) {
		return
	}
	for _, gp := range gm.pkgs {
		want := map[string]*gen.Method{}
		for _, s := range gp.proto.Services {
			for _, m := range s.Methods {
				want[m.FullName] = m
			}
		}
		// handlers: bijection with descriptor methods — only packages that generate a server
		var names []string
		for n := range gp.handlers {
			names = append(names, n)
		}
		sort.Strings(names)
		hasServer := len(gp.handlers) > 0
		for _, n := range names {
			hs := gp.handlers[n]
			key := fmt.Sprintf("%s/handler/%s", gp.rel, n)
			switch {
			case want[n] == nil:
				l.Bad(rule, key, hs[0].call.Pos(), "a handler is registered under a name that is no method of the service: no client stub sends under it")
			case len(hs) > 1:
				l.Bad(rule, key, hs[1].call.Pos(), "two handlers registered under one name: the later silently replaces the earlier")
			default:
				l.OK(rule, key, hs[0].call.Pos(), "registered under a descriptor method name")
			}
		}
		for full, m := range want {
			if hasServer && len(gp.handlers[full]) == 0 {
				l.Bad(rule, fmt.Sprintf("%s/handler/%s", gp.rel, full), gp.genFiles[0].Pos(), "service method without a registered handler: requests for it are silently dropped by the server")
			}
			// client stub
			key := fmt.Sprintf("%s/stub/%s", gp.rel, full)
			ss := gp.stubs[m.GoName]
			if len(ss) == 0 {
				if len(gp.stubs) == 0 {
					continue // server-only / types-only generated package
				}
				l.Bad(rule, key, gp.genFiles[0].Pos(), "service method without a client stub")
				continue
			}
			if len(ss) > 1 {
				l.Bad(rule, key, ss[1].decl.Pos(), "more than one client stub for a method")
				continue
			}
			lit := callDataField(ss[0].callData, "Method")
			bl, ok := lit.(*ast.BasicLit)
			if !ok || bl.Kind != token.STRING || strings.Trim(bl.Value, "\"") != full {
				l.Bad(rule, key, ss[0].decl.Pos(), fmt.Sprintf("the stub sends under %s but the method (and its server registration) is %q: the server has no handler for it", exprStr(lit), full))
				continue
			}
			l.OK(rule, key, ss[0].decl.Pos(), "stub sends under the registered name")
		}
	}
}

func callDataField(cl *ast.CompositeLit, name string) ast.Expr {
	for _, e := range cl.Elts {
		if kv, ok := e.(*ast.KeyValueExpr); ok {
			if id, ok := kv.Key.(*ast.Ident); ok && id.Name == name {
				return kv.Value
			}
		}
	}
	return nil
}

func exprStr(e ast.Expr) string {
	if e == nil {
		return "<missing>"
	}
	return types.ExprString(e)
}

// ---------------------------------------------------------------------------
// handler rules: H3, P4, B4/M5, S1, B2 (request assertion)

type handlerFacts struct {
	releaseDeferred  bool
	releaseBeforeImp bool
	implCalls        int
	sendMessages     []*ast.CallExpr
	reqAssertOK      bool
	finishedUsed     bool
}

func checkHandlers(l *core.Ledger, rules map[string]string) {
	gm := buildGenModel(l)
	anyRule := ""
	for _, r := range rules {
		anyRule = r
	}
	if !genFloor(l, gm, anyRule) {
		return
	}
	n := 0
	for _, gp := range gm.pkgs {
		info := gp.pkg.TypesInfo
		for _, s := range gp.proto.Services {
			for _, m := range s.Methods {
				hs := gp.handlers[m.FullName]
				if len(hs) != 1 {
					continue // B1's business
				}
				n++
				h := hs[0]
				key := fmt.Sprintf("%s/handler/%s", gp.rel, m.FullName)
				ps := paramObjs(info, h.lit.Type)
				if len(ps) != 3 {
					l.Bad(anyRule, key, h.lit.Pos(), "handler does not have the (ServerCtx, *Message, chan<- *Message) signature")
					continue
				}
				ctx, in, finished := ps[0], ps[1], ps[2]
				ct := callType(m)
				oneway := ct == "unicast" || ct == "multicast"
				stream := ct == "correctable" && m.ServerStreaming

				// top-level statements in order
				var deferIdx, implIdx = -1, -1
				var implCall *ast.CallExpr
				var implResults []types.Object
				for i, st := range h.lit.Body.List {
					if ds, ok := st.(*ast.DeferStmt); ok && selectorOn(info, ds.Call.Fun, ctx, "Release") && deferIdx < 0 {
						deferIdx = i
					}
					var ce *ast.CallExpr
					switch x := st.(type) {
					case *ast.ExprStmt:
						ce, _ = x.X.(*ast.CallExpr)
					case *ast.AssignStmt:
						if len(x.Rhs) == 1 {
							ce, _ = x.Rhs[0].(*ast.CallExpr)
						}
						if ce != nil && isImplCall(info, ce, m) {
							for _, lhs := range x.Lhs {
								implResults = append(implResults, objOf(info, lhs))
							}
						}
					}
					if ce != nil && isImplCall(info, ce, m) && implIdx < 0 {
						implIdx, implCall = i, ce
					}
				}
				// any other impl calls (nested)?
				implCount := 0
				ast.Inspect(h.lit.Body, func(nd ast.Node) bool {
					if ce, ok := nd.(*ast.CallExpr); ok && isImplCall(info, ce, m) {
						implCount++
					}
					return true
				})
				if r, ok := rules["H3"]; ok {
					// the wrapper releases exactly once, at its own end: any other Release in it (in the send
					// closure of a stream handler, before the implementation call) gives the connection
					// up at a point the implementation did not choose
					nRelease := 0
					var extraPos token.Pos
					ast.Inspect(h.lit.Body, func(nd ast.Node) bool {
						if ce, ok := nd.(*ast.CallExpr); ok && selectorOn(info, ce.Fun, ctx, "Release") {
							nRelease++
							if nRelease > 1 || deferIdx < 0 {
								extraPos = ce.Pos()
							}
						}
						return true
					})
					if deferIdx >= 0 && nRelease > 1 {
						l.Bad(r, key+"/releases-once", extraPos, fmt.Sprintf("the generated handler wrapper calls ctx.Release() at %d places besides its deferred one (e.g. inside the send function of a server-stream handler): the connection is released while the implementation is still running and has not asked for it - the next request's handler starts before the previous one returned or called Release", nRelease-1))
					} else {
						l.OK(r, key+"/releases-once", h.lit.Pos(), "the wrapper's only Release is the deferred one")
					}
					l.Check(deferIdx >= 0 && implIdx > deferIdx && implCount == 1, r, key, h.lit.Pos(), "defer ctx.Release() before the single call of the implementation",
						fmt.Sprintf("handler does not defer ctx.Release() before calling the implementation (defer at statement %d, implementation call at %d, %d implementation calls): a handler that returns (or panics) without releasing stalls every later request of its connection", deferIdx, implIdx, implCount))
				}
				// request assertion: in.Message.(*In) given to the implementation
				if r, ok := rules["B2"]; ok {
					okAssert := false
					ast.Inspect(h.lit.Body, func(nd ast.Node) bool {
						if x, t, ok := assertOf(info, asExpr(nd)); ok && selectorOn(info, x, in, "Message") && typeIsPtrTo(gp, t, m.In, "") {
							okAssert = true
						}
						return true
					})
					l.Check(okAssert, r, key+"/request-type", h.lit.Pos(), "asserts in.Message.(*"+m.In.GoName+")", "the handler does not assert the request to the method's input type *"+m.In.GoName+" (the codec allocates exactly that type: any other assertion panics the server)")
				}
				// SendMessage calls
				var sends []*ast.CallExpr
				ast.Inspect(h.lit.Body, func(nd ast.Node) bool {
					if ce, ok := nd.(*ast.CallExpr); ok && isGorumsFunc(resolvedCall(info, ce), "SendMessage") {
						sends = append(sends, ce)
					}
					return true
				})
				finishedUsed := false
				if finished != nil {
					ast.Inspect(h.lit.Body, func(nd ast.Node) bool {
						if id, ok := nd.(*ast.Ident); ok && info.Uses[id] == finished {
							finishedUsed = true
						}
						return true
					})
				}
				if oneway {
					if r, ok := rules["P4"]; ok {
						l.Check(len(sends) == 0 && !finishedUsed, r, key, h.lit.Pos(), "one-way handler sends nothing", "the handler of a one-way method uses its reply channel: a reply would reach the caller's confirmation wait as if it were a send confirmation")
					}
					continue
				}
				// two-way
				if r, ok := rules["B4"]; ok {
					c05HandlerReplies(l, r, rules["S1"], key, gp, m, h, info, ctx, in, finished, sends, implCall, implResults, stream)
				}
			}
		}
	}
	l.Floor(anyRule, n, 57, "registered handler closures")
}

func asExpr(n ast.Node) ast.Expr {
	if e, ok := n.(ast.Expr); ok {
		return e
	}
	return nil
}

func isImplCall(info *types.Info, ce *ast.CallExpr, m *gen.Method) bool {
	sel, ok := ce.Fun.(*ast.SelectorExpr)
	if !ok || sel.Sel.Name != m.GoName {
		return false
	}
	// receiver: a variable of interface type (the service implementation)
	t := info.TypeOf(sel.X)
	if t == nil {
		return false
	}
	_, isIface := t.Underlying().(*types.Interface)
	return isIface
}

// wrapArgs decomposes SendMessage(ctx, finished, WrapMessage(md, resp, err)).
func wrapArgs(info *types.Info, send *ast.CallExpr) (ctx, fin ast.Expr, md, resp, err ast.Expr, ok bool) {
	if len(send.Args) != 3 {
		return
	}
	w, isCall := send.Args[2].(*ast.CallExpr)
	if !isCall || !isGorumsFunc(resolvedCall(info, w), "WrapMessage") || len(w.Args) != 3 {
		return
	}
	return send.Args[0], send.Args[1], w.Args[0], w.Args[1], w.Args[2], true
}

func isNilExpr(info *types.Info, e ast.Expr) bool {
	id, ok := ast.Unparen(e).(*ast.Ident)
	if !ok {
		return false
	}
	_, isNil := info.Uses[id].(*types.Nil)
	return isNil
}

func c05HandlerReplies(l *core.Ledger, rule, ruleS1, key string, gp *genPkg, m *gen.Method, h *handler, info *types.Info,
	ctx, in, finished types.Object, sends []*ast.CallExpr, implCall *ast.CallExpr, implResults []types.Object, stream bool) {
	if implCall == nil {
		l.Bad(rule, key, h.lit.Pos(), "handler never calls the implementation")
		return
	}
	if !stream {
		okOne := len(sends) == 1
		okArgs := false
		if okOne {
			c, f, md, resp, err, ok := wrapArgs(info, sends[0])
			if ok && objOf(info, c) == ctx && objOf(info, f) == finished && selectorOn(info, md, in, "Metadata") &&
				len(implResults) == 2 && objOf(info, resp) == implResults[0] && objOf(info, err) == implResults[1] {
				okArgs = true
			}
			// the send is a top-level statement after the impl call (exactly once on every path)
			top := false
			for _, st := range h.lit.Body.List {
				if es, isES := st.(*ast.ExprStmt); isES && es.X == ast.Expr(sends[0]) {
					top = true
				}
			}
			okArgs = okArgs && top
		}
		l.Check(okOne && okArgs, rule, key+"/reply", h.lit.Pos(), "exactly one SendMessage(ctx, finished, WrapMessage(in.Metadata, resp, err)) with the implementation's results",
			fmt.Sprintf("unary handler reply discipline broken (%d SendMessage calls; echoes in.Metadata with the implementation's results on every path: %v): the call gets no reply, two replies, or a reply under another id", len(sends), okArgs))
		return
	}
	// stream handler: the send closure is the 3rd argument of the implementation call
	if len(implCall.Args) != 3 {
		l.Bad(rule, key+"/reply", h.lit.Pos(), "stream handler does not pass a send function to the implementation")
		return
	}
	sendFn, ok := implCall.Args[2].(*ast.FuncLit)
	if !ok {
		l.Bad(rule, key+"/reply", h.lit.Pos(), "stream handler's send function is not a closure defined here")
		return
	}
	var inner, outer []*ast.CallExpr
	for _, s := range sends {
		if s.Pos() >= sendFn.Pos() && s.End() <= sendFn.End() {
			inner = append(inner, s)
		} else {
			outer = append(outer, s)
		}
	}
	// inner: WrapMessage(<clone of in.Metadata>, resp, nil)
	okInner := len(inner) == 1
	cloned := false
	if okInner {
		_, _, md, resp, err, ok := wrapArgs(info, inner[0])
		okInner = ok && isNilExpr(info, err)
		if ok {
			// resp is the closure's parameter
			ps := paramObjs(info, sendFn.Type)
			okInner = okInner && len(ps) == 1 && objOf(info, resp) == ps[0]
			// md derives from proto.Clone(in.Metadata)
			cloned = derivesFromClone(info, sendFn, md, in)
		}
	}
	// outer: only under err != nil, WrapMessage(in.Metadata, nil, err)
	okOuter := len(outer) == 1
	if okOuter {
		_, _, md, resp, err, ok := wrapArgs(info, outer[0])
		okOuter = ok && selectorOn(info, md, in, "Metadata") && isNilExpr(info, resp) && len(implResults) == 1 && objOf(info, err) == implResults[0]
		// guarded by `if err != nil`
		guarded := false
		for _, st := range h.lit.Body.List {
			ifs, isIf := st.(*ast.IfStmt)
			if !isIf || ifs.Else != nil {
				continue
			}
			be, isBE := ifs.Cond.(*ast.BinaryExpr)
			if isBE && be.Op == token.NEQ && len(implResults) == 1 && objOf(info, be.X) == implResults[0] && isNilExpr(info, be.Y) &&
				outer[0].Pos() >= ifs.Body.Pos() && outer[0].End() <= ifs.Body.End() {
				guarded = true
			}
		}
		okOuter = okOuter && guarded
	}
	l.Check(okInner && okOuter, rule, key+"/reply", h.lit.Pos(), "stream handler: send closure wraps each response with nil error; a final message only on the error edge",
		fmt.Sprintf("stream handler reply discipline broken (send closure: %v, final error message only under err != nil: %v)", okInner, okOuter))
	if ruleS1 != "" {
		l.Check(cloned, ruleS1, key+"/metadata-clone", sendFn.Pos(), "each streamed reply carries a fresh proto.Clone of the request metadata",
			"a handler that can send more than once passes the request's own metadata to WrapMessage: WrapMessage writes its Status while the reply pump is still marshalling the previous reply - a data race")
	}
}

// derivesFromClone: md is `x.(*ordering.Metadata)` / x where x := proto.Clone(in.Metadata) inside fn.
func derivesFromClone(info *types.Info, fn *ast.FuncLit, md ast.Expr, in types.Object) bool {
	if x, _, ok := assertOf(info, md); ok {
		md = x
	}
	isClone := func(e ast.Expr) bool {
		ce, ok := ast.Unparen(e).(*ast.CallExpr)
		if !ok || len(ce.Args) != 1 {
			return false
		}
		f := resolvedCall(info, ce)
		return f != nil && f.Name() == "Clone" && f.Pkg() != nil && f.Pkg().Path() == "google.golang.org/protobuf/proto" && selectorOn(info, ce.Args[0], in, "Metadata")
	}
	if isClone(md) {
		return true
	}
	obj := objOf(info, md)
	if obj == nil {
		return false
	}
	ok := false
	ast.Inspect(fn.Body, func(n ast.Node) bool {
		as, isAs := n.(*ast.AssignStmt)
		if !isAs || len(as.Lhs) != 1 || len(as.Rhs) != 1 {
			return true
		}
		if objOf(info, as.Lhs[0]) == obj && isClone(as.Rhs[0]) {
			ok = true
		}
		return true
	})
	return ok
}

// ---------------------------------------------------------------------------
// stub rules: B2, B3, R7, P6

func checkStubs(l *core.Ledger, rules map[string]string) {
	gm := buildGenModel(l)
	anyRule := ""
	for _, r := range rules {
		anyRule = r
	}
	if !genFloor(l, gm, anyRule) {
		return
	}
	n := 0
	for _, gp := range gm.pkgs {
		info := gp.pkg.TypesInfo
		for _, s := range gp.proto.Services {
			for _, m := range s.Methods {
				ss := gp.stubs[m.GoName]
				if len(ss) != 1 {
					continue
				}
				st := ss[0]
				n++
				ct := callType(m)
				key := fmt.Sprintf("%s/stub/%s", gp.rel, m.FullName)
				custom := ""
				if m.CustomReturn != "" && (ct == "quorumcall" || ct == "async" || ct == "correctable" || ct == "rpc") {
					custom = m.CustomReturn
				}
				expect := map[string]struct{ recv, cd, entry string }{
					"quorumcall":  {"Configuration", "QuorumCallData", "QuorumCall"},
					"async":       {"Configuration", "QuorumCallData", "AsyncCall"},
					"correctable": {"Configuration", "CorrectableCallData", "CorrectableCall"},
					"multicast":   {"Configuration", "QuorumCallData", "Multicast"},
					"rpc":         {"Node", "CallData", "RPCCall"},
					"unicast":     {"Node", "CallData", "Unicast"},
				}[ct]
				// the raw entry point called
				var entryCall *ast.CallExpr
				entryName := ""
				ast.Inspect(st.decl.Body, func(nd ast.Node) bool {
					ce, ok := nd.(*ast.CallExpr)
					if !ok {
						return true
					}
					f := resolvedCall(info, ce)
					if f == nil || f.Pkg() == nil || f.Pkg().Path() != core.RootModule {
						return true
					}
					sig := f.Type().(*types.Signature)
					if sig.Recv() == nil {
						return true
					}
					if isGorumsNamed(sig.Recv().Type(), "RawConfiguration") || isGorumsNamed(sig.Recv().Type(), "RawNode") {
						if sig.Params().Len() >= 2 && isContextType(sig.Params().At(0).Type()) {
							entryCall, entryName = ce, f.Name()
						}
					}
					return true
				})
				if r, ok := rules["B3"]; ok {
					okB3 := st.recv == expect.recv && st.cdType == expect.cd && entryName == expect.entry
					detail := fmt.Sprintf("call type %s: receiver *%s (want *%s), call data %s (want %s), entry point %s (want %s)", ct, st.recv, expect.recv, st.cdType, expect.cd, entryName, expect.entry)
					// ServerStream literal
					if ct == "correctable" {
						v := callDataField(st.callData, "ServerStream")
						want := "false"
						if m.ServerStreaming {
							want = "true"
						}
						if exprStr(v) != want {
							okB3 = false
							detail += fmt.Sprintf("; ServerStream: %s (descriptor says %s)", exprStr(v), want)
						}
					}
					// PerNodeArgFn set iff per_node_arg
					setsPerNode := assignsField(info, st.decl.Body, "PerNodeArgFn") != nil
					if setsPerNode != (m.Has("per_node_arg") && ct != "rpc" && ct != "unicast") {
						okB3 = false
						detail += fmt.Sprintf("; PerNodeArgFn set: %v, per_node_arg option: %v", setsPerNode, m.Has("per_node_arg"))
					}
					// opts forwarded iff one-way
					fwd := entryCall != nil && entryCall.Ellipsis.IsValid()
					if fwd != (ct == "multicast" || ct == "unicast") {
						okB3 = false
						detail += fmt.Sprintf("; call options forwarded: %v", fwd)
					}
					// ctx and cd forwarded
					if entryCall != nil && len(entryCall.Args) >= 2 {
						ps := declParamObjs(info, st.decl)
						if len(ps) == 0 || objOf(info, entryCall.Args[0]) != ps[0] {
							okB3 = false
							detail += "; the caller's context is not forwarded"
						}
					}
					l.Check(okB3, r, key+"/call-type", st.decl.Pos(), "stub uses the declared call type: "+ct, "stub does not use the call type and options declared for the method: "+detail)
				}
				if r, ok := rules["B2"]; ok {
					// parameter `in`
					ps := declParamObjs(info, st.decl)
					okIn := len(ps) >= 2 && ps[1] != nil && typeIsPtrTo(gp, ps[1].Type(), m.In, "")
					// Message: in
					okMsg := len(ps) >= 2 && objOf(info, callDataField(st.callData, "Message")) == ps[1]
					l.Check(okIn && okMsg, r, key+"/request", st.decl.Pos(), "in *"+m.In.GoName+" sent as the call's message", fmt.Sprintf("request binding broken: parameter type *%s: %v; sent as Message: %v", m.In.GoName, okIn, okMsg))
					// result
					switch ct {
					case "quorumcall", "rpc":
						okRes := false
						res := st.decl.Type.Results
						if res != nil && len(res.List) >= 1 {
							okRes = typeIsPtrTo(gp, info.TypeOf(res.List[0].Type), m.Out, custom)
						}
						// success return: res.(*CustomOut) of the entry call's first result
						okRet := false
						var resObj types.Object
						ast.Inspect(st.decl.Body, func(nd ast.Node) bool {
							if as, isAs := nd.(*ast.AssignStmt); isAs && len(as.Rhs) == 1 && as.Rhs[0] == ast.Expr(entryCall) && len(as.Lhs) == 2 {
								resObj = objOf(info, as.Lhs[0])
							}
							return true
						})
						ast.Inspect(st.decl.Body, func(nd ast.Node) bool {
							rs, isRet := nd.(*ast.ReturnStmt)
							if !isRet || len(rs.Results) != 2 {
								return true
							}
							if x, t, ok := assertOf(info, rs.Results[0]); ok && resObj != nil && objOf(info, x) == resObj && typeIsPtrTo(gp, t, m.Out, custom) {
								okRet = true
							}
							return true
						})
						l.Check(okRes && okRet, r, key+"/result", st.decl.Pos(), "returns res.(*"+orStr(custom, m.Out.GoName)+") of the raw call", fmt.Sprintf("result binding broken: declared result type: %v; returns the raw call's result asserted to it: %v", okRes, okRet))
					case "async", "correctable":
						// returns &<Prefix><CustomOut>{raw}
						prefix := map[string]string{"async": "Async", "correctable": "Correctable"}[ct]
						if ct == "correctable" && m.ServerStreaming {
							prefix = "CorrectableStream"
						}
						wname := prefix + orStr(custom, m.Out.GoName)
						okRes := false
						res := st.decl.Type.Results
						if res != nil && len(res.List) == 1 {
							if p, isP := info.TypeOf(res.List[0].Type).(*types.Pointer); isP {
								if nt, isN := p.Elem().(*types.Named); isN && nt.Obj().Name() == wname {
									okRes = true
								}
							}
						}
						l.Check(okRes, r, key+"/result", st.decl.Pos(), "returns *"+wname, "promise type binding broken: expected *"+wname+" for "+ct+" with output "+orStr(custom, m.Out.GoName))
					}
				}
				// quorum function adapter
				if r, ok := rules["R7"]; ok && (ct == "quorumcall" || ct == "async" || ct == "correctable") {
					okQF, why := checkQFAdapter(info, gp, st, m)
					l.Check(okQF, r, key+"/quorum-function", st.decl.Pos(), "QuorumFunction = c.qspec."+m.GoName+"QF(req.(*In), {k: v.(*Out)})", "quorum-function adapter broken: "+why)
				}
				// per-node adapter
				if r, ok := rules["P6"]; ok && m.Has("per_node_arg") && ct != "rpc" && ct != "unicast" {
					okPN, why := checkPerNodeAdapter(info, gp, st, m)
					l.Check(okPN, r, key+"/per-node", st.decl.Pos(), "PerNodeArgFn = f(req.(*In), nid)", "per-node adapter broken: "+why)
				}
			}
		}
	}
	l.Floor(anyRule, n, 57, "client stubs")
}

func orStr(a, b string) string {
	if a != "" {
		return a
	}
	return b
}

func declParamObjs(info *types.Info, fd *ast.FuncDecl) []types.Object {
	return paramObjs(info, fd.Type)
}

// assignsField finds `x.<field> = <rhs>` in body and returns rhs.
func assignsField(info *types.Info, body *ast.BlockStmt, field string) ast.Expr {
	var out ast.Expr
	ast.Inspect(body, func(n ast.Node) bool {
		as, ok := n.(*ast.AssignStmt)
		if !ok || len(as.Lhs) != 1 || len(as.Rhs) != 1 {
			return true
		}
		if sel, ok := as.Lhs[0].(*ast.SelectorExpr); ok && sel.Sel.Name == field {
			out = as.Rhs[0]
		}
		return true
	})
	return out
}

func checkQFAdapter(info *types.Info, gp *genPkg, st *stub, m *gen.Method) (bool, string) {
	rhs := assignsField(info, st.decl.Body, "QuorumFunction")
	if rhs == nil {
		rhs = callDataField(st.callData, "QuorumFunction")
	}
	fl, ok := rhs.(*ast.FuncLit)
	if !ok {
		return false, "no QuorumFunction closure"
	}
	ps := paramObjs(info, fl.Type)
	if len(ps) != 2 {
		return false, "closure does not take (req, replies)"
	}
	req, replies := ps[0], ps[1]
	// the typed map
	var rObj types.Object
	okRange := false
	ast.Inspect(fl.Body, func(n ast.Node) bool {
		rs, ok := n.(*ast.RangeStmt)
		if !ok || objOf(info, rs.X) != replies {
			return true
		}
		k, v := objOf(info, rs.Key), objOf(info, rs.Value)
		if len(rs.Body.List) != 1 {
			return true
		}
		as, ok := rs.Body.List[0].(*ast.AssignStmt)
		if !ok || len(as.Lhs) != 1 || len(as.Rhs) != 1 {
			return true
		}
		ix, ok := as.Lhs[0].(*ast.IndexExpr)
		if !ok || objOf(info, ix.Index) != k {
			return true
		}
		x, t, ok := assertOf(info, as.Rhs[0])
		if !ok || objOf(info, x) != v || !typeIsPtrTo(gp, t, m.Out, "") {
			return true
		}
		rObj = objOf(info, ix.X)
		okRange = true
		return true
	})
	if !okRange {
		return false, "replies are not converted by one range as r[k] = v.(*" + m.Out.GoName + ")"
	}
	// return c.qspec.<M>QF(req.(*In), r)
	okRet := false
	nRet := 0
	ast.Inspect(fl.Body, func(n ast.Node) bool {
		rs, ok := n.(*ast.ReturnStmt)
		if !ok {
			return true
		}
		nRet++
		if len(rs.Results) != 1 {
			return true
		}
		ce, ok := rs.Results[0].(*ast.CallExpr)
		if !ok || len(ce.Args) != 2 {
			return true
		}
		sel, ok := ce.Fun.(*ast.SelectorExpr)
		if !ok || sel.Sel.Name != m.GoName+"QF" {
			return true
		}
		inner, ok := sel.X.(*ast.SelectorExpr)
		if !ok || inner.Sel.Name != "qspec" {
			return true
		}
		x, t, ok := assertOf(info, ce.Args[0])
		if !ok || objOf(info, x) != req || !typeIsPtrTo(gp, t, m.In, "") {
			return true
		}
		if objOf(info, ce.Args[1]) != rObj {
			return true
		}
		okRet = true
		return true
	})
	if !okRet || nRet != 1 {
		return false, "does not return exactly c.qspec." + m.GoName + "QF(req.(*" + m.In.GoName + "), r)"
	}
	return true, ""
}

func checkPerNodeAdapter(info *types.Info, gp *genPkg, st *stub, m *gen.Method) (bool, string) {
	rhs := assignsField(info, st.decl.Body, "PerNodeArgFn")
	fl, ok := rhs.(*ast.FuncLit)
	if !ok {
		return false, "no PerNodeArgFn closure"
	}
	ps := paramObjs(info, fl.Type)
	dp := declParamObjs(info, st.decl)
	if len(ps) != 2 || len(dp) < 3 {
		return false, "unexpected signature"
	}
	f := dp[2]
	ok = false
	ast.Inspect(fl.Body, func(n ast.Node) bool {
		rs, isRet := n.(*ast.ReturnStmt)
		if !isRet || len(rs.Results) != 1 {
			return true
		}
		ce, isCall := rs.Results[0].(*ast.CallExpr)
		if !isCall || len(ce.Args) != 2 || objOf(info, ce.Fun) != f {
			return true
		}
		x, t, isTA := assertOf(info, ce.Args[0])
		if isTA && objOf(info, x) == ps[0] && typeIsPtrTo(gp, t, m.In, "") && objOf(info, ce.Args[1]) == ps[1] {
			ok = true
		}
		return true
	})
	if !ok {
		return false, "closure does not return f(req.(*" + m.In.GoName + "), nid)"
	}
	// f's declared type: func(*In, uint32) *In
	sig, isSig := f.Type().(*types.Signature)
	if !isSig || sig.Params().Len() != 2 || sig.Results().Len() != 1 || !typeIsPtrTo(gp, sig.Params().At(0).Type(), m.In, "") || !typeIsPtrTo(gp, sig.Results().At(0).Type(), m.In, "") {
		return false, "per-node function parameter is not func(*" + m.In.GoName + ", uint32) *" + m.In.GoName
	}
	return true, ""
}

// ---------------------------------------------------------------------------
// B5 quorum spec

func checkQuorumSpec(l *core.Ledger, rule string) {
	gm := buildGenModel(l)
	if !genFloor(l, gm, rule) {
		return
	}
	n := 0
	for _, gp := range gm.pkgs {
		if gp.qspec == nil {
			if len(gp.stubs) > 0 && len(gp.genFiles) > 0 {
				// packages that generate client code always emit QuorumSpec (possibly empty)
				hasQ := false
				for _, s := range gp.proto.Services {
					for _, m := range s.Methods {
						ct := callType(m)
						if ct == "quorumcall" || ct == "async" || ct == "correctable" {
							hasQ = true
						}
					}
				}
				if hasQ {
					l.Bad(rule, gp.rel+"/QuorumSpec", gp.genFiles[0].Pos(), "no QuorumSpec interface although the service has methods with quorum functions")
				}
			}
			continue
		}
		info := gp.pkg.TypesInfo
		it, _ := info.TypeOf(gp.qspec).(*types.Interface)
		if it == nil {
			continue
		}
		want := map[string]*gen.Method{}
		for _, s := range gp.proto.Services {
			for _, m := range s.Methods {
				ct := callType(m)
				if ct == "quorumcall" || ct == "async" || ct == "correctable" {
					want[m.GoName+"QF"] = m
				}
			}
		}
		got := map[string]bool{}
		for i := 0; i < it.NumExplicitMethods(); i++ {
			f := it.ExplicitMethod(i)
			got[f.Name()] = true
			key := fmt.Sprintf("%s/QuorumSpec.%s", gp.rel, f.Name())
			m := want[f.Name()]
			n++
			if m == nil {
				l.Bad(rule, key, f.Pos(), "QuorumSpec declares a quorum function for which the service has no method with a quorum function")
				continue
			}
			sig := f.Type().(*types.Signature)
			ct := callType(m)
			custom := m.CustomReturn
			okSig := sig.Params().Len() == 2 && typeIsPtrTo(gp, sig.Params().At(0).Type(), m.In, "")
			if okSig {
				mp, isMap := sig.Params().At(1).Type().(*types.Map)
				okSig = isMap && typeIsPtrTo(gp, mp.Elem(), m.Out, "")
				if isMap {
					if b, isB := mp.Key().(*types.Basic); !isB || b.Kind() != types.Uint32 {
						okSig = false
					}
				}
			}
			wantRes := 2
			if ct == "correctable" {
				wantRes = 3
			}
			if okSig {
				okSig = sig.Results().Len() == wantRes && typeIsPtrTo(gp, sig.Results().At(0).Type(), m.Out, custom)
				if okSig {
					last, _ := sig.Results().At(wantRes - 1).Type().(*types.Basic)
					okSig = last != nil && last.Kind() == types.Bool
					if ct == "correctable" {
						lv, _ := sig.Results().At(1).Type().(*types.Basic)
						okSig = okSig && lv != nil && lv.Kind() == types.Int
					}
				}
			}
			l.Check(okSig, rule, key, f.Pos(), "signature matches the descriptor", "quorum function signature does not match the method: expected (in *"+m.In.GoName+", replies map[uint32]*"+m.Out.GoName+") (*"+orStr(custom, m.Out.GoName)+map[bool]string{true: ", int", false: ""}[ct == "correctable"]+", bool); got "+typeString(sig))
		}
		for name := range want {
			if !got[name] {
				l.Bad(rule, fmt.Sprintf("%s/QuorumSpec.%s", gp.rel, name), gp.qspecPos, "QuorumSpec lacks the quorum function "+name+" that the stub calls")
			}
		}
	}
	l.Floor(rule, n, 20, "QuorumSpec methods")
}

// ---------------------------------------------------------------------------
// K8 typed accessors

func checkAccessors(l *core.Ledger, rule string) {
	gm := buildGenModel(l)
	if !genFloor(l, gm, rule) {
		return
	}
	n := 0
	for _, gp := range gm.pkgs {
		info := gp.pkg.TypesInfo
		var names []string
		for k := range gp.wrappers {
			names = append(names, k)
		}
		sort.Strings(names)
		for _, name := range names {
			w := gp.wrappers[name]
			if w.get == nil {
				continue
			}
			n++
			key := fmt.Sprintf("%s/%s.Get", gp.rel, name)
			// the value asserted: first result of the embedded Get
			var respObj types.Object
			ast.Inspect(w.get.Body, func(nd ast.Node) bool {
				as, ok := nd.(*ast.AssignStmt)
				if !ok || len(as.Rhs) != 1 {
					return true
				}
				if ce, isCall := as.Rhs[0].(*ast.CallExpr); isCall {
					if f := resolvedCall(info, ce); f != nil && f.Name() == "Get" && f.Pkg() != nil && f.Pkg().Path() == core.RootModule && len(as.Lhs) >= 2 {
						respObj = objOf(info, as.Lhs[0])
					}
				}
				return true
			})
			bad := ""
			ast.Inspect(w.get.Body, func(nd ast.Node) bool {
				switch x := nd.(type) {
				case *ast.AssignStmt:
					// comma-ok form: v, ok := resp.(T)
					if len(x.Lhs) == 2 && len(x.Rhs) == 1 {
						if _, _, isTA := assertOf(info, x.Rhs[0]); isTA {
							return false
						}
					}
				case *ast.TypeAssertExpr:
					if x.Type == nil || objOf(info, x.X) != respObj {
						return true
					}
					// single-result assertion on the untyped reply
					if w.embed == "Async" {
						return true // blocking Get: on the err == nil edge the reply is the adapter's typed result (C01-R1)
					}
					if !nilGuarded(info, w.get.Body, x, respObj) {
						bad = "resp.(" + exprStr(x.Type) + ")"
					}
				}
				return true
			})
			l.Check(bad == "", rule, key, w.get.Pos(), "typed accessor cannot panic", "the typed accessor asserts "+bad+" on a reply that is the nil interface before the first publication (Correctable.Get does not block): Get panics instead of reporting LevelNotSet")
		}
	}
	l.Floor(rule, n, 13, "generated typed accessors (Async*/Correctable* Get)")
}

// nilGuarded: the assertion lies in the else/after part of `if resp == nil { return … }` or inside `if resp != nil {…}`.
func nilGuarded(info *types.Info, body *ast.BlockStmt, ta *ast.TypeAssertExpr, resp types.Object) bool {
	guarded := false
	for _, st := range body.List {
		ifs, ok := st.(*ast.IfStmt)
		if !ok {
			continue
		}
		be, ok := ifs.Cond.(*ast.BinaryExpr)
		if !ok || objOf(info, be.X) != resp || !isNilExpr(info, be.Y) {
			continue
		}
		if be.Op == token.EQL && ifs.End() < ta.Pos() && endsInReturn(ifs.Body) {
			guarded = true
		}
		if be.Op == token.NEQ && ta.Pos() >= ifs.Body.Pos() && ta.End() <= ifs.Body.End() {
			guarded = true
		}
	}
	return guarded
}

func endsInReturn(b *ast.BlockStmt) bool {
	if len(b.List) == 0 {
		return false
	}
	_, ok := b.List[len(b.List)-1].(*ast.ReturnStmt)
	return ok
}

// ---------------------------------------------------------------------------
// entry points used by the property files

func c01R7(l *core.Ledger)    { checkStubs(l, map[string]string{"R7": "C01-R7"}) }
func c03F6(l *core.Ledger)    { checkNameBinding(l, "C03-F6") }
func c04H3(l *core.Ledger)    { checkHandlers(l, map[string]string{"H3": "C04-H3"}) }
func c05M5gen(l *core.Ledger) { checkHandlers(l, map[string]string{"B4": "C05-M5"}) }
func c06P4(l *core.Ledger)    { checkHandlers(l, map[string]string{"P4": "C06-P4"}) }
func c06P6(l *core.Ledger)    { checkStubs(l, map[string]string{"P6": "C06-P6", "B3": "C06-P6"}) }
func c11K8(l *core.Ledger)    { checkAccessors(l, "C11-K8") }
func c15S1(l *core.Ledger)    { checkHandlers(l, map[string]string{"B4": "C15-S1b", "S1": "C15-S1"}) }
