package rules

import (
	"fmt"
	"go/ast"
	"go/token"
	"go/types"
	"path/filepath"
	"sort"
	"strconv"
	"strings"

	"golang.org/x/tools/go/packages"

	"verif/checker/internal/core"
	"verif/checker/internal/gen"
)

// genPkg is one Go package holding committed gorums-generated code.
type genPkg struct {
	pkg      *packages.Package
	proto    *gen.File
	genFiles []*ast.File
	rel      string
	stubs    map[string][]*stub // method GoName -> stubs
	handlers map[string][]*handler
	qspec    *ast.InterfaceType
	qspecPos token.Pos
	wrappers map[string]*wrapper // type name -> wrapper
}

type stub struct {
	decl     *ast.FuncDecl
	recv     string
	callData *ast.CompositeLit
	cdType   string // QuorumCallData, CorrectableCallData, CallData
	file     *ast.File
}

type handler struct {
	name string
	lit  *ast.FuncLit
	call *ast.CallExpr
	file *ast.File
}

type wrapper struct {
	name  string
	embed string // Async or Correctable
	elem  types.Type
	get   *ast.FuncDecl
	pos   token.Pos
}

type genModel struct {
	files    map[string]*gen.File
	ext      gen.Extensions
	pkgs     []*genPkg
	problems []string
	nGen     int
}

var genModelCache = map[*core.Program]*genModel{}

func isGorumsGenFile(l *core.Ledger, f *ast.File) bool {
	name := filepath.Base(l.Prog.Fset.File(f.Pos()).Name())
	return strings.HasSuffix(name, "_gorums.pb.go")
}

func buildGenModel(l *core.Ledger) *genModel {
	if m, ok := genModelCache[l.Prog]; ok {
		return m
	}
	m := &genModel{}
	genModelCache[l.Prog] = m
	m.files, m.problems = gen.DecodeAll(l.Prog.Pkgs)
	for _, f := range m.files {
		switch {
		case f.Pkg.PkgPath == core.RootModule && f.ProtoName == "gorums.proto":
			gen.LoadExtensions(f, &m.ext, "")
		}
	}
	if len(m.ext.ByNumber) == 0 {
		m.problems = append(m.problems, "gorums.proto descriptor (method-option extensions) not found in gorums.pb.go")
	}
	for _, pk := range l.Prog.Pkgs {
		var gfs []*ast.File
		for _, f := range pk.Syntax {
			if isGorumsGenFile(l, f) {
				gfs = append(gfs, f)
			}
		}
		if len(gfs) == 0 {
			continue
		}
		m.nGen += len(gfs)
		gp := &genPkg{pkg: pk, genFiles: gfs, stubs: map[string][]*stub{}, handlers: map[string][]*handler{}, wrappers: map[string]*wrapper{}}
		gp.rel = strings.TrimPrefix(strings.TrimPrefix(pk.PkgPath, core.RootModule), "/")
		for _, f := range gen.SortedFiles(m.files) {
			if f.Pkg == pk && len(f.Desc.Service) > 0 {
				gp.proto = f
			}
		}
		if gp.proto == nil {
			m.problems = append(m.problems, pk.PkgPath+": generated gorums code without a decodable service descriptor in the same package")
			continue
		}
		m.problems = append(m.problems, gen.BuildServices(m.files, gp.proto, &m.ext)...)
		extractGenerated(l, gp)
		m.pkgs = append(m.pkgs, gp)
	}
	sort.Slice(m.pkgs, func(i, j int) bool { return m.pkgs[i].rel < m.pkgs[j].rel })
	return m
}

func isGorumsNamed(t types.Type, name string) bool { return isNamed(t, core.RootModule, name) }

func extractGenerated(l *core.Ledger, gp *genPkg) {
	info := gp.pkg.TypesInfo
	for _, f := range gp.genFiles {
		f := f
		for _, d := range f.Decls {
			switch x := d.(type) {
			case *ast.FuncDecl:
				recv := core.RecvName(x)
				if x.Body == nil {
					continue
				}
				if recv == "Configuration" || recv == "Node" {
					var cd *ast.CompositeLit
					var cdType string
					ast.Inspect(x.Body, func(n ast.Node) bool {
						cl, ok := n.(*ast.CompositeLit)
						if !ok {
							return true
						}
						t := info.TypeOf(cl)
						for _, nm := range []string{"QuorumCallData", "CorrectableCallData", "CallData"} {
							if t != nil && isGorumsNamed(t, nm) {
								cd, cdType = cl, nm
							}
						}
						return true
					})
					if cd != nil {
						gp.stubs[x.Name.Name] = append(gp.stubs[x.Name.Name], &stub{decl: x, recv: recv, callData: cd, cdType: cdType, file: f})
					}
				}
				// wrapper Get methods
				if x.Name.Name == "Get" && recv != "" {
					if w, ok := gp.wrappers[recv]; ok {
						w.get = x
					} else {
						gp.wrappers[recv] = &wrapper{name: recv, get: x}
					}
				}
				// handler registrations
				ast.Inspect(x.Body, func(n ast.Node) bool {
					ce, ok := n.(*ast.CallExpr)
					if !ok {
						return true
					}
					sel, ok := ce.Fun.(*ast.SelectorExpr)
					if !ok || sel.Sel.Name != "RegisterHandler" || len(ce.Args) != 2 {
						return true
					}
					fn, _ := info.Uses[sel.Sel].(*types.Func)
					if fn == nil || fn.Pkg() == nil || fn.Pkg().Path() != core.RootModule {
						return true
					}
					bl, ok := ce.Args[0].(*ast.BasicLit)
					lit, ok2 := ce.Args[1].(*ast.FuncLit)
					if !ok || !ok2 || bl.Kind != token.STRING {
						return true
					}
					name, _ := strconv.Unquote(bl.Value)
					gp.handlers[name] = append(gp.handlers[name], &handler{name: name, lit: lit, call: ce, file: f})
					return true
				})
			case *ast.GenDecl:
				if x.Tok != token.TYPE {
					continue
				}
				for _, sp := range x.Specs {
					ts := sp.(*ast.TypeSpec)
					switch t := ts.Type.(type) {
					case *ast.InterfaceType:
						if ts.Name.Name == "QuorumSpec" {
							gp.qspec, gp.qspecPos = t, ts.Pos()
						}
					case *ast.StructType:
						if len(t.Fields.List) == 1 && len(t.Fields.List[0].Names) == 0 {
							ft := info.TypeOf(t.Fields.List[0].Type)
							for _, nm := range []string{"Async", "Correctable"} {
								if ft != nil && isGorumsNamed(ft, nm) {
									w := gp.wrappers[ts.Name.Name]
									if w == nil {
										w = &wrapper{name: ts.Name.Name}
										gp.wrappers[ts.Name.Name] = w
									}
									w.embed, w.pos = nm, ts.Pos()
								}
							}
						}
					}
				}
			}
		}
	}
	// drop Get methods of non-wrapper types
	for k, w := range gp.wrappers {
		if w.embed == "" {
			delete(gp.wrappers, k)
		}
	}
}

// callType classifies a method the way the generator does.
func callType(m *gen.Method) string {
	switch {
	case m.Has("unicast"):
		return "unicast"
	case m.Has("multicast"):
		return "multicast"
	case m.Has("correctable"):
		return "correctable"
	case m.HasAll("quorumcall", "async"):
		return "async"
	case m.Has("quorumcall"):
		return "quorumcall"
	}
	return "rpc"
}

// typeIs reports whether Go type t is *<TypeRef>.
func typeIsPtrTo(gp *genPkg, t types.Type, tr gen.TypeRef, customName string) bool {
	p, ok := t.(*types.Pointer)
	if !ok {
		return false
	}
	n, ok := p.Elem().(*types.Named)
	if !ok || n.Obj().Pkg() == nil {
		return false
	}
	want := tr.GoName
	if customName != "" {
		want = customName
	}
	if n.Obj().Name() != want {
		return false
	}
	if customName != "" {
		// a custom return type lives in the package of the output type
		if tr.SameFile {
			return n.Obj().Pkg() == gp.pkg.Types
		}
		return n.Obj().Pkg().Path() == tr.PkgPath
	}
	if tr.SameFile {
		return n.Obj().Pkg() == gp.pkg.Types
	}
	return n.Obj().Pkg().Path() == tr.PkgPath
}

func typeString(t types.Type) string {
	if t == nil {
		return "<nil>"
	}
	return types.TypeString(t, func(p *types.Package) string { return p.Name() })
}

func mkey(gp *genPkg, m *gen.Method) string {
	rel := gp.rel
	if rel == "" {
		rel = "gorums"
	}
	return fmt.Sprintf("%s.%s.%s", rel, m.Service.Name, m.Name)
}

// allMethods enumerates (package, method) pairs.
func (gm *genModel) allMethods(f func(gp *genPkg, m *gen.Method)) int {
	n := 0
	for _, gp := range gm.pkgs {
		for _, s := range gp.proto.Services {
			for _, m := range s.Methods {
				n++
				f(gp, m)
			}
		}
	}
	return n
}

// genFloor records the instance floors of the generated-code model.
func genFloor(l *core.Ledger, gm *genModel, rule string) bool {
	for _, p := range gm.problems {
		l.Unknown(rule, "gen-model", token.NoPos, p)
	}
	ok := l.Floor(rule, gm.nGen, 19, "committed *_gorums.pb.go files in the root module")
	nm := gm.allMethods(func(*genPkg, *gen.Method) {})
	ok = l.Floor(rule, nm, 57, "service methods decoded from embedded descriptors") && ok
	if _, done := l.Extra["generated_code_model"]; !done {
		var rows []string
		for _, gp := range gm.pkgs {
			nmeth := 0
			for _, s := range gp.proto.Services {
				nmeth += len(s.Methods)
			}
			nh := 0
			for _, hs := range gp.handlers {
				nh += len(hs)
			}
			ns := 0
			for _, ss := range gp.stubs {
				ns += len(ss)
			}
			rows = append(rows, fmt.Sprintf("%s: proto %s, %d gen files, %d methods, %d stubs, %d handlers, %d wrapper types, QuorumSpec: %v", gp.rel, gp.proto.ProtoName, len(gp.genFiles), nmeth, ns, nh, len(gp.wrappers), gp.qspec != nil))
		}
		l.Extra["generated_code_model"] = rows
	}
	return ok && len(gm.problems) == 0
}
