package rules

import (
	"fmt"
	"go/types"

	"golang.org/x/tools/go/ssa"

	"verif/checker/internal/core"
	"verif/checker/internal/sx"
)

// respSite is one place where a `response` value is produced for a caller:
// an argument of routeResponse or a send on a channel of response.
type respSite struct {
	fn     *ssa.Function
	at     ssa.Instruction
	val    ssa.Value
	kind   string // "literal", "zero", "forward", "other"
	alloc  *ssa.Alloc
	fields map[string]ssa.Value
	msgID  ssa.Value // routeResponse's id argument (nil for direct sends)
	key    string
}

// isRouteCall matches a call to the function that delivers a response to the
// router registered under an id: a method of *channel with parameters
// (uint64, response).
func isRouteCall(c *ssa.CallCommon) bool {
	f := c.StaticCallee()
	if f == nil || f.Signature.Recv() == nil || !isNamed(f.Signature.Recv().Type(), core.RootModule, "channel") {
		return false
	}
	p := f.Signature.Params()
	if p.Len() != 2 {
		return false
	}
	b, ok := p.At(0).Type().Underlying().(*types.Basic)
	return ok && b.Kind() == types.Uint64 && isNamed(p.At(1).Type(), core.RootModule, "response")
}

func responseSites(l *core.Ledger, r *rt) []*respSite {
	var out []*respSite
	count := map[string]int{}
	for _, f := range allFuncs(l.Prog, r.pkg) {
		f := f
		add := func(at ssa.Instruction, v, id ssa.Value) {
			base := fnKey(f)
			count[base]++
			key := base + "#resp" + string(rune('0'+count[base]))
			// a response variable that is assigned on some paths (spill slot of a
			// re-assigned parameter or local): one alternative per stored value
			if alts := spillStores(v); len(alts) > 1 {
				for i, st := range alts {
					s := &respSite{fn: f, at: at, val: st.Val, msgID: id, fields: map[string]ssa.Value{}}
					s.key = fmt.Sprintf("%s/alt%d", key, i)
					if lit, ok := inPlaceLiteral(st); ok && len(lit) > 0 {
						s.kind, s.fields = "literal", lit
					} else {
						classifyResponse(s)
					}
					out = append(out, s)
				}
				return
			}
			s := &respSite{fn: f, at: at, val: v, msgID: id, fields: map[string]ssa.Value{}}
			s.key = key
			classifyResponse(s)
			out = append(out, s)
		}
		sx.AllInstrs(f, func(_ sx.Node, in ssa.Instruction) {
			switch x := in.(type) {
			case *ssa.Send:
				if isResponseChan(x.Chan.Type()) {
					add(x, x.X, nil)
				}
			case *ssa.Select:
				for _, st := range x.States {
					if st.Dir == types.SendOnly && isResponseChan(st.Chan.Type()) {
						add(x, st.Send, nil)
					}
				}
			case *ssa.Call:
				if isRouteCall(&x.Call) {
					add(x, x.Call.Args[2], x.Call.Args[1])
				}
			case *ssa.Go:
				if isRouteCall(&x.Call) {
					add(x, x.Call.Args[2], x.Call.Args[1])
				}
			case *ssa.Defer:
				if isRouteCall(&x.Call) {
					add(x, x.Call.Args[2], x.Call.Args[1])
				}
			}
		})
	}
	return out
}

// spillStores: for v = *slot where slot is a local that is stored as a whole
// more than once, those stores.
func spillStores(v ssa.Value) []*ssa.Store {
	ld, ok := v.(*ssa.UnOp)
	if !ok {
		return nil
	}
	al, ok := ld.X.(*ssa.Alloc)
	if !ok {
		return nil
	}
	var out []*ssa.Store
	for _, ref := range *al.Referrers() {
		if st, ok := ref.(*ssa.Store); ok && st.Addr == ssa.Value(al) {
			out = append(out, st)
		}
	}
	return out
}

func spillAlternatives(v ssa.Value) []ssa.Value {
	var out []ssa.Value
	for _, st := range spillStores(v) {
		out = append(out, st.Val)
	}
	return out
}

func classifyResponse(s *respSite) {
	switch v := s.val.(type) {
	case *ssa.Const:
		s.kind = "zero"
		return
	case *ssa.Parameter:
		s.kind = "forward"
		return
	case *ssa.UnOp:
		if al, ok := v.X.(*ssa.Alloc); ok {
			s.alloc = al
			s.kind = "literal"
			whole := false
			for _, ref := range *al.Referrers() {
				switch u := ref.(type) {
				case *ssa.FieldAddr:
					fld := fieldOf(al.Type(), u.Field)
					for _, r2 := range *u.Referrers() {
						if st, ok := r2.(*ssa.Store); ok && st.Addr == u {
							if _, dup := s.fields[fld.Name()]; dup {
								s.kind = "other" // stored twice: not a plain literal
							}
							s.fields[fld.Name()] = st.Val
						}
					}
				case *ssa.Store:
					if u.Addr == al {
						whole = true
					}
				}
			}
			if whole {
				// a copy of another response value (e.g. a parameter spilled to a local)
				os := sx.Origins(s.val)
				if sx.All(os, func(o sx.Origin) bool { return o.Kind == sx.KParam }) {
					s.kind = "forward"
				} else {
					s.kind = "other"
				}
			}
			return
		}
	}
	if sx.All(sx.Origins(s.val), func(o sx.Origin) bool { return o.Kind == sx.KParam }) {
		s.kind = "forward"
		return
	}
	s.kind = "other"
}

// channelRecv reports whether v is the *channel receiver of the method that
// (lexically) encloses fn.
func channelRecv(fn *ssa.Function, v ssa.Value) bool {
	root := fn
	for root.Parent() != nil {
		root = root.Parent()
	}
	if root.Signature.Recv() == nil || len(root.Params) == 0 {
		return false
	}
	return sx.All(sx.Origins(v), sx.IsParam(root.Params[0])) && isNamed(root.Params[0].Type(), core.RootModule, "channel")
}

// nidIsOwnNode decides that v is (*RawNode).ID() of the `node` field of the
// enclosing method's *channel receiver.
func nidIsOwnNode(fn *ssa.Function, v ssa.Value) bool {
	return sx.All(sx.Origins(v), func(o sx.Origin) bool {
		c, ok := o.V.(*ssa.Call)
		if o.Kind != sx.KCall || !ok {
			return false
		}
		recv, ok := methodCallOn(&c.Call, core.RootModule, "RawNode", "ID")
		if !ok {
			return false
		}
		return sx.All(sx.Origins(recv), func(o2 sx.Origin) bool {
			if o2.Kind != sx.KField || o2.Field == nil || !isNamed(o2.Field.Type(), core.RootModule, "RawNode") {
				return false
			}
			root := fn
			for root.Parent() != nil {
				root = root.Parent()
			}
			return len(root.Params) > 0 && sx.All(o2.Base, sx.IsParam(root.Params[0])) && isNamed(root.Params[0].Type(), core.RootModule, "channel")
		})
	})
}

// checkResponseProvenance implements R6 / M7 / E2: every response handed to a
// caller names the node of the channel that produced it; only the stream
// reader attaches a message, taken from the message it just received and
// routed under that message's own id.
func checkResponseProvenance(l *core.Ledger, r *rt, rule string) {
	sites := responseSites(l, r)
	lits := 0
	for _, s := range sites {
		if s.kind == "literal" || s.kind == "zero" {
			lits++
		}
	}
	if !l.Floor(rule, lits, 6, "response literals handed to callers (enqueue, sender x2, receiver, cancelPendingMsgs, send confirmation)") {
		return
	}
	for _, s := range sites {
		pos := sx.PosOf(s.at)
		switch s.kind {
		case "forward":
			// routeResponse forwarding its parameter to the router
			l.OK(rule, s.key, pos, "forwards its response parameter unchanged")
		case "zero":
			// only the send confirmation: inside a deferred closure, guarded by waitForSend
			ok := s.fn.Parent() != nil && s.msgID != nil && confirmationExact(s.fn, s.at)
			l.Check(ok, rule, s.key, pos, "empty response only as send confirmation guarded by waitForSend", "an empty response (no node id, no error) is delivered outside the send-confirmation path: the call would count it as a successful reply from node 0")
		case "literal":
			nid, has := s.fields["nid"]
			if !has || !nidIsOwnNode(s.fn, nid) {
				d := "nid not set"
				if has {
					d = "nid = " + sx.OriginsString(sx.Origins(nid))
				}
				l.Bad(rule, s.key, pos, "response does not carry the id of the node whose channel produced it ("+d+")")
				continue
			}
			if msg, has := s.fields["msg"]; has {
				if !checkReceiverMsg(s, msg) {
					l.Bad(rule, s.key, pos, "a response carries a message that is not the one just read from this node's stream, or is routed under another id: msg = "+sx.OriginsString(sx.Origins(msg)))
					continue
				}
			}
			l.OK(rule, s.key, pos, "nid = c.node.ID()"+map[bool]string{true: "; msg = Message of the value just received, routed under its own MessageID", false: ""}[s.fields["msg"] != nil])
		default:
			l.Bad(rule, s.key, pos, "response value of unrecognised construction: "+sx.OriginsString(sx.Origins(s.val)))
		}
	}
}

// recvMsgCall finds the stream RecvMsg call (client side) in fn.
func recvMsgCalls(fn *ssa.Function) []*ssa.Call {
	var out []*ssa.Call
	sx.AllInstrs(fn, func(_ sx.Node, in ssa.Instruction) {
		if c, ok := in.(*ssa.Call); ok && c.Call.IsInvoke() && c.Call.Method.Name() == "RecvMsg" {
			out = append(out, c)
		}
	})
	return out
}

func checkReceiverMsg(s *respSite, msg ssa.Value) bool {
	recvs := recvMsgCalls(s.fn)
	if len(recvs) != 1 || s.msgID == nil {
		return false
	}
	rc := recvs[0]
	// the object passed to RecvMsg
	target := sx.Origins(rc.Call.Args[0])
	tgt, ok := sx.Single(target)
	if !ok || tgt.Kind != sx.KCall {
		return false
	}
	isTarget := func(o sx.Origin) bool { return o.Kind == sx.KCall && o.V == tgt.V }
	if !sx.All(sx.Origins(msg), sx.IsFieldNamed("Message", isTarget)) {
		return false
	}
	if !sx.All(sx.Origins(s.msgID), sx.IsFieldNamed("MessageID", sx.IsFieldNamed("Metadata", isTarget))) {
		return false
	}
	// RecvMsg must precede the delivery in the same iteration and the target
	// must be allocated per iteration (after the previous delivery)
	if !sx.InstrDominates(s.fn, rc, sx.NodeOf(s.at)) {
		return false
	}
	alloc, _ := tgt.V.(*ssa.Call)
	if alloc == nil {
		return false
	}
	// every path from the delivery back to RecvMsg re-allocates the message
	_, must := sx.MustPassThrough(sx.NodeOf(s.at), sx.IsInstr(alloc), sx.IsInstr(rc))
	return must
}
