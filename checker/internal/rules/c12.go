package rules

import (
	"fmt"
	"go/constant"
	"go/token"
	"go/types"
	"strings"

	"golang.org/x/tools/go/ssa"

	"verif/checker/internal/core"
	"verif/checker/internal/sx"
)

func init() {
	register("C12", Entry{
		Title: "Close stops everything and strands no caller",
		Run:   runC12,
		Meta: core.PropertyMeta{
			Explanation: "X1: Close's effects are inside closeOnce.Do; inside, every node of the pool is closed (unfiltered range); RawNode.close cancels the node context before closing the connection and handles a missing connection. X2: every client-side library goroutine (sender, receiver, sendMsg's watcher) observes the node context: every cycle of its loops passes a select with a case on parentCtx.Done() that leads to return, and every blocking operation it can execute is such a select, a stream operation on a stream whose context derives from parentCtx (C10-N2), transport-bounded, a short mutex hold, or bounded by such an operation. X3: a call issued at/after Close is answered by enqueue with an error (C07-E3 re-run for enqueue). X4: a request that enqueue managed to queue is consumed: the queue is unbuffered on every construction path, or the sender drains it before it returns. X5: on the Close path every call through a function-valued field and every method call on a pointer field that some manager option leaves unset is preceded by a nil test. X6: pending calls fail when the stream dies (C07-E4 re-run). X7: client connections are created at one site, under a lock that close() also takes, after a test of a 'closed' flag that close() sets under that lock - so no connection is created behind Close's back. X8: the stream reader returns only after failing every pending call (every path from a read to a return passes the fail-all routine). X9: a closed manager takes no new nodes: Close marks the manager closed under the pool lock before it reads the pool, and every insertion into the pool tests that mark in the insertion's critical section.",
			NotDecided:  "That gRPC tears connections down 'within bounded time'; goroutines of user handlers.",
			Trusted:     append([]string{"cancelling parentCtx cancels every stream context derived from it and makes stream operations return", "sync.Once"}, commonTrust...),
		},
	})
}

func runC12(l *core.Ledger) {
	r := runtimePkg(l)
	if r == nil {
		return
	}
	l.Rule("C12-X1", "Close = closeOnce.Do(closure that closes every pooled node); RawNode.close cancels before conn.Close and tests conn for nil")
	l.Rule("C12-X2", "sender, receiver and the sendMsg watcher: every loop cycle passes a select with a parentCtx.Done() case leading to return; every blocking operation is context-observing, a derived-stream operation, transport-bounded, a short lock, or bounded by such an operation")
	l.Rule("C12-X3", "enqueue answers with an error on the parentCtx.Done() case (C07-E3)")
	l.Rule("C12-X4", "the per-node request queue is unbuffered on every construction path, or the sender drains it before every return")
	l.Rule("C12-X5", "Close path: calls through function-valued struct fields and method calls on pointer fields are dominated by a nil test of that field")
	l.Rule("C12-X6", "a stream error fails every pending call (C07-E4 re-run)")
	l.Rule("C12-X7", "who-may-create client connections = one site; created under a lock shared with close(), after testing a closed flag that close() sets under that lock")

	c12X1(l, r)
	c12X2(l, r)
	l.With(map[string]string{"C07-E3": "C12-X3"}, func() { c07E3(l, r) })
	// the answer a call gets at/after Close names the node it stands for (a reply loop that
	// counts answered nodes by id never reaches exhaustion on anonymous answers)
	checkResponseProvenance(l, r, "C12-X3")
	// Close reaches every stream only if every stream's context hangs under the node context
	// that Close cancels, and nobody but node creation replaces that cancel function
	l.With(map[string]string{"C10-N2": "C12-X2"}, func() { c10N2(l, r) })
	c12X4(l, r)
	c12X5(l, r)
	l.Rule("C12-X8", "the stream reader returns only after failing every pending call: every path from a RecvMsg to a return of the reader passes the fail-all routine")
	l.With(map[string]string{"C07-E4": "C12-X6", "C12-X8": "C12-X8"}, func() { c07E4(l, r) })
	// the per-write watcher goroutine ends with the write (close(done) on every exit of
	// sendMsg), not only with the request's context - which may never end and is not
	// touched by Close
	l.With(map[string]string{"C08-B3": "C12-X2"}, func() { c08B3x(l, r, false) })
	c12X7(l, r)
	c12X9(l, r)
	l.Rule("C12-X11", "the goroutines Close has to stop cannot block each other (C09-W5 re-run: the lock order is acyclic and no lock is taken again while it is held) - a read lock taken a second time behind a waiting writer deadlocks the sender with the reader, and both outlive Close")
	l.With(map[string]string{"C09-W5": "C12-X11"}, func() { c09W5(l, r) })
	// X10: Close reaches a node through what the node carries when Close sees it: the cancel
	// function and the channel are set before the node enters the pool (C15's write-once-before-
	// publication rule for these two fields, re-run) - a node inserted first and connected afterwards
	// can be closed while it has nothing to cancel yet, and then starts goroutines nobody stops
	l.Rule("C12-X10", "a node is complete before Close can see it: RawNode.cancel and RawNode.channel are written only before the node is inserted into the pool (C15-O1 re-run for these fields)")
	l.With(map[string]string{"C15-O1": "C12-X10"}, func() {
		for _, row := range c15Table {
			if row.typ == "RawNode" && (row.field == "cancel" || row.field == "channel") && row.kind == "once" {
				c15Once(l, r, row, collectAccesses(l, r, row.typ, row.field), row.typ+"."+row.field)
			}
		}
	})
}

// c12X9: Close closes the nodes of a snapshot of the pool. A node that enters
// the pool after the snapshot is never closed - its goroutines and connection
// outlive every Close - unless insertion and Close agree on a flag: Close sets
// it under the pool lock before it reads the pool, the inserting function tests
// it in the critical section of the insertion.
func c12X9(l *core.Ledger, r *rt) {
	l.Rule("C12-X9", "a closed manager takes no new nodes: Close sets a closed flag of the manager under the pool lock before it reads the pool; every insertion into the pool is dominated by the not-closed edge of a test of that flag read in the same critical section")
	cl := r.fn("RawManager.Close")
	if cl == nil {
		l.Unknown("C12-X9", "anchor/Close", token.NoPos, "RawManager.Close not found")
		return
	}
	// functions on the Close path (static callees and closures, depth 4)
	var onClose []*ssa.Function
	seen := map[*ssa.Function]bool{}
	var walk func(f *ssa.Function, d int)
	walk = func(f *ssa.Function, d int) {
		if f == nil || seen[f] || d > 4 || !inRepo(f) || len(f.Blocks) == 0 {
			return
		}
		seen[f] = true
		onClose = append(onClose, f)
		for _, a := range f.AnonFuncs {
			walk(a, d+1)
		}
		sx.AllInstrs(f, func(_ sx.Node, in ssa.Instruction) {
			if cc := sx.CallOf(in); cc != nil {
				walk(cc.StaticCallee(), d+1)
			}
		})
	}
	walk(cl, 0)
	readsPool := func(f *ssa.Function) bool {
		found := false
		var w func(f *ssa.Function, d int)
		vis := map[*ssa.Function]bool{}
		w = func(f *ssa.Function, d int) {
			if f == nil || vis[f] || d > 3 || !inRepo(f) || len(f.Blocks) == 0 || found {
				return
			}
			vis[f] = true
			sx.AllInstrs(f, func(_ sx.Node, in ssa.Instruction) {
				if fa, ok := in.(*ssa.FieldAddr); ok && isNamed(fa.X.Type(), core.RootModule, "RawManager") {
					if n := fieldOf(fa.X.Type(), fa.Field).Name(); n == "nodes" || n == "lookup" {
						found = true
					}
				}
				if cc := sx.CallOf(in); cc != nil {
					w(cc.StaticCallee(), d+1)
				}
			})
		}
		w(f, 0)
		return found
	}
	var flag *types.Var
	var setAt *ssa.Store
	for _, f := range onClose {
		ls := sx.AnalyzeLocks(f)
		sx.AllInstrs(f, func(nd sx.Node, in ssa.Instruction) {
			st, ok := in.(*ssa.Store)
			if !ok {
				return
			}
			fa, ok := st.Addr.(*ssa.FieldAddr)
			if !ok || !isNamed(fa.X.Type(), core.RootModule, "RawManager") {
				return
			}
			if b, isB := constBool(st.Val); !isB || !b {
				return
			}
			if sx.Holds(ls.HeldAt(nd), "mu", true) {
				flag = fieldOf(fa.X.Type(), fa.Field)
				setAt = st
			}
		})
	}
	if flag == nil {
		l.Bad("C12-X9", "gorums.(RawManager).Close/marks-closed", cl.Pos(), "Close does not record under the pool lock that the manager is closed: a node added after Close - or while Close runs, after its snapshot of the pool - is connected, starts its goroutines and is never closed by any Close")
		return
	}
	// the mark precedes every read of the pool on the Close path
	sf := setAt.Parent()
	okOrder := true
	sx.AllInstrs(sf, func(nd sx.Node, in ssa.Instruction) {
		cc := sx.CallOf(in)
		if cc == nil || cc.StaticCallee() == nil || !readsPool(cc.StaticCallee()) {
			return
		}
		if !sx.InstrDominates(sf, setAt, nd) {
			okOrder = false
		}
	})
	l.Check(okOrder, "C12-X9", "gorums.(RawManager).Close/marks-closed", setAt.Pos(), "the manager is marked closed under mu before Close reads the pool", "Close reads the pool before it marks the manager closed: a node inserted between the snapshot and the mark is never closed")
	// insertions
	n := 0
	for _, f := range allFuncs(l.Prog, r.pkg) {
		f := f
		var ls *sx.LockState
		sx.AllInstrs(f, func(nd sx.Node, in ssa.Instruction) {
			mu, ok := in.(*ssa.MapUpdate)
			if !ok || !sx.All(sx.Origins(mu.Map), sx.IsFieldNamed("lookup", sx.AnyOrigin)) {
				return
			}
			n++
			if ls == nil {
				ls = sx.AnalyzeLocks(f)
			}
			key := fmt.Sprintf("%s/insert#%d", fnKey(f), n)
			ok2 := false
			sx.AllInstrs(f, func(in2 sx.Node, x ssa.Instruction) {
				ifi, isIf := x.(*ssa.If)
				if !isIf || ok2 {
					return
				}
				v, _ := condOf(ifi)
				ld, isLoad := v.(*ssa.UnOp)
				if !isLoad || !sx.All(sx.Origins(v), func(o sx.Origin) bool { return o.Kind == sx.KField && o.Field == flag }) {
					return
				}
				if !sx.Holds(ls.HeldAt(sx.NodeOf(ld)), "mu", false) || !sx.Holds(ls.HeldAt(nd), "mu", true) {
					return
				}
				// no release of the lock between the read of the flag and the insertion
				released := false
				isUnlock := func(x sx.Node) bool {
					c, isCall := x.Instr().(*ssa.Call)
					if !isCall {
						return false
					}
					op, isOp := sx.ClassifyLockOp(&c.Call)
					return isOp && !op.Acquire
				}
				sx.AllInstrs(f, func(u sx.Node, _ ssa.Instruction) {
					if !isUnlock(u) {
						return
					}
					_, a := sx.Reach(sx.NodeOf(ld), func(x sx.Node) bool { return x == u }, sx.Query{BlockNode: sx.IsInstr(mu)})
					_, b := sx.Reach(u, sx.IsInstr(mu), sx.Query{})
					if a && b {
						released = true
					}
				})
				if released {
					return
				}
				if _, reach := sx.Reach(sx.Node{B: edgeWhere(ifi, true).To, I: -1}, sx.IsInstr(mu), sx.Query{}); reach {
					return
				}
				if sx.EdgeDominates(f, edgeWhere(ifi, false), nd) {
					ok2 = true
				}
			})
			l.Check(ok2, "C12-X9", key, mu.Pos(), "insertion only on the not-closed edge of the flag read in the same hold of mu", "a node is inserted into the pool without testing, in the critical section of the insertion, the closed flag that Close sets: a node added behind Close's back is never closed")
		})
	}
	l.Floor("C12-X9", n, 1, "insertions into the node pool")
}

func c12X1(l *core.Ledger, r *rt) {
	cl := r.mustFn("C12-X1", "RawManager.Close")
	if cl == nil {
		return
	}
	// every effectful call of Close is once.Do
	var once *ssa.Call
	okOnly := true
	sx.AllInstrs(cl, func(_ sx.Node, in ssa.Instruction) {
		cc := sx.CallOf(in)
		if cc == nil {
			return
		}
		if calleeIs(cc, "sync.Once.Do") {
			if c, ok := in.(*ssa.Call); ok {
				once = c
			}
			return
		}
		if _, isB := cc.Value.(*ssa.Builtin); isB {
			return
		}
		okOnly = false
	})
	if once == nil || !okOnly {
		l.Bad("C12-X1", "gorums.(RawManager).Close", cl.Pos(), "Close does work outside closeOnce.Do: a second or concurrent Close closes nodes twice")
		return
	}
	mc, ok := once.Call.Args[1].(*ssa.MakeClosure)
	if !ok {
		l.Bad("C12-X1", "gorums.(RawManager).Close", once.Pos(), "closeOnce.Do is not given a closure defined here")
		return
	}
	body := mc.Fn.(*ssa.Function)
	// reachable: a range over the pool calling close() on every element
	var closer *ssa.Function
	walk := map[*ssa.Function]bool{}
	var find func(f *ssa.Function)
	find = func(f *ssa.Function) {
		if walk[f] {
			return
		}
		walk[f] = true
		sx.AllInstrs(f, func(_ sx.Node, in ssa.Instruction) {
			c, ok := in.(*ssa.Call)
			if !ok || c.Call.StaticCallee() == nil || !inRepo(c.Call.StaticCallee()) {
				return
			}
			callee := c.Call.StaticCallee()
			if callee.Name() == "close" && callee.Signature.Recv() != nil && isNamed(callee.Signature.Recv().Type(), core.RootModule, "RawNode") {
				closer = f
				return
			}
			find(callee)
		})
	}
	find(body)
	if closer == nil {
		l.Bad("C12-X1", "gorums.(RawManager).Close", cl.Pos(), "Close does not close the nodes")
		return
	}
	// in closer: the close() call is in a range loop over the pool, reached on every iteration
	var call *ssa.Call
	sx.AllInstrs(closer, func(_ sx.Node, in ssa.Instruction) {
		if c, ok := in.(*ssa.Call); ok && c.Call.StaticCallee() != nil && c.Call.StaticCallee().Name() == "close" {
			call = c
		}
	})
	okRange := false
	if call != nil && sx.InLoop(sx.NodeOf(call)) {
		// receiver is an element of the pool (m.nodes or m.Nodes())
		okElem := sx.All(sx.Origins(call.Call.Args[0]), func(o sx.Origin) bool {
			if o.Kind != sx.KElem {
				return false
			}
			return sx.All(o.Base, func(b sx.Origin) bool {
				if b.Kind == sx.KField && b.Field != nil && b.Field.Name() == "nodes" {
					return true
				}
				c, ok := b.V.(*ssa.Call)
				if b.Kind == sx.KCall && ok && c.Call.StaticCallee() != nil && strings.HasPrefix(sx.StaticCalleeName(&c.Call), "slices.Clone") && len(c.Call.Args) == 1 {
					// a snapshot of the pool: slices.Clone(m.nodes)
					return sx.All(sx.Origins(c.Call.Args[0]), func(x sx.Origin) bool {
						return x.Kind == sx.KField && x.Field != nil && x.Field.Name() == "nodes"
					})
				}
				return b.Kind == sx.KCall && ok && c.Call.StaticCallee() != nil && c.Call.StaticCallee().Name() == "Nodes"
			})
		})
		// unfiltered: from the loop body entry the call is passed on every path to the next iteration
		var head *ssa.BasicBlock
		for _, h := range sx.LoopHeads(closer) {
			if h.Dominates(call.Block()) {
				head = h
			}
		}
		unf := false
		if head != nil {
			for _, s := range head.Succs {
				if s == call.Block() || s.Dominates(call.Block()) {
					_, skip := sx.Reach(sx.Node{B: s, I: -1}, func(n sx.Node) bool { return n.B == head && n.I == 0 }, sx.Query{BlockNode: sx.IsInstr(call)})
					unf = !skip
				}
			}
		}
		okRange = okElem && unf
	}
	l.Check(okRange, "C12-X1", fnKey(closer)+"/close-all", closer.Pos(), "every pooled node is closed", "Close does not close every node of the pool (filtered or partial iteration): goroutines and connections of the remaining nodes survive")
	l.OK("C12-X1", "gorums.(RawManager).Close", cl.Pos(), "all effects inside closeOnce.Do")

	// RawNode.close
	if nc := r.mustFn("C12-X1", "RawNode.close"); nc != nil {
		var cancel, connClose ssa.Instruction
		sx.AllInstrs(nc, func(_ sx.Node, in ssa.Instruction) {
			c, ok := in.(*ssa.Call)
			if !ok {
				return
			}
			if c.Call.StaticCallee() == nil && !c.Call.IsInvoke() {
				if sx.All(sx.Origins(c.Call.Value), sx.IsFieldNamed("cancel", sx.IsParam(nc.Params[0]))) {
					cancel = c
				}
			}
			if op, isB := classifyBlocking(c); isB && op.kind == "conn-close" {
				connClose = c
			}
		})
		ok := cancel != nil && connClose != nil
		if ok {
			// cancel precedes conn.Close on every path that calls both; every path to conn.Close or return passes the cancel site or its nil-guard
			if _, reach := sx.Reach(sx.NodeOf(connClose), sx.IsInstr(cancel), sx.Query{}); reach {
				ok = false
			}
			if _, before := sx.Reach(sx.Entry(nc), sx.IsInstr(connClose), sx.Query{BlockNode: sx.IsInstr(cancel), BlockEdge: func(e sx.Edge) bool {
				// allow skipping cancel only through its own nil test
				return false
			}}); before {
				// reachable without cancel: only acceptable via the nil-edge of a test on n.cancel
				isSlot := sx.IsFieldNamed("cancel", sx.IsParam(nc.Params[0]))
				var nilEdges []sx.Edge
				sx.AllInstrs(nc, func(_ sx.Node, in ssa.Instruction) {
					if ifi, isIf := in.(*ssa.If); isIf && isErrNonNil(ifi, isSlot) != 0 {
						nilEdges = append(nilEdges, errEdge(ifi, isSlot, false))
					}
				})
				if _, still := sx.Reach(sx.Entry(nc), sx.IsInstr(connClose), sx.Query{BlockNode: sx.IsInstr(cancel), BlockEdge: func(e sx.Edge) bool { return edgeIn(e, nilEdges) }}); still {
					ok = false
				}
			}
		}
		l.Check(ok, "C12-X1", "gorums.(RawNode).close", nc.Pos(), "cancels the node context, then closes the connection", "RawNode.close does not cancel the node context before closing the connection on every path: goroutines keep using a closing connection / are never told to stop")
	}
}

// parentCtxDone matches X.Done() where X is loaded from a field named parentCtx.
func isParentCtx(v ssa.Value) bool {
	return sx.All(sx.Origins(v), func(o sx.Origin) bool { return o.Kind == sx.KField && o.Field != nil && o.Field.Name() == "parentCtx" })
}

func c12X2(l *core.Ledger, r *rt) {
	roots := goRoots(l, r)
	n := 0
	for _, rt := range roots {
		if rt.site == nil {
			continue
		}
		// client-side roots: methods/closures of *channel
		root := rt.fn
		top := root
		for top.Parent() != nil {
			top = top.Parent()
		}
		if top.Signature.Recv() == nil || !isNamed(top.Signature.Recv().Type(), core.RootModule, "channel") {
			continue
		}
		n++
		key := fnKey(root)
		// (a) loops: in the root and every repo function it calls
		fns := map[*ssa.Function]bool{}
		var collect func(f *ssa.Function)
		collect = func(f *ssa.Function) {
			if fns[f] {
				return
			}
			fns[f] = true
			sx.AllInstrs(f, func(_ sx.Node, in ssa.Instruction) {
				var cc *ssa.CallCommon
				switch x := in.(type) {
				case *ssa.Call:
					cc = &x.Call
				case *ssa.Defer:
					cc = &x.Call
				}
				if cc == nil {
					return
				}
				callee := cc.StaticCallee()
				if callee == nil {
					if mc, ok := cc.Value.(*ssa.MakeClosure); ok {
						callee = mc.Fn.(*ssa.Function)
					}
				}
				if callee != nil && inRepo(callee) {
					collect(callee)
				}
			})
		}
		collect(root)
		for f := range fns {
			for _, h := range sx.LoopHeads(f) {
				// bounded loops (range over a finite collection, counted) are fine: only consider loops that contain a blocking operation or are infinite
				hn := sx.Node{B: h, I: 0}
				observesBase := func(nd sx.Node) bool { return false }
				_ = observesBase
				observes := func(nd sx.Node) bool {
					// a non-blocking drain of the request queue: every cycle takes one request out, the
					// default case leaves the loop; it ends when the queue is empty
					if s2, isSel := nd.Instr().(*ssa.Select); isSel && !s2.Blocking {
						for _, st := range s2.States {
							if st.Dir == types.RecvOnly && isRequestChan(st.Chan.Type()) {
								return true
							}
						}
					}
					s, ok := nd.Instr().(*ssa.Select)
					if !ok {
						return false
					}
					for i, st := range s.States {
						if st.Dir != types.RecvOnly {
							continue
						}
						if cv, isDone := isDoneOf(st.Chan); isDone && isParentCtx(cv) {
							// the case must lead out of the loop: this select is not reached again from it
							// (directly by return, or through the loop condition with a flag the case sets)
							if e, found := selectCaseEdge(s, i); found {
								if _, back := sx.Reach(sx.Node{B: e.To, I: -1}, func(x sx.Node) bool { return x == nd }, sx.Query{}); !back {
									return true
								}
							}
						}
					}
					return false
				}
				hasBlocking := false
				infinite := true
				sx.AllInstrs(f, func(nd sx.Node, in ssa.Instruction) {
					if !h.Dominates(nd.B) {
						return
					}
					if _, inl := sx.Reach(nd, func(x sx.Node) bool { return x == hn }, sx.Query{}); !inl {
						return
					}
					if _, ok := classifyBlocking(in); ok {
						hasBlocking = true
					}
				})
				// a range/counted loop: the head itself branches out on an index comparison
				if ifi, ok := h.Instrs[len(h.Instrs)-1].(*ssa.If); ok {
					if b, ok := ifi.Cond.(*ssa.BinOp); ok && (b.Op == token.LSS || b.Op == token.GTR) {
						infinite = false
					}
					if e, ok := ifi.Cond.(*ssa.Extract); ok {
						if _, isNext := e.Tuple.(*ssa.Next); isNext {
							infinite = false
						}
					}
				}
				if !infinite && !hasBlocking {
					continue
				}
				if !infinite {
					continue // bounded loop; its blocking operations are judged individually below
				}
				if _, cyc := sx.Reach(hn, func(x sx.Node) bool { return x == hn }, sx.Query{BlockNode: observes}); cyc {
					l.Bad("C12-X2", fmt.Sprintf("%s/loop@%s", key, fnKey(f)), sx.PosOf(h.Instrs[0]), "a cycle of this loop does not pass a select with a parentCtx.Done() case that leads to return: the goroutine outlives Close")
				} else {
					l.OK("C12-X2", fmt.Sprintf("%s/loop@%s", key, fnKey(f)), sx.PosOf(h.Instrs[0]), "every cycle observes parentCtx.Done()")
				}
			}
		}
		// (b) blocking operations
		seen := map[string]bool{}
		walkBlocking(root, func(op blockOp) {
			k := fmt.Sprintf("%s/%s:%s", key, fnKey(op.fn), op.kind)
			if seen[k] {
				return
			}
			seen[k] = true
			pos := sx.PosOf(op.at)
			switch op.kind {
			case "select":
				okCtx := false
				bounded := false
				for _, st := range op.sel.States {
					if st.Dir != types.RecvOnly {
						continue
					}
					if cv, isDone := isDoneOf(st.Chan); isDone && isParentCtx(cv) {
						okCtx = true
					}
					// a `done` channel made in the parent and closed after the stream write
					if sx.Any(sx.Origins(st.Chan), func(o sx.Origin) bool { return o.Kind == sx.KMake }) {
						bounded = true
					}
				}
				if okCtx {
					l.OK("C12-X2", k, pos, "select with a parentCtx.Done() case")
				} else if bounded && op.fn.Parent() != nil {
					l.OK("C12-X2", k, pos, "bounded by the done channel closed after the derived-stream write returns (C08-B3)")
				} else {
					l.Bad("C12-X2", k, pos, "blocking select without a parentCtx.Done() case ("+selectCasesDesc(op.sel)+"): not released by Close")
				}
			case "stream-send", "stream-recv":
				l.OK("C12-X2", k, pos, "operation on a stream whose context derives from parentCtx (C10-N2)")
			case "stream-create", "dial", "conn-close":
				l.OK("C12-X2", k, pos, "transport-bounded")
			case "lock":
				if _, ok := shortLocks[op.lock]; ok || op.lock == "connMu" {
					l.OK("C12-X2", k, pos, "short critical section")
				} else if op.lock == "streamMut" {
					l.OK("C12-X2", k, pos, "streamMut: holders are in derived-stream operations or stream creation (C09-W1)")
				} else {
					l.Bad("C12-X2", k, pos, "acquires "+op.lock+" whose holders are not known to be bounded")
				}
			case "deliver":
				l.OK("C12-X2", k, pos, "delivery to a streaming router: waits only while the receiving call is still running; that call takes replies in a loop and closes the router's done channel on every exit (C09-W3, C11-K5)")
			case "send":
				if isResponseChan(op.chanT) {
					l.OK("C12-X2", k, pos, "reply send (capacity rule C05-M6 / C09-W3)")
				} else {
					l.Bad("C12-X2", k, pos, "bare channel send in a library goroutine")
				}
			default:
				l.Bad("C12-X2", k, pos, op.desc+" in a library goroutine is not released by Close")
			}
		})
	}
	l.Floor("C12-X2", n, 3, "client-side library goroutine roots (sender, receiver, sendMsg watcher)")
}

func c12X4(l *core.Ledger, r *rt) {
	n := 0
	for _, f := range allFuncs(l.Prog, r.pkg) {
		sx.AllInstrs(f, func(_ sx.Node, in ssa.Instruction) {
			mc, ok := in.(*ssa.MakeChan)
			if !ok || !isRequestChan(mc.Type()) {
				return
			}
			n++
			key := fnKey(f) + "/sendQ"
			if c, isC := mc.Size.(*ssa.Const); isC && c.Value != nil && constant.Sign(c.Value) == 0 {
				l.OK("C12-X4", key, mc.Pos(), "unbuffered: a queued request has been taken by the sender")
				return
			}
			// buffered: the sender must drain before every return
			sfn, _, _ := findSenderFn(l, r)
			drains := false
			if sfn != nil {
				isDrain := func(nd sx.Node) bool {
					s, ok := nd.Instr().(*ssa.Select)
					if !ok || s.Blocking {
						return false
					}
					for _, st := range s.States {
						if st.Dir == types.RecvOnly && isRequestChan(st.Chan.Type()) {
							return true
						}
					}
					return false
				}
				_, must := sx.MustPassThrough(sx.Entry(sfn), isDrain, sx.IsReturn)
				drains = must
			}
			// and nothing gets into the queue behind the drain unanswered: after a successful hand-off
			// enqueue looks at the node context again (the request got in after the last drain exactly
			// when the context was already done at that point)
			recheck := false
			if eq := findEnqueueFn(l, r); eq != nil {
				var qEdges []sx.Edge
				sx.AllInstrs(eq, func(_ sx.Node, in ssa.Instruction) {
					if s, isSel := in.(*ssa.Select); isSel {
						for i, st := range s.States {
							if st.Dir == types.SendOnly && isRequestChan(st.Chan.Type()) {
								if e, found := selectCaseEdge(s, i); found {
									qEdges = append(qEdges, e)
								}
							}
						}
					}
				})
				looksAtNodeCtx := func(nd sx.Node) bool {
					c, isCall := nd.Instr().(*ssa.Call)
					if !isCall || !c.Call.IsInvoke() {
						return false
					}
					if nm := c.Call.Method.Name(); nm != "Err" && nm != "Done" {
						return false
					}
					return sx.All(sx.Origins(c.Call.Value), func(o sx.Origin) bool {
						return o.Kind == sx.KField && o.Field != nil && o.Field.Name() == "parentCtx"
					})
				}
				recheck = len(qEdges) > 0
				for _, e := range qEdges {
					if _, must := sx.MustPassThrough(sx.Node{B: e.To, I: -1}, looksAtNodeCtx, sx.IsReturn); !must {
						recheck = false
					}
				}
			}
			if drains && !recheck {
				l.Bad("C12-X4", key, mc.Pos(), "the per-node request queue can be buffered and the sender drains it before it returns, but enqueue does not look at the node context again after a successful hand-off: a request that gets into the buffer after the sender's last drain (enqueue's select may pick the buffer over the closed context) is never answered")
				return
			}
			l.Check(drains, "C12-X4", key, mc.Pos(), "buffered, but the sender drains the queue before returning and enqueue re-checks the node context after a hand-off",
				"the per-node request queue can be buffered ("+sx.OriginsString(sx.Origins(mc.Size))+", WithSendBufferSize) and the sender returns on parentCtx.Done() without draining it, while enqueue's select may pick the buffer over the closed context: a request queued at/after Close is never consumed — a QuorumCall with a background context, or any send-waiting one-way call, never returns")
		})
	}
	l.Floor("C12-X4", n, 1, "request queue constructions")
}

func c12X5(l *core.Ledger, r *rt) {
	cl := r.fn("RawManager.Close")
	if cl == nil {
		return
	}
	// functions reachable from Close on its own goroutine
	fns := map[*ssa.Function]bool{}
	var collect func(f *ssa.Function)
	collect = func(f *ssa.Function) {
		if fns[f] {
			return
		}
		fns[f] = true
		sx.AllInstrs(f, func(_ sx.Node, in ssa.Instruction) {
			cc := sx.CallOf(in)
			if cc == nil {
				return
			}
			if _, isGo := in.(*ssa.Go); isGo {
				return
			}
			callee := cc.StaticCallee()
			if callee != nil && inRepo(callee) {
				collect(callee)
			}
			for _, a := range cc.Args {
				if mc, ok := a.(*ssa.MakeClosure); ok {
					collect(mc.Fn.(*ssa.Function))
				}
			}
		})
	}
	collect(cl)
	n := 0
	for f := range fns {
		sx.AllInstrs(f, func(nd sx.Node, in ssa.Instruction) {
			c, ok := in.(*ssa.Call)
			if !ok {
				return
			}
			var slot func(sx.Origin) bool
			var what string
			if !c.Call.IsInvoke() && c.Call.StaticCallee() == nil {
				if _, isB := c.Call.Value.(*ssa.Builtin); isB {
					return
				}
				if _, isMC := c.Call.Value.(*ssa.MakeClosure); isMC {
					return
				}
				// call through a value: only struct fields of nodes/managers matter
				os := sx.Origins(c.Call.Value)
				if !sx.All(os, func(o sx.Origin) bool { return o.Kind == sx.KField && o.Field != nil }) {
					return
				}
				name := os[0].Field.Name()
				slot = func(o sx.Origin) bool { return o.Kind == sx.KField && o.Field != nil && o.Field.Name() == name }
				what = "call through field " + name
				val := c.Call.Value
				_ = val
			} else if f2 := c.Call.StaticCallee(); f2 != nil && f2.Signature.Recv() != nil && !inRepo(f2) && len(c.Call.Args) > 0 {
				// method of an external pointer type on a field (n.conn.Close(), m.logger.Printf)
				os := sx.Origins(c.Call.Args[0])
				if _, isPtr := c.Call.Args[0].Type().Underlying().(*types.Pointer); !isPtr {
					return
				}
				if !sx.All(os, func(o sx.Origin) bool { return o.Kind == sx.KField && o.Field != nil }) {
					return
				}
				// mutexes and Once are value fields (addresses), never nil
				if strings.HasPrefix(sx.StaticCalleeName(&c.Call), "sync.") {
					return
				}
				name := os[0].Field.Name()
				slot = func(o sx.Origin) bool { return o.Kind == sx.KField && o.Field != nil && o.Field.Name() == name }
				what = "method call on field " + name
			} else {
				return
			}
			n++
			var nonNil []sx.Edge
			sx.AllInstrs(f, func(_ sx.Node, in2 ssa.Instruction) {
				if ifi, isIf := in2.(*ssa.If); isIf && isErrNonNil(ifi, slot) != 0 {
					nonNil = append(nonNil, errEdge(ifi, slot, true))
				}
			})
			key := fmt.Sprintf("%s/%s", fnKey(f), strings.ReplaceAll(what, " ", "-"))
			l.Check(edgesDominate(f, nonNil, nd), "C12-X5", key, c.Pos(), what+" guarded by a nil test", what+" on the Close path without a nil test: a manager option (WithNoConnect, no logger) leaves it unset and Close panics")
		})
	}
	l.Floor("C12-X5", n, 3, "nil-able field uses on the Close path")
}

func c12X7(l *core.Ledger, r *rt) {
	var dials []*ssa.Call
	for _, f := range allFuncs(l.Prog, r.pkg) {
		if strings.HasSuffix(l.Prog.RelFile(f.Pos()), "testing_gorums.go") {
			continue
		}
		sx.AllInstrs(f, func(_ sx.Node, in ssa.Instruction) {
			if c, ok := in.(*ssa.Call); ok {
				if op, isB := classifyBlocking(c); isB && op.kind == "dial" {
					dials = append(dials, c)
				}
			}
		})
	}
	if len(dials) != 1 {
		l.Bad("C12-X7", "who-may-create/ClientConn", token.NoPos, fmt.Sprintf("%d connection creation sites; exactly one is required", len(dials)))
		return
	}
	d := dials[0]
	df := d.Parent()
	key := fnKey(df)
	nc := r.fn("RawNode.close")
	if nc == nil {
		l.Unknown("C12-X7", "anchor/close", token.NoPos, "RawNode.close not found")
		return
	}
	// runs on a library goroutine?
	onRoot := false
	for _, rt := range goRoots(l, r) {
		if rt.site != nil && len(callPaths(rt.fn, df)) > 0 {
			onRoot = true
		}
	}
	if !onRoot {
		l.OK("C12-X7", key, d.Pos(), "connections are only created on the caller's goroutine before the node is published")
		return
	}
	dl := sx.AnalyzeLocks(df)
	heldDial := dl.HeldAt(sx.NodeOf(d))
	cls := sx.AnalyzeLocks(nc)
	// flag written true in close under a lock that is also held at the dial
	var flag *types.Var
	var shared string
	sx.AllInstrs(nc, func(nd sx.Node, in ssa.Instruction) {
		st, ok := in.(*ssa.Store)
		if !ok {
			return
		}
		fa, ok := st.Addr.(*ssa.FieldAddr)
		if !ok {
			return
		}
		if b, isB := constBool(st.Val); !isB || !b {
			return
		}
		for _, h := range cls.HeldAt(nd) {
			if sx.Holds(heldDial, h.Field, true) && !h.Read {
				flag = fieldOf(fa.X.Type(), fa.Field)
				shared = h.Field
			}
		}
	})
	if flag == nil {
		l.Bad("C12-X7", key, d.Pos(), "a connection is created on a library goroutine (re-dial per request while the node was never connected) without synchronisation with close(): a Close that strikes during the re-dial returns while a fresh ClientConn is about to be stored and is never closed (held at dial: "+sx.HeldString(heldDial)+")")
		return
	}
	// in dial: a test of that flag dominates the dial, and its true edge cannot reach the dial
	ok := false
	sx.AllInstrs(df, func(nd sx.Node, in ssa.Instruction) {
		ifi, isIf := in.(*ssa.If)
		if !isIf {
			return
		}
		v, _ := condOf(ifi)
		if !sx.All(sx.Origins(v), func(o sx.Origin) bool { return o.Kind == sx.KField && o.Field == flag }) {
			return
		}
		if !sx.Holds(dl.HeldAt(nd), shared, true) {
			return
		}
		te := edgeWhere(ifi, true)
		if _, reach := sx.Reach(sx.Node{B: te.To, I: -1}, sx.IsInstr(d), sx.Query{}); reach {
			return
		}
		if sx.EdgeDominates(df, edgeWhere(ifi, false), sx.NodeOf(d)) {
			ok = true
		}
	})
	l.Check(ok, "C12-X7", key, d.Pos(), "dial under "+shared+" after testing the closed flag set by close() under the same lock", "the connection is created under "+shared+" but without re-checking the closed flag that close() sets: a dial that starts after Close still creates a connection nobody closes")
}
