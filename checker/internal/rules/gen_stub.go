package rules

import "verif/checker/internal/core"

func c01R7(l *core.Ledger) {}

func c11K8(l *core.Ledger) {}
func c05M5gen(l *core.Ledger) {}
func c03F6(l *core.Ledger)  {}
func c04H3(l *core.Ledger)  {}
func c06P4(l *core.Ledger)  {}
func c06P6(l *core.Ledger)  {}
func c15S1(l *core.Ledger)  {}
