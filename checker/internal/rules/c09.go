package rules

import (
	"fmt"
	"go/token"
	"sort"
	"strings"

	"golang.org/x/tools/go/ssa"

	"verif/checker/internal/core"
	"verif/checker/internal/sx"
)

func init() {
	register("C09", Entry{
		Title: "Finished or abandoned calls never disable a node",
		Run:   runC09,
		Meta: core.PropertyMeta{
			Explanation: "Decides the absence of the structural ingredients of a permanent wedge. W1: for every client-side mutex, every blocking operation executed while it is held (directly, in callees or in deferred calls; lock-state dataflow + interprocedural blocking classifier) is either absent, or (responseMut) a reply-channel send whose channel provably cannot be full (W3), or (streamMut read hold) a stream operation such that every write-lock request from another goroutine root is control-dependent on an error of a stream operation (so the held operation is about to fail too), or (streamMut write hold) stream creation, which is what the lock serialises. W2: reconnect re-checks 'stream already up' under the write lock before creating a stream. W3: reply-channel capacity covers the number of deliveries; a channel that can be registered as streaming has no such bound, so delivery to it must not be a plain blocking send under the lock. W4: a server-stream correctable registers a deferred router deletion for every node before its loop. W5: the 'held while acquiring' graph over all mutexes is acyclic and has no self-edge. W12: every configuration lists its nodes in one global order (C14-G1 re-run).",
			NotDecided:  "That a reachable, responsive node *is* answered (liveness); gRPC internals; the latency of user quorum functions as such.",
			Trusted:     append([]string{"a stream operation on a broken stream returns an error", "sync.RWMutex blocks new readers behind a waiting writer"}, commonTrust...),
		},
	})
}

// heldOp is a blocking operation that executes while locks are held.
type heldOp struct {
	holder *ssa.Function // function whose lock state is `held`
	held   []sx.Held
	op     blockOp
	via    string // call chain from holder to the op
}

// opsUnderLocks enumerates blocking operations executed under any lock.
func opsUnderLocks(fns []*ssa.Function) (out []heldOp, conflicts []string) {
	for _, f := range fns {
		ls := sx.AnalyzeLocks(f)
		for _, c := range ls.Conflicts {
			conflicts = append(conflicts, fnKey(f)+": "+c)
		}
		sx.AllInstrs(f, func(n sx.Node, in ssa.Instruction) {
			if !ls.Reachable(n) {
				return
			}
			held := ls.MayHeldAt(n) // held on some path is enough for "blocks under the lock"
			if len(held) == 0 {
				return
			}
			if _, isDefer := in.(*ssa.Defer); isDefer {
				return // evaluated at exit: see DeferredCalls
			}
			if op, ok := classifyBlocking(in); ok {
				op.fn = f
				out = append(out, heldOp{holder: f, held: held, op: op, via: fnKey(f)})
			}
			if c, ok := in.(*ssa.Call); ok {
				callee := c.Call.StaticCallee()
				if callee == nil {
					if mc, ok := c.Call.Value.(*ssa.MakeClosure); ok {
						callee = mc.Fn.(*ssa.Function)
					}
				}
				if callee != nil && inRepo(callee) {
					walkBlocking(callee, func(op blockOp) {
						out = append(out, heldOp{holder: f, held: held, op: op, via: fnKey(f) + " → " + strings.Join(op.chain, " → ")})
					})
				}
			}
		})
		for _, dc := range ls.DeferredCalls {
			if len(dc.Held) == 0 {
				continue
			}
			callee := dc.Defer.Call.StaticCallee()
			if callee == nil {
				if mc, ok := dc.Defer.Call.Value.(*ssa.MakeClosure); ok {
					callee = mc.Fn.(*ssa.Function)
				}
			}
			if callee != nil && inRepo(callee) {
				walkBlocking(callee, func(op blockOp) {
					out = append(out, heldOp{holder: f, held: dc.Held, op: op, via: fnKey(f) + " (deferred) → " + strings.Join(op.chain, " → ")})
				})
			}
		}
	}
	return
}

// goroutine roots: functions started by a go statement in the package, plus
// exported functions and methods (callable from user goroutines).
type goRoot struct {
	fn   *ssa.Function
	site *ssa.Go // nil for API roots
}

func goRoots(l *core.Ledger, r *rt) []goRoot {
	var out []goRoot
	seen := map[*ssa.Function]bool{}
	for _, f := range allFuncs(l.Prog, r.pkg) {
		sx.AllInstrs(f, func(_ sx.Node, in ssa.Instruction) {
			g, ok := in.(*ssa.Go)
			if !ok {
				return
			}
			callee := g.Call.StaticCallee()
			if callee == nil {
				if mc, ok := g.Call.Value.(*ssa.MakeClosure); ok {
					callee = mc.Fn.(*ssa.Function)
				}
			}
			if callee != nil && inRepo(callee) && !seen[callee] {
				seen[callee] = true
				out = append(out, goRoot{callee, g})
			}
		})
	}
	for _, f := range allFuncs(l.Prog, r.pkg) {
		if f.Parent() == nil && f.Object() != nil && f.Object().Exported() && !seen[f] {
			seen[f] = true
			out = append(out, goRoot{f, nil})
		}
	}
	return out
}

// callPaths enumerates the static call chains from root to target (through
// calls and defers, not go statements), each as the list of call sites.
func callPaths(root, target *ssa.Function) [][]ssa.Instruction {
	var out [][]ssa.Instruction
	var cur []ssa.Instruction
	on := map[*ssa.Function]bool{}
	var walk func(f *ssa.Function)
	walk = func(f *ssa.Function) {
		if len(out) > 64 || on[f] {
			return
		}
		on[f] = true
		defer func() { on[f] = false }()
		sx.AllInstrs(f, func(_ sx.Node, in ssa.Instruction) {
			var cc *ssa.CallCommon
			switch x := in.(type) {
			case *ssa.Call:
				cc = &x.Call
			case *ssa.Defer:
				cc = &x.Call
			}
			if cc == nil {
				return
			}
			callee := cc.StaticCallee()
			if callee == nil {
				if mc, ok := cc.Value.(*ssa.MakeClosure); ok {
					callee = mc.Fn.(*ssa.Function)
				}
			}
			if callee == nil || !inRepo(callee) {
				return
			}
			cur = append(cur, in)
			if callee == target {
				out = append(out, append([]ssa.Instruction{}, cur...))
			} else {
				walk(callee)
			}
			cur = cur[:len(cur)-1]
		})
	}
	if root == target {
		return [][]ssa.Instruction{{}}
	}
	walk(root)
	return out
}

// streamErrorEdges returns, for fn, the edges taken when a stream operation
// (SendMsg/RecvMsg, or a repository function that returns such an error
// directly, i.e. sendMsg) reported an error.
func streamErrorEdges(fn *ssa.Function) []sx.Edge {
	var out []sx.Edge
	sx.AllInstrs(fn, func(_ sx.Node, in ssa.Instruction) {
		c, ok := in.(*ssa.Call)
		if !ok {
			return
		}
		isStreamOp := c.Call.IsInvoke() && (c.Call.Method.Name() == "RecvMsg" || c.Call.Method.Name() == "SendMsg")
		if !isStreamOp {
			return
		}
		m := func(o sx.Origin) bool { return (o.Kind == sx.KCall || o.Kind == sx.KExtract) && o.V == ssa.Value(c) }
		sx.AllInstrs(fn, func(_ sx.Node, in2 ssa.Instruction) {
			if ifi, ok := in2.(*ssa.If); ok && isErrNonNil(ifi, m) != 0 {
				out = append(out, errEdge(ifi, m, true))
			}
		})
	})
	return out
}

// flagEdges returns the edges of fn taken when the named atomicFlag field's
// get() returned `want`.
func flagEdges(fn *ssa.Function, field string, want bool) []sx.Edge {
	var out []sx.Edge
	sx.AllInstrs(fn, func(_ sx.Node, in ssa.Instruction) {
		ifi, ok := in.(*ssa.If)
		if !ok {
			return
		}
		v, _ := condOf(ifi)
		c, ok := v.(*ssa.Call)
		if ok && isFlagOp(&c.Call, "get", field) {
			out = append(out, edgeWhere(ifi, want))
		}
	})
	return out
}

func runC09(l *core.Ledger) {
	r := runtimePkg(l)
	if r == nil {
		return
	}
	l.Rule("C09-W1", "no unbounded blocking operation executes while a client-side mutex is held, except: capacity-proven reply sends under responseMut (W3); stream operations under a streamMut read hold when every competing write-lock request is control-dependent on a stream-operation error; stream creation under the streamMut write hold")
	l.Rule("C09-W2", "reconnect re-checks 'stream not broken' between taking the write lock and creating a stream, and releases the lock and returns on that edge")
	l.Rule("C09-W3", "a reply channel that can be registered as streaming has no capacity bound covering its deliveries, so delivery must not be a plain blocking send under responseMut")
	l.Rule("C09-W4", "a server-stream correctable registers defer deleteRouter(id) for every node of the configuration before entering its reply loop")
	l.Rule("C09-W6", "the stream is marked broken only on transport errors: no error value that can be a context's Err() (directly or through a repository function's result) leads to streamBroken.set()")
	l.Rule("C09-W9", "who may end a stream: the cancel function is called only while the stream is being replaced (streamMut write-held) or by sendMsg's per-write watcher; it is never handed to anything else")
	l.Rule("C09-W10", "the per-write watcher resets the stream only for a write that is still in progress: its evidence is ordered before the delivery of any reply to the request (today: a flag the writer raises after SendMsg has returned, which a reply can overtake), or it checks that the request has not been answered")
	l.Rule("C09-W8", "streamBroken.set() happens with streamMut held (the failed stream is still current) or on the not-yet-established branch (no reader exists)")
	l.Rule("C09-W7", "the per-node goroutines (sender, receiver) return only inside a parentCtx.Done() case: nothing a call or a peer does can end them")
	l.Rule("C09-W5", "the 'held while acquiring' graph over all mutexes of the runtime is acyclic and has no self-edge")

	fns := allFuncs(l.Prog, r.pkg)
	ops, conflicts := opsUnderLocks(fns)
	for _, c := range conflicts {
		l.Unknown("C09-W1", "lock-state", token.NoPos, "inconsistent lock state: "+c)
	}
	roots := goRoots(l, r)

	// streaming-capable reply channels (W3)
	streamingChans := map[string]token.Pos{}
	for _, ep := range findEntryPoints(l, r, "C09-W3") {
		for _, e := range ep.enqueues {
			if b, ok := constBool(e.Call.Args[3]); !ok || b {
				streamingChans[ep.key] = e.Pos()
			}
		}
	}

	clientLocks := map[string]bool{"responseMut": true, "streamMut": true, "mu": true, "connMu": true}
	seenKeys := map[string]bool{}
	nUnder := 0
	edges := map[string]map[string]string{} // lock order: held -> acquired -> witness
	addEdge := func(a, b, w string) {
		if edges[a] == nil {
			edges[a] = map[string]string{}
		}
		if _, ok := edges[a][b]; !ok {
			edges[a][b] = w
		}
	}
	for _, ho := range ops {
		for _, h := range ho.held {
			if ho.op.kind == "lock" {
				addEdge(lockName(h, ho.holder), lockNameOp(ho.op), ho.via+" @ "+l.Prog.Pos(sx.PosOf(ho.op.at)))
				continue
			}
			if !clientLocks[h.Field] {
				continue // server-side per-connection mutex etc.: lock order only
			}
			nUnder++
			key := fmt.Sprintf("%s/under-%s/%s:%s", fnKey(ho.holder), h.Field, fnKey(ho.op.fn), ho.op.kind)
			if seenKeys[key] {
				continue
			}
			seenKeys[key] = true
			pos := sx.PosOf(ho.op.at)
			switch h.Field {
			case "responseMut":
				if ho.op.kind == "deliver" {
					if bd := boundedDelivery(l, r); bd.ok {
						l.OK("C09-W1", key, pos, "delivery under responseMut waits only for a call that is still running, and not beyond its completion (W3)")
					} else {
						l.Bad("C09-W1", key, pos, "a delivery that waits for the receiving call is made under responseMut, but "+bd.why)
					}
				} else if ho.op.kind == "send" && isResponseChan(ho.op.chanT) {
					if len(streamingChans) == 0 {
						l.OK("C09-W1", key, pos, "reply send under responseMut; all reply channels are capacity-bounded (C05-M6)")
					} else {
						// decided per channel by W3 below
						l.OK("C09-W1", key, pos, "reply send under responseMut: non-blocking for capacity-bounded channels (C05-M6); streaming-capable channels are reported by W3")
					}
				} else {
					l.Bad("C09-W1", key, pos, fmt.Sprintf("%s while responseMut is held (via %s): every reader, sender and caller of this node needs that mutex", ho.op.desc, ho.via))
				}
			case "connMu":
				// serialises (re-)dial against close: creating and closing the connection is what it is for
				if ho.op.kind == "dial" || ho.op.kind == "conn-close" {
					l.OK("C09-W1", key, pos, "connection creation/closing under connMu: transport-bounded and exactly what the lock serialises")
				} else {
					l.Bad("C09-W1", key, pos, fmt.Sprintf("%s while connMu is held (via %s): Close waits for it", ho.op.desc, ho.via))
				}
			case "mu":
				l.Bad("C09-W1", key, pos, fmt.Sprintf("%s while %s.mu is held (via %s)", ho.op.desc, fnKey(ho.holder), ho.via))
			case "streamMut":
				c09StreamMut(l, r, roots, ho, h, key)
			}
		}
	}
	l.Floor("C09-W1", nUnder, 4, "blocking operations under client-side locks")

	// W3
	keys := make([]string, 0, len(streamingChans))
	for k := range streamingChans {
		keys = append(keys, k)
	}
	sort.Strings(keys)
	bd := boundedDelivery(l, r)
	for _, k := range keys {
		l.Check(bd.ok, "C09-W3", k+"/replyChan-streaming", streamingChans[k], "deliveries to streaming routers are bounded by the completion of the owning call",
			"this entry point can register its reply channel as *streaming*: each node may deliver any number of replies into a channel of capacity len(c), and "+bd.why+". Once the call goroutine has returned nobody drains the channel; the node's reader blocks holding responseMut, every later enqueue on that node and the call's own deferred deleteRouter block behind it: the node is disabled permanently")
		if bd.ok {
			// what the bound does not cover: the consumer is started after the send loop, and the send loop
			// itself can have to deliver a local answer (enqueue's context / closed cases)
			for _, site := range bd.sendLoopSites {
				if strings.HasPrefix(site.key, k) {
					l.Bad("C09-W3", site.key, site.pos, "the call's own goroutine can have to deliver into its reply channel while it is still handing out requests (enqueue answers a request locally when the call's context or the node has ended) and before the goroutine that receives the replies exists: if a node that already got its request has streamed len(c) replies by then, that delivery waits under the second node's responseMut for a consumer that is only started after the loop - both nodes' channels are stuck")
				}
			}
		}
	}
	if len(keys) == 0 {
		l.OK("C09-W3", "no-streaming-registration", token.NoPos, "no entry point registers a streaming router")
	}

	c09W2(l, r)
	// a reader that sleeps through its back-off while the sender has restored the stream leaves
	// every reply on that node unread for as long as the timer runs (up to the back-off cap)
	l.Rule("C09-W11", "the reader never sleeps through a back-off while another goroutine has restored the stream (C10-N4 re-run)")
	l.With(map[string]string{"C10-N4": "C09-W11"}, func() { c10N4(l, r) })
	l.Rule("C09-W13", "what the capacity argument of W3 presupposes, and what keeps a server reading: every reply channel is allocated by the invocation that registers it, with room for every answer it can get (C05-M6 re-run) - a recycled channel is still the target of the router an earlier call left behind, and the second late reply parks the node's reader under responseMut; a handler the library itself supplies releases the connection on every path (C03-F9 re-run) - otherwise one request for it stops the server reading the stream while the client sees a healthy connection")
	{
		var eps []*entryPoint
		l.With(map[string]string{}, func() { eps = findEntryPoints(l, r, "C09-W13") })
		l.With(map[string]string{"C05-M6": "C09-W13"}, func() { c05M6(l, r, eps) })
		var sl *serverLoop
		l.With(map[string]string{}, func() { sl = findServerLoop(l, r, "C03-F4") })
		if sl != nil {
			c03F9(l, sl, "C09-W13")
		}
	}
	l.Rule("C09-W12", "every configuration lists its nodes in one global order (C14-G1 re-run): the call types hand a request to the nodes one after the other and a node's reader can wait for a streaming call that is still handing out requests (C09-W3 residual) - with one order these waits form a chain that resolves, with two configurations in opposite orders they form a cycle that wedges both nodes")
	l.With(map[string]string{"C14-G1": "C09-W12"}, func() {
		for _, c := range findCtors(l, r) {
			c14Ctor(l, r, c)
		}
	})
	c09W4(l, r)
	c09W6(l, r)
	c09W7(l, r, roots)
	c09W9(l, r)
	l.Rule("C09-W14", "only a registration creates a router (C05-M2 re-run): a router written back by anything else - a bookkeeping update of an entry that has been removed meanwhile - has no channel, and the delivery of the next reply with that id parks the node's reader on a nil channel under the router lock for ever")
	if rm := buildRouterModel(l, r, "C09-W14"); rm != nil {
		l.With(map[string]string{"C05-M2": "C09-W14"}, func() { c05M2(l, r, rm) })
	}
	l.Rule("C09-W15", "a server keeps reading a connection whose handlers return or release (C04-H1, C03-F4/F5 re-run): the next receive waits only for the per-connection mutex, which the started handler - started at once, on a goroutine of its own - releases")
	{
		var sl *serverLoop
		l.With(map[string]string{}, func() { sl = findServerLoop(l, r, "C03-F4") })
		if sl != nil {
			l.With(map[string]string{"C04-H1": "C09-W15", "C03-F5": "C09-W15"}, func() { c03F4(l, sl, "C04-H1"); c03F5(l, sl) })
		}
	}

	c09W5(l, r)
}

// c09W5: lock order over all mutexes of the runtime.
func c09W5(l *core.Ledger, r *rt) {
	ops, _ := opsUnderLocks(allFuncs(l.Prog, r.pkg))
	edges := map[string]map[string]string{} // lock order: held -> acquired -> witness
	for _, ho := range ops {
		for _, h := range ho.held {
			if ho.op.kind == "lock" {
				a, b, w := lockName(h, ho.holder), lockNameOp(ho.op), ho.via+" @ "+l.Prog.Pos(sx.PosOf(ho.op.at))
				if edges[a] == nil {
					edges[a] = map[string]string{}
				}
				if _, ok := edges[a][b]; !ok {
					edges[a][b] = w
				}
			}
		}
	}
	// W5 lock order
	var names []string
	for a := range edges {
		names = append(names, a)
	}
	sort.Strings(names)
	cyc := ""
	for _, a := range names {
		if w, self := edges[a][a]; self {
			cyc = a + " → " + a + " (" + w + ")"
		}
	}
	if cyc == "" {
		// DFS for cycles
		color := map[string]int{}
		var stack []string
		var dfs func(n string) bool
		dfs = func(n string) bool {
			color[n] = 1
			stack = append(stack, n)
			var ns []string
			for m := range edges[n] {
				ns = append(ns, m)
			}
			sort.Strings(ns)
			for _, m := range ns {
				if color[m] == 1 {
					cyc = strings.Join(append(stack, m), " → ")
					return true
				}
				if color[m] == 0 && dfs(m) {
					return true
				}
			}
			stack = stack[:len(stack)-1]
			color[n] = 2
			return false
		}
		for _, a := range names {
			if color[a] == 0 && dfs(a) {
				break
			}
		}
	}
	var es []string
	for _, a := range names {
		for b := range edges[a] {
			es = append(es, a+"→"+b)
		}
	}
	sort.Strings(es)
	l.Check(cyc == "", "C09-W5", "lock-order", token.NoPos, fmt.Sprintf("acyclic; edges: %v", es), "lock-order cycle: "+cyc)
}

func lockName(h sx.Held, holder *ssa.Function) string {
	if h.Field == "mu" {
		// several types have a field `mu`: qualify by the base type
		if i := strings.Index(h.Lock, "@"); i >= 0 {
			return "mu@" + typeOfBase(holder)
		}
	}
	return h.Field
}

func lockNameOp(op blockOp) string {
	if op.lock == "mu" {
		return "mu@" + typeOfBase(op.fn)
	}
	return op.lock
}

func typeOfBase(f *ssa.Function) string {
	for f.Parent() != nil {
		f = f.Parent()
	}
	if f.Signature.Recv() != nil {
		k := fnKey(f)
		if i := strings.Index(k, "("); i >= 0 {
			if j := strings.Index(k[i:], ")"); j > 0 {
				return k[i+1 : i+j]
			}
		}
	}
	return fnKey(f)
}

// c09StreamMut decides one blocking operation executed under streamMut.
func c09StreamMut(l *core.Ledger, r *rt, roots []goRoot, ho heldOp, h sx.Held, key string) {
	pos := sx.PosOf(ho.op.at)
	if !h.Read {
		// write hold: only stream creation (and cancel) is acceptable
		if ho.op.kind == "stream-create" {
			l.OK("C09-W1", key, pos, "stream creation under the write hold: transport-bounded (fail-fast) and exactly what the lock serialises")
		} else {
			l.Bad("C09-W1", key, pos, fmt.Sprintf("%s while streamMut is write-held (via %s)", ho.op.desc, ho.via))
		}
		return
	}
	if ho.op.kind != "stream-send" && ho.op.kind != "stream-recv" {
		if ho.op.kind == "send" && isResponseChan(ho.op.chanT) {
			l.OK("C09-W1", key, pos, "reply send (see responseMut / W3)")
			return
		}
		l.Bad("C09-W1", key, pos, fmt.Sprintf("%s while streamMut is read-held (via %s)", ho.op.desc, ho.via))
		return
	}
	// which goroutine roots run the holder?
	holderRoots := map[*ssa.Function]bool{}
	for _, rt := range roots {
		if len(callPaths(rt.fn, ho.holder)) > 0 {
			holderRoots[rt.fn] = true
		}
	}
	// every write-lock site of streamMut
	bad := false
	for _, f := range allFuncs(l.Prog, r.pkg) {
		sx.AllInstrs(f, func(_ sx.Node, in ssa.Instruction) {
			c, ok := in.(*ssa.Call)
			if !ok {
				return
			}
			op, isOp := sx.ClassifyLockOp(&c.Call)
			if !isOp || !op.Acquire || op.Read || op.Field != "streamMut" {
				return
			}
			for _, rt := range roots {
				if rt.site == nil {
					continue // API roots: construction before publication (N5)
				}
				if holderRoots[rt.fn] && len(holderRoots) == 1 {
					continue // same goroutine: cannot compete with itself
				}
				for _, path := range callPaths(rt.fn, f) {
					if !requestDependsOnStreamError(rt.fn, f, path, c) {
						bad = true
						k := fmt.Sprintf("%s/vs-%s→%s", key, fnKey(rt.fn), fnKey(f))
						l.Bad("C09-W1", k, pos, fmt.Sprintf("%s parks in %s holding streamMut.RLock on a possibly healthy, idle stream, while goroutine %s can request streamMut.Lock() in %s on a path that does not depend on a stream-operation error (it depends on an unsynchronised read of the broken flag): with a stale 'broken' observation the writer waits for the reader and the reader waits for a message that only the blocked writer's progress can cause — the node is wedged", fnKey(ho.holder), ho.op.desc, fnKey(rt.fn), fnKey(f)))
					}
				}
			}
		})
	}
	if !bad {
		l.OK("C09-W1", key, pos, "stream operation under a read hold; every competing write-lock request is control-dependent on a stream-operation error (or precedes the reader's start)")
	}
}

// requestDependsOnStreamError: the call chain root → … → lockFn reaches the
// Lock only (a) after a stream-operation error edge in the root function, or
// (b) under the "connection not yet established" guard (no reader exists).
func requestDependsOnStreamError(root, lockFn *ssa.Function, path []ssa.Instruction, lock *ssa.Call) bool {
	// first call site is in root
	var first ssa.Instruction = lock
	if len(path) > 0 {
		first = path[0]
	}
	if first.Parent() != root {
		return false
	}
	if edgesDominate(root, streamErrorEdges(root), sx.NodeOf(first)) {
		return true
	}
	// (b) some frame on the chain guards the next call by !connEstablished
	frames := append([]ssa.Instruction{}, path...)
	frames = append(frames, lock)
	for _, site := range frames {
		f := site.Parent()
		if edgesDominate(f, flagEdges(f, "connEstablished", false), sx.NodeOf(site)) {
			return true
		}
	}
	return false
}

func c09W2(l *core.Ledger, r *rt) {
	// reconnect: the function that write-locks streamMut inside a loop and creates a stream
	for _, f := range allFuncs(l.Prog, r.pkg) {
		var lock, create *ssa.Call
		sx.AllInstrs(f, func(n sx.Node, in ssa.Instruction) {
			c, ok := in.(*ssa.Call)
			if !ok {
				return
			}
			if op, isOp := sx.ClassifyLockOp(&c.Call); isOp && op.Acquire && !op.Read && op.Field == "streamMut" && sx.InLoop(n) {
				lock = c
			}
			if c.Call.IsInvoke() && c.Call.Method.Name() == "NodeStream" {
				create = c
			}
		})
		if lock == nil || create == nil {
			continue
		}
		key := fnKey(f)
		upEdges := flagEdges(f, "streamBroken", false)
		// between lock and create every path tests the flag
		isTest := func(n sx.Node) bool {
			ifi, ok := n.Instr().(*ssa.If)
			if !ok {
				return false
			}
			t, fe := sx.CondEdges(ifi)
			return edgeIn(t, upEdges) || edgeIn(fe, upEdges)
		}
		_, must := sx.MustPassThrough(sx.NodeOf(lock), isTest, sx.IsInstr(create))
		// on the "up" edge: unlock then return without creating
		okUp := len(upEdges) > 0
		for _, e := range upEdges {
			if _, reach := sx.Reach(sx.Node{B: e.To, I: -1}, sx.IsInstr(create), sx.Query{BlockNode: func(n sx.Node) bool { return n.Instr() == ssa.Instruction(lock) }}); reach {
				okUp = false
			}
			isUnlock := func(n sx.Node) bool {
				c, ok := n.Instr().(*ssa.Call)
				if !ok {
					return false
				}
				op, isOp := sx.ClassifyLockOp(&c.Call)
				return isOp && !op.Acquire && op.Field == "streamMut"
			}
			if _, m := sx.MustPassThrough(sx.Node{B: e.To, I: -1}, isUnlock, sx.IsExit); !m {
				okUp = false
			}
		}
		l.Check(must && okUp, "C09-W2", key, lock.Pos(), "re-check under the write lock; 'already up' unlocks and returns", fmt.Sprintf("reconnect does not re-check the broken flag under the write lock before creating a stream (test on every path: %v; 'up' edge unlocks and returns without creating: %v): two goroutines replace each other's healthy stream", must, okUp))
		return
	}
	l.Unknown("C09-W2", "anchor/reconnect", token.NoPos, "no function that write-locks streamMut in a loop and creates a stream found")
}

func c09W4(l *core.Ledger, r *rt) {
	rm := buildRouterModel(l, r, "C09-W4")
	if rm == nil {
		return
	}
	// functions whose effect is "delete one router under the lock"
	deleters := map[*ssa.Function]bool{}
	for _, a := range rm.accesses {
		if a.kind == "delete" {
			if p, ok := a.key.(*ssa.Parameter); ok && p.Parent() == a.fn {
				deleters[a.fn] = true
			}
		}
	}
	var rl *replyLoop
	for _, x := range findReplyLoops(l, r, "C09-W4") {
		if x.correct {
			rl = x
		}
	}
	if rl == nil {
		l.Unknown("C09-W4", "anchor/correctable-loop", token.NoPos, "correctable reply loop not found")
		return
	}
	key := rl.key
	var def *ssa.Defer
	sx.AllInstrs(rl.fn, func(_ sx.Node, in ssa.Instruction) {
		if d, ok := in.(*ssa.Defer); ok && d.Call.StaticCallee() != nil && deleters[d.Call.StaticCallee()] {
			def = d
		}
	})
	if def == nil {
		l.Bad("C09-W4", key, rl.fn.Pos(), "no deferred router deletion in the server-stream correctable loop: a finished call leaves streaming routers behind, whose deliveries block the node's reader")
		return
	}
	dn := sx.NodeOf(def)
	// in a loop over the configuration, unfiltered, with the call's id
	var head *ssa.BasicBlock
	for _, h := range sx.LoopHeads(rl.fn) {
		if h.Dominates(def.Block()) {
			head = h
		}
	}
	okLoop := head != nil && sx.InLoop(dn)
	okRecv := false
	if len(def.Call.Args) == 2 {
		okRecv = sx.All(sx.Origins(def.Call.Args[0]), sx.IsFieldNamed("channel", func(o sx.Origin) bool {
			ia, isIA := o.V.(*ssa.IndexAddr)
			// the element must be taken from the configuration itself (not a sub-slice)
			return o.Kind == sx.KElem && isIA && ia.X == ssa.Value(rl.fn.Params[0])
		}))
	}
	// the loop must run over the whole configuration: its head compares the index with len(c)
	if head != nil {
		okBound := false
		if ifi, ok := head.Instrs[len(head.Instrs)-1].(*ssa.If); ok {
			if b, ok := ifi.Cond.(*ssa.BinOp); ok && b.Op == token.LSS {
				okBound = lenOf(b.Y, func(a ssa.Value) bool { return a == ssa.Value(rl.fn.Params[0]) })
			}
		}
		okRecv = okRecv && okBound
	}
	// the call's own metadata: handed over in the state struct or as a plain parameter
	isCallMD := func(o sx.Origin) bool {
		if o.Kind == sx.KField && o.Field != nil && o.Field.Name() == "md" {
			return true
		}
		return o.Kind == sx.KParam && o.V.Parent() == rl.fn && isNamed(o.V.Type(), orderingPkg, "Metadata")
	}
	okID := len(def.Call.Args) == 2 && sx.All(sx.Origins(def.Call.Args[1]), sx.IsFieldNamed("MessageID", isCallMD))
	// unfiltered: from the loop body entry every path back to the head passes the defer
	okAll := false
	if head != nil {
		for _, s := range head.Succs {
			if s.Dominates(def.Block()) || s == def.Block() {
				_, skip := sx.Reach(sx.Node{B: s, I: -1}, func(n sx.Node) bool { return n.B == head && n.I == 0 }, sx.Query{BlockNode: sx.IsInstr(def)})
				okAll = !skip
			}
		}
	}
	// before the reply loop on the stream edge: every path entry→select with ServerStream true passes the loop head
	okBefore := false
	if head != nil {
		streamIfs := []sx.Edge{}
		sx.AllInstrs(rl.fn, func(_ sx.Node, in ssa.Instruction) {
			ifi, ok := in.(*ssa.If)
			if !ok {
				return
			}
			v, _ := condOf(ifi)
			if sx.All(sx.Origins(v), func(o sx.Origin) bool {
				return o.Kind == sx.KField && o.Field != nil && o.Field.Name() == "ServerStream"
			}) {
				streamIfs = append(streamIfs, edgeWhere(ifi, false))
			}
		})
		_, reach := sx.Reach(sx.Entry(rl.fn), sx.IsInstr(rl.sel), sx.Query{
			BlockNode: func(n sx.Node) bool { return n.B == head && n.I == 0 },
			BlockEdge: func(e sx.Edge) bool { return edgeIn(e, streamIfs) },
			CondClass: condClass,
		})
		okBefore = !reach && len(streamIfs) > 0
	}
	l.Check(okLoop && okRecv && okID && okAll && okBefore, "C09-W4", key, def.Pos(), "defer deleteRouter(id) for every node before the loop on the stream edge",
		fmt.Sprintf("deferred router deletion incomplete: in a loop: %v, on each element of the configuration: %v, with the call's id: %v, unfiltered: %v, before the reply loop whenever ServerStream: %v", okLoop, okRecv, okID, okAll, okBefore))
}

// canBeCtxErr: can the error value be some context's Err()? Followed through
// phis and through the results of repository functions.
func canBeCtxErr(v ssa.Value, depth int, seen map[ssa.Value]bool) bool {
	if depth > 6 || seen[v] {
		return false
	}
	seen[v] = true
	// a load of a local slot (named result spilled around a defer): if the slot
	// is stored earlier in the same block, that store is the reaching definition
	if ld, ok := v.(*ssa.UnOp); ok && ld.Op == token.MUL {
		if al, ok := ld.X.(*ssa.Alloc); ok {
			var last ssa.Value
			for _, in := range ld.Block().Instrs {
				if in == ssa.Instruction(ld) {
					break
				}
				if st, ok := in.(*ssa.Store); ok && st.Addr == ssa.Value(al) {
					last = st.Val
				}
			}
			if last != nil {
				return canBeCtxErr(last, depth+1, seen)
			}
		}
	}
	for _, o := range sx.Origins(v) {
		switch o.Kind {
		case sx.KCall, sx.KExtract:
			c, ok := o.V.(*ssa.Call)
			if !ok {
				continue
			}
			if c.Call.IsInvoke() {
				if c.Call.Method.Name() == "Err" && isContextType(c.Call.Value.Type()) {
					return true
				}
				continue
			}
			callee := c.Call.StaticCallee()
			if callee == nil || !inRepo(callee) {
				continue
			}
			idx := 0
			if o.Kind == sx.KExtract {
				idx = o.Index
			}
			bad := false
			sx.AllInstrs(callee, func(_ sx.Node, in ssa.Instruction) {
				if ret, isRet := in.(*ssa.Return); isRet && idx < len(ret.Results) && isErrorType(ret.Results[idx].Type()) {
					if canBeCtxErr(ret.Results[idx], depth+1, seen) {
						bad = true
					}
				}
			})
			// named results spilled around defers: look at stores into the result slot
			if !bad && len(callee.Blocks) > 0 {
				sx.AllInstrs(callee, func(_ sx.Node, in ssa.Instruction) {
					st, isSt := in.(*ssa.Store)
					if !isSt || !isErrorType(st.Val.Type()) {
						return
					}
					if al, isAl := st.Addr.(*ssa.Alloc); isAl && al.Comment == "err" || isAl && strings.HasPrefix(al.Comment, "err") {
						if canBeCtxErr(st.Val, depth+1, seen) {
							bad = true
						}
					}
				})
			}
			if bad {
				return true
			}
		}
	}
	return false
}

func c09W6(l *core.Ledger, r *rt) {
	n := 0
	for _, f := range allFuncs(l.Prog, r.pkg) {
		sx.AllInstrs(f, func(nd sx.Node, in ssa.Instruction) {
			c, ok := in.(*ssa.Call)
			if !ok || !isFlagOp(&c.Call, "set", "streamBroken") {
				return
			}
			n++
			key := fmt.Sprintf("%s/streamBroken.set#%d", fnKey(f), n)
			// error tests whose non-nil edge dominates this set
			bad := ""
			sx.AllInstrs(f, func(_ sx.Node, in2 ssa.Instruction) {
				ifi, isIf := in2.(*ssa.If)
				if !isIf {
					return
				}
				v, _ := condOf(ifi)
				b, isB := v.(*ssa.BinOp)
				if !isB || (b.Op != token.NEQ && b.Op != token.EQL) || !isErrorType(b.X.Type()) {
					return
				}
				k, isC := b.Y.(*ssa.Const)
				if !isC || !k.IsNil() {
					return
				}
				m := func(o sx.Origin) bool { return true }
				if isErrNonNil(ifi, m) == 0 {
					return
				}
				if !sx.EdgeDominates(f, errEdge(ifi, m, true), nd) {
					return
				}
				if canBeCtxErr(b.X, 0, map[ssa.Value]bool{}) {
					bad = sx.OriginsString(sx.Origins(b.X))
				}
			})
			c09W8(l, f, nd, c, fmt.Sprintf("%s/streamBroken.set#%d/synchronised", fnKey(f), n))
			l.Check(bad == "", "C09-W6", key, c.Pos(), "set only on transport errors", "the stream is marked broken on an error that can be a caller's context error ("+bad+"): a call whose context ended before its request was written makes the sender tear down a healthy stream; the next request then requests the stream write lock while the reader is parked in RecvMsg on that healthy, idle stream - the node is disabled")
		})
	}
	l.Floor("C09-W6", n, 2, "sites that mark the stream broken")
}

// c09W8: "broken" must describe the stream that is current when the flag is
// written. The flag is cleared under the streamMut write hold together with
// the stream replacement, so a set is exact when streamMut is held (any mode)
// - the stream cannot be replaced in between - or when no reader goroutine
// exists yet (the not-established branch of connect). A set outside both can
// land after another goroutine re-established the stream and marks a healthy
// stream broken: the next request then asks for the stream write lock while
// the reader is parked on that healthy stream.
func c09W8(l *core.Ledger, f *ssa.Function, nd sx.Node, c *ssa.Call, key string) {
	ls := sx.AnalyzeLocks(f)
	for _, h := range ls.HeldAt(nd) {
		if h.Field != "streamMut" {
			continue
		}
		// the stream whose failure is recorded: if it was operated on without the lock (a copy
		// taken in an earlier critical section), it may have been replaced since - the set must
		// then be under the identity test `copy == current stream`
		var stale []ssa.Value
		sx.AllInstrs(f, func(on sx.Node, in ssa.Instruction) {
			op, ok := in.(*ssa.Call)
			if !ok || !op.Call.IsInvoke() || (op.Call.Method.Name() != "RecvMsg" && op.Call.Method.Name() != "SendMsg") {
				return
			}
			if !sx.All(sx.Origins(op.Call.Value), sx.IsFieldNamed("gorumsStream", sx.AnyOrigin)) {
				return
			}
			held := false
			for _, h2 := range ls.HeldAt(on) {
				if h2.Field == "streamMut" {
					held = true
				}
			}
			if _, reach := sx.Reach(on, func(x sx.Node) bool { return x == nd }, sx.Query{}); reach && !held {
				stale = append(stale, op.Call.Value)
			}
		})
		if len(stale) == 0 {
			l.OK("C09-W8", key, c.Pos(), "set while streamMut is held: the failed stream is still the current one")
			return
		}
		guarded := true
		for _, sv := range stale {
			g := false
			sx.AllInstrs(f, func(_ sx.Node, in ssa.Instruction) {
				ifi, ok := in.(*ssa.If)
				if !ok {
					return
				}
				x, op, y, isCmp := sx.Comparison(ifi.Cond, sv)
				if !isCmp || x != sv || (op != token.EQL && op != token.NEQ) {
					return
				}
				if !sx.All(sx.Origins(y), sx.IsFieldNamed("gorumsStream", sx.AnyOrigin)) {
					return
				}
				t, fl := sx.CondEdges(ifi)
				e := t
				if op == token.NEQ {
					e = fl
				}
				if sx.EdgeDominates(f, e, nd) {
					g = true
				}
			})
			guarded = guarded && g
		}
		l.Check(guarded, "C09-W8", key, c.Pos(), "set under streamMut and under 'the stream operated on is still the current one'",
			"the stream whose failure is recorded here was read in an earlier critical section and operated on without the lock; it may have been replaced since, and the set is not guarded by a comparison with the current stream: a late error of a replaced stream marks the new healthy stream broken")
		return
	}
	noReader := false
	sx.AllInstrs(f, func(_ sx.Node, in ssa.Instruction) {
		ifi, ok := in.(*ssa.If)
		if !ok {
			return
		}
		v, _ := condOf(ifi)
		g, ok := v.(*ssa.Call)
		if !ok || !isFlagOp(&g.Call, "get", "connEstablished") {
			return
		}
		if sx.EdgeDominates(f, edgeWhere(ifi, false), nd) {
			noReader = true
		}
	})
	l.Check(noReader, "C09-W8", key, c.Pos(), "set before the first stream exists (no reader goroutine yet)",
		"streamBroken is set without holding streamMut while a reader can exist: between the failed attempt and this write another goroutine can have re-established the stream, which is then marked broken although it is healthy - the sender's next reconnect waits for the write lock behind a reader parked on an idle healthy stream")
}

// c09W9: who may end a stream. The stream's cancel function may be called
// while the stream is being replaced (streamMut write-held), and by the
// per-write watcher that sendMsg starts (a closure of sendMsg, which C08-B3
// bounds by close(done)). Handing it to anything else - a timer, a context
// callback, another goroutine - lets a finished call's context or an
// unrelated event end a healthy stream that later calls are using.
func c09W9(l *core.Ledger, r *rt) {
	n := 0
	states := map[*ssa.Function]*sx.LockState{}
	for _, a := range collectAccesses(l, r, "channel", "cancelStream") {
		if a.kind != "read" {
			continue
		}
		ld, ok := a.at.(*ssa.UnOp)
		if !ok {
			continue
		}
		// follow the loaded value through local copies
		var uses func(v ssa.Value, depth int)
		uses = func(v ssa.Value, depth int) {
			if depth > 3 || v.Referrers() == nil {
				return
			}
			for _, ref := range *v.Referrers() {
				n++
				key := fmt.Sprintf("%s/cancelStream-use#%d", fnKey(a.fn), n)
				switch u := ref.(type) {
				case *ssa.DebugRef:
					n--
				case *ssa.Call:
					if u.Call.Value == v {
						st := states[a.fn]
						if st == nil {
							st = sx.AnalyzeLocks(a.fn)
							states[a.fn] = st
						}
						held := false
						for _, h := range st.HeldAt(sx.NodeOf(u)) {
							if h.Field == "streamMut" && !h.Read {
								held = true
							}
						}
						// the per-write watcher: a function literal of the function that writes to the stream
						inWatcher := false
						if u.Parent().Parent() != nil {
							root := u.Parent()
							for root.Parent() != nil {
								root = root.Parent()
							}
							inWatcher = isSendMsgLike(root)
						}
						l.Check(held || inWatcher, "C09-W9", key, u.Pos(), "called while the stream is being replaced / by the per-write watcher", "the stream is cancelled outside the stream replacement and outside the per-write watcher")
						if inWatcher && !held {
							c09W10(l, r, u)
							// C06-P13 (emitted only where the caller maps it): the stream the watcher
							// resets is shared by every call on the node
							if l.Remap != nil {
								l.Bad("C06-P13", fnKey(u.Parent().Parent())+"/watcher/resets-shared-stream", u.Pos(), "when the context of one call ends during its write, the per-write watcher cancels the node's stream - which carries the messages of every call on that node: the server discards what it has received and not yet read (everything behind a handler that is still running), i.e. the one-way messages of other calls that have returned, whose contexts never ended and whose node is reachable all the time are delivered zero times")
							}
						}
						continue
					}
					if callee := u.Call.StaticCallee(); callee != nil && callee.Parent() != nil && inRepo(callee) {
						// a function literal of this function invoked right here: judged by what it does with it
						n--
						for i, arg := range u.Call.Args {
							if arg == v && i < len(callee.Params) {
								uses(callee.Params[i], depth+1)
							}
						}
						continue
					}
					l.Bad("C09-W9", key, u.Pos(), "the stream's cancel function is handed to "+sx.StaticCalleeName(&u.Call)+": an event other than the write in progress or a failed re-creation (e.g. the end of a finished call's context) can now end a healthy stream that later calls are using")
				case *ssa.MakeClosure:
					// captured by a closure of the same function: its calls are judged where they happen
					fn := u.Fn.(*ssa.Function)
					for i, b := range u.Bindings {
						if b == v && i < len(fn.FreeVars) {
							uses(fn.FreeVars[i], depth+1)
						}
					}
					n--
				case *ssa.ChangeType:
					n--
					uses(u, depth)
				case *ssa.Go:
					callee := u.Call.StaticCallee()
					if callee == nil || callee.Parent() == nil || !inRepo(callee) {
						l.Bad("C09-W9", key, u.Pos(), "the stream's cancel function is handed to a goroutine that is not a literal of this function")
						continue
					}
					// the per-write watcher written with parameters instead of captured variables
					n--
					for i, arg := range u.Call.Args {
						if arg == v && i < len(callee.Params) {
							uses(callee.Params[i], depth+1)
						}
					}
				case *ssa.Store:
					if al, isAl := u.Addr.(*ssa.Alloc); isAl && u.Val == v {
						// a local copy: every load of it, here and in the closures that capture it
						var loadsOf func(addr ssa.Value)
						loadsOf = func(addr ssa.Value) {
							for _, r2 := range *addr.Referrers() {
								switch x := r2.(type) {
								case *ssa.UnOp:
									uses(x, depth+1)
								case *ssa.MakeClosure:
									fn := x.Fn.(*ssa.Function)
									for i, b := range x.Bindings {
										if b == addr && i < len(fn.FreeVars) {
											loadsOf(fn.FreeVars[i])
										}
									}
								}
							}
						}
						loadsOf(al)
						n--
						continue
					}
					l.Bad("C09-W9", key, u.Pos(), "the stream's cancel function is stored outside the channel's own field")
				default:
					l.Bad("C09-W9", key, sx.PosOf(ref), fmt.Sprintf("the stream's cancel function is used by %T", ref))
				}
			}
		}
		uses(ld, 0)
	}
	l.Floor("C09-W9", n, 2, "uses of the stream's cancel function")
}

func c09W7(l *core.Ledger, r *rt, roots []goRoot) {
	n := 0
	for _, rt := range roots {
		if rt.site == nil || rt.fn.Parent() != nil {
			continue
		}
		top := rt.fn
		if top.Signature.Recv() == nil || !isNamed(top.Signature.Recv().Type(), core.RootModule, "channel") {
			continue
		}
		// per-node roots are started from newChannel / newNodeStream, not from entry points
		n++
		key := fnKey(rt.fn) + "/returns"
		bad := false
		sx.AllInstrs(rt.fn, func(nd sx.Node, in ssa.Instruction) {
			if _, isRet := in.(*ssa.Return); !isRet {
				return
			}
			ok := false
			sx.AllInstrs(rt.fn, func(_ sx.Node, in2 ssa.Instruction) {
				s, isSel := in2.(*ssa.Select)
				if !isSel {
					return
				}
				for i, st := range s.States {
					if cv, isDone := isDoneOf(st.Chan); isDone && isParentCtx(cv) {
						if e, found := selectCaseEdge(s, i); found && sx.EdgeDominates(rt.fn, e, nd) {
							ok = true
						}
					}
				}
			})
			if !ok {
				bad = true
				l.Bad("C09-W7", key, in.Pos(), "a per-node goroutine can return on a path that is not a parentCtx.Done() case: once it is gone (e.g. after a stream error of a particular kind) nobody reads replies / sends requests for this node any more, and it is never restarted because the connection counts as established")
			}
		})
		if !bad {
			l.OK("C09-W7", key, rt.fn.Pos(), "returns only when the node is closed")
		}
	}
	l.Floor("C09-W7", n, 2, "per-node goroutine roots (sender, receiver)")
}

// boundedDelivery decides whether deliveries to routers whose calls may be
// slower than their nodes are bounded by the completion of the owning call:
//
//	D1 every plain send to a router lies on the `done == nil` edge of a test of that router's
//	   done channel: a router that has a done channel is only delivered to through the bounded form
//	D2 wherever a router can be registered as streaming, the request carries a done channel that is
//	   non-nil whenever the streaming flag is true
//	D3 that channel is the completion channel of the Correctable the call's loop completes: closed
//	   by the final set (C11-K5) that every exit of the loop passes before its deferred clean-up runs
type boundedDeliveryResult struct {
	ok            bool
	why           string
	sendLoopSites []struct {
		key string
		pos token.Pos
	}
}

var boundedDeliveryCache = map[*core.Ledger]*boundedDeliveryResult{}

func boundedDelivery(l *core.Ledger, r *rt) *boundedDeliveryResult {
	if res, ok := boundedDeliveryCache[l]; ok {
		return res
	}
	res := &boundedDeliveryResult{ok: true}
	boundedDeliveryCache[l] = res
	fail := func(why string) {
		if res.ok {
			res.ok, res.why = false, why
		}
	}
	var rm *routerModel
	l.With(map[string]string{}, func() { rm = buildRouterModel(l, r, "C09-W3") })
	if rm == nil {
		fail("the router map was not found")
		return res
	}
	// D1
	nBounded := 0
	for _, d := range rm.deliveries {
		if d.bounded {
			nBounded++
			continue
		}
		snd, isSend := d.send.(*ssa.Send)
		if !isSend {
			continue
		}
		base := ""
		for _, o := range sx.Origins(snd.Chan) {
			if o.Kind == sx.KField {
				base = sx.OriginsString(o.Base)
			}
		}
		nilEdges := nilTestEdgesOn(d.fn, func(v ssa.Value) bool {
			return sx.All(sx.Origins(v), func(o sx.Origin) bool {
				return o.Kind == sx.KField && o.Field != nil && o.Field.Name() == "done" && sx.OriginsString(o.Base) == base
			})
		}, false)
		if !edgesDominate(d.fn, nilEdges, sx.NodeOf(d.send)) {
			fail("delivery is a plain blocking send under responseMut (" + l.Prog.Pos(d.send.Pos()) + " is not restricted to routers without a done channel)")
		}
	}
	if nBounded == 0 {
		fail("delivery is a plain blocking send under responseMut")
		return res
	}
	// D2, D3
	for _, ep := range findEntryPointsQuiet(l, r) {
		for i, e := range ep.enqueues {
			if b, isConst := constBool(e.Call.Args[3]); isConst && !b {
				continue
			}
			key := fmt.Sprintf("%s/replyChan-streaming/send-loop", ep.key)
			_ = i
			lit, okLit := structLiteral(e.Call.Args[1])
			if !okLit || lit["done"] == nil {
				fail("the request registered as streaming at " + l.Prog.Pos(e.Pos()) + " carries no done channel: delivery to its router is a plain blocking send")
				continue
			}
			dv := lit["done"]
			isDonech := func(v ssa.Value) bool {
				return sx.All(sx.Origins(v), func(o sx.Origin) bool {
					if o.Kind == sx.KField && o.Field != nil && o.Field.Name() == "donech" {
						return true
					}
					// the Correctable is handed on (to the loop goroutine, to the caller) after this load; its
					// donech field is written once, at construction (C15-O1), so nobody else's value can be read
					if o.Kind == sx.KEscaped && o.V != nil && isNamed(o.V.Type(), core.RootModule, "Correctable") {
						return true
					}
					// the channel made for the donech field of the Correctable built in this function
					if o.Kind != sx.KMake || o.V == nil {
						return false
					}
					stored := false
					sx.AllInstrs(ep.fn, func(_ sx.Node, in ssa.Instruction) {
						st, isSt := in.(*ssa.Store)
						if !isSt {
							return
						}
						fa, isFA := st.Addr.(*ssa.FieldAddr)
						if !isFA || !isNamed(fa.X.Type(), core.RootModule, "Correctable") {
							return
						}
						if fl := fieldOf(fa.X.Type(), fa.Field); fl != nil && fl.Name() == "donech" && st.Val == o.V {
							stored = true
						}
					})
					return stored
				})
			}
			switch x := dv.(type) {
			case *ssa.Phi:
				for k2, ed := range x.Edges {
					if c, isC := ed.(*ssa.Const); isC && c.IsNil() {
						// nil only where the streaming flag is false
						pred := x.Block().Preds[k2]
						okEdge := false
						if ifi, isIf := pred.Instrs[len(pred.Instrs)-1].(*ssa.If); isIf {
							cv, pos := condOf(ifi)
							if sameValue(cv, e.Call.Args[3]) || sx.OriginsString(sx.Origins(cv)) == sx.OriginsString(sx.Origins(e.Call.Args[3])) {
								t, f := sx.CondEdges(ifi)
								falseEdge := f
								if !pos {
									falseEdge = t
								}
								okEdge = falseEdge.To == x.Block()
							}
						}
						if !okEdge {
							fail("the done channel of the request registered at " + l.Prog.Pos(e.Pos()) + " can be nil although the router is streaming")
						}
						continue
					}
					if !isDonech(ed) {
						fail("the done channel of the request registered at " + l.Prog.Pos(e.Pos()) + " is not the completion channel of the call's Correctable (" + sx.OriginsString(sx.Origins(ed)) + ")")
					}
				}
			default:
				if !isDonech(dv) {
					fail("the done channel of the request registered at " + l.Prog.Pos(e.Pos()) + " is not the completion channel of the call's Correctable")
				}
			}
			// the residual: local answers during the send loop, before the consumer exists
			if sx.InLoop(sx.NodeOf(e)) || true {
				res.sendLoopSites = append(res.sendLoopSites, struct {
					key string
					pos token.Pos
				}{key, e.Pos()})
			}
		}
	}
	return res
}

// findEntryPointsQuiet: the entry points without recording obligations.
func findEntryPointsQuiet(l *core.Ledger, r *rt) []*entryPoint {
	var eps []*entryPoint
	l.With(map[string]string{}, func() { eps = findEntryPoints(l, r, "C09-W3") })
	return eps
}

// c09W10: what the watcher knows when it resets the stream. The watcher polls
// a channel that the writing goroutine closes after SendMsg has returned.
// Nothing orders that close before the delivery of the reply: the server can
// answer, the reader can route the reply, the caller can return and cancel its
// context (the ordinary `defer cancel()`) while the writer has not yet executed
// the statement after SendMsg. The watcher then sees "context ended, write not
// finished" and resets a healthy stream; the next call on the node fails.
func c09W10(l *core.Ledger, r *rt, cancelCall *ssa.Call) {
	w := cancelCall.Parent()
	key := fnKey(w.Parent()) + "/watcher/cancel-after-completion"
	// evidence that the request is still unanswered: a read of the router map reachable from the
	// watcher before the cancel (directly or through a repository function)
	readsRouters := false
	var visit func(f *ssa.Function, depth int)
	seen := map[*ssa.Function]bool{}
	mapField := routerMapField(r)
	visit = func(f *ssa.Function, depth int) {
		if f == nil || seen[f] || depth > 3 {
			return
		}
		seen[f] = true
		sx.AllInstrs(f, func(nd sx.Node, in ssa.Instruction) {
			if lk, ok := in.(*ssa.Lookup); ok {
				if sx.All(sx.Origins(lk.X), func(o sx.Origin) bool { return o.Kind == sx.KField && o.Field == mapField }) {
					if f != w || sx.InstrDominates(w, lk, sx.NodeOf(cancelCall)) {
						readsRouters = true
					}
				}
			}
			if c, ok := in.(*ssa.Call); ok {
				if cs := c.Call.StaticCallee(); cs != nil && inRepo(cs) && (f != w || sx.InstrDominates(w, c, sx.NodeOf(cancelCall))) {
					visit(cs, depth+1)
				}
			}
		})
	}
	visit(w, 0)
	// the flag: a channel closed in the parent after the stream write
	closedAfterWrite := false
	sx.AllInstrs(w.Parent(), func(nd sx.Node, in ssa.Instruction) {
		c, ok := in.(*ssa.Call)
		if !ok {
			return
		}
		if b, isB := c.Call.Value.(*ssa.Builtin); isB && b.Name() == "close" {
			// reached only after a client SendMsg
			if _, avoid := sx.Reach(sx.Entry(w.Parent()), func(x sx.Node) bool { return x == nd }, sx.Query{BlockNode: func(x sx.Node) bool {
				cc := sx.CallOf(x.Instr())
				return cc != nil && cc.IsInvoke() && cc.Method.Name() == "SendMsg"
			}}); !avoid {
				closedAfterWrite = true
			}
		}
	})
	if readsRouters || !closedAfterWrite {
		l.OK("C09-W10", key, cancelCall.Pos(), "the watcher has evidence that the request is unanswered / the flag is not raised behind the write")
		return
	}
	l.Bad("C09-W10", key, cancelCall.Pos(), "the watcher resets the stream when the request's context has ended and the writer has not yet closed its done channel - which the writer does after SendMsg has returned. A reply can overtake that: the server answers, the reader routes the reply, the caller returns and cancels its context (defer cancel()) before the writing goroutine has run the statement after SendMsg. The finished call then resets a healthy stream and the next call on the node fails with 'stream is down' / EOF")
}
