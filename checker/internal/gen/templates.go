package gen

import (
	"fmt"
	"go/ast"
	"go/token"
	"go/types"
	"sort"
	"strconv"
	"strings"
	"text/template/parse"

	"golang.org/x/tools/go/packages"
)

// Generator is the model of package gengorums extracted from its AST.
type Generator struct {
	Pkg       *packages.Package
	Strings   map[string]string // folded package-level string variables
	StrPos    map[string]token.Pos
	FuncMap   map[string]ast.Expr // funcMap key -> value expression
	CallTypes []*CallTypeEntry    // entries of gorumsCallTypesInfo, sorted by key
	Lists     map[string][]string // extension lists (gorumsCallTypes, ...): option names
	ExtByVar  map[string]string   // "gorums.E_Rpc" -> "rpc"
	Reserved  []string
	PkgIdent  map[string]string
	Problems  []string
	depth     int // recursion guard for predicates that call predicates
}

// CallTypeEntry is one entry of gorumsCallTypesInfo.
type CallTypeEntry struct {
	Key       string
	Template  string // name of the template variable
	ExtVar    string // e.g. gorums.E_Quorumcall ("" for qspec/types/server)
	Ext       string // option name
	DocName   string
	OutPrefix string
	Chk       Formula
	ChkErr    string
	Nested    []*CallTypeEntry
	Pos       token.Pos
}

// ---------------------------------------------------------------------------
// formulas over the option lattice

// Valuation assigns the atoms.
type Valuation struct {
	Opts         map[string]bool
	StreamServer bool
	StreamClient bool
}

// Formula is a boolean expression over option atoms.
type Formula interface {
	Eval(v Valuation) bool
	String() string
}

type fAny struct{ opts []string }
type fAll struct{ opts []string }
type fStreamS struct{}
type fStreamC struct{}
type fNot struct{ x Formula }
type fAnd struct{ x, y Formula }
type fOr struct{ x, y Formula }
type fConst struct{ v bool }
type fCount struct {
	opts []string
	op   token.Token
	k    int
}

func (f fAny) Eval(v Valuation) bool {
	for _, o := range f.opts {
		if v.Opts[o] {
			return true
		}
	}
	return false
}
func (f fAny) String() string { return "any(" + strings.Join(f.opts, ",") + ")" }
func (f fAll) Eval(v Valuation) bool {
	for _, o := range f.opts {
		if !v.Opts[o] {
			return false
		}
	}
	return true
}
func (f fAll) String() string           { return "all(" + strings.Join(f.opts, ",") + ")" }
func (fStreamS) Eval(v Valuation) bool  { return v.StreamServer }
func (fStreamS) String() string         { return "serverStream" }
func (fStreamC) Eval(v Valuation) bool  { return v.StreamClient }
func (fStreamC) String() string         { return "clientStream" }
func (f fNot) Eval(v Valuation) bool    { return !f.x.Eval(v) }
func (f fNot) String() string           { return "!" + f.x.String() }
func (f fAnd) Eval(v Valuation) bool    { return f.x.Eval(v) && f.y.Eval(v) }
func (f fAnd) String() string           { return "(" + f.x.String() + " && " + f.y.String() + ")" }
func (f fOr) Eval(v Valuation) bool     { return f.x.Eval(v) || f.y.Eval(v) }
func (f fOr) String() string            { return "(" + f.x.String() + " || " + f.y.String() + ")" }
func (f fCount) Eval(v Valuation) bool {
	n := 0
	for _, o := range f.opts {
		if v.Opts[o] {
			n++
		}
	}
	switch f.op {
	case token.GTR:
		return n > f.k
	case token.GEQ:
		return n >= f.k
	case token.LSS:
		return n < f.k
	case token.LEQ:
		return n <= f.k
	case token.EQL:
		return n == f.k
	case token.NEQ:
		return n != f.k
	}
	return false
}
func (f fCount) String() string {
	return fmt.Sprintf("count(%s) %s %d", strings.Join(f.opts, ","), f.op, f.k)
}
func (f fConst) Eval(Valuation) bool    { return f.v }
func (f fConst) String() string         { return fmt.Sprint(f.v) }

// ParseFormula lifts a boolean Go expression over has-option / streaming
// atoms into a Formula. Any other expression form is an error.
func (g *Generator) ParseFormula(e ast.Expr) (Formula, error) {
	switch x := e.(type) {
	case *ast.ParenExpr:
		return g.ParseFormula(x.X)
	case *ast.UnaryExpr:
		if x.Op == token.NOT {
			f, err := g.ParseFormula(x.X)
			if err != nil {
				return nil, err
			}
			return fNot{f}, nil
		}
	case *ast.BinaryExpr:
		// countMethodOptions(m, E...) <op> <int literal>
		switch x.Op {
		case token.GTR, token.GEQ, token.LSS, token.LEQ, token.EQL, token.NEQ:
			ce, isCall := x.X.(*ast.CallExpr)
			bl, isLit := x.Y.(*ast.BasicLit)
			if isCall && isLit && bl.Kind == token.INT {
				if id, ok := ce.Fun.(*ast.Ident); ok && id.Name == "countMethodOptions" && len(ce.Args) >= 2 {
					var opts []string
					for _, a := range ce.Args[1:] {
						os, err := g.extArgs(a, ce.Ellipsis.IsValid())
						if err != nil {
							return nil, err
						}
						opts = append(opts, os...)
					}
					k, _ := strconv.Atoi(bl.Value)
					return fCount{opts, x.Op, k}, nil
				}
			}
		}
		if x.Op == token.LAND || x.Op == token.LOR {
			a, err := g.ParseFormula(x.X)
			if err != nil {
				return nil, err
			}
			b, err := g.ParseFormula(x.Y)
			if err != nil {
				return nil, err
			}
			if x.Op == token.LAND {
				return fAnd{a, b}, nil
			}
			return fOr{a, b}, nil
		}
	case *ast.Ident:
		if x.Name == "true" || x.Name == "false" {
			return fConst{x.Name == "true"}, nil
		}
	case *ast.CallExpr:
		name := ""
		switch f := x.Fun.(type) {
		case *ast.Ident:
			name = f.Name
		case *ast.SelectorExpr:
			name = f.Sel.Name
		}
		switch name {
		case "hasMethodOption", "hasAllMethodOption":
			var opts []string
			for _, a := range x.Args[1:] {
				os, err := g.extArgs(a, x.Ellipsis.IsValid())
				if err != nil {
					return nil, err
				}
				opts = append(opts, os...)
			}
			if name == "hasMethodOption" {
				return fAny{opts}, nil
			}
			return fAll{opts}, nil
		case "hasGorumsCallType":
			return fAny{g.Lists["gorumsCallTypes"]}, nil
		case "IsStreamingServer":
			return fStreamS{}, nil
		case "IsStreamingClient":
			return fStreamC{}, nil
		}
		// a predicate of the package over the same method: its body
		if id, ok := x.Fun.(*ast.Ident); ok && len(x.Args) == 1 {
			if fd := g.funcDecl(id.Name); fd != nil && fd.Type.Params.NumFields() == 1 && g.depth < 6 {
				g.depth++
				f, err := g.formulaOfStmts(fd.Body.List, 0)
				g.depth--
				return f, err
			}
		}
	}
	return nil, fmt.Errorf("expression form not in the option-predicate language: %s", types.ExprString(e))
}

// And, Or, Not and Const build formulas for callers outside this package.
func And(a, b Formula) Formula { return fAnd{a, b} }
func Or(a, b Formula) Formula  { return fOr{a, b} }
func Not(a Formula) Formula    { return fNot{a} }
func Const(v bool) Formula     { return fConst{v} }

// FuncDecl finds a package-level function of the generator by name.
func (g *Generator) FuncDecl(name string) *ast.FuncDecl { return g.funcDecl(name) }

func (g *Generator) funcDecl(name string) *ast.FuncDecl {
	for _, f := range g.Pkg.Syntax {
		for _, d := range f.Decls {
			if fd, ok := d.(*ast.FuncDecl); ok && fd.Recv == nil && fd.Name.Name == name && fd.Body != nil {
				return fd
			}
		}
	}
	return nil
}

// formulaOfStmts turns a loop-free predicate body - returns, guard clauses,
// if/else - into a formula.
func (g *Generator) formulaOfStmts(list []ast.Stmt, depth int) (Formula, error) {
	if depth > 8 {
		return nil, fmt.Errorf("predicate body nested too deeply")
	}
	if len(list) == 0 {
		return nil, fmt.Errorf("predicate body can fall off its end")
	}
	switch x := list[0].(type) {
	case *ast.ReturnStmt:
		if len(x.Results) != 1 {
			return nil, fmt.Errorf("predicate returns %d values", len(x.Results))
		}
		return g.ParseFormula(x.Results[0])
	case *ast.IfStmt:
		if x.Init != nil {
			return nil, fmt.Errorf("if with an init statement in a predicate body")
		}
		c, err := g.ParseFormula(x.Cond)
		if err != nil {
			return nil, err
		}
		thenList := append(append([]ast.Stmt{}, x.Body.List...), list[1:]...)
		t, err := g.formulaOfStmts(thenList, depth+1)
		if err != nil {
			return nil, err
		}
		elseList := list[1:]
		switch e := x.Else.(type) {
		case *ast.BlockStmt:
			elseList = append(append([]ast.Stmt{}, e.List...), list[1:]...)
		case *ast.IfStmt:
			elseList = append([]ast.Stmt{e}, list[1:]...)
		}
		f, err := g.formulaOfStmts(elseList, depth+1)
		if err != nil {
			return nil, err
		}
		return fOr{fAnd{c, t}, fAnd{fNot{c}, f}}, nil
	case *ast.BlockStmt:
		return g.formulaOfStmts(append(append([]ast.Stmt{}, x.List...), list[1:]...), depth+1)
	}
	return nil, fmt.Errorf("statement form not in the option-predicate language: %T", list[0])
}

func (g *Generator) extArgs(a ast.Expr, variadic bool) ([]string, error) {
	switch x := a.(type) {
	case *ast.SelectorExpr:
		key := types.ExprString(x)
		if n, ok := g.ExtByVar[key]; ok {
			return []string{n}, nil
		}
		return nil, fmt.Errorf("unknown extension %s", key)
	case *ast.Ident:
		if l, ok := g.Lists[x.Name]; ok {
			return l, nil
		}
	}
	return nil, fmt.Errorf("unsupported extension argument %s", types.ExprString(a))
}

// ---------------------------------------------------------------------------
// extraction

func unquote(bl *ast.BasicLit) (string, bool) {
	if bl.Kind != token.STRING {
		return "", false
	}
	s, err := strconv.Unquote(bl.Value)
	return s, err == nil
}

// LoadGenerator extracts the model from the type-checked gengorums package.
// extNames maps extension Go variable suffixes to option names, e.g.
// "gorums.E_PerNodeArg" -> "per_node_arg".
func LoadGenerator(pk *packages.Package, extByVar map[string]string) *Generator {
	g := &Generator{Pkg: pk, Strings: map[string]string{}, StrPos: map[string]token.Pos{}, FuncMap: map[string]ast.Expr{}, Lists: map[string][]string{}, ExtByVar: extByVar, PkgIdent: map[string]string{}}
	exprs := map[string]ast.Expr{}
	for _, f := range pk.Syntax {
		for _, d := range f.Decls {
			gd, ok := d.(*ast.GenDecl)
			if !ok || gd.Tok != token.VAR {
				continue
			}
			for _, sp := range gd.Specs {
				vs := sp.(*ast.ValueSpec)
				for i, n := range vs.Names {
					if i < len(vs.Values) {
						exprs[n.Name] = vs.Values[i]
						g.StrPos[n.Name] = n.Pos()
					}
				}
			}
		}
	}
	// strings
	var fold func(e ast.Expr, depth int) (string, bool)
	fold = func(e ast.Expr, depth int) (string, bool) {
		if depth > 50 {
			return "", false
		}
		switch x := e.(type) {
		case *ast.BasicLit:
			return unquote(x)
		case *ast.ParenExpr:
			return fold(x.X, depth+1)
		case *ast.BinaryExpr:
			if x.Op != token.ADD {
				return "", false
			}
			a, ok1 := fold(x.X, depth+1)
			b, ok2 := fold(x.Y, depth+1)
			return a + b, ok1 && ok2
		case *ast.Ident:
			if v, ok := exprs[x.Name]; ok {
				return fold(v, depth+1)
			}
		}
		return "", false
	}
	for name, e := range exprs {
		if t := pk.TypesInfo.TypeOf(e); t != nil {
			if b, ok := t.Underlying().(*types.Basic); ok && b.Info()&types.IsString != 0 {
				if s, ok := fold(e, 0); ok {
					g.Strings[name] = s
				}
			}
		}
	}
	// extension lists
	for name, e := range exprs {
		cl, ok := e.(*ast.CompositeLit)
		if !ok {
			continue
		}
		if at, ok := cl.Type.(*ast.ArrayType); ok {
			switch types.ExprString(at.Elt) {
			case "*protoimpl.ExtensionInfo":
				var l []string
				okAll := true
				for _, el := range cl.Elts {
					if n, ok := extByVar[types.ExprString(el)]; ok {
						l = append(l, n)
					} else {
						okAll = false
					}
				}
				if okAll {
					g.Lists[name] = l
				} else {
					g.Problems = append(g.Problems, "extension list "+name+" has an element that is not a known extension")
				}
			case "string":
				if name == "reservedIdents" {
					for _, el := range cl.Elts {
						if bl, ok := el.(*ast.BasicLit); ok {
							if s, ok := unquote(bl); ok {
								g.Reserved = append(g.Reserved, s)
							}
						}
					}
				}
			}
		}
		if mt, ok := cl.Type.(*ast.MapType); ok && name == "pkgIdentMap" && types.ExprString(mt.Key) == "string" {
			for _, el := range cl.Elts {
				kv := el.(*ast.KeyValueExpr)
				k, ok1 := kv.Key.(*ast.BasicLit)
				v, ok2 := kv.Value.(*ast.BasicLit)
				if ok1 && ok2 {
					ks, _ := unquote(k)
					vs, _ := unquote(v)
					g.PkgIdent[ks] = vs
				}
			}
		}
	}
	// funcMap
	if cl, ok := exprs["funcMap"].(*ast.CompositeLit); ok {
		for _, el := range cl.Elts {
			kv, ok := el.(*ast.KeyValueExpr)
			if !ok {
				continue
			}
			if bl, ok := kv.Key.(*ast.BasicLit); ok {
				if k, ok := unquote(bl); ok {
					g.FuncMap[k] = kv.Value
				}
			}
		}
	} else {
		g.Problems = append(g.Problems, "funcMap literal not found")
	}
	// call types: one literal, or a merge of several literals by a function of the package
	// that copies every entry of its arguments into one fresh map
	switch v := exprs["gorumsCallTypesInfo"].(type) {
	case *ast.CompositeLit:
		g.CallTypes = g.parseCallTypes(v)
	case *ast.CallExpr:
		okMerge := false
		if id, isID := v.Fun.(*ast.Ident); isID && isMapMerge(g.funcDecl(id.Name)) {
			okMerge = true
			seen := map[string]bool{}
			for _, a := range v.Args {
				aid, isAID := a.(*ast.Ident)
				cl, isCL := exprs[func() string {
					if isAID {
						return aid.Name
					}
					return ""
				}()].(*ast.CompositeLit)
				if !isAID || !isCL {
					okMerge = false
					break
				}
				for _, e := range g.parseCallTypes(cl) {
					if seen[e.Key] {
						g.Problems = append(g.Problems, "gorumsCallTypesInfo: key "+e.Key+" occurs in two merged literals (the winner depends on argument order)")
					}
					seen[e.Key] = true
					g.CallTypes = append(g.CallTypes, e)
				}
			}
			sort.Slice(g.CallTypes, func(i, j int) bool { return g.CallTypes[i].Key < g.CallTypes[j].Key })
		}
		if !okMerge {
			g.CallTypes = nil
			g.Problems = append(g.Problems, "gorumsCallTypesInfo is built by a call that is not a plain merge of map literals")
		}
	default:
		g.Problems = append(g.Problems, "gorumsCallTypesInfo literal not found")
	}
	return g
}

// isMapMerge recognises `func f(ms ...map[K]V) map[K]V { r := make(map[K]V); for _, m := range ms { for k, v := range m { r[k] = v } }; return r }`.
func isMapMerge(fd *ast.FuncDecl) bool {
	if fd == nil || fd.Body == nil || fd.Type.Params.NumFields() != 1 || len(fd.Body.List) != 3 {
		return false
	}
	def, ok1 := fd.Body.List[0].(*ast.AssignStmt)
	outer, ok2 := fd.Body.List[1].(*ast.RangeStmt)
	ret, ok3 := fd.Body.List[2].(*ast.ReturnStmt)
	if !ok1 || !ok2 || !ok3 || len(def.Lhs) != 1 || len(ret.Results) != 1 || len(outer.Body.List) != 1 {
		return false
	}
	res := types.ExprString(def.Lhs[0])
	if ce, ok := def.Rhs[0].(*ast.CallExpr); !ok || types.ExprString(ce.Fun) != "make" {
		return false
	}
	inner, ok := outer.Body.List[0].(*ast.RangeStmt)
	if !ok || outer.Value == nil || types.ExprString(inner.X) != types.ExprString(outer.Value) || len(inner.Body.List) != 1 || inner.Key == nil || inner.Value == nil {
		return false
	}
	if len(fd.Type.Params.List[0].Names) != 1 || types.ExprString(outer.X) != fd.Type.Params.List[0].Names[0].Name {
		return false
	}
	as, ok := inner.Body.List[0].(*ast.AssignStmt)
	if !ok || len(as.Lhs) != 1 || len(as.Rhs) != 1 {
		return false
	}
	ix, ok := as.Lhs[0].(*ast.IndexExpr)
	return ok && types.ExprString(ix.X) == res && types.ExprString(ix.Index) == types.ExprString(inner.Key) &&
		types.ExprString(as.Rhs[0]) == types.ExprString(inner.Value) && types.ExprString(ret.Results[0]) == res
}

func (g *Generator) parseCallTypes(cl *ast.CompositeLit) []*CallTypeEntry {
	var out []*CallTypeEntry
	for _, el := range cl.Elts {
		kv, ok := el.(*ast.KeyValueExpr)
		if !ok {
			continue
		}
		e := &CallTypeEntry{Pos: kv.Pos()}
		switch k := kv.Key.(type) {
		case *ast.BasicLit:
			e.Key, _ = unquote(k)
		case *ast.CallExpr:
			// callTypeName(gorums.E_X): the option's own name
			if len(k.Args) == 1 {
				if n, ok := g.ExtByVar[types.ExprString(k.Args[0])]; ok {
					e.Key = n
				}
			}
		}
		if e.Key == "" {
			g.Problems = append(g.Problems, "gorumsCallTypesInfo: key of unknown form "+types.ExprString(kv.Key))
			continue
		}
		val, ok := kv.Value.(*ast.CompositeLit)
		if !ok {
			g.Problems = append(g.Problems, "gorumsCallTypesInfo["+e.Key+"]: value is not a literal")
			continue
		}
		for _, f := range val.Elts {
			fkv, ok := f.(*ast.KeyValueExpr)
			if !ok {
				continue
			}
			// fields are recognised by type where the type is telling (the predicate, the nested
			// table, the extension), by name otherwise
			role := types.ExprString(fkv.Key)
			if id, isID := fkv.Key.(*ast.Ident); isID && g.Pkg.TypesInfo != nil {
				if obj := g.Pkg.TypesInfo.Uses[id]; obj != nil {
					switch t := obj.Type().Underlying().(type) {
					case *types.Signature:
						if t.Params().Len() == 1 && t.Results().Len() == 1 {
							role = "chkFn"
						}
					case *types.Map:
						role = "nestedCallType"
					case *types.Pointer:
						if strings.HasSuffix(t.Elem().String(), "ExtensionInfo") {
							role = "extInfo"
						}
					}
				}
			}
			switch role {
			case "template":
				e.Template = types.ExprString(fkv.Value)
			case "extInfo":
				e.ExtVar = types.ExprString(fkv.Value)
				e.Ext = g.ExtByVar[e.ExtVar]
			case "docName":
				if bl, ok := fkv.Value.(*ast.BasicLit); ok {
					e.DocName, _ = unquote(bl)
				}
			case "outPrefix":
				if bl, ok := fkv.Value.(*ast.BasicLit); ok {
					e.OutPrefix, _ = unquote(bl)
				}
			case "chkFn":
				var body *ast.BlockStmt
				switch v := fkv.Value.(type) {
				case *ast.FuncLit:
					body = v.Body
				case *ast.Ident:
					if fd := g.funcDecl(v.Name); fd != nil {
						body = fd.Body
					}
				}
				if body == nil {
					e.ChkErr = "chkFn is neither a function literal nor a function of the package"
					break
				}
				f, err := g.formulaOfStmts(body.List, 0)
				if err != nil {
					e.ChkErr = err.Error()
				} else {
					e.Chk = f
				}
			case "nestedCallType":
				if ncl, ok := fkv.Value.(*ast.CompositeLit); ok {
					e.Nested = g.parseCallTypes(ncl)
				}
			}
		}
		out = append(out, e)
	}
	sort.Slice(out, func(i, j int) bool { return out[i].Key < out[j].Key })
	return out
}

// ParseTemplate parses a folded template with the funcMap's names.
func (g *Generator) ParseTemplate(name string) (*parse.Tree, error) {
	text, ok := g.Strings[name]
	if !ok {
		return nil, fmt.Errorf("template variable %s is not a constant string", name)
	}
	funcs := map[string]any{}
	for k := range g.FuncMap {
		funcs[k] = true
	}
	for _, b := range []string{"and", "or", "not", "len", "index", "print", "printf", "println", "eq", "ne", "lt", "le", "gt", "ge", "call", "html", "js", "urlquery", "slice"} {
		funcs[b] = true
	}
	trees, err := parse.Parse(name, text, "{{", "}}", funcs)
	if err != nil {
		return nil, err
	}
	return trees[name], nil
}
