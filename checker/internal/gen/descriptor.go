// Package gen models gorums' generated code without running the generator:
// it decodes the protobuf descriptors embedded in committed *.pb.go files
// (from their byte-slice literals, i.e. from the AST), extracts stubs,
// handlers and wrapper types from the type-checked generated packages, folds
// the generator's template constants and parses them.
package gen

import (
	"fmt"
	"go/ast"
	"go/token"
	"sort"
	"strconv"
	"strings"

	"golang.org/x/tools/go/packages"
	"google.golang.org/protobuf/encoding/protowire"
	"google.golang.org/protobuf/proto"
	"google.golang.org/protobuf/reflect/protoreflect"
	"google.golang.org/protobuf/reflect/protoregistry"
	"google.golang.org/protobuf/types/descriptorpb"

	// well-known types that services may import
	_ "google.golang.org/protobuf/types/known/anypb"
	_ "google.golang.org/protobuf/types/known/durationpb"
	_ "google.golang.org/protobuf/types/known/emptypb"
	_ "google.golang.org/protobuf/types/known/structpb"
	_ "google.golang.org/protobuf/types/known/timestamppb"
	_ "google.golang.org/protobuf/types/known/wrapperspb"
)

// TypeRef is a Go type generated for a protobuf message.
type TypeRef struct {
	ProtoName string // full proto name
	PkgPath   string // go_package import path ("" when unknown)
	SameFile  bool   // defined in the same proto file as the service
	GoName    string
}

// Method is one rpc of a service with its gorums options.
type Method struct {
	Service         *Service
	Name            string
	GoName          string
	FullName        string // pkg.Service.Method
	In, Out         TypeRef
	ClientStreaming bool
	ServerStreaming bool
	Opts            map[string]bool // rpc, unicast, multicast, quorumcall, correctable, async, per_node_arg
	CustomReturn    string
}

// Has reports whether any of the options is set.
func (m *Method) Has(opts ...string) bool {
	for _, o := range opts {
		if m.Opts[o] {
			return true
		}
	}
	return false
}

// HasAll reports whether all of the options are set.
func (m *Method) HasAll(opts ...string) bool {
	for _, o := range opts {
		if !m.Opts[o] {
			return false
		}
	}
	return true
}

// CallTypeOptions are the options that select a gorums call type.
var CallTypeOptions = []string{"quorumcall", "async", "correctable", "multicast", "unicast"}

// Service is one service.
type Service struct {
	File     *File
	Name     string
	GoName   string
	FullName string
	Methods  []*Method
}

// File is one decoded .proto file with the Go package that holds its code.
type File struct {
	ProtoName string
	Package   string
	GoPackage string // go_package import path
	Desc      *descriptorpb.FileDescriptorProto
	Services  []*Service
	Messages  []string // top-level message names
	Pkg       *packages.Package
	PbGo      *ast.File
}

// Extensions maps extension numbers on MethodOptions to their names, decoded
// from the repository's own gorums.pb.go.
type Extensions struct {
	ByNumber map[int32]string
	IsString map[int32]bool
}

// rawDescBytes finds `var file_*_rawDesc = []byte{...}` in f and returns its bytes.
func rawDescBytes(f *ast.File) ([]byte, string, bool) {
	for _, d := range f.Decls {
		gd, ok := d.(*ast.GenDecl)
		if !ok || gd.Tok != token.VAR {
			continue
		}
		for _, sp := range gd.Specs {
			vs := sp.(*ast.ValueSpec)
			for i, n := range vs.Names {
				if !strings.HasPrefix(n.Name, "file_") || !strings.HasSuffix(n.Name, "_rawDesc") || i >= len(vs.Values) {
					continue
				}
				switch v := vs.Values[i].(type) {
				case *ast.CompositeLit:
					out := make([]byte, 0, len(v.Elts))
					for _, e := range v.Elts {
						bl, ok := e.(*ast.BasicLit)
						if !ok {
							return nil, n.Name, false
						}
						switch bl.Kind {
						case token.INT:
							x, err := strconv.ParseUint(bl.Value, 0, 8)
							if err != nil {
								return nil, n.Name, false
							}
							out = append(out, byte(x))
						case token.CHAR:
							r, _, _, err := strconv.UnquoteChar(strings.Trim(bl.Value, "'"), '\'')
							if err != nil {
								return nil, n.Name, false
							}
							out = append(out, byte(r))
						default:
							return nil, n.Name, false
						}
					}
					return out, n.Name, true
				case *ast.BasicLit:
					if v.Kind == token.STRING {
						s, err := strconv.Unquote(v.Value)
						if err != nil {
							return nil, n.Name, false
						}
						return []byte(s), n.Name, true
					}
				}
			}
		}
	}
	return nil, "", false
}

// DecodeAll decodes every embedded descriptor of the loaded packages.
func DecodeAll(pkgs []*packages.Package) (map[string]*File, []string) {
	files := map[string]*File{}
	var problems []string
	for _, pk := range pkgs {
		for _, f := range pk.Syntax {
			b, name, ok := rawDescBytes(f)
			if name == "" {
				continue
			}
			if !ok {
				problems = append(problems, pk.PkgPath+": "+name+" is not a constant byte/string literal")
				continue
			}
			fd := &descriptorpb.FileDescriptorProto{}
			if err := (proto.UnmarshalOptions{AllowPartial: true}).Unmarshal(b, fd); err != nil {
				problems = append(problems, pk.PkgPath+": "+name+": "+err.Error())
				continue
			}
			gp := fd.GetOptions().GetGoPackage()
			if i := strings.Index(gp, ";"); i >= 0 {
				gp = gp[:i]
			}
			file := &File{ProtoName: fd.GetName(), Package: fd.GetPackage(), GoPackage: gp, Desc: fd, Pkg: pk, PbGo: f}
			for _, m := range fd.MessageType {
				file.Messages = append(file.Messages, m.GetName())
			}
			// key by package path + proto name: several test packages use the same proto file name
			files[pk.PkgPath+"|"+fd.GetName()] = file
		}
	}
	return files, problems
}

// LoadExtensions decodes the method-option extensions declared by a file.
func LoadExtensions(f *File, into *Extensions, prefix string) {
	if into.ByNumber == nil {
		into.ByNumber = map[int32]string{}
		into.IsString = map[int32]bool{}
	}
	for _, e := range f.Desc.Extension {
		if e.GetExtendee() != ".google.protobuf.MethodOptions" {
			continue
		}
		into.ByNumber[e.GetNumber()] = prefix + e.GetName()
		into.IsString[e.GetNumber()] = e.GetType() == descriptorpb.FieldDescriptorProto_TYPE_STRING
	}
}

// GoCamelCase mirrors protobuf's internal/strs.GoCamelCase.
func GoCamelCase(s string) string {
	isLower := func(c byte) bool { return 'a' <= c && c <= 'z' }
	isDigit := func(c byte) bool { return '0' <= c && c <= '9' }
	var b []byte
	for i := 0; i < len(s); i++ {
		c := s[i]
		switch {
		case c == '.' && i+1 < len(s) && isLower(s[i+1]):
		case c == '.':
			b = append(b, '_')
		case c == '_' && (i == 0 || s[i-1] == '.'):
			b = append(b, 'X')
		case c == '_' && i+1 < len(s) && isLower(s[i+1]):
		case isDigit(c):
			b = append(b, c)
		default:
			if isLower(c) {
				c -= 'a' - 'A'
			}
			b = append(b, c)
			for ; i+1 < len(s) && isLower(s[i+1]); i++ {
				b = append(b, s[i+1])
			}
		}
	}
	return string(b)
}

// resolveMessage maps a full message name (".pkg.Msg") to a Go type.
func resolveMessage(all map[string]*File, self *File, full string) TypeRef {
	full = strings.TrimPrefix(full, ".")
	tr := TypeRef{ProtoName: full}
	find := func(f *descriptorpb.FileDescriptorProto) (string, bool) {
		pkg := f.GetPackage()
		rest := full
		if pkg != "" {
			if !strings.HasPrefix(full, pkg+".") {
				return "", false
			}
			rest = strings.TrimPrefix(full, pkg+".")
		}
		parts := strings.Split(rest, ".")
		msgs := f.MessageType
		for i, p := range parts {
			var next *descriptorpb.DescriptorProto
			for _, m := range msgs {
				if m.GetName() == p {
					next = m
				}
			}
			if next == nil {
				return "", false
			}
			if i == len(parts)-1 {
				return GoCamelCase(rest), true
			}
			msgs = next.NestedType
		}
		return "", false
	}
	if gn, ok := find(self.Desc); ok {
		tr.SameFile, tr.GoName, tr.PkgPath = true, gn, self.Pkg.PkgPath
		return tr
	}
	// dependencies declared by the file, decoded from the repository
	for _, dep := range self.Desc.Dependency {
		for _, f := range all {
			if f.ProtoName != dep {
				continue
			}
			if gn, ok := find(f.Desc); ok {
				tr.GoName, tr.PkgPath = gn, f.Pkg.PkgPath
				return tr
			}
		}
	}
	// well-known types linked into the checker
	if d, err := protoregistry.GlobalFiles.FindDescriptorByName(protoreflect.FullName(full)); err == nil {
		if md, ok := d.(protoreflect.MessageDescriptor); ok {
			fdp := md.ParentFile()
			opts, _ := fdp.Options().(*descriptorpb.FileOptions)
			gp := opts.GetGoPackage()
			if i := strings.Index(gp, ";"); i >= 0 {
				gp = gp[:i]
			}
			rest := strings.TrimPrefix(full, string(fdp.Package())+".")
			tr.GoName, tr.PkgPath = GoCamelCase(rest), gp
			return tr
		}
	}
	return tr
}

// BuildServices fills in the services of a file.
func BuildServices(all map[string]*File, f *File, ext *Extensions) []string {
	var problems []string
	for _, sd := range f.Desc.Service {
		s := &Service{File: f, Name: sd.GetName(), GoName: GoCamelCase(sd.GetName())}
		s.FullName = sd.GetName()
		if f.Package != "" {
			s.FullName = f.Package + "." + sd.GetName()
		}
		for _, md := range sd.Method {
			m := &Method{Service: s, Name: md.GetName(), GoName: GoCamelCase(md.GetName()), Opts: map[string]bool{},
				ClientStreaming: md.GetClientStreaming(), ServerStreaming: md.GetServerStreaming()}
			m.FullName = s.FullName + "." + md.GetName()
			m.In = resolveMessage(all, f, md.GetInputType())
			m.Out = resolveMessage(all, f, md.GetOutputType())
			if m.In.GoName == "" || m.Out.GoName == "" {
				problems = append(problems, fmt.Sprintf("%s: cannot resolve message types %s / %s", m.FullName, md.GetInputType(), md.GetOutputType()))
			}
			if md.Options != nil {
				b := md.Options.ProtoReflect().GetUnknown()
				for len(b) > 0 {
					num, typ, n := protowire.ConsumeTag(b)
					if n < 0 {
						problems = append(problems, m.FullName+": malformed method options")
						break
					}
					b = b[n:]
					name, known := ext.ByNumber[int32(num)]
					switch typ {
					case protowire.VarintType:
						v, n := protowire.ConsumeVarint(b)
						if n < 0 {
							b = nil
							break
						}
						b = b[n:]
						if known && v != 0 {
							m.Opts[name] = true
						}
						if known && v == 0 {
							// explicitly false: proto.HasExtension still reports it as present
							m.Opts[name] = true
						}
					case protowire.BytesType:
						v, n := protowire.ConsumeBytes(b)
						if n < 0 {
							b = nil
							break
						}
						b = b[n:]
						if known && ext.IsString[int32(num)] {
							if name == "custom_return_type" {
								m.CustomReturn = string(v)
							}
							m.Opts[name] = true
						}
					default:
						n := protowire.ConsumeFieldValue(num, typ, b)
						if n < 0 {
							b = nil
							break
						}
						b = b[n:]
					}
				}
			}
			s.Methods = append(s.Methods, m)
		}
		f.Services = append(f.Services, s)
	}
	return problems
}

// SortedFiles returns files in a deterministic order.
func SortedFiles(m map[string]*File) []*File {
	var keys []string
	for k := range m {
		keys = append(keys, k)
	}
	sort.Strings(keys)
	var out []*File
	for _, k := range keys {
		out = append(out, m[k])
	}
	return out
}
