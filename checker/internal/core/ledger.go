package core

import (
	"encoding/json"
	"fmt"
	"go/token"
	"os"
	"path/filepath"
	"sort"
	"strings"
	"time"
)

// Status of one obligation.
type Status string

const (
	Discharged Status = "discharged"
	Violated   Status = "violated"
	Undecided  Status = "undecided"
)

// Obligation is one instance of one rule.
type Obligation struct {
	Rule      string `json:"rule"`      // e.g. C02-T5
	Construct string `json:"construct"` // stable key, never a line number
	Site      string `json:"site"`      // file:line:col (report only)
	Status    Status `json:"status"`
	Detail    string `json:"detail,omitempty"`
	Known     bool   `json:"known_finding,omitempty"`
}

// Ledger collects the obligations of one property run.
type Ledger struct {
	Prog     *Program
	Property string
	Tier     string
	Obs      []Obligation
	Floors   map[string][2]int // rule -> {found, floor}
	Rules    map[string]string // rule id -> rule text
	Notes    []string
	Extra    map[string]any
	// Remap, when set, renames or drops obligations as they are recorded; it
	// lets one property re-use the rule bodies of another under its own ids.
	Remap func(rule string) (string, bool)
}

// NewLedger creates a ledger.
func NewLedger(p *Program, prop, tier string) *Ledger {
	return &Ledger{Prog: p, Property: prop, Tier: tier, Floors: map[string][2]int{}, Rules: map[string]string{}, Extra: map[string]any{}}
}

// Rule registers the text of a rule (shown in the evidence).
func (l *Ledger) Rule(id, text string) {
	if l.Remap != nil {
		return
	}
	l.Rules[id] = text
}

// With runs f with a temporary remapping of rule ids.
func (l *Ledger) With(remap map[string]string, f func()) {
	old := l.Remap
	l.Remap = func(rule string) (string, bool) {
		nr, ok := remap[rule]
		return nr, ok
	}
	defer func() { l.Remap = old }()
	f()
}

func (l *Ledger) add(rule, construct string, pos token.Pos, st Status, detail string) {
	if l.Remap != nil {
		nr, keep := l.Remap(rule)
		if !keep {
			return
		}
		rule = nr
	}
	site := "-"
	if l.Prog != nil {
		site = l.Prog.Pos(pos)
	}
	l.Obs = append(l.Obs, Obligation{Rule: rule, Construct: construct, Site: site, Status: st, Detail: detail})
}

// OK records a discharged obligation.
func (l *Ledger) OK(rule, construct string, pos token.Pos, detail string) {
	l.add(rule, construct, pos, Discharged, detail)
}

// Bad records a violated obligation.
func (l *Ledger) Bad(rule, construct string, pos token.Pos, detail string) {
	l.add(rule, construct, pos, Violated, detail)
}

// Unknown records an undecided obligation.
func (l *Ledger) Unknown(rule, construct string, pos token.Pos, detail string) {
	l.add(rule, construct, pos, Undecided, detail)
}

// Check records OK or Bad depending on cond.
func (l *Ledger) Check(cond bool, rule, construct string, pos token.Pos, okDetail, badDetail string) bool {
	if cond {
		l.OK(rule, construct, pos, okDetail)
	} else {
		l.Bad(rule, construct, pos, badDetail)
	}
	return cond
}

// Floor asserts that a rule found at least floor instances of its subject;
// fewer is undecided (the subject is missing), never vacuously green.
func (l *Ledger) Floor(rule string, found, floor int, what string) bool {
	if l.Remap != nil {
		if nr, keep := l.Remap(rule); keep {
			rule = nr
		} else if found >= floor {
			return true
		}
	}
	l.Floors[rule+" "+what] = [2]int{found, floor}
	if found < floor {
		l.add(rule, "floor/"+what, token.NoPos, Undecided, fmt.Sprintf("found %d %s, expected at least %d (confirmed by hand on the pinned tree)", found, what, floor))
		return false
	}
	return true
}

// Note adds a free-text note to the evidence.
func (l *Ledger) Note(format string, a ...any) { l.Notes = append(l.Notes, fmt.Sprintf(format, a...)) }

// ---------------------------------------------------------------------------
// known findings

// Finding is one entry of known_findings.json.
type Finding struct {
	Property  string `json:"property"`
	Rule      string `json:"rule"`
	Construct string `json:"construct"`
	Status    string `json:"status"` // "known" or "fixed"
	Commit    string `json:"commit,omitempty"`
	What      string `json:"what"`
}

// LoadFindings reads the committed known-findings file (read-only).
func LoadFindings(path string) ([]Finding, error) {
	b, err := os.ReadFile(path)
	if err != nil {
		if os.IsNotExist(err) {
			return nil, nil
		}
		return nil, err
	}
	var doc struct {
		Findings []Finding `json:"findings"`
	}
	if err := json.Unmarshal(b, &doc); err != nil {
		return nil, fmt.Errorf("%s: %w", path, err)
	}
	return doc.Findings, nil
}

// ---------------------------------------------------------------------------
// finishing a run

// Result summarises a finished run.
type Result struct {
	Violations int
	Undecided  int
	Known      int
	ExitCode   int
}

// Finish matches violations against the known findings, prints the verdict
// lines, writes evidence and replay files, and returns the exit code.
func (l *Ledger) Finish(verifDir string, findings []Finding, start time.Time, seed int64, meta PropertyMeta) Result {
	var res Result
	known := map[string]Finding{}
	for _, f := range findings {
		if f.Property == l.Property && f.Status == "known" {
			known[f.Rule+"\x00"+f.Construct] = f
		}
	}
	sort.SliceStable(l.Obs, func(i, j int) bool {
		if l.Obs[i].Rule != l.Obs[j].Rule {
			return l.Obs[i].Rule < l.Obs[j].Rule
		}
		return l.Obs[i].Construct < l.Obs[j].Construct
	})
	replayDir := filepath.Join(verifDir, "evidence", "replay")
	_ = os.MkdirAll(replayDir, 0o755)
	// remove stale replay files of this property
	if old, _ := filepath.Glob(filepath.Join(replayDir, l.Property+"-*.json")); len(old) > 0 {
		for _, f := range old {
			_ = os.Remove(f)
		}
	}
	printedKnown := map[string]bool{}
	nrep := 0
	for i := range l.Obs {
		o := &l.Obs[i]
		switch o.Status {
		case Violated:
			if f, ok := known[o.Rule+"\x00"+o.Construct]; ok {
				o.Known = true
				res.Known++
				k := o.Rule + "\x00" + o.Construct
				if !printedKnown[k] {
					printedKnown[k] = true
					fmt.Printf("KNOWN-FINDING: property=%s rule=%s construct=%s site=%s %s\n", l.Property, o.Rule, o.Construct, o.Site, f.What)
				}
				continue
			}
			res.Violations++
			nrep++
			rp := filepath.Join(replayDir, fmt.Sprintf("%s-%d.json", l.Property, nrep))
			rb, _ := json.MarshalIndent(map[string]any{
				"property": l.Property, "rule": o.Rule, "rule_text": l.Rules[o.Rule], "construct": o.Construct,
				"site": o.Site, "detail": o.Detail,
				"replay": fmt.Sprintf("./check.sh %s quick   # re-derives this obligation on the current tree", l.Property),
			}, "", " ")
			_ = os.WriteFile(rp, append(rb, '\n'), 0o644)
			fmt.Printf("VIOLATION property=%s replay=%s\n", l.Property, rp)
			fmt.Printf("  rule=%s construct=%s site=%s\n  %s\n", o.Rule, o.Construct, o.Site, o.Detail)
		case Undecided:
			res.Undecided++
			fmt.Printf("UNDECIDED property=%s rule=%s construct=%s site=%s\n  %s\n", l.Property, o.Rule, o.Construct, o.Site, o.Detail)
		}
	}
	switch {
	case res.Violations > 0:
		res.ExitCode = 1
	case res.Undecided > 0:
		res.ExitCode = 2
	}
	l.writeEvidence(verifDir, start, seed, res, meta)
	disc := 0
	for _, o := range l.Obs {
		if o.Status == Discharged {
			disc++
		}
	}
	fmt.Printf("%s %s: %d obligations, %d discharged, %d violated (%d known findings), %d undecided; exit %d\n",
		l.Property, l.Tier, len(l.Obs), disc, res.Violations+res.Known, res.Known, res.Undecided, res.ExitCode)
	return res
}

// PropertyMeta is the static description of a property's check.
type PropertyMeta struct {
	Explanation string
	NotDecided  string
	Trusted     []string
	CheckerCmd  string
}

func (l *Ledger) writeEvidence(verifDir string, start time.Time, seed int64, res Result, meta PropertyMeta) {
	disc := 0
	distinct := map[string]bool{}
	byRule := map[string]map[string]int{}
	for _, o := range l.Obs {
		if o.Status == Discharged {
			disc++
		}
		if !strings.HasPrefix(o.Construct, "floor/") {
			distinct[o.Rule+"\x00"+o.Construct] = true
		}
		if byRule[o.Rule] == nil {
			byRule[o.Rule] = map[string]int{}
		}
		byRule[o.Rule][string(o.Status)]++
	}
	// samples: every non-discharged obligation plus up to 3 discharged per rule
	var samples []Obligation
	perRule := map[string]int{}
	for _, o := range l.Obs {
		if o.Status != Discharged {
			samples = append(samples, o)
			continue
		}
		if perRule[o.Rule] < 3 {
			perRule[o.Rule]++
			samples = append(samples, o)
		}
	}
	floors := map[string]map[string]int{}
	for k, v := range l.Floors {
		floors[k] = map[string]int{"found": v[0], "floor": v[1]}
	}
	cov := map[string]any{
		"explanation":         meta.Explanation,
		"not_decided":         meta.NotDecided,
		"rules":               l.Rules,
		"obligations":         len(l.Obs),
		"discharged":          disc,
		"known_findings":      res.Known,
		"undecided":           res.Undecided,
		"evaluations":         len(l.Obs),
		"distinct_nontrivial": len(distinct),
		"rule":                "one obligation per (rule, construct) instance enumerated from the type-checked source of /repo on this run; distinct = distinct rule/construct keys, non-trivial = the construct was found in the tree (floor bookkeeping entries excluded)",
		"per_rule":            byRule,
		"samples":             samples,
		"all_obligations":     l.Obs,
		"checker_cmd":         meta.CheckerCmd,
		"trusted_base":        meta.Trusted,
		"exhaustive":          res.Undecided == 0,
		"instance_floors":     floors,
		"notes":               l.Notes,
	}
	if l.Prog != nil {
		cov["packages_loaded"] = len(l.Prog.Pkgs)
		cov["files_parsed"] = l.Prog.FileCount
		cov["functions_declared"] = l.Prog.FuncCount
	}
	for k, v := range l.Extra {
		cov[k] = v
	}
	ev := map[string]any{
		"property_id": l.Property,
		"tier":        l.Tier,
		"seed":        seed,
		"level":       "other",
		"coverage":    cov,
		"assumptions": meta.Trusted,
		"wall_s":      time.Since(start).Seconds(),
		"violations":  res.Violations,
	}
	b, _ := json.MarshalIndent(ev, "", " ")
	dir := filepath.Join(verifDir, "evidence")
	_ = os.MkdirAll(dir, 0o755)
	if err := os.WriteFile(filepath.Join(dir, l.Property+".json"), append(b, '\n'), 0o644); err != nil {
		fmt.Fprintf(os.Stderr, "cannot write evidence: %v\n", err)
	}
}
