// Package core holds the loader, the obligation ledger and the evidence
// writer shared by all rules.
package core

import (
	"fmt"
	"go/ast"
	"go/token"
	"go/types"
	"os"
	"path/filepath"
	"sort"
	"strings"

	"golang.org/x/tools/go/packages"
	"golang.org/x/tools/go/ssa"
	"golang.org/x/tools/go/ssa/ssautil"
)

// RootModule is the import path of the repository under analysis.
const RootModule = "github.com/relab/gorums"

// Program is the type-checked view of /repo that every rule works on.
type Program struct {
	RepoDir string
	Fset    *token.FileSet
	Pkgs    []*packages.Package // packages of the root module, sorted by path
	ByPath  map[string]*packages.Package
	Tests   bool
	Overlay map[string][]byte

	ssaProg *ssa.Program
	ssaPkgs map[*types.Package]*ssa.Package

	// FileCount / FuncCount are reported in the evidence.
	FileCount int
	FuncCount int
}

// LoadConfig controls Load.
type LoadConfig struct {
	RepoDir  string
	Tests    bool
	Overlay  map[string][]byte
	Patterns []string // default ./...
	Dir      string   // default RepoDir
	// Extra loads further module roots inside the repository (separate Go
	// modules such as examples/) into the same program.
	Extra []ExtraLoad
}

// ExtraLoad is one additional packages.Load call.
type ExtraLoad struct {
	Dir      string
	Patterns []string
}

func env() []string {
	e := os.Environ()
	out := e[:0:0]
	for _, kv := range e {
		if strings.HasPrefix(kv, "GOWORK=") || strings.HasPrefix(kv, "GOFLAGS=") ||
			strings.HasPrefix(kv, "GOPROXY=") || strings.HasPrefix(kv, "GOSUMDB=") ||
			strings.HasPrefix(kv, "GOTOOLCHAIN=") {
			continue
		}
		out = append(out, kv)
	}
	return append(out, "GOWORK=off", "GOFLAGS=-mod=mod", "GOPROXY=off", "GOSUMDB=off", "GOTOOLCHAIN=local")
}

// Load parses and type-checks the repository's own packages from source
// (dependencies come from export data).
func Load(lc LoadConfig) (*Program, error) {
	if lc.Dir == "" {
		lc.Dir = lc.RepoDir
	}
	if len(lc.Patterns) == 0 {
		lc.Patterns = []string{"./..."}
	}
	fset := token.NewFileSet()
	cfg := &packages.Config{
		Mode: packages.NeedName | packages.NeedFiles | packages.NeedCompiledGoFiles |
			packages.NeedImports | packages.NeedTypes | packages.NeedSyntax |
			packages.NeedTypesInfo | packages.NeedTypesSizes | packages.NeedModule,
		Dir:     lc.Dir,
		Fset:    fset,
		Tests:   lc.Tests,
		Env:     env(),
		Overlay: lc.Overlay,
	}
	pkgs, err := packages.Load(cfg, lc.Patterns...)
	if err != nil {
		return nil, fmt.Errorf("packages.Load: %w", err)
	}
	for _, x := range lc.Extra {
		c2 := *cfg
		c2.Dir = x.Dir
		more, err := packages.Load(&c2, x.Patterns...)
		if err != nil {
			return nil, fmt.Errorf("packages.Load(%s): %w", x.Dir, err)
		}
		if len(more) == 0 {
			return nil, fmt.Errorf("no packages loaded from %s", x.Dir)
		}
		pkgs = append(pkgs, more...)
	}
	var errs []string
	for _, p := range pkgs {
		for _, e := range p.Errors {
			errs = append(errs, p.PkgPath+": "+e.Error())
		}
	}
	if len(errs) > 0 {
		sort.Strings(errs)
		if len(errs) > 12 {
			errs = errs[:12]
		}
		return nil, fmt.Errorf("type-check/load errors:\n  %s", strings.Join(errs, "\n  "))
	}
	if len(pkgs) == 0 {
		return nil, fmt.Errorf("no packages loaded from %s", lc.Dir)
	}
	sort.Slice(pkgs, func(i, j int) bool { return pkgs[i].ID < pkgs[j].ID })
	p := &Program{RepoDir: lc.RepoDir, Fset: fset, Pkgs: pkgs, ByPath: map[string]*packages.Package{}, Tests: lc.Tests, Overlay: lc.Overlay}
	for _, pk := range pkgs {
		// with Tests=true the test variant "p [p.test]" supersedes plain p.
		if old, ok := p.ByPath[pk.PkgPath]; !ok || len(pk.Syntax) > len(old.Syntax) {
			if !strings.HasSuffix(pk.PkgPath, ".test") {
				p.ByPath[pk.PkgPath] = pk
			}
		}
		p.FileCount += len(pk.Syntax)
		for _, f := range pk.Syntax {
			for _, d := range f.Decls {
				if _, ok := d.(*ast.FuncDecl); ok {
					p.FuncCount++
				}
			}
		}
	}
	return p, nil
}

// Pkg returns the package with the given path relative to the root module
// ("" is the runtime package itself).
func (p *Program) Pkg(rel string) *packages.Package {
	path := RootModule
	if rel != "" {
		path += "/" + rel
	}
	return p.ByPath[path]
}

// BuildSSA builds SSA form for all loaded packages (once).
func (p *Program) BuildSSA() {
	if p.ssaProg != nil {
		return
	}
	prog, pkgs := ssautil.Packages(p.Pkgs, ssa.InstantiateGenerics)
	p.ssaProg = prog
	p.ssaPkgs = map[*types.Package]*ssa.Package{}
	for i, sp := range pkgs {
		if sp != nil {
			sp.Build()
			p.ssaPkgs[p.Pkgs[i].Types] = sp
		}
	}
}

// SSAPkg returns the SSA package for a loaded package.
func (p *Program) SSAPkg(pk *packages.Package) *ssa.Package {
	p.BuildSSA()
	return p.ssaPkgs[pk.Types]
}

// SSAProg returns the SSA program.
func (p *Program) SSAProg() *ssa.Program { p.BuildSSA(); return p.ssaProg }

// Pos renders a position relative to the repository root.
func (p *Program) Pos(pos token.Pos) string {
	if !pos.IsValid() {
		return "-"
	}
	ps := p.Fset.Position(pos)
	rel, err := filepath.Rel(p.RepoDir, ps.Filename)
	if err != nil || strings.HasPrefix(rel, "..") {
		rel = ps.Filename
	}
	return fmt.Sprintf("%s:%d:%d", rel, ps.Line, ps.Column)
}

// RelFile renders the file name of pos relative to the repository root.
func (p *Program) RelFile(pos token.Pos) string {
	ps := p.Fset.Position(pos)
	rel, err := filepath.Rel(p.RepoDir, ps.Filename)
	if err != nil {
		return ps.Filename
	}
	return rel
}

// FuncDecl finds a function or method declaration: recv is the bare receiver
// type name ("" for functions).
func FuncDecl(pk *packages.Package, recv, name string) *ast.FuncDecl {
	for _, f := range pk.Syntax {
		for _, d := range f.Decls {
			fd, ok := d.(*ast.FuncDecl)
			if !ok || fd.Name.Name != name {
				continue
			}
			if RecvName(fd) == recv {
				return fd
			}
		}
	}
	return nil
}

// RecvName returns the bare receiver type name of fd, or "".
func RecvName(fd *ast.FuncDecl) string {
	if fd.Recv == nil || len(fd.Recv.List) == 0 {
		return ""
	}
	t := fd.Recv.List[0].Type
	for {
		switch x := t.(type) {
		case *ast.StarExpr:
			t = x.X
		case *ast.ParenExpr:
			t = x.X
		case *ast.IndexExpr:
			t = x.X
		case *ast.Ident:
			return x.Name
		default:
			return ""
		}
	}
}

// FuncKey is a stable, human-readable name for a declaration:
// pkgrel.(Recv).Name.
func (p *Program) FuncKey(pk *packages.Package, fd *ast.FuncDecl) string {
	rel := strings.TrimPrefix(strings.TrimPrefix(pk.PkgPath, RootModule), "/")
	if rel == "" {
		rel = "gorums"
	}
	if r := RecvName(fd); r != "" {
		return rel + ".(" + r + ")." + fd.Name.Name
	}
	return rel + "." + fd.Name.Name
}

// IsGenerated reports whether the file carries the standard generated marker.
func IsGenerated(f *ast.File) bool {
	for _, cg := range f.Comments {
		if cg.Pos() > f.Package {
			break
		}
		for _, c := range cg.List {
			if strings.HasPrefix(c.Text, "// Code generated ") && strings.HasSuffix(c.Text, " DO NOT EDIT.") {
				return true
			}
		}
	}
	return false
}

// ReadFile returns the content of a source file as the analysis sees it
// (overlay first, then disk).
func (p *Program) ReadFile(name string) ([]byte, error) {
	if b, ok := p.Overlay[name]; ok {
		return b, nil
	}
	return os.ReadFile(name)
}
